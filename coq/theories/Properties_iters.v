(* Exported theorems of component `iters` (ID iterators, block routing).  Statements in full;
   proofs are one `exact`.  Compile: coqc -Q theories LibCSD <this file> from /verif/coq. *)
From LibCSD Require Import Base Spec SpecProofs IterDefs IterProofs.
Local Open Scope N_scope.

(* ---------------------------------------------------------------------------------------- *)
(* C13: ID iterators                                                                         *)
(* ---------------------------------------------------------------------------------------- *)

(* iter_denotes it st L :=  forall fuel, exists st', drain_iter it fuel st = Some (firstn fuel L, st')
                                          /\ it_has_next it st' = (fuel <? length L)
   i.e. no out-of-bounds read, the stream is exactly L, hasNext is true before and false after the last. *)

Theorem C13_contig_iter_spec : forall l r, l < sz64 -> r < sz64 ->
  iter_denotes contig_iter (contig_init l r)
    (if (1 <=? l) && (l <=? r) then seq_from l (N.to_nat (r + 1 - l)) else []).
Proof. exact contig_iter_spec. Qed.
Print Assumptions C13_contig_iter_spec.

Theorem C13_contig_iter_noresult : iter_denotes contig_iter (contig_init 0 0) [].
Proof. exact contig_iter_noresult. Qed.
Print Assumptions C13_contig_iter_noresult.

Theorem C13_contig_each_once : forall l r, NoDup (contig_list l r) /\
  forall x, In x (contig_list l r) <-> 1 <= l /\ l <= x <= r.
Proof. intros l r. split; [exact (contig_list_NoDup l r)|exact (contig_list_In l r)]. Qed.
Print Assumptions C13_contig_each_once.

Theorem C13_nocontig_iter_spec : forall ids junk, lenN (ids ++ junk) < sz64 ->
  arr_run nocontig_iter (arr_init (ids ++ junk) (lenN ids)) ids (lenN ids).
Proof. exact nocontig_iter_spec. Qed.
Print Assumptions C13_nocontig_iter_spec.

Theorem C13_dup_iter_spec : forall ids junk, Forall (fun i => 1 <= i) ids -> lenN (ids ++ 0 :: junk) < sz64 ->
  iter_denotes dup_iter (arr_init (ids ++ 0 :: junk) (lenN ids)) (dedup_adj ids).
Proof. exact dup_iter_spec. Qed.
Print Assumptions C13_dup_iter_spec.

Theorem C13_dup_iter_sorted : forall ids, nondecreasing ids ->
  ascending_from 0 (dedup_adj ids) /\ NoDup (dedup_adj ids) /\ (forall x, In x (dedup_adj ids) <-> In x ids).
Proof. exact dup_iter_sorted. Qed.
Print Assumptions C13_dup_iter_sorted.

Theorem C13_dup_iter_no_oob : forall ids, Forall (fun i => 1 <= i) ids -> lenN ids + 1 < sz64 ->
  forall fuel, exists out st',
    drain_iter dup_iter fuel (arr_init (dup_array ids) (lenN ids)) = Some (out, st') /\
    Forall (fun i => i <= lenN ids) (a_log st') /\
    (ids <> [] -> (length (dedup_adj ids) <= fuel)%nat ->
       max_read (a_log st') = Some (lenN ids) /\ hd_error (a_log st') = Some (lenN ids)).
Proof. exact dup_iter_no_oob. Qed.
Print Assumptions C13_dup_iter_no_oob.

(* the two hypotheses are necessary (negative controls, replayed on the real code under ASan) *)
Theorem C13_dup_iter_zero_id_oob : drain_iter dup_iter 1 (arr_init (dup_array [0]) 1) = None.
Proof. exact dup_iter_zero_id_oob. Qed.
Print Assumptions C13_dup_iter_zero_id_oob.

Theorem C13_dup_iter_needs_sentinel : drain_iter dup_iter 1 (arr_init [5] 1) = None.
Proof. exact dup_iter_needs_sentinel. Qed.
Print Assumptions C13_dup_iter_needs_sentinel.

Example ex_contig : option_map fst (run_iter contig_iter 10 (contig_init 3 6)) = Some ([3; 4; 5; 6], false).
Proof. vm_compute. reflexivity. Qed.
Example ex_contig_capped :
  option_map fst (run_iter contig_iter 2 (contig_init 18446744073709551613 18446744073709551615))
  = Some ([18446744073709551613; 18446744073709551614], true).
Proof. vm_compute. reflexivity. Qed.
Example ex_dup_hyps : Forall (fun i => 1 <= i) [2; 2; 5; 7; 7; 7] /\ nondecreasing [2; 2; 5; 7; 7; 7].
Proof. split; [repeat constructor; lia|apply nondecreasing_b_sound; reflexivity]. Qed.
Example ex_dup : option_map (fun r => (fst (fst r), snd (fst r), max_read (a_log (snd r))))
                   (run_iter dup_iter 9 (arr_init (dup_array [2; 2; 5; 7; 7; 7]) 6))
                 = Some ([2; 5; 7], false, Some 6).
Proof. vm_compute. reflexivity. Qed.
Example ex_nocontig : option_map fst (run_iter nocontig_iter 9 (arr_init [9; 4; 6] 3)) = Some ([9; 4; 6], false).
Proof. vm_compute. reflexivity. Qed.

(* ---------------------------------------------------------------------------------------- *)
(* C01 / C13: block routing of StringDictionaryHASHRPDACBlocks                               *)
(* ---------------------------------------------------------------------------------------- *)

(* binary_search_before_index on a strictly ascending non-empty vector: index of the last element
   <= target, 0 if there is none (last_le v t = number of leading elements <= t, minus 1, floored at 0) *)
Theorem C01_bsbi_last_le : forall (A : Type) (cmp : A -> A -> comparison),
  (forall a b : A, cmp a b = Eq -> a = b) -> (forall a b : A, cmp b a = CompOpp (cmp a b)) ->
  forall (v : list A) (t : A), v <> [] -> ssorted cmp v -> lenN v < sz64 ->
  bsbi cmp v t = Some (last_le cmp v t).
Proof. exact @bsbi_last_le. Qed.
Print Assumptions C01_bsbi_last_le.

(* part_ok ploc pext blk cont p := blk p <> [] /\ (forall q, In q (cont p) <-> In q (blk p)) /\
     lenN (cont p) = lenN (blk p) /\ (forall q, ploc p q = spec_locate (cont p) q) /\
     (forall i, pext p i = spec_extract (cont p) i)
   bdict_of blk parts := the object the constructor leaves: qty = total, samples = first string of every
     block, starting indexes = running totals;   ids_view cont parts := concat (map cont parts) *)

Theorem C01_bsbi_samples_spec : forall (P : Type) (ploc : P -> str -> N) (pext : P -> N -> option str)
    (blk cont : P -> list str) (parts : list P),
  Forall (part_ok ploc pext blk cont) parts -> parts <> [] ->
  sorted_lt (concat (map blk parts)) -> lenN (concat (map blk parts)) < sz64 ->
  forall q : str,
  let j := last_le lex_compare (block_firsts (map blk parts)) q in
  bsbi lex_compare (bd_samples (bdict_of blk parts)) q = Some j /\ j < lenN parts /\
  (forall (pre : list P) (p : P) (post : list P), parts = pre ++ p :: post -> In q (blk p) -> lenN pre = j).
Proof. exact @bsbi_samples_spec. Qed.
Print Assumptions C01_bsbi_samples_spec.

Theorem C01_blocks_locate_spec : forall (P : Type) (ploc : P -> str -> N) (pext : P -> N -> option str)
    (blk cont : P -> list str) (parts : list P),
  Forall (part_ok ploc pext blk cont) parts -> parts <> [] ->
  sorted_lt (concat (map blk parts)) -> lenN (concat (map blk parts)) < sz64 ->
  forall q : str, blocks_locate ploc (bdict_of blk parts) q = Some (spec_locate (ids_view cont parts) q).
Proof. exact @blocks_locate_spec. Qed.
Print Assumptions C01_blocks_locate_spec.

Theorem C01_blocks_extract_spec : forall (P : Type) (ploc : P -> str -> N) (pext : P -> N -> option str)
    (blk cont : P -> list str) (parts : list P),
  Forall (part_ok ploc pext blk cont) parts -> parts <> [] ->
  sorted_lt (concat (map blk parts)) -> lenN (concat (map blk parts)) < sz64 ->
  forall id : N, id < sz64 ->
  blocks_extract pext (bdict_of blk parts) id = Some (spec_extract (ids_view cont parts) id).
Proof. exact @blocks_extract_spec. Qed.
Print Assumptions C01_blocks_extract_spec.

Theorem C13_blocks_table_spec : forall (P : Type) (ploc : P -> str -> N) (pext : P -> N -> option str)
    (blk cont : P -> list str) (parts : list P),
  Forall (part_ok ploc pext blk cont) parts -> parts <> [] ->
  sorted_lt (concat (map blk parts)) -> lenN (concat (map blk parts)) < sz64 ->
  lenN (concat (map blk parts)) + 1 < sz64 ->
  iter_denotes (table_iter pext (bdict_of blk parts)) table_init (map Some (ids_view cont parts)).
Proof. exact @blocks_table_spec. Qed.
Print Assumptions C13_blocks_table_spec.

(* the constructor's loop: acc_size += len+1; flush when !hasNext || acc_size > cut_size *)
Theorem C01_blocks_build_spec : forall cut S,
  let B := blocks_partition cut S in
  blocks_build cut S = mk_bbuild (block_firsts B) (starts_from 0 B) B (lenN S) /\
  concat B = S /\ Forall (fun b => b <> []) B.
Proof. exact blocks_build_spec. Qed.
Print Assumptions C01_blocks_build_spec.

(* end to end for order-preserving parts: constructor + routing = the global specification *)
Theorem C01_model_blocks_spec : forall cut S, S <> [] -> sorted_lt S -> lenN S + 1 < sz64 ->
  (forall q, model_blocks_locate cut S q = Some (spec_locate S q)) /\
  (forall id, id < sz64 -> model_blocks_extract cut S id = Some (spec_extract S id)) /\
  iter_denotes (table_iter range_extract (spec_bdict cut S)) table_init (map Some S).
Proof. exact model_blocks_spec. Qed.
Print Assumptions C01_model_blocks_spec.

(* hypotheses are satisfiable: a two-part dictionary whose first part numbers its strings like a
   hash part would (not in sorted order): "a" < "ab" | "b";  IDs: "ab" = 1, "a" = 2, "b" = 3.
   (range_extract = spec_extract with the range test first, so that vm_compute never builds the
   unary number 2^64-2 when id = 0 wraps) *)
Definition ex_parts : list (list str * list str) :=
  [([[97]; [97; 98]], [[97; 98]; [97]]); ([[98]], [[98]])].
Example ex_parts_ok :
  Forall (part_ok (fun p => spec_locate (snd p)) (fun p => range_extract (snd p)) fst snd) ex_parts /\
  ex_parts <> [] /\ sorted_lt (concat (map fst ex_parts)) /\ lenN (concat (map fst ex_parts)) + 1 < sz64.
Proof.
  split; [|split; [discriminate|split; [apply sorted_lt_b_sound; reflexivity|reflexivity]]].
  assert (H : forall p, In p ex_parts -> part_ok (fun p => spec_locate (snd p)) (fun p => range_extract (snd p)) fst snd p).
  { intros p [<-|[<-|[]]]; unfold part_ok; cbn [fst snd];
      (split; [discriminate|]); (split; [intros q; simpl; tauto|]); (split; [reflexivity|]); (split; [reflexivity|]); intros i; apply range_extract_spec. }
  apply Forall_forall. exact H.
Qed.
Example ex_parts_run :
  map (blocks_locate (fun p => spec_locate (snd p)) (bdict_of fst ex_parts)) [[97]; [97; 98]; [98]; [97; 97]; [99]]
    = [Some 2; Some 1; Some 3; Some 0; Some 0] /\
  map (blocks_extract (fun p => range_extract (snd p)) (bdict_of fst ex_parts)) [0; 1; 2; 3; 4; 18446744073709551615]
    = [Some None; Some (Some [97; 98]); Some (Some [97]); Some (Some [98]); Some None; Some None].
Proof. split; vm_compute; reflexivity. Qed.
Example ex_build : blocks_build 3 [[97]; [97; 98]; [98]; [98; 97]; [99]] =
  mk_bbuild [[97]; [98]; [99]] [0; 2; 4] [[[97]; [97; 98]]; [[98]; [98; 97]]; [[99]]] 5.
Proof. vm_compute. reflexivity. Qed.

Theorem C01_blocks_locate_empty_oob : forall q, model_blocks_locate 5 [] q = None.
Proof. exact blocks_locate_empty_oob. Qed.
Print Assumptions C01_blocks_locate_empty_oob.
