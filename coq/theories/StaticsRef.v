(* Reviewed inventory of the writable static-storage objects of the library (C09 / C11).
   The hypothesis "block construction shares no mutable state between workers" (Section variable build_block of
   the parallel-build model; C11's lockset theorems speak about the pool's own containers) can only be broken,
   outside the objects a task owns, through an object with static storage duration.  Each such object of the
   CURRENT compiled tree is listed by tools/translate_statics.py (gen/Statics_gen.v); this file is the list that was
   reviewed, with the reason why each entry is harmless for the parallel block build:
     on_build_path = false : not reachable from StringDictionaryHASHRPDAC's constructor (Re-Pair coder, HashDAC, DAC_VLS,
                             BitSequenceRG, LogSequence) - FM-index / XBW / suffix-array / RRR / SDArray code;
     on_build_path = true  : reachable, and why it is not written concurrently. *)
From Coq Require Import List String Bool.
Import ListNotations.
Local Open Scope string_scope.

Record static_ref := { sr_obj : string; sr_name : string; sr_on_build_path : bool; sr_why : string }.

Definition reviewed : list static_ref :=
  [ {| sr_obj := "basics.cpp"; sr_name := "NullFreq"; sr_on_build_path := true;
       sr_why := "initialised statically, only read (the coder compares frequencies with it)" |};
    {| sr_obj := "StringDictionaryHASHRPDACBlocks.cpp";
       sr_name := "Worker::Worker(WorkerQueue&, std::mutex&, std::condition_variable&)::workers_count"; sr_on_build_path := true;
       sr_why := "function-local counter of Worker's constructor (worker_id = workers_count++): written only by the thread that constructs the pool, before the new worker's thread is started; worker_id is an identifier that no decision depends on" |};
    {| sr_obj := "heap.cpp"; sr_name := "Heap::prnH(Theap*)::X"; sr_on_build_path := false;
       sr_why := "local static of the debug printer prnH, which no constructor calls" |};
    {| sr_obj := "BitSequenceRRR.cpp"; sr_name := "cds_static::BitSequenceRRR::E"; sr_on_build_path := false;
       sr_why := "shared offset table of the RRR bitmaps (FM-index with compressed bitmaps, XBW): not used by HASHRPDAC blocks" |};
    {| sr_obj := "TableOffsetRRR.cpp"; sr_name := "cds_static::__Lis"; sr_on_build_path := false; sr_why := "RRR table construction" |};
    {| sr_obj := "TableOffsetRRR.cpp"; sr_name := "cds_static::__indAcumulado"; sr_on_build_path := false; sr_why := "RRR table construction" |};
    {| sr_obj := "TableOffsetRRR.cpp"; sr_name := "cds_static::__indiceFunc"; sr_on_build_path := false; sr_why := "RRR table construction" |};
    {| sr_obj := "BitSequenceDArray.cpp"; sr_name := "cds_static::__selecttbl_D"; sr_on_build_path := false; sr_why := "DArray: used by no dictionary" |};
    {| sr_obj := "BitSequenceDArray.cpp"; sr_name := "cds_static::built_D"; sr_on_build_path := false; sr_why := "DArray: used by no dictionary" |};
    {| sr_obj := "sdarraySadakane.cpp"; sr_name := "cds_static::__selecttbl"; sr_on_build_path := false; sr_why := "SDArray: used by no dictionary" |};
    {| sr_obj := "sdarraySadakane.cpp"; sr_name := "cds_static::built"; sr_on_build_path := false; sr_why := "SDArray: used by no dictionary" |};
    {| sr_obj := "LCP_PT.cpp"; sr_name := "_covers"; sr_on_build_path := false; sr_why := "libcds suffix tree: used by no dictionary" |};
    {| sr_obj := "comparray4.cpp"; sr_name := "cds_static::R3"; sr_on_build_path := false; sr_why := "libcds compressed suffix array: used by no dictionary" |};
    {| sr_obj := "comparray4.cpp"; sr_name := "cds_static::R4"; sr_on_build_path := false; sr_why := "same" |};
    {| sr_obj := "comparray4.cpp"; sr_name := "cds_static::R5"; sr_on_build_path := false; sr_why := "same" |};
    {| sr_obj := "comparray4.cpp"; sr_name := "cds_static::R5b"; sr_on_build_path := false; sr_why := "same" |};
    {| sr_obj := "comparray4.cpp"; sr_name := "cds_static::R5n"; sr_on_build_path := false; sr_why := "same" |};
    {| sr_obj := "comparray4.cpp"; sr_name := "cds_static::R5x"; sr_on_build_path := false; sr_why := "same" |};
    {| sr_obj := "comparray4.cpp"; sr_name := "cds_static::R6b"; sr_on_build_path := false; sr_why := "same" |};
    {| sr_obj := "comparray4.cpp"; sr_name := "cds_static::R6x"; sr_on_build_path := false; sr_why := "same" |};
    {| sr_obj := "comparray4.cpp"; sr_name := "cds_static::np"; sr_on_build_path := false; sr_why := "same" |};
    {| sr_obj := "qsufsort.cpp"; sr_name := "I"; sr_on_build_path := false; sr_why := "suffix sorting (libcds qsufsort): FM-index construction is single-threaded" |};
    {| sr_obj := "qsufsort.cpp"; sr_name := "V"; sr_on_build_path := false; sr_why := "same" |};
    {| sr_obj := "qsufsort.cpp"; sr_name := "h"; sr_on_build_path := false; sr_why := "same" |};
    {| sr_obj := "qsufsort.cpp"; sr_name := "r"; sr_on_build_path := false; sr_why := "same" |} ].

Definition is_reviewed (s : string * string) : bool :=
  existsb (fun r => String.eqb (sr_obj r) (fst s) && String.eqb (sr_name r) (snd s)) reviewed.

(* every writable static of the compiled tree was reviewed *)
Definition statics_ok (l : list (string * string)) : bool := forallb is_reviewed l.

(* the writable statics reachable from the block builder *)
Definition on_build_path : list static_ref := filter sr_on_build_path reviewed.

Lemma statics_ok_spec l : statics_ok l = true ->
  forall o n, In (o, n) l -> exists r, In r reviewed /\ sr_obj r = o /\ sr_name r = n.
Proof.
  unfold statics_ok. intros H o n Hin. rewrite forallb_forall in H. specialize (H _ Hin).
  unfold is_reviewed in H. apply existsb_exists in H. destruct H as (r & Hr & E).
  apply andb_true_iff in E. destruct E as [E1 E2]. apply String.eqb_eq in E1. apply String.eqb_eq in E2.
  exists r. cbn [fst snd] in *. auto.
Qed.
