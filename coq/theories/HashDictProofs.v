(* Dictionary-level theorems for HASHRPDAC and HASHRPF (model: HashDictDefs.v), composed from
   HashProofs (double hashing, IDs, three representations), RPDACProofs (compare-while-expanding,
   expansion) and IterProofs (block routing). *)
From LibCSD Require Import Base Spec SpecProofs PFCLayout LexLemmas RePairDefs RePairProofs RPDACDefs RPDACProofs
  HashDefs HashProofs HashDictDefs.
From Coq Require Import Permutation Sorted.
Require Import Lia ZifyBool ZifyNat ZifyN.
Ltac Zify.zify_post_hook ::= Z.to_euclidean_division_equations.
Local Open Scope N_scope.

(* ---------------------------------------------------------------------------------------- *)
(* 0. small facts                                                                            *)

Lemma hbytes_eqb_lex k q : hbytes_eqb k q = true <-> lex_compare k q = Eq.
Proof. rewrite key_eqb_eq, lex_compare_eq_iff. tauto. Qed.

Lemma bits_of_length {A} (t : list (option A)) : length (dh_bits_of t) = length t.
Proof. unfold dh_bits_of. apply map_length. Qed.

Lemma bits_of_lenN {A} (t : list (option A)) : lenN (dh_bits_of t) = lenN t.
Proof. unfold lenN. rewrite bits_of_length. reflexivity. Qed.

Lemma bits_of_nthN {A} (t : list (option A)) c : nthN (dh_bits_of t) c = option_map dh_is_occ (nthN t c).
Proof. unfold nthN, dh_bits_of. rewrite nth_error_map. reflexivity. Qed.

Lemma bools_eqb_eq : forall a b, bools_eqb a b = true -> a = b.
Proof.
  induction a as [|x a IH]; intros [|y b] H; cbn [bools_eqb] in H; try discriminate; [reflexivity|].
  apply andb_true_iff in H. destruct H as [H1 H2]. apply eqb_prop in H1. subst. f_equal. auto.
Qed.

Lemma dh_extract_spec_extract t id : dh_extract t id = spec_extract (dh_tdict t) id.
Proof.
  unfold dh_extract, spec_extract.
  destruct (N.ltb_spec 0 id); destruct (N.eqb_spec id 0); try lia; cbn [andb]; [|reflexivity].
  destruct (N.leb_spec id (lenN (dh_tdict t))); [reflexivity|].
  symmetry. unfold nthN. apply nth_error_None. unfold lenN in *. lia.
Qed.

Lemma locate_mul_of_search t hq :
  dh_locate_mul t hq = match dh_search_mul t hq with SFound c => Some (dh_id_of_cell t c) | SAbsent => Some 0 | SOob => None end.
Proof. reflexivity. Qed.

(* ---------------------------------------------------------------------------------------- *)
(* 1. the shared probe loop simulates the multiplicative search of HashDefs                   *)

Section LocateSim.
  Context {B : Type}.
  Variable probe : B -> N -> hd_pres * B.
  Variable t : dh_table.
  Variable q : hbytes.
  Variable Inv : B -> Prop.

  Definition probe_res (c : N) : hd_pres :=
    match nthN t c with
    | None => HOob
    | Some None => HStop
    | Some (Some k) => if hbytes_eqb k q then HFound (dh_id_of_cell t c) else HNext
    end.

  Hypothesis probe_sim : forall b c, Inv b -> fst (probe b c) = probe_res c /\ Inv (snd (probe b c)).

  Definition sres_ans (r : dh_sres) : option N :=
    match r with SFound c => Some (dh_id_of_cell t c) | SAbsent => Some 0 | SOob => None end.

  Lemma hd_loop_sim fuel : forall b m h1 h2 i, Inv b ->
    fst (hd_loop probe fuel b m h1 h2 i) = sres_ans (dh_search_mul_loop fuel t q m h1 h2 i) /\
    Inv (snd (hd_loop probe fuel b m h1 h2 i)).
  Proof.
    induction fuel as [|f IH]; intros b m h1 h2 i Hb; cbn [hd_loop dh_search_mul_loop].
    - split; [reflexivity|exact Hb].
    - destruct (probe_sim b (dh_probe_mul m h1 h2 i) Hb) as [E Hi].
      destruct (probe b (dh_probe_mul m h1 h2 i)) as [r b']. cbn [fst snd] in *. subst r. unfold probe_res.
      destruct (nthN t (dh_probe_mul m h1 h2 i)) as [[k|]|]; cbn [fst snd sres_ans]; try (split; [reflexivity|exact Hi]).
      destruct (hbytes_eqb k q); cbn [fst snd sres_ans]; [split; [reflexivity|exact Hi]|].
      apply IH. exact Hi.
  Qed.

  Lemma hd_locate_sim bits b h1 h2 : length bits = length t -> Inv b ->
    fst (hd_locate probe bits b h1 h2) = dh_locate_mul t (mkHKey q h1 h2) /\
    Inv (snd (hd_locate probe bits b h1 h2)).
  Proof.
    intros Hl Hb. unfold hd_locate. rewrite locate_mul_of_search. unfold dh_search_mul. cbn [hk_h1 hk_h2 hk_key].
    destruct (probe_sim b h1 Hb) as [E Hi].
    destruct (probe b h1) as [r b']. cbn [fst snd] in *. subst r. unfold probe_res.
    destruct (nthN t h1) as [[k|]|]; cbn [fst snd]; try (split; [reflexivity|exact Hi]).
    destruct (hbytes_eqb k q); cbn [fst snd]; [split; [reflexivity|exact Hi]|].
    replace (lenN bits) with (lenN t) by (unfold lenN; rewrite Hl; reflexivity). rewrite Hl.
    apply hd_loop_sim. exact Hi.
  Qed.
End LocateSim.

(* ---------------------------------------------------------------------------------------- *)
(* 2. the ID-ordered view T = Tdict* and what the table theorems give for it                  *)

Definition hd_keys_ok (ks : list hkey) : Prop :=
  Forall (fun k => k <> [] /\ nul_free k /\ lenN k < 2 ^ 32) (map hk_key ks).

Lemma hd_str_ok_sound s : hd_str_ok s = true -> s <> [] /\ nul_free s /\ lenN s < 2 ^ 32.
Proof.
  unfold hd_str_ok. rewrite !andb_true_iff, N.ltb_lt. intros [[H1 H2] H3]. split; [|split; [|exact H3]].
  - intros ->. discriminate.
  - apply Forall_forall. intros b Hb. rewrite forallb_forall in H2. specialize (H2 b Hb). intros ->. discriminate.
Qed.

Lemma hd_keys_ok_sound ks : forallb hd_str_ok (map hk_key ks) = true -> hd_keys_ok ks.
Proof.
  intros H. apply Forall_forall. intros k Hk. rewrite forallb_forall in H. apply hd_str_ok_sound. auto.
Qed.

Section TableFacts.
  Variables (m : N) (ks : list hkey) (t : dh_table) (cs : list N).
  Hypothesis Hok : dh_build_ok m ks = true.
  Hypothesis Hb : dh_build m ks = Some (t, cs).

  Let T : list str := dh_tdict t.

  Lemma tf_perm : Permutation T (map hk_key ks).
  Proof. eapply build_tdict_perm; eauto. Qed.

  Lemma tf_nodup : NoDup T.
  Proof.
    destruct (dh_build_ok_sound _ _ Hok) as (_ & _ & _ & Hnd).
    eapply Permutation_NoDup; [symmetry; apply tf_perm|exact Hnd].
  Qed.

  Lemma tf_len : lenN T = lenN ks.
  Proof. eapply build_elements; eauto. Qed.

  Lemma tf_lent : lenN t = m.
  Proof. eapply build_lenN; eauto. Qed.

  Lemma tf_in k : In k T <-> In k (map hk_key ks).
  Proof. split; apply Permutation_in; [apply tf_perm|symmetry; apply tf_perm]. Qed.

  (* the multiplicative search of a member finds the ID under which it is extracted *)
  Lemma tf_member hk : In hk ks ->
    exists id, dh_locate_mul t hk = Some id /\ 1 <= id <= lenN ks /\ spec_extract T id = Some (hk_key hk).
  Proof.
    intros Hin. destruct (dh_build_ok_sound _ _ Hok) as (Hm & Hlen & Hhk & Hnd).
    destruct (dh_id_bijection _ _ _ _ Hb Hnd) as (_ & F2 & _).
    destruct (Forall2_In_l _ _ _ _ F2 Hin) as (c & _ & Hl & Hr & He).
    exists (dh_id_of_cell t c). split; [|split; [exact Hr|unfold T; rewrite <- dh_extract_spec_extract; exact He]].
    rewrite Forall_forall in Hhk. specialize (Hhk hk Hin). apply hk_ok_spec in Hhk as (H1 & H2 & _).
    unfold dh_locate_mul. rewrite search_mul_eq by (rewrite tf_lent; lia). exact Hl.
  Qed.

  Lemma tf_absent hq : ~ In (hk_key hq) (map hk_key ks) -> hk_h1 hq < m -> dh_locate_mul t hq = Some 0.
  Proof.
    intros Hq Hh. destruct (dh_search_absent _ _ _ _ hq Hb Hq Hh) as [_ H2].
    unfold dh_locate_mul. rewrite H2. reflexivity.
  Qed.

  (* in the vocabulary of the specification over T *)
  Lemma tf_member_spec hk : In hk ks -> dh_locate_mul t hk = Some (spec_locate T (hk_key hk)).
  Proof.
    intros Hin. destruct (tf_member hk Hin) as (id & Hl & _ & He). rewrite Hl. f_equal. symmetry.
    apply spec_locate_extract; [apply tf_nodup|exact He].
  Qed.

  Lemma tf_absent_spec hq : ~ In (hk_key hq) (map hk_key ks) -> hk_h1 hq < m ->
    dh_locate_mul t hq = Some (spec_locate T (hk_key hq)).
  Proof.
    intros Hq Hh. rewrite tf_absent by assumption. f_equal. symmetry. apply spec_locate_absent.
    rewrite tf_in. exact Hq.
  Qed.
End TableFacts.

(* what a dictionary that "answers by the specification over T" satisfies, in the words of C01/C02/C13 *)
Section SpecView.
  Variable T : list str.
  Hypothesis Hnd : NoDup T.

  Lemma sv_round_trip s : In s T ->
    1 <= spec_locate T s <= lenN T /\ spec_extract T (spec_locate T s) = Some s.
  Proof. intros H. split; [apply spec_locate_member; exact H|apply spec_extract_locate; exact H]. Qed.

  Lemma sv_round_trip_id i : 1 <= i <= lenN T ->
    exists s, spec_extract T i = Some s /\ In s T /\ spec_locate T s = i.
  Proof.
    intros Hi. destruct (spec_extract_in_range T i Hi) as (s & Hs & Hin). exists s.
    split; [exact Hs|]. split; [exact Hin|]. apply spec_locate_extract; assumption.
  Qed.

  Lemma sv_bad_id i : ~ (1 <= i <= lenN T) -> spec_extract T i = None.
  Proof. intros H. apply spec_extract_out_of_range. lia. Qed.
End SpecView.

(* ---------------------------------------------------------------------------------------- *)
(* 3. the extractTable loop                                                                   *)

Lemma table_loop_spec (ext : N -> option (option str)) (T : list str) :
  lenN T < 2 ^ 31 -> (forall id, ext id = Some (spec_extract T id)) ->
  forall fuel i, 1 <= i -> (N.to_nat (lenN T + 1 - i) <= fuel)%nat -> i <= lenN T + 1 ->
  hd_table_loop ext fuel i (lenN T) = Some (map Some (skipn (N.to_nat (i - 1)) T)).
Proof.
  intros Hn Hext. pose proof pow31_32 as P.
  induction fuel as [|f IH]; intros i Hi Hf Hle; cbn [hd_table_loop].
  - destruct (N.leb_spec i (lenN T)); [lia|]. rewrite skipn_all2 by (unfold lenN in *; lia). reflexivity.
  - destruct (N.leb_spec i (lenN T)) as [Hin|Hout].
    + rewrite Hext. rewrite (u32_small (i + 1)) by lia. rewrite IH by lia. cbn [option_map]. f_equal.
      unfold spec_extract. destruct (N.eqb_spec i 0); [lia|].
      destruct (nthN_lt_Some T (i - 1)) as [s Hs]; [lia|]. rewrite Hs.
      replace (N.to_nat (i + 1 - 1)) with (S (N.to_nat (i - 1))) by lia.
      unfold nthN in Hs. rewrite (skipn_nth_cons _ _ _ Hs). reflexivity.
    + rewrite skipn_all2 by (unfold lenN in *; lia). reflexivity.
Qed.

(* ======================================================================================== *)
(* 4. HASHRPDAC                                                                              *)

(* extract without the sortedness hypothesis of RPDACProofs.rpdac_extract_spec (Tdict* is not sorted) *)
Lemma rpdac_extract_unsorted d S : rpdac_repr d S -> lenN S < 2 ^ 31 -> forall id,
  rpdac_extract d id = Some (spec_extract S id).
Proof.
  intros Hrepr Hn id. pose proof Hrepr as (Ht & Hw & Hsz & _ & Hel & Hml).
  unfold rpdac_extract. rewrite Hel. pose proof pow31_32 as P.
  destruct (N.ltb_spec 0 id) as [H0|H0]; cbn [andb].
  - destruct (N.leb_spec id (lenN S)) as [H1|H1].
    + rewrite (u32_small id) by lia. rewrite seq_of_id by lia.
      pose proof (sid_nth S id ltac:(lia)) as Es.
      destruct (repr_seq d S _ _ Hrepr Es) as (sq & Esq & Ex). rewrite Esq.
      unfold expand_seq in Ex. rewrite (xseq_expand _ _ Ht Hsz _ _ _ Ex).
      pose proof (spec_maxlen_bounds_aux S (sid S id) (sid_In S id ltac:(lia))) as Hb.
      destruct (N.leb_spec (lenN (sid S id)) (d_maxlength d)); [|lia].
      rewrite spec_extract_sid by lia. reflexivity.
    + f_equal. symmetry. apply spec_extract_out_of_range. right. exact H1.
  - f_equal. symmetry. apply spec_extract_out_of_range. left. lia.
Qed.

Definition hashrpdac_wf (d : hrpdac) (ks : list hkey) (t : dh_table) : Prop :=
  dh_build_ok (lenN (hd_bits d)) ks = true /\ (exists cs, dh_build (lenN (hd_bits d)) ks = Some (t, cs)) /\
  hd_bits d = dh_bits_of t /\ rpdac_repr (hd_rp d) (dh_tdict t) /\ hd_keys_ok ks /\ lenN ks < 2 ^ 31 /\ 1 <= lenN ks.

Theorem hashrpdac_chk_sound d ks : hashrpdac_chk d ks = true -> exists t, hashrpdac_wf d ks t.
Proof.
  unfold hashrpdac_chk. intros H. apply andb_true_iff in H. destruct H as [H0 H].
  destruct (dh_build (lenN (hd_bits d)) ks) as [[t cs]|] eqn:Eb; [|discriminate].
  rewrite !andb_true_iff in H. destruct H as [[[[H1 H2] H3] H4] H5].
  exists t. split; [exact H0|]. split; [eauto|]. split; [apply bools_eqb_eq; exact H1|].
  split; [apply rpdac_checkb_sound; exact H2|]. split; [apply hd_keys_ok_sound; exact H3|].
  split; [apply N.ltb_lt; exact H4|apply N.leb_le; exact H5].
Qed.

Section HashRPDAC.
  Variables (d : hrpdac) (ks : list hkey) (t : dh_table).
  Hypothesis Hwf : hashrpdac_wf d ks t.

  Let T : list str := dh_tdict t.
  Let m := lenN (hd_bits d).

  Lemma hrd_T_ok k : In k T -> k <> [] /\ nul_free k /\ lenN k < 2 ^ 32.
  Proof.
    destruct Hwf as (Hok & (cs & Hb) & _ & _ & Hk & _). intros Hin.
    unfold hd_keys_ok in Hk. rewrite Forall_forall in Hk. apply Hk.
    apply (tf_in _ _ _ _ Hb). exact Hin.
  Qed.

  Lemma hrd_lenT : lenN T = lenN ks.
  Proof. destruct Hwf as (Hok & (cs & Hb) & _). apply (tf_len _ _ _ _ Hb). Qed.

  (* one probe = one step of dh_search_mul on the abstract table *)
  Lemma hrd_probe_sim q : nul_free q -> lenN q < 2 ^ 32 -> forall (b : unit) c, True ->
    fst (hrd_probe d q b c) = probe_res t q c /\ True.
  Proof.
    intros Hq Hql b c _. split; [|exact I].
    destruct Hwf as (Hok & (cs & Hb) & Hbits & Hrepr & Hk & Hn & Hn1).
    unfold hrd_probe, probe_res. rewrite Hbits, bits_of_nthN.
    destruct (nthN t c) as [[k|]|] eqn:Ec; cbn [option_map dh_is_occ]; try reflexivity.
    fold (dh_id_of_cell t c).
    destruct (id_of_cell_spec t c k Ec) as [[H1 H2] H3].
    assert (Hin : In k T) by (eapply nthN_In; exact H3).
    destruct (hrd_T_ok k Hin) as (Hne & Hnf & _).
    assert (HnT : lenN T < 2 ^ 31) by (rewrite hrd_lenT; exact Hn).
    destruct (compare_expand_spec (hd_rp d) T Hrepr HnT (dh_id_of_cell t c) k q H3 H1 Hnf Hne Hq Hql)
      as (z & Ez & Hz).
    rewrite Ez.
    destruct (Z.eqb_spec z 0) as [->|Hnz].
    - cbn in Hz. symmetry in Hz. apply hbytes_eqb_lex in Hz. rewrite Hz. reflexivity.
    - destruct (hbytes_eqb k q) eqn:E; [|reflexivity].
      apply hbytes_eqb_lex in E. rewrite E in Hz. apply Z.compare_eq in Hz. contradiction.
  Qed.

  Lemma hashrpdac_locate_dh hq : nul_free (hk_key hq) -> lenN (hk_key hq) < 2 ^ 32 ->
    hashrpdac_locate d hq = dh_locate_mul t hq.
  Proof.
    intros Hq Hql. unfold hashrpdac_locate.
    destruct (hd_locate_sim (hrd_probe d (hk_key hq)) t (hk_key hq) (fun _ => True)
                (hrd_probe_sim (hk_key hq) Hq Hql) (hd_bits d) tt (hk_h1 hq) (hk_h2 hq)) as [E _].
    - destruct Hwf as (_ & _ & Hbits & _). rewrite Hbits. apply bits_of_length.
    - exact I.
    - rewrite E. destruct hq; reflexivity.
  Qed.

  (* the dictionary answers by the specification over the ID-ordered view T *)
  Theorem hashrpdac_locate_member hk : In hk ks -> hashrpdac_locate d hk = Some (spec_locate T (hk_key hk)).
  Proof.
    intros Hin. destruct Hwf as (Hok & (cs & Hb) & _ & _ & Hk & _).
    unfold hd_keys_ok in Hk. rewrite Forall_forall in Hk.
    destruct (Hk (hk_key hk) (in_map hk_key _ _ Hin)) as (_ & Hnf & Hl).
    rewrite hashrpdac_locate_dh by assumption. apply (tf_member_spec _ _ _ _ Hok Hb). exact Hin.
  Qed.

  Theorem hashrpdac_locate_absent hq : nul_free (hk_key hq) -> lenN (hk_key hq) < 2 ^ 32 -> hk_h1 hq < m ->
    ~ In (hk_key hq) (map hk_key ks) -> hashrpdac_locate d hq = Some 0.
  Proof.
    intros Hq Hql Hh Hni. destruct Hwf as (Hok & (cs & Hb) & _).
    rewrite hashrpdac_locate_dh by assumption. apply (tf_absent _ _ _ _ Hb); assumption.
  Qed.

  Theorem hashrpdac_extract_T id : hashrpdac_extract d id = Some (spec_extract T id).
  Proof.
    destruct Hwf as (_ & _ & _ & Hrepr & _ & Hn & _). unfold hashrpdac_extract.
    pose proof hrd_lenT as E. unfold T in E.
    apply rpdac_extract_unsorted; [exact Hrepr|].
    eapply N.le_lt_trans; [apply N.eq_le_incl; exact E|exact Hn].
  Qed.

  Theorem hashrpdac_table_T : hashrpdac_table d = Some (map Some T).
  Proof.
    destruct Hwf as (_ & _ & _ & Hrepr & _ & Hn & _). unfold hashrpdac_table.
    destruct Hrepr as (_ & _ & _ & _ & Hel & _). rewrite Hel.
    pose proof hrd_lenT as E.
    assert (HnT : @lenN str T < 2 ^ 31) by (eapply N.le_lt_trans; [apply N.eq_le_incl; exact E|exact Hn]).
    change (dh_tdict t) with T.
    rewrite (table_loop_spec (hashrpdac_extract d) T HnT hashrpdac_extract_T (N.to_nat (lenN T)) 1) by lia.
    reflexivity.
  Qed.

  Lemma hrd_T_perm : Permutation T (map hk_key ks).
  Proof. destruct Hwf as (Hok & (cs & Hb) & _). apply (tf_perm _ _ _ _ Hb). Qed.

  Lemma hrd_T_nodup : NoDup T.
  Proof. destruct Hwf as (Hok & (cs & Hb) & _). apply (tf_nodup _ _ _ _ Hok Hb). Qed.
End HashRPDAC.

(* ---------------------------------------------------------------------------------------- *)
(* 5. "answers by the specification over an ID-ordered view T of the key set", and what this   *)
(*    means in the words of C01 / C02 / C13 (shared by both kinds)                             *)

Definition answers_by (T : list str) (ks : list hkey) (Q : hkey -> Prop)
           (loc : hkey -> option N) (ext : N -> option (option str)) (tab : option (list (option str))) : Prop :=
  Permutation T (map hk_key ks) /\ NoDup T /\
  (forall hk, In hk ks -> loc hk = Some (spec_locate T (hk_key hk))) /\
  (forall hq, Q hq -> ~ In (hk_key hq) (map hk_key ks) -> loc hq = Some 0) /\
  (forall id, ext id = Some (spec_extract T id)) /\
  tab = Some (map Some T).

Section AnswersBy.
  Variables (T : list str) (ks : list hkey) (Q : hkey -> Prop).
  Variables (loc : hkey -> option N) (ext : N -> option (option str)) (tab : option (list (option str))).
  Hypothesis H : answers_by T ks Q loc ext tab.

  Let n := lenN ks.

  Lemma ab_len : lenN T = n.
  Proof. destruct H as (Hp & _). unfold n, lenN. rewrite (Permutation_length Hp), map_length. reflexivity. Qed.

  (* members are found, the ID is in [1,n] and extract inverts locate *)
  Lemma ab_member hk : In hk ks ->
    exists id, loc hk = Some id /\ 1 <= id <= n /\ ext id = Some (Some (hk_key hk)).
  Proof.
    intros Hin. destruct H as (Hp & Hnd & Hm & _ & He & _).
    assert (HinT : In (hk_key hk) T) by (eapply Permutation_in; [symmetry; exact Hp|apply in_map; exact Hin]).
    destruct (sv_round_trip T (hk_key hk) HinT) as [Hr Hx].
    exists (spec_locate T (hk_key hk)). rewrite <- ab_len. split; [apply Hm; exact Hin|]. split; [exact Hr|].
    rewrite He, Hx. reflexivity.
  Qed.

  (* every ID of [1,n] belongs to a key, and locate inverts extract *)
  Lemma ab_id id : 1 <= id <= n -> exists hk, In hk ks /\ ext id = Some (Some (hk_key hk)) /\ loc hk = Some id.
  Proof.
    intros Hid. destruct H as (Hp & Hnd & Hm & _ & He & _). rewrite <- ab_len in Hid.
    destruct (sv_round_trip_id T Hnd id Hid) as (s & Hs & Hin & Hl).
    assert (Hin' : In s (map hk_key ks)) by (eapply Permutation_in; [exact Hp|exact Hin]).
    apply in_map_iff in Hin' as (hk & <- & Hk). exists hk. split; [exact Hk|]. split; [rewrite He, Hs; reflexivity|].
    rewrite (Hm hk Hk), Hl. reflexivity.
  Qed.

  Lemma ab_injective hk hk' id : In hk ks -> In hk' ks -> loc hk = Some id -> loc hk' = Some id -> hk_key hk = hk_key hk'.
  Proof.
    intros H1 H2 E1 E2. destruct (ab_member hk H1) as (i1 & L1 & _ & X1). destruct (ab_member hk' H2) as (i2 & L2 & _ & X2).
    assert (i1 = id) by congruence. assert (i2 = id) by congruence. subst. congruence.
  Qed.

  Lemma ab_absent hq : Q hq -> ~ In (hk_key hq) (map hk_key ks) -> loc hq = Some 0.
  Proof. destruct H as (_ & _ & _ & Ha & _). apply Ha. Qed.

  Lemma ab_bad_id id : ~ (1 <= id <= n) -> ext id = Some None.
  Proof. intros Hid. destruct H as (_ & _ & _ & _ & He & _). rewrite He, sv_bad_id; [reflexivity|]. rewrite ab_len. exact Hid. Qed.

  (* extractTable = extract(1), ..., extract(n) *)
  Lemma ab_table : exists l, tab = Some l /\ lenN l = n /\ forall id, 1 <= id <= n -> ext id = nthN l (id - 1).
  Proof.
    destruct H as (_ & _ & _ & _ & He & Ht). exists (map Some T). split; [exact Ht|].
    split; [unfold lenN; rewrite map_length; apply ab_len|].
    intros id Hid. rewrite He. unfold spec_extract. destruct (N.eqb_spec id 0); [lia|].
    unfold nthN. rewrite nth_error_map. destruct (nth_error T (N.to_nat (id - 1))) eqn:E; [reflexivity|].
    apply nth_error_None in E. pose proof ab_len. unfold lenN in *. lia.
  Qed.
End AnswersBy.

(* ---------------------------------------------------------------------------------------- *)
(* 6. HASHRPDAC: exported theorems (hypothesis = the boolean checker on the dumped object)     *)

Definition hrd_query_ok (d : hrpdac) (hq : hkey) : Prop :=
  nul_free (hk_key hq) /\ lenN (hk_key hq) < 2 ^ 32 /\ hk_h1 hq < lenN (hd_bits d).

Theorem hashrpdac_spec d ks : hashrpdac_chk d ks = true ->
  exists T, answers_by T ks (hrd_query_ok d) (hashrpdac_locate d) (hashrpdac_extract d) (hashrpdac_table d).
Proof.
  intros Hc. destruct (hashrpdac_chk_sound d ks Hc) as (t & Hwf). exists (dh_tdict t).
  split; [apply (hrd_T_perm d ks t Hwf)|]. split; [apply (hrd_T_nodup d ks t Hwf)|].
  split; [intros hk Hin; apply (hashrpdac_locate_member d ks t Hwf hk Hin)|].
  split; [intros hq (H1 & H2 & H3) Hni; apply (hashrpdac_locate_absent d ks t Hwf hq H1 H2 H3 Hni)|].
  split; [apply (hashrpdac_extract_T d ks t Hwf)|apply (hashrpdac_table_T d ks t Hwf)].
Qed.

Theorem hashrpdac_locate_spec d ks : hashrpdac_chk d ks = true ->
  (forall hk, In hk ks ->
     exists id, hashrpdac_locate d hk = Some id /\ 1 <= id <= lenN ks /\ hashrpdac_extract d id = Some (Some (hk_key hk))) /\
  (forall hq, nul_free (hk_key hq) -> lenN (hk_key hq) < 2 ^ 32 -> hk_h1 hq < lenN (hd_bits d) ->
     ~ In (hk_key hq) (map hk_key ks) -> hashrpdac_locate d hq = Some 0) /\
  (forall id, 1 <= id <= lenN ks ->
     exists hk, In hk ks /\ hashrpdac_extract d id = Some (Some (hk_key hk)) /\ hashrpdac_locate d hk = Some id) /\
  (forall hk hk' id, In hk ks -> In hk' ks -> hashrpdac_locate d hk = Some id -> hashrpdac_locate d hk' = Some id ->
     hk_key hk = hk_key hk').
Proof.
  intros Hc. destruct (hashrpdac_spec d ks Hc) as (T & HT).
  split; [intros hk; apply (ab_member _ _ _ _ _ _ HT)|].
  split; [intros hq H1 H2 H3; apply (ab_absent _ _ _ _ _ _ HT); repeat split; assumption|].
  split; [intros id; apply (ab_id _ _ _ _ _ _ HT)|intros hk hk' id; apply (ab_injective _ _ _ _ _ _ HT)].
Qed.

Theorem hashrpdac_extract_spec d ks : hashrpdac_chk d ks = true ->
  forall id, ~ (1 <= id <= lenN ks) -> hashrpdac_extract d id = Some None.
Proof. intros Hc. destruct (hashrpdac_spec d ks Hc) as (T & HT). intros id. apply (ab_bad_id _ _ _ _ _ _ HT). Qed.

Theorem hashrpdac_table_spec d ks : hashrpdac_chk d ks = true ->
  exists l, hashrpdac_table d = Some l /\ lenN l = lenN ks /\
            forall id, 1 <= id <= lenN ks -> hashrpdac_extract d id = nthN l (id - 1).
Proof. intros Hc. destruct (hashrpdac_spec d ks Hc) as (T & HT). apply (ab_table _ _ _ _ _ _ HT). Qed.

(* ======================================================================================== *)
(* 7. HASHRPF: list lemmas about the in-band terminator                                       *)

Lemma uniq_term_split {A} (m : A) : forall a b y y',
  a ++ m :: y = b ++ m :: y' -> ~ In m a -> ~ In m b -> a = b /\ y = y'.
Proof.
  induction a as [|x a IH]; intros [|z b] y y' E Ha Hb; cbn [app] in E.
  - inversion E. split; reflexivity.
  - inversion E; subst. exfalso. apply Hb. left. reflexivity.
  - inversion E; subst. exfalso. apply Ha. left. reflexivity.
  - inversion E; subst. destruct (IH b y y' H1) as [-> ->].
    + intros Hin. apply Ha. right. exact Hin.
    + intros Hin. apply Hb. right. exact Hin.
    + split; reflexivity.
Qed.

Lemma setN_snoc {A} (l : list A) a b : dh_setN (l ++ [a]) (lenN l) b = l ++ [b].
Proof.
  unfold dh_setN, lenN. rewrite Nat2N.id. induction l as [|x l IH]; cbn [app length dh_set]; [reflexivity|].
  rewrite IH. reflexivity.
Qed.

Lemma nthN_snoc_last {A} (l : list A) a : nthN (l ++ [a]) (lenN l) = Some a.
Proof. rewrite nthN_after. reflexivity. Qed.

(* cmp_list against an arbitrary buffer (no terminator convention): no read beyond the buffer as long as
   the buffer is not exhausted strictly inside x *)
Lemma cmp_list_gen x : forall pre rest, lenN pre + lenN rest < 2 ^ 32 ->
  (is_prefix rest x = true -> rest = x) ->
  exists z p, cmp_list x (pre ++ rest) (lenN pre) = Some (z, p) /\
    if is_prefix x rest then z = 0%Z /\ p = lenN pre + lenN x else z <> 0%Z.
Proof.
  induction x as [|c x IH]; intros pre rest Hlen Hex.
  - exists 0%Z, (lenN pre). cbn [cmp_list is_prefix]. rewrite lenN_nil. repeat split. lia.
  - destruct rest as [|b rest].
    + specialize (Hex eq_refl). discriminate.
    + cbn [cmp_list]. unfold cmp_char0. rewrite nthN_after. change (nthN (b :: rest) 0) with (Some b). cbv beta iota.
      rewrite lenN_cons in Hlen. cbn [is_prefix].
      destruct (N.eqb_spec c b) as [->|Hcb].
      * cbn [Z.eqb andb]. rewrite u32_small by lia.
        replace (lenN pre + 1) with (lenN (pre ++ [b])) by apply lenN_snoc'.
        replace (pre ++ b :: rest) with ((pre ++ [b]) ++ rest) by (rewrite <- app_assoc; reflexivity).
        destruct (IH (pre ++ [b]) rest) as (z & p & E & Hs).
        { rewrite lenN_snoc'. lia. }
        { intros Hp. assert (b :: rest = b :: x) as E' by (apply Hex; cbn [is_prefix]; rewrite N.eqb_refl; exact Hp).
          inversion E'. reflexivity. }
        exists z, p. split; [exact E|]. destruct (is_prefix x rest); [|exact Hs].
        rewrite lenN_snoc', lenN_cons in *. destruct Hs; split; [assumption|lia].
      * cbn [andb]. destruct (Z.eqb_spec (Z.of_N c - Z.of_N b) 0) as [E|_]; [lia|].
        eexists _, _. split; [reflexivity|]. lia.
Qed.

Lemma expand_sym_bound rules t : forall f a x, expand_sym rules t f a = Some x -> a < t + lenN rules.
Proof.
  intros f a x H. rewrite expand_sym_eq in H. destruct (N.ltb_spec a t); [lia|].
  destruct f; [discriminate|]. destruct (nthN rules (a - t)) as [[l r]|] eqn:E; [|discriminate].
  apply nthN_Some_lt in E. lia.
Qed.

Lemma expand_list_nonempty rules t f : forall seq w, seq <> [] -> expand_list rules t f seq = Some w -> w <> [].
Proof.
  intros [|a seq] w Hne H; [congruence|]. cbn [expand_list] in H.
  destruct (expand_sym rules t f a) as [x|] eqn:Ex; [|discriminate].
  destruct (expand_list rules t f seq) as [y|]; [|discriminate]. inversion H; subst.
  pose proof (expand_sym_nonempty rules t f a x Ex). intros E. apply app_eq_nil in E. tauto.
Qed.

(* ---------------------------------------------------------------------------------------- *)
(* 8. the loop of extractStringAndCompareRP over one stored string                            *)

Section RPFGrammar.
  Variables (rules : list rule) (t mc : N).
  Hypothesis Ht : 1 <= t <= 256.
  Hypothesis Hsz : t + lenN rules < 2 ^ 31.

  Lemma rpf_cmp_loop_spec cls gfuel : lenN cls < 2 ^ 32 ->
    forall seq w' cpre cpost pre r' fuel id l,
    cls = cpre ++ seq ++ cpost -> id + l = lenN cpre ->
    expand_list rules t gfuel seq = Some (w' ++ [mc]) -> ~ In mc w' -> ~ In mc r' ->
    lenN pre + lenN r' + 1 < 2 ^ 32 -> (N.to_nat (lenN r') < fuel)%nat ->
    exists z e, rpf_cmp_loop rules t cls (pre ++ r' ++ [mc]) gfuel fuel id l (lenN pre) (lenN pre + lenN r') 0%Z = Some (z, e) /\
                (z = 0%Z <-> w' = r').
  Proof.
    intros Hcl. induction seq as [|a seq IH]; intros w' cpre cpost pre r' fuel id l Ecls Eid Hex Hw Hr Hlen Hfuel.
    - cbn [expand_list] in Hex. inversion Hex as [E]. destruct w'; discriminate.
    - cbn [expand_list] in Hex.
      destruct (expand_sym rules t gfuel a) as [x|] eqn:Ex; [|discriminate].
      destruct (expand_list rules t gfuel seq) as [w2|] eqn:Ew2; [|discriminate].
      inversion Hex as [Ew]. clear Hex.
      pose proof (expand_sym_nonempty rules t gfuel a x Ex) as Hxne.
      pose proof (expand_sym_bound rules t gfuel a x Ex) as Hab. pose proof pow31_32 as P.
      destruct fuel as [|f]; [lia|].
      cbn [rpf_cmp_loop]. destruct (N.leb_spec (lenN pre) (lenN pre + lenN r')) as [_|]; [|lia].
      assert (Hlc : lenN cpre + 1 + lenN seq + lenN cpost = lenN cls).
      { rewrite Ecls, !lenN_app, lenN_cons. lia. }
      rewrite (u32_small (id + l)) by lia. rewrite Eid, Ecls. rewrite nthN_after. cbn [app].
      change (nthN (a :: seq ++ cpost) 0) with (Some a). cbv beta iota zeta.
      rewrite (u32_small a) by lia.
      rewrite (cmp_sym_list rules t Ht Hsz _ gfuel a x _ Ex).
      (* the buffer is not exhausted strictly inside x *)
      assert (Hex' : is_prefix (r' ++ [mc]) x = true -> r' ++ [mc] = x).
      { intros Hp. apply is_prefix_app in Hp. destruct Hp as [y Hy]. rewrite <- app_assoc in Hy. cbn [app] in Hy.
        destruct w2 as [|b0 w2'].
        - rewrite app_nil_r in Ew. subst x.
          replace (w' ++ [mc]) with (w' ++ mc :: []) in Hy by reflexivity.
          destruct (uniq_term_split mc w' r' [] y Hy Hw Hr) as [-> <-]. reflexivity.
        - exfalso. destruct (exists_last (l := b0 :: w2') ltac:(discriminate)) as (w20 & lst & Elast).
          rewrite Elast in Ew. rewrite app_assoc in Ew. apply app_inj_tail in Ew. destruct Ew as [Ew _].
          apply Hw. rewrite <- Ew. apply in_or_app. left. rewrite Hy. apply in_or_app. right. left. reflexivity. }
      destruct (cmp_list_gen x pre (r' ++ [mc])) as (z & p & Ez & Hz); [rewrite lenN_snoc'; lia|exact Hex'|].
      rewrite Ez.
      destruct (is_prefix x (r' ++ [mc])) eqn:Epx.
      + destruct Hz as [-> ->]. cbn [Z.eqb].
        apply is_prefix_app in Epx. destruct Epx as [y Hy].
        destruct w2 as [|b0 w2'].
        * (* x is the whole remaining string: equal iff the pattern ends here too *)
          rewrite app_nil_r in Ew. subst x.
          replace (r' ++ [mc]) with (r' ++ mc :: []) in Hy by reflexivity.
          rewrite <- app_assoc in Hy. cbn [app] in Hy.
          destruct (uniq_term_split mc r' w' [] y Hy Hr Hw) as [-> <-].
          rewrite lenN_snoc'. destruct f as [|f'].
          { cbn [rpf_cmp_loop]. destruct (N.leb_spec (lenN pre + (lenN w' + 1)) (lenN pre + lenN w')); [lia|].
            eexists _, _. split; [reflexivity|]. destruct (t <=? a); tauto. }
          { cbn [rpf_cmp_loop]. destruct (N.leb_spec (lenN pre + (lenN w' + 1)) (lenN pre + lenN w')); [lia|].
            eexists _, _. split; [reflexivity|]. destruct (t <=? a); tauto. }
        * (* more symbols follow: x carries no terminator, continue with the rest of the pattern *)
          destruct (exists_last (l := b0 :: w2') ltac:(discriminate)) as (w20 & lst & Elast).
          rewrite Elast in Ew, Ew2. rewrite app_assoc in Ew. apply app_inj_tail in Ew. destruct Ew as [Ew Elst]. subst lst.
          assert (Hxmc : ~ In mc x) by (intros Hin; apply Hw; rewrite <- Ew; apply in_or_app; left; exact Hin).
          assert (Hw20 : ~ In mc w20) by (intros Hin; apply Hw; rewrite <- Ew; apply in_or_app; right; exact Hin).
          destruct y as [|yb y1].
          { exfalso. rewrite app_nil_r in Hy. apply Hxmc. rewrite <- Hy. apply in_or_app. right. left. reflexivity. }
          destruct (exists_last (l := yb :: y1) ltac:(discriminate)) as (y0 & ylast & Ey).
          rewrite Ey in Hy. rewrite app_assoc in Hy. apply app_inj_tail in Hy. destruct Hy as [Hr' _].
          assert (Hy0 : ~ In mc y0) by (intros Hin; apply Hr; rewrite Hr'; apply in_or_app; right; exact Hin).
          rewrite (u32_small (l + 1)) by lia.
          replace (if t <=? a then 0%Z else 0%Z) with 0%Z by (destruct (t <=? a); reflexivity).
          subst r'. rewrite lenN_app in *.
          replace (pre ++ (x ++ y0) ++ [mc]) with ((pre ++ x) ++ y0 ++ [mc]) by (rewrite <- !app_assoc; reflexivity).
          replace (lenN pre + lenN x) with (lenN (pre ++ x)) by apply lenN_app.
          replace (lenN pre + (lenN x + lenN y0)) with (lenN (pre ++ x) + lenN y0) by (rewrite lenN_app; lia).
          assert (Hx1 : 1 <= lenN x) by (destruct x; [congruence|rewrite lenN_cons; lia]).
          destruct (IH w20 (cpre ++ [a]) cpost (pre ++ x) y0 f id (l + 1)) as (z & e & Ez' & Hz').
          { rewrite Ecls, <- app_assoc. reflexivity. }
          { rewrite lenN_snoc'. lia. }
          { f_equal. exact Elast. }
          { exact Hw20. }
          { exact Hy0. }
          { rewrite lenN_app. lia. }
          { lia. }
          exists z, e. split; [rewrite Ecls in Ez'; exact Ez'|]. rewrite Hz'. rewrite <- Ew. split; [intros ->; reflexivity|].
          intros E. apply app_inv_head in E. exact E.
      + destruct (Z.eqb_spec z 0) as [|_]; [contradiction|].
        eexists _, _. split; [reflexivity|]. split; [contradiction|].
        intros ->. exfalso. rewrite <- Ew in Epx.
        assert (is_prefix x (x ++ w2) = true) by (apply is_prefix_app; eauto). congruence.
  Qed.
End RPFGrammar.

(* the loop of HASHRPF::extract over one stored string *)
Section RPFExtract.
  Variables (rules : list rule) (t mc : N).
  Hypothesis Ht : 1 <= t <= 256.
  Hypothesis Hsz : t + lenN rules < 2 ^ 31.

  Lemma rpf_xloop_spec cls gfuel k : lenN cls < 2 ^ 32 -> ~ In mc k ->
    forall seq w acc cpre cpost fuel position ptr,
    cls = cpre ++ seq ++ cpost -> position + ptr = lenN cpre -> seq <> [] ->
    expand_list rules t gfuel seq = Some w -> acc ++ w = k ++ [mc] -> (length seq <= fuel)%nat ->
    rpf_xloop rules t mc cls gfuel fuel position ptr acc = Some (k ++ [mc]).
  Proof.
    intros Hcl Hk. induction seq as [|a seq IH]; intros w acc cpre cpost fuel position ptr Ecls Epos Hne Hex Hacc Hfuel; [congruence|].
    cbn [expand_list] in Hex.
    destruct (expand_sym rules t gfuel a) as [x|] eqn:Ex; [|discriminate].
    destruct (expand_list rules t gfuel seq) as [w2|] eqn:Ew2; [|discriminate].
    inversion Hex as [Ew]. clear Hex. subst w.
    pose proof (expand_sym_nonempty rules t gfuel a x Ex) as Hxne.
    pose proof (expand_sym_bound rules t gfuel a x Ex) as Hab. pose proof pow31_32 as P.
    cbn [length] in Hfuel. destruct fuel as [|f]; [lia|]. cbn [rpf_xloop].
    assert (Hlc : lenN cpre + 1 + lenN seq + lenN cpost = lenN cls).
    { rewrite Ecls, !lenN_app, lenN_cons. lia. }
    rewrite (u32_small (position + ptr)) by lia. rewrite Epos. rewrite Ecls at 1. rewrite nthN_after. cbn [app].
    change (nthN (a :: seq ++ cpost) 0) with (Some a). cbv beta iota zeta.
    rewrite (u32_small a) by lia. rewrite (xsym_expand rules t Ht Hsz gfuel a x Ex).
    destruct (exists_last Hxne) as (x0 & b & Ex0).
    assert (Elen : lenN (acc ++ x) = lenN (acc ++ x0) + 1) by (rewrite Ex0, app_assoc; apply lenN_snoc').
    destruct (N.eqb_spec (lenN (acc ++ x)) 0) as [E0|_]; [lia|].
    replace (lenN (acc ++ x) - 1) with (lenN (acc ++ x0)) by lia.
    replace (nthN (acc ++ x) (lenN (acc ++ x0))) with (Some b)
      by (rewrite Ex0, app_assoc; symmetry; apply nthN_snoc_last).
    destruct seq as [|a2 seq'].
    - cbn [expand_list] in Ew2. inversion Ew2; subst w2. rewrite app_nil_r in Hacc.
      assert (Hb : b = mc).
      { rewrite Ex0, app_assoc in Hacc. apply app_inj_tail in Hacc. tauto. }
      subst b. rewrite N.eqb_refl. rewrite Hacc. reflexivity.
    - assert (Hw2 : w2 <> []) by (eapply expand_list_nonempty; [|exact Ew2]; discriminate).
      destruct (exists_last Hw2) as (w20 & lst & Ew20).
      assert (Hk' : acc ++ x ++ w20 = k).
      { rewrite Ew20 in Hacc. rewrite !app_assoc in Hacc. apply app_inj_tail in Hacc. destruct Hacc as [Hacc _].
        rewrite <- app_assoc in Hacc. exact Hacc. }
      assert (Hb : b <> mc).
      { intros ->. apply Hk. rewrite <- Hk'. apply in_or_app. right. apply in_or_app. left. rewrite Ex0.
        apply in_or_app. right. left. reflexivity. }
      destruct (N.eqb_spec b mc) as [|_]; [contradiction|].
      rewrite (u32_small (ptr + 1)) by lia.
      apply (IH w2 (acc ++ x) (cpre ++ [a]) cpost f position (ptr + 1)).
      + rewrite Ecls, <- app_assoc. reflexivity.
      + rewrite lenN_snoc'. lia.
      + discriminate.
      + reflexivity.
      + rewrite <- app_assoc. exact Hacc.
      + cbn [length] in *. lia.
  Qed.
End RPFExtract.

(* ---------------------------------------------------------------------------------------- *)
(* 9. offsets: starts of the segments, the three hash representations                          *)

Lemma hd_occ_occ {A} (t : list (option A)) : hd_occ t = occ t.
Proof. induction t as [|[x|] r IH]; cbn [hd_occ occ]; congruence. Qed.

Lemma starts_length segs : forall base, length (hd_starts base segs) = length segs.
Proof. induction segs as [|s r IH]; intros base; cbn [hd_starts length]; [reflexivity|]. rewrite IH. reflexivity. Qed.

Lemma starts_nth segs : forall j base o, nth_error (hd_starts base segs) j = Some o ->
  exists pre seg post, segs = pre ++ seg :: post /\ length pre = j /\ o = base + lenN (concat pre).
Proof.
  induction segs as [|s r IH]; intros [|j] base o H; cbn [hd_starts nth_error] in H; try discriminate.
  - inversion H; subst. exists [], s, r. cbn [app concat length]. rewrite lenN_nil. repeat split. lia.
  - destruct (IH j _ o H) as (pre & seg & post & -> & Hl & ->).
    exists (s :: pre), seg, post. cbn [app concat length]. rewrite lenN_app. repeat split; lia.
Qed.

Lemma starts_ge segs : forall base x, In x (hd_starts base segs) -> base <= x.
Proof.
  induction segs as [|s r IH]; intros base x H; cbn [hd_starts In] in H; [contradiction|].
  destruct H as [<-|H]; [lia|]. specialize (IH _ _ H). lia.
Qed.

Lemma starts_sorted segs : Forall (fun s => s <> []) segs -> forall base, StronglySorted N.lt (hd_starts base segs).
Proof.
  induction 1 as [|s r Hs _ IH]; intros base; cbn [hd_starts]; constructor; [apply IH|].
  apply Forall_forall. intros x Hx. apply starts_ge in Hx.
  assert (1 <= lenN s) by (destruct s; [congruence|rewrite lenN_cons; lia]). lia.
Qed.

Definition repr_ok (r : hrepr) (ot : dh_otable) : Prop :=
  hr_bits r = dh_bits_of ot /\
  (forall c o, nthN ot c = Some (Some o) -> hr_getValuePos r c = Some o) /\
  (forall id, 1 <= id <= lenN (hd_occ ot) -> hr_getValue r id = nthN (hd_occ ot) (id - 1)).

(* Hash::load with options 1, 2, 3 on the image of the full table: all three answer alike *)
Lemma hr_load_ok ot opt : StronglySorted N.lt (hd_occ ot) -> 1 <= lenN (hd_occ ot) -> 1 <= opt <= 3 ->
  exists r, hr_load (dh_finish ot) (lenN (hd_occ ot)) opt = Some r /\ repr_ok r ot.
Proof.
  intros Hs Hn Hopt. rewrite hd_occ_occ in *.
  destruct (hash_repr_equiv ot Hs Hn) as (comp & offb & _ & Ec & Eo & Hpos & Hval).
  assert (Hv : forall id, 1 <= id <= lenN (occ ot) ->
            getValue_dh (dh_finish ot) id = nthN (occ ot) (id - 1) /\ getValue_B comp id = nthN (occ ot) (id - 1) /\
            getValue_BB offb id = nthN (occ ot) (id - 1)).
  { intros id Hid. destruct (Hval id Hid) as (o & -> & -> & -> & ->). repeat split. }
  unfold hr_load. assert (Ho : opt = 1 \/ opt = 2 \/ opt = 3) by lia. destruct Ho as [->|[->| ->]]; cbn [N.eqb Pos.eqb].
  - eexists. split; [reflexivity|]. split; [reflexivity|]. split.
    + intros c o Hc. apply (Hpos c o Hc).
    + intros id Hid. apply (Hv id Hid).
  - rewrite Ec. cbn [option_map]. eexists. split; [reflexivity|]. split; [reflexivity|]. split.
    + intros c o Hc. apply (Hpos c o Hc).
    + intros id Hid. apply (Hv id Hid).
  - rewrite Eo. cbn [option_map]. eexists. split; [reflexivity|]. split; [reflexivity|]. split.
    + intros c o Hc. apply (Hpos c o Hc).
    + intros id Hid. apply (Hv id Hid).
Qed.

(* ---------------------------------------------------------------------------------------- *)
(* 10. HASHRPF: well-formed objects                                                           *)

Record hashrpf_wf (d : hrpf) (ks : list hkey) (t : dh_table) (ot : dh_otable) (segs : list (list N)) : Prop := {
  fw_ok : dh_build_ok (lenN (hr_bits (hf_repr d))) ks = true;
  fw_build : exists cs, dh_build (lenN (hr_bits (hf_repr d))) ks = Some (t, cs);
  fw_bits_t : hr_bits (hf_repr d) = dh_bits_of t;
  fw_bits_ot : dh_bits_of ot = dh_bits_of t;
  fw_repr : repr_ok (hf_repr d) ot;
  fw_cls : hf_cls d = concat segs;
  fw_offs : hd_occ ot = hd_starts 0 segs;
  fw_exp : map (expand_seq (hf_rules d) (hf_t d)) segs = map (fun k => Some (k ++ [hf_maxchar d])) (dh_tdict t);
  fw_t : 1 <= hf_t d <= 256;
  fw_sz : hf_t d + lenN (hf_rules d) < 2 ^ 31;
  fw_rules : rules_wf (hf_t d) (hf_rules d);
  fw_mc : 1 <= hf_maxchar d < hf_t d;
  fw_mc_keys : Forall (fun k => ~ In (hf_maxchar d) k) (map hk_key ks);
  fw_keys : hd_keys_ok ks;
  fw_n : lenN ks < 2 ^ 31;
  fw_n1 : 1 <= lenN ks;
  fw_el : hf_elements d = lenN ks;
  fw_ml : hf_maxlength d = spec_maxlen (dh_tdict t) + 1;
  fw_mlb : hf_maxlength d < 2 ^ 32;
  fw_clslen : lenN (hf_cls d) < 2 ^ 32
}.

Section HashRPF.
  Variables (d : hrpf) (ks : list hkey) (t : dh_table) (ot : dh_otable) (segs : list (list N)).
  Hypothesis Hwf : hashrpf_wf d ks t ot segs.

  Let T : list str := dh_tdict t.
  Let mc := hf_maxchar d.
  Let bits := hr_bits (hf_repr d).

  Lemma hrf_lenT : lenN T = lenN ks.
  Proof. destruct (fw_build _ _ _ _ _ Hwf) as (cs & Hb). apply (tf_len _ _ _ _ Hb). Qed.

  Lemma hrf_T_keys k : In k T -> In k (map hk_key ks).
  Proof. destruct (fw_build _ _ _ _ _ Hwf) as (cs & Hb). apply (tf_in _ _ _ _ Hb). Qed.

  Lemma hrf_T_mc k : In k T -> ~ In mc k.
  Proof.
    intros Hin. pose proof (fw_mc_keys _ _ _ _ _ Hwf) as H. rewrite Forall_forall in H. apply H. apply hrf_T_keys. exact Hin.
  Qed.

  Lemma hrf_T_len k : In k T -> lenN k + 1 < 2 ^ 32.
  Proof.
    intros Hin. pose proof (spec_maxlen_bounds_aux T k Hin). pose proof (fw_ml _ _ _ _ _ Hwf). pose proof (fw_mlb _ _ _ _ _ Hwf).
    fold T in H0. lia.
  Qed.

  (* the j-th string of T, its offset and its segment of Cls *)
  Lemma hrf_seg_of_index j k : nth_error T j = Some k ->
    exists o pre seg post, nth_error (hd_occ ot) j = Some o /\ segs = pre ++ seg :: post /\ length pre = j /\
      o = lenN (concat pre) /\ expand_seq (hf_rules d) (hf_t d) seg = Some (k ++ [mc]).
  Proof.
    intros Hj. pose proof (fw_exp _ _ _ _ _ Hwf) as Hexp. fold T mc in Hexp.
    assert (Hlen : length segs = length T).
    { apply (f_equal (@length _)) in Hexp. rewrite !map_length in Hexp. exact Hexp. }
    assert (Hjl : (j < length T)%nat) by (apply nth_error_Some; congruence).
    rewrite (fw_offs _ _ _ _ _ Hwf).
    destruct (nth_error (hd_starts 0 segs) j) as [o|] eqn:Eo.
    2:{ apply nth_error_None in Eo. rewrite starts_length in Eo. lia. }
    destruct (starts_nth segs j 0 o Eo) as (pre & seg & post & Es & Hl & Ho).
    exists o, pre, seg, post. split; [reflexivity|]. split; [exact Es|]. split; [exact Hl|]. split; [lia|].
    assert (E1 : nth_error (map (expand_seq (hf_rules d) (hf_t d)) segs) j = Some (expand_seq (hf_rules d) (hf_t d) seg)).
    { apply map_nth_error. rewrite Es, <- Hl. rewrite nth_error_app2 by lia. rewrite Nat.sub_diag. reflexivity. }
    rewrite Hexp in E1. rewrite (map_nth_error _ _ _ Hj) in E1. inversion E1. reflexivity.
  Qed.

  (* an occupied cell: its key, the offset stored for it, the segment at that offset *)
  Lemma hrf_cell c k : nthN t c = Some (Some k) ->
    In k T /\ nthN bits c = Some true /\ dh_rank1 bits c = dh_id_of_cell t c /\
    exists o pre seg post, hr_getValuePos (hf_repr d) c = Some o /\ segs = pre ++ seg :: post /\
      o = lenN (concat pre) /\ expand_seq (hf_rules d) (hf_t d) seg = Some (k ++ [mc]).
  Proof.
    intros Hc. destruct (id_of_cell_spec t c k Hc) as [[H1 H2] H3]. fold T in H2, H3.
    split; [eapply nthN_In; exact H3|].
    unfold bits. rewrite (fw_bits_t _ _ _ _ _ Hwf). split; [rewrite bits_of_nthN, Hc; reflexivity|]. split; [reflexivity|].
    assert (Hoc : exists o', nthN ot c = Some (Some o')).
    { pose proof (bits_of_nthN ot c) as B. rewrite (fw_bits_ot _ _ _ _ _ Hwf), bits_of_nthN, Hc in B. cbn in B.
      destruct (nthN ot c) as [[o'|]|]; cbn in B; try discriminate. eauto. }
    destruct Hoc as (o' & Ho').
    destruct (rank_occ ot (N.to_nat c) o' Ho') as [_ R]. rewrite (fw_bits_ot _ _ _ _ _ Hwf) in R.
    change (dh_count1 (firstn (S (N.to_nat c)) (dh_bits_of t))) with (dh_id_of_cell t c) in R.
    destruct (hrf_seg_of_index (N.to_nat (dh_id_of_cell t c - 1)) k H3) as (o & pre & seg & post & Eo & Es & Hl & Ho & Hx).
    rewrite hd_occ_occ in Eo. unfold nthN in R. rewrite R in Eo. inversion Eo; subst o'.
    exists o, pre, seg, post. split; [|tauto].
    destruct (fw_repr _ _ _ _ _ Hwf) as (_ & Hp & _). apply Hp. exact Ho'.
  Qed.

  Lemma hrf_cls_split pre seg post : segs = pre ++ seg :: post ->
    hf_cls d = concat pre ++ seg ++ concat post.
  Proof. intros ->. rewrite (fw_cls _ _ _ _ _ Hwf), concat_app. reflexivity. Qed.

  (* extractStringAndCompareRP on the string of an occupied cell: 0 iff equal, the pattern restored *)
  Theorem rp_compare_restores c k q : nthN t c = Some (Some k) -> ~ In mc q -> lenN q + 1 < 2 ^ 32 ->
    exists o z, hr_getValuePos (hf_repr d) c = Some o /\
      rp_compare false d o (q ++ [0]) (lenN q) = Some (z, q ++ [0]) /\ (z = 0%Z <-> k = q).
  Proof.
    intros Hc Hq Hql. destruct (hrf_cell c k Hc) as (Hin & _ & _ & o & pre & seg & post & Eo & Es & Ho & Hx).
    exists o. pose proof (hrf_cls_split pre seg post Es) as Ecls.
    pose proof (fw_clslen _ _ _ _ _ Hwf) as Hcl.
    assert (Hol : o + lenN seg <= lenN (hf_cls d)) by (rewrite Ecls, !lenN_app; lia).
    unfold rp_compare. rewrite nthN_snoc_last. rewrite setN_snoc. fold mc.
    destruct (rpf_cmp_loop_spec (hf_rules d) (hf_t d) mc (fw_t _ _ _ _ _ Hwf) (fw_sz _ _ _ _ _ Hwf) (hf_cls d) (length (hf_rules d)) Hcl
                seg k (concat pre) (concat post) [] q (length (q ++ [mc])) o 0 Ecls) as (z & e & Ez & Hz).
    - lia.
    - exact Hx.
    - apply hrf_T_mc. exact Hin.
    - exact Hq.
    - rewrite lenN_nil. lia.
    - rewrite app_length. cbn [length]. unfold lenN. lia.
    - exists z. split; [exact Eo|].
      rewrite (u32_small o) by lia.
      assert (Ez' : rpf_cmp_loop (hf_rules d) (hf_t d) (hf_cls d) (q ++ [mc]) (length (hf_rules d)) (length (q ++ [mc]))
                      o 0 0 (lenN q) 0 = Some (z, e)) by exact Ez.
      rewrite Ez'.
      cbn [andb]. rewrite setN_snoc. split; [reflexivity|exact Hz].
  Qed.
End HashRPF.

Lemma firstn_lenN_snoc {A} (q : list A) a : firstn (N.to_nat (lenN q)) (q ++ [a]) = q.
Proof.
  unfold lenN. rewrite Nat2N.id, firstn_app, firstn_all, Nat.sub_diag. cbn [firstn]. apply app_nil_r.
Qed.

Section HashRPF2.
  Variables (d : hrpf) (ks : list hkey) (t : dh_table) (ot : dh_otable) (segs : list (list N)).
  Hypothesis Hwf : hashrpf_wf d ks t ot segs.

  Let T : list str := dh_tdict t.
  Let mc := hf_maxchar d.
  Let bits := hr_bits (hf_repr d).

  Lemma hrf_probe_sim q : ~ In mc q -> lenN q + 1 < 2 ^ 32 -> forall b c, b = q ++ [0] ->
    fst (hrf_probe false d (lenN q) b c) = probe_res t q c /\ snd (hrf_probe false d (lenN q) b c) = q ++ [0].
  Proof.
    intros Hq Hql b c ->. unfold hrf_probe, probe_res. fold bits.
    destruct (nthN t c) as [[k|]|] eqn:Ec.
    - destruct (hrf_cell d ks t ot segs Hwf c k Ec) as (_ & Hb & Hr & _). fold bits in Hb, Hr. rewrite Hb.
      destruct (rp_compare_restores d ks t ot segs Hwf c k q Ec Hq Hql) as (o & z & Eo & Ez & Hz).
      rewrite Eo, Ez. rewrite Hr.
      destruct (Z.eqb_spec z 0) as [E|E].
      + apply Hz in E. subst k. rewrite key_eqb_refl. split; reflexivity.
      + rewrite key_eqb_neq by (intros E'; apply E, Hz, E'). split; reflexivity.
    - unfold bits. rewrite (fw_bits_t _ _ _ _ _ Hwf), bits_of_nthN, Ec. split; reflexivity.
    - unfold bits. rewrite (fw_bits_t _ _ _ _ _ Hwf), bits_of_nthN, Ec. split; reflexivity.
  Qed.

  (* locate: the answer of the abstract table, and the pattern buffer is what the caller passed *)
  Lemma hashrpf_locate_dh hq : lenN (hk_key hq) + 1 < 2 ^ 32 ->
    snd (hashrpf_locate d hq) = hk_key hq ++ [0] /\
    (~ In mc (hk_key hq) -> fst (hashrpf_locate d hq) = dh_locate_mul t hq) /\
    (In mc (hk_key hq) -> fst (hashrpf_locate d hq) = Some 0).
  Proof.
    intros Hql. unfold hashrpf_locate, hashrpf_locate_gen. cbn [andb]. fold mc bits.
    rewrite (u32_small (lenN (hk_key hq))) by lia. rewrite firstn_lenN_snoc.
    destruct (existsb (N.eqb mc) (hk_key hq)) eqn:Eg.
    - apply existsb_eqb_In in Eg. cbn [fst snd]. split; [reflexivity|]. split; [intros H; contradiction|reflexivity].
    - assert (Hq : ~ In mc (hk_key hq)) by (intros H; apply existsb_eqb_In in H; congruence).
      destruct (hd_locate_sim (hrf_probe false d (lenN (hk_key hq))) t (hk_key hq) (fun b => b = hk_key hq ++ [0]))
        with (bits := bits) (b := hk_key hq ++ [0]) (h1 := hk_h1 hq) (h2 := hk_h2 hq) as [E1 E2].
      + intros b c Hb. apply hrf_probe_sim; assumption.
      + unfold bits. rewrite (fw_bits_t _ _ _ _ _ Hwf). apply bits_of_length.
      + reflexivity.
      + split; [exact E2|]. split; [|intros H; contradiction]. intros _. rewrite E1. destruct hq; reflexivity.
  Qed.

  Theorem hashrpf_locate_member hk : In hk ks ->
    hashrpf_locate d hk = (Some (spec_locate T (hk_key hk)), hk_key hk ++ [0]).
  Proof.
    intros Hin. pose proof (fw_ok _ _ _ _ _ Hwf) as Hok. destruct (fw_build _ _ _ _ _ Hwf) as (cs & Hb).
    assert (HinT : In (hk_key hk) T) by (apply (tf_in _ _ _ _ Hb); apply in_map; exact Hin).
    destruct (hashrpf_locate_dh hk (hrf_T_len d ks t ot segs Hwf _ HinT)) as (H1 & H2 & _).
    specialize (H2 (hrf_T_mc d ks t ot segs Hwf _ HinT)).
    rewrite (tf_member_spec _ _ _ _ Hok Hb hk Hin) in H2.
    destruct (hashrpf_locate d hk) as [r b]. cbn [fst snd] in *. subst. reflexivity.
  Qed.

  Theorem hashrpf_locate_absent hq : lenN (hk_key hq) + 1 < 2 ^ 32 -> hk_h1 hq < lenN bits ->
    ~ In (hk_key hq) (map hk_key ks) -> hashrpf_locate d hq = (Some 0, hk_key hq ++ [0]).
  Proof.
    intros Hql Hh Hni. destruct (fw_build _ _ _ _ _ Hwf) as (cs & Hb).
    destruct (hashrpf_locate_dh hq Hql) as (H1 & H2 & H3).
    assert (E : fst (hashrpf_locate d hq) = Some 0).
    { destruct (in_dec N.eq_dec mc (hk_key hq)) as [Hi|Hi]; [apply H3; exact Hi|].
      rewrite (H2 Hi). apply (tf_absent _ _ _ _ Hb); assumption. }
    destruct (hashrpf_locate d hq) as [r b]. cbn [fst snd] in *. subst. reflexivity.
  Qed.

  Theorem hashrpf_extract_T id : hashrpf_extract d id = Some (spec_extract T id).
  Proof.
    unfold hashrpf_extract. rewrite (fw_el _ _ _ _ _ Hwf). pose proof (hrf_lenT d ks t ot segs Hwf) as HlT. fold T in HlT.
    destruct (N.ltb_spec 0 id) as [H0|H0]; cbn [andb].
    2:{ f_equal. symmetry. apply spec_extract_out_of_range. left. lia. }
    destruct (N.leb_spec id (lenN ks)) as [H1|H1].
    2:{ f_equal. symmetry. apply spec_extract_out_of_range. right. lia. }
    destruct (nthN_lt_Some T (id - 1)) as [k Hk]; [lia|].
    destruct (hrf_seg_of_index d ks t ot segs Hwf (N.to_nat (id - 1)) k Hk) as (o & pre & seg & post & Eo & Es & Hl & Ho & Hx).
    fold mc in Hx.
    destruct (fw_repr _ _ _ _ _ Hwf) as (_ & _ & Hv).
    assert (Hlo : lenN (hd_occ ot) = lenN T).
    { rewrite (fw_offs _ _ _ _ _ Hwf). unfold lenN. rewrite starts_length.
      pose proof (fw_exp _ _ _ _ _ Hwf) as Hexp. apply (f_equal (@length _)) in Hexp. rewrite !map_length in Hexp.
      fold T in Hexp. rewrite Hexp. reflexivity. }
    rewrite Hv by lia. unfold nthN at 1. rewrite Eo.
    pose proof (hrf_cls_split d ks t ot segs Hwf pre seg post Es) as Ecls.
    pose proof (fw_clslen _ _ _ _ _ Hwf) as Hcl.
    assert (Hol : o + lenN seg <= lenN (hf_cls d)) by (rewrite Ecls, !lenN_app; lia).
    assert (Hin : In k T) by (eapply nthN_In; exact Hk).
    assert (Hsne : seg <> []).
    { intros ->. cbv in Hx. inversion Hx as [E]. destruct k; discriminate. }
    rewrite (u32_small o) by lia. fold mc.
    rewrite (rpf_xloop_spec (hf_rules d) (hf_t d) mc (fw_t _ _ _ _ _ Hwf) (fw_sz _ _ _ _ _ Hwf) (hf_cls d) (length (hf_rules d)) k
               Hcl (hrf_T_mc d ks t ot segs Hwf k Hin) seg (k ++ [mc]) [] (concat pre) (concat post) (length (hf_cls d)) o 0 Ecls).
    - rewrite lenN_snoc'. pose proof (spec_maxlen_bounds_aux T k Hin) as Hb. pose proof (fw_ml _ _ _ _ _ Hwf) as Hml. fold T in Hml.
      destruct (N.leb_spec (lenN k + 1) (hf_maxlength d + 1)); [|lia].
      rewrite removelast_last. unfold spec_extract. destruct (N.eqb_spec id 0); [lia|]. rewrite Hk. reflexivity.
    - lia.
    - exact Hsne.
    - exact Hx.
    - reflexivity.
    - rewrite Ecls, !app_length. lia.
  Qed.

  Theorem hashrpf_table_T : hashrpf_table d = Some (map Some T).
  Proof.
    unfold hashrpf_table. rewrite (fw_el _ _ _ _ _ Hwf). pose proof (hrf_lenT d ks t ot segs Hwf) as HlT. fold T in HlT.
    rewrite <- HlT.
    rewrite (table_loop_spec (hashrpf_extract d) T) by (try apply hashrpf_extract_T; try (rewrite HlT; apply (fw_n _ _ _ _ _ Hwf)); lia).
    reflexivity.
  Qed.

  Lemma hrf_T_perm : Permutation T (map hk_key ks).
  Proof. destruct (fw_build _ _ _ _ _ Hwf) as (cs & Hb). apply (tf_perm _ _ _ _ Hb). Qed.

  Lemma hrf_T_nodup : NoDup T.
  Proof. destruct (fw_build _ _ _ _ _ Hwf) as (cs & Hb). apply (tf_nodup _ _ _ _ (fw_ok _ _ _ _ _ Hwf) Hb). Qed.
End HashRPF2.

(* ---------------------------------------------------------------------------------------- *)
(* 11. HASHRPF: the checker is sound; the loaded representations are well formed as well        *)

Definition hashrpf_wf0 (d : hrpf) (ks : list hkey) (t : dh_table) (ot : dh_otable) (segs : list (list N)) : Prop :=
  hashrpf_wf d ks t ot segs /\ hf_repr d = RDh (dh_finish ot) /\
  StronglySorted N.lt (hd_occ ot) /\ lenN (hd_occ ot) = lenN ks.

Lemma finish_eq ot f : bools_eqb (ft_bits (dh_finish ot)) (ft_bits f) = true ->
  list_eqb (ft_hash (dh_finish ot)) (ft_hash f) = true -> dh_finish ot = f.
Proof.
  intros H1 H2. apply bools_eqb_eq in H1. apply list_eqb_eq in H2. destruct f as [b h].
  unfold dh_finish in *. cbn [ft_bits ft_hash] in *. subst. reflexivity.
Qed.

Lemma segs_nonempty rules t (g : str -> str) : (forall k, g k <> []) -> forall segs T,
  map (expand_seq rules t) segs = map (fun k => Some (g k)) T -> Forall (fun s => s <> []) segs.
Proof.
  intros Hg. induction segs as [|s r IH]; intros [|k T] H; cbn [map] in H; try discriminate; constructor.
  - inversion H as [[H1 H2]]. intros ->. cbv in H1. inversion H1 as [E]. symmetry in E. exact (Hg k E).
  - inversion H. eapply IH; eassumption.
Qed.

Theorem hashrpf_chk_sound d ks : hashrpf_chk d ks = true -> exists t ot segs, hashrpf_wf0 d ks t ot segs.
Proof.
  unfold hashrpf_chk. intros H. destruct (hf_repr d) as [f| |] eqn:Er; try discriminate.
  apply andb_true_iff in H. destruct H as [H0 H].
  destruct (dh_build (lenN (ft_bits f)) ks) as [[t cs]|] eqn:Eb; [|discriminate].
  set (ot := hd_ot (ft_bits f) (ft_hash f)) in *.
  set (segs := hd_cut (hf_cls d) (hd_occ ot)) in *.
  split_andb.
  repeat match goal with H : (_ <=? _) = true |- _ => apply N.leb_le in H end.
  repeat match goal with H : (_ <? _) = true |- _ => apply N.ltb_lt in H end.
  repeat match goal with H : (_ =? _) = true |- _ => apply N.eqb_eq in H end.
  repeat match goal with H : list_eqb _ _ = true |- _ => apply list_eqb_eq in H end.
  assert (Ef : dh_finish ot = f).
  { destruct f as [b h]. unfold dh_finish in *. cbn [ft_bits ft_hash] in *.
    repeat match goal with H : bools_eqb _ _ = true |- _ => apply bools_eqb_eq in H end. congruence. }
  repeat match goal with H : bools_eqb _ _ = true |- _ => apply bools_eqb_eq in H end.
  assert (Hexp : map (expand_seq (hf_rules d) (hf_t d)) segs = map (fun k => Some (k ++ [hf_maxchar d])) (dh_tdict t)).
  { match goal with H : expands_to _ _ _ _ = true |- _ => apply expands_to_map in H; rewrite H end. apply map_map. }
  assert (Hne : Forall (fun s => s <> []) segs).
  { apply (segs_nonempty (hf_rules d) (hf_t d) (fun k => k ++ [hf_maxchar d])) with (T := dh_tdict t); [|exact Hexp].
    intros k E. destruct k; discriminate. }
  assert (Hoffs : hd_occ ot = hd_starts 0 segs) by (symmetry; assumption).
  assert (Hsorted : StronglySorted N.lt (hd_occ ot)) by (rewrite Hoffs; apply starts_sorted; exact Hne).
  assert (Hlo : lenN (hd_occ ot) = lenN ks).
  { rewrite Hoffs. unfold lenN. rewrite starts_length. apply (f_equal (@length _)) in Hexp. rewrite !map_length in Hexp.
    rewrite Hexp. pose proof (tf_len _ _ _ _ Eb) as E. unfold lenN in E. exact E. }
  destruct (hr_load_ok ot 1 Hsorted ltac:(lia) ltac:(lia)) as (r & Er1 & Hr). unfold hr_load in Er1. cbn in Er1. inversion Er1; subst r.
  exists t, ot, segs. split; [|rewrite Ef; auto].
  rewrite <- Ef in Er.
  constructor; rewrite ?Er; cbn [hr_bits]; try assumption; try (rewrite Ef; assumption); try lia.
  - rewrite Ef. eauto.
  - unfold dh_finish. cbn [ft_bits]. rewrite <- Ef in *. unfold dh_finish in *. cbn [ft_bits] in *. congruence.
  - symmetry. assumption.
  - intros i a b Hi.
    match goal with H : rules_ok _ _ = true |- _ => pose proof (rules_ok_from_spec _ _ 0 H i a b Hi) end. lia.
  - apply Forall_forall. intros k Hk.
    match goal with H : forallb (fun k => negb _) _ = true |- _ => rewrite forallb_forall in H; specialize (H k Hk) end.
    intros Hin. apply existsb_eqb_In in Hin. rewrite Hin in *. discriminate.
  - apply hd_keys_ok_sound. assumption.
Qed.

Theorem hashrpf_load_wf d ks t ot segs opt : hashrpf_wf0 d ks t ot segs -> 1 <= opt <= 3 ->
  exists d', hashrpf_load d opt = Some d' /\ hashrpf_wf d' ks t ot segs.
Proof.
  intros (Hwf & Er & Hs & Hlo) Hopt. unfold hashrpf_load. rewrite Er.
  rewrite (fw_el _ _ _ _ _ Hwf), <- Hlo.
  destruct (hr_load_ok ot opt Hs ltac:(rewrite Hlo; apply (fw_n1 _ _ _ _ _ Hwf)) Hopt) as (r & -> & Hr).
  eexists. split; [reflexivity|].
  assert (Hb : hr_bits r = hr_bits (hf_repr d)).
  { destruct Hr as (-> & _). rewrite (fw_bits_ot _ _ _ _ _ Hwf). symmetry. apply (fw_bits_t _ _ _ _ _ Hwf). }
  destruct Hwf. constructor; cbn [hf_repr hf_t hf_maxchar hf_rules hf_cls hf_elements hf_maxlength]; try assumption.
  - rewrite Hb. assumption.
  - rewrite Hb. assumption.
  - rewrite Hb. assumption.
Qed.

(* ---------------------------------------------------------------------------------------- *)
(* 12. HASHRPF: exported theorems, for the three load options at once (same IDs for all three)  *)

Definition hrf_query_ok (d : hrpf) (hq : hkey) : Prop :=
  lenN (hk_key hq) + 1 < 2 ^ 32 /\ hk_h1 hq < lenN (hr_bits (hf_repr d)).

Theorem hashrpf_spec d ks : hashrpf_chk d ks = true ->
  exists T, forall opt, 1 <= opt <= 3 ->
    exists d', hashrpf_load d opt = Some d' /\
      answers_by T ks (hrf_query_ok d') (fun hq => fst (hashrpf_locate d' hq)) (hashrpf_extract d') (hashrpf_table d').
Proof.
  intros Hc. destruct (hashrpf_chk_sound d ks Hc) as (t & ot & segs & Hwf0). exists (dh_tdict t). intros opt Hopt.
  destruct (hashrpf_load_wf d ks t ot segs opt Hwf0 Hopt) as (d' & El & Hwf). exists d'. split; [exact El|].
  split; [apply (hrf_T_perm d' ks t ot segs Hwf)|]. split; [apply (hrf_T_nodup d' ks t ot segs Hwf)|].
  split; [intros hk Hin; rewrite (hashrpf_locate_member d' ks t ot segs Hwf hk Hin); reflexivity|].
  split; [intros hq (H1 & H2) Hni; rewrite (hashrpf_locate_absent d' ks t ot segs Hwf hq H1 H2 Hni); reflexivity|].
  split; [apply (hashrpf_extract_T d' ks t ot segs Hwf)|apply (hashrpf_table_T d' ks t ot segs Hwf)].
Qed.

(* C14: whatever the query (member or not, any hash values), the caller's pattern buffer is intact *)
Theorem hashrpf_pattern_intact d ks opt d' hq : hashrpf_chk d ks = true -> 1 <= opt <= 3 -> hashrpf_load d opt = Some d' ->
  lenN (hk_key hq) + 1 < 2 ^ 32 -> snd (hashrpf_locate d' hq) = hk_key hq ++ [0].
Proof.
  intros Hc Hopt El Hql. destruct (hashrpf_chk_sound d ks Hc) as (t & ot & segs & Hwf0).
  destruct (hashrpf_load_wf d ks t ot segs opt Hwf0 Hopt) as (d'' & El' & Hwf). assert (d'' = d') by congruence. subst d''.
  apply (hashrpf_locate_dh d' ks t ot segs Hwf hq Hql).
Qed.

Theorem hashrpf_locate_spec d ks opt d' : hashrpf_chk d ks = true -> 1 <= opt <= 3 -> hashrpf_load d opt = Some d' ->
  (forall hk, In hk ks ->
     exists id, fst (hashrpf_locate d' hk) = Some id /\ 1 <= id <= lenN ks /\ hashrpf_extract d' id = Some (Some (hk_key hk))) /\
  (forall hq, lenN (hk_key hq) + 1 < 2 ^ 32 -> hk_h1 hq < lenN (hr_bits (hf_repr d')) ->
     ~ In (hk_key hq) (map hk_key ks) -> fst (hashrpf_locate d' hq) = Some 0) /\
  (forall id, 1 <= id <= lenN ks ->
     exists hk, In hk ks /\ hashrpf_extract d' id = Some (Some (hk_key hk)) /\ fst (hashrpf_locate d' hk) = Some id) /\
  (forall hk hk' id, In hk ks -> In hk' ks -> fst (hashrpf_locate d' hk) = Some id -> fst (hashrpf_locate d' hk') = Some id ->
     hk_key hk = hk_key hk').
Proof.
  intros Hc Hopt El. destruct (hashrpf_spec d ks Hc) as (T & HT). destruct (HT opt Hopt) as (d'' & El' & Hab).
  assert (d'' = d') by congruence. subst d''.
  split; [intros hk; apply (ab_member _ _ _ _ _ _ Hab)|].
  split; [intros hq H1 H2; apply (ab_absent _ _ _ _ _ _ Hab); split; assumption|].
  split; [intros id; apply (ab_id _ _ _ _ _ _ Hab)|intros hk hk' id; apply (ab_injective _ _ _ _ _ _ Hab)].
Qed.

Theorem hashrpf_extract_spec d ks opt d' : hashrpf_chk d ks = true -> 1 <= opt <= 3 -> hashrpf_load d opt = Some d' ->
  forall id, ~ (1 <= id <= lenN ks) -> hashrpf_extract d' id = Some None.
Proof.
  intros Hc Hopt El. destruct (hashrpf_spec d ks Hc) as (T & HT). destruct (HT opt Hopt) as (d'' & El' & Hab).
  assert (d'' = d') by congruence. subst d''. intros id. apply (ab_bad_id _ _ _ _ _ _ Hab).
Qed.

Theorem hashrpf_table_spec d ks opt d' : hashrpf_chk d ks = true -> 1 <= opt <= 3 -> hashrpf_load d opt = Some d' ->
  exists l, hashrpf_table d' = Some l /\ lenN l = lenN ks /\
            forall id, 1 <= id <= lenN ks -> hashrpf_extract d' id = nthN l (id - 1).
Proof.
  intros Hc Hopt El. destruct (hashrpf_spec d ks Hc) as (T & HT). destruct (HT opt Hopt) as (d'' & El' & Hab).
  assert (d'' = d') by congruence. subst d''. apply (ab_table _ _ _ _ _ _ Hab).
Qed.

(* the three load options exist and give the same answers (C12 for the load option) *)
Theorem hashrpf_load_options_agree d ks : hashrpf_chk d ks = true ->
  exists d1 d2 d3, hashrpf_load d 1 = Some d1 /\ hashrpf_load d 2 = Some d2 /\ hashrpf_load d 3 = Some d3 /\
    (forall id, hashrpf_extract d1 id = hashrpf_extract d2 id /\ hashrpf_extract d2 id = hashrpf_extract d3 id) /\
    hashrpf_table d1 = hashrpf_table d2 /\ hashrpf_table d2 = hashrpf_table d3 /\
    (forall hk, In hk ks -> hashrpf_locate d1 hk = hashrpf_locate d2 hk /\ hashrpf_locate d2 hk = hashrpf_locate d3 hk).
Proof.
  intros Hc. destruct (hashrpf_chk_sound d ks Hc) as (t & ot & segs & Hwf0).
  destruct (hashrpf_load_wf d ks t ot segs 1 Hwf0 ltac:(lia)) as (d1 & E1 & W1).
  destruct (hashrpf_load_wf d ks t ot segs 2 Hwf0 ltac:(lia)) as (d2 & E2 & W2).
  destruct (hashrpf_load_wf d ks t ot segs 3 Hwf0 ltac:(lia)) as (d3 & E3 & W3).
  exists d1, d2, d3. repeat split; try assumption.
  - rewrite (hashrpf_extract_T d1 ks t ot segs W1), (hashrpf_extract_T d2 ks t ot segs W2). reflexivity.
  - rewrite (hashrpf_extract_T d2 ks t ot segs W2), (hashrpf_extract_T d3 ks t ot segs W3). reflexivity.
  - rewrite (hashrpf_table_T d1 ks t ot segs W1), (hashrpf_table_T d2 ks t ot segs W2). reflexivity.
  - rewrite (hashrpf_table_T d2 ks t ot segs W2), (hashrpf_table_T d3 ks t ot segs W3). reflexivity.
  - rewrite (hashrpf_locate_member d1 ks t ot segs W1 hk H), (hashrpf_locate_member d2 ks t ot segs W2 hk H). reflexivity.
  - rewrite (hashrpf_locate_member d2 ks t ot segs W2 hk H), (hashrpf_locate_member d3 ks t ot segs W3 hk H). reflexivity.
Qed.

(* ---------------------------------------------------------------------------------------- *)
(* 13. regressions: the two earlier control flows are refuted on the dictionary the REAL code    *)
(*     builds for S = {ab, c, x} (overhead 0: tsize 3, Tdict* = x, c, ab; maxchar = 'y' = 121)   *)

Definition ex_rpf : hrpf :=
  mk_hrpf (RDh (mkFT [true; true; true] [0; 2; 4])) 122 121 [] [120; 121; 99; 121; 97; 98; 121] 3 3.
Definition ex_rpf_keys : list hkey :=
  [mkHKey [97; 98] 2 1; mkHKey [99] 1 1; mkHKey [120] 1 1].

(* before d016144: "cyab" (hash values 2, 1 as the repo's functions compute them) is reported with ID 2,
   "aby" reads rp->Cls out of bounds *)
Theorem hashrpf_locate_maxchar_refuted :
  exists d ks hq, hashrpf_chk d ks = true /\ nul_free (hk_key hq) /\ lenN (hk_key hq) + 1 < 2 ^ 32 /\
    hk_h1 hq < lenN (hr_bits (hf_repr d)) /\ ~ In (hk_key hq) (map hk_key ks) /\
    fst (hashrpf_locate_old d hq) = Some 2 /\ fst (hashrpf_locate d hq) = Some 0.
Proof.
  exists ex_rpf, ex_rpf_keys, (mkHKey [99; 121; 97; 98] 2 1).
  split; [vm_compute; reflexivity|]. split; [repeat constructor; discriminate|].
  split; [vm_compute; reflexivity|]. split; [vm_compute; reflexivity|].
  split; [cbn; intros [H|[H|[H|[]]]]; discriminate|]. split; vm_compute; reflexivity.
Qed.

Theorem hashrpf_locate_maxchar_oob_refuted :
  fst (hashrpf_locate_old ex_rpf (mkHKey [97; 98; 121] 1 1)) = None /\
  fst (hashrpf_locate ex_rpf (mkHKey [97; 98; 121] 1 1)) = Some 0.
Proof. split; vm_compute; reflexivity. Qed.

(* before be64401 (the pinned tree): the early return leaves maxchar in the caller's terminator *)
Theorem hashrpf_pattern_old_refuted :
  exists d ks hq, hashrpf_chk d ks = true /\ nul_free (hk_key hq) /\ lenN (hk_key hq) + 1 < 2 ^ 32 /\
    snd (hashrpf_locate_pinned d hq) <> hk_key hq ++ [0] /\ snd (hashrpf_locate d hq) = hk_key hq ++ [0].
Proof.
  exists ex_rpf, ex_rpf_keys, (mkHKey [99; 98] 2 1).
  split; [vm_compute; reflexivity|]. split; [repeat constructor; discriminate|].
  split; [vm_compute; reflexivity|]. split; [vm_compute; discriminate|vm_compute; reflexivity].
Qed.

(* ======================================================================================== *)
(* 14. HASHRPDACBlocks: a HASHRPDAC part satisfies IterProofs.part_ok, so the block routing    *)
(*     theorems apply to a dictionary made of real parts                                       *)
From LibCSD Require Import IterDefs IterProofs.

(* a part: the dictionary object, the strings of its block with their hash values, and the two hash
   functions for this part's table size as DATA (any function; constrained by [hblock_ok] only) *)
Record hblock := mk_hblock {
  hb_dict : hrpdac;
  hb_keys : list hkey;
  hb_hash : str -> N * N
}.

Definition hb_query (p : hblock) (q : str) : hkey := mkHKey q (fst (hb_hash p q)) (snd (hb_hash p q)).

Definition hblock_ok (p : hblock) : Prop :=
  hashrpdac_chk (hb_dict p) (hb_keys p) = true /\
  (forall hk, In hk (hb_keys p) -> hb_hash p (hk_key hk) = (hk_h1 hk, hk_h2 hk)) /\
  (forall q, fst (hb_hash p q) < lenN (hd_bits (hb_dict p))).

Definition hb_blk (p : hblock) : list str := map hk_key (hb_keys p).
Definition hb_cont (p : hblock) : list str :=
  match dh_build (lenN (hd_bits (hb_dict p))) (hb_keys p) with Some (t, _) => dh_tdict t | None => [] end.

(* parts[j]->locate / extract as total functions (0 / NULL where the model reports a memory error: never, see below) *)
Definition hb_loc_real (p : hblock) (q : str) : N :=
  match hashrpdac_locate (hb_dict p) (hb_query p q) with Some r => r | None => 0 end.
Definition hb_ext (p : hblock) (id : N) : option str :=
  match hashrpdac_extract (hb_dict p) id with Some r => r | None => None end.

Definition hd_query_b (q : str) : bool := forallb (fun b => negb (b =? 0)) q && (lenN q <? 2 ^ 32).
(* [part_ok] quantifies over ALL byte lists; outside the quantifier of the properties (a NUL inside the
   pattern, 2^32 bytes or more) nothing is claimed about the real function: there the wrapper answers by
   definition.  [hashrpdac_blocks_spec] below is about [hb_loc_real] on valid patterns only. *)
Definition hb_loc (p : hblock) (q : str) : N :=
  if hd_query_b q then hb_loc_real p q else spec_locate (hb_cont p) q.

Lemma hd_query_b_spec q : hd_query_b q = true <-> nul_free q /\ lenN q < 2 ^ 32.
Proof.
  unfold hd_query_b. rewrite andb_true_iff, N.ltb_lt, forallb_forall. unfold nul_free. rewrite Forall_forall.
  split; intros [H1 H2]; (split; [|exact H2]); intros b Hb; specialize (H1 b Hb).
  - intros ->. discriminate.
  - destruct (N.eqb_spec b 0); [contradiction|reflexivity].
Qed.

Theorem blocks_parts_ok p : hblock_ok p -> part_ok hb_loc hb_ext hb_blk hb_cont p.
Proof.
  intros (Hc & Hh & Hh1). destruct (hashrpdac_chk_sound _ _ Hc) as (t & Hwf).
  pose proof Hwf as (Hok & (cs & Hb) & _ & _ & Hk & Hn & Hn1).
  assert (Ec : hb_cont p = dh_tdict t) by (unfold hb_cont; rewrite Hb; reflexivity).
  unfold part_ok. rewrite Ec. unfold hb_blk.
  split. { intros E. apply (f_equal (@length _)) in E. rewrite map_length in E. unfold lenN in Hn1. cbn in E. lia. }
  split. { intros q. apply (tf_in _ _ _ _ Hb). }
  split. { rewrite (tf_len _ _ _ _ Hb). unfold lenN. rewrite map_length. reflexivity. }
  split.
  - intros q. unfold hb_loc. rewrite Ec. destruct (hd_query_b q) eqn:Eq; [|reflexivity].
    apply hd_query_b_spec in Eq. destruct Eq as [Hq Hql]. unfold hb_loc_real.
    destruct (in_dec (list_eq_dec N.eq_dec) q (map hk_key (hb_keys p))) as [Hin|Hni].
    + apply in_map_iff in Hin as (hk & <- & Hin).
      assert (E : hb_query p (hk_key hk) = hk) by (unfold hb_query; rewrite (Hh hk Hin); destruct hk; reflexivity).
      rewrite E. rewrite (hashrpdac_locate_member _ _ _ Hwf hk Hin). reflexivity.
    + rewrite (hashrpdac_locate_absent _ _ _ Hwf (hb_query p q)); try assumption; [|apply Hh1].
      symmetry. apply spec_locate_absent. intros Hin. apply Hni. apply (tf_in _ _ _ _ Hb). exact Hin.
  - intros i. unfold hb_ext. rewrite (hashrpdac_extract_T _ _ _ Hwf). reflexivity.
Qed.

Lemma blocks_locate_ext {P} (l1 l2 : P -> str -> N) (dct : @bdict P) q :
  (forall p, l1 p q = l2 p q) -> blocks_locate l1 dct q = blocks_locate l2 dct q.
Proof.
  intros H. unfold blocks_locate. destruct (bsbi lex_compare (bd_samples dct) q) as [j|]; [|reflexivity].
  destruct (nthN (bd_parts dct) j) as [p|]; [|reflexivity]. rewrite H. reflexivity.
Qed.

(* the dictionary made of real HASHRPDAC parts over the blocks of a sorted input: locate (valid patterns),
   extract (every id) and the table stream are those of the specification over the global ID order
   [ids_view] = the parts' own ID orders concatenated, which is a block-wise permutation of the input *)
Theorem hashrpdac_blocks_spec (parts : list hblock) :
  Forall hblock_ok parts -> parts <> [] ->
  sorted_lt (concat (map hb_blk parts)) -> lenN (concat (map hb_blk parts)) + 1 < sz64 ->
  let dct := bdict_of hb_blk parts in
  let view := ids_view hb_cont parts in
  (forall q, nul_free q -> lenN q < 2 ^ 32 -> blocks_locate hb_loc_real dct q = Some (spec_locate view q)) /\
  (forall id, id < sz64 -> blocks_extract hb_ext dct id = Some (spec_extract view id)) /\
  iter_denotes (table_iter hb_ext dct) table_init (map Some view) /\
  Permutation view (concat (map hb_blk parts)).
Proof.
  intros Hok Hne Hs Hl dct view.
  assert (Hpo : Forall (part_ok hb_loc hb_ext hb_blk hb_cont) parts).
  { eapply Forall_impl; [|exact Hok]. apply blocks_parts_ok. }
  assert (Hl1 : lenN (concat (map hb_blk parts)) < sz64) by lia.
  split; [|split; [|split]].
  - intros q Hq Hql. unfold dct.
    rewrite (blocks_locate_ext hb_loc_real hb_loc).
    + apply (blocks_locate_spec hb_loc hb_ext hb_blk hb_cont parts Hpo Hne Hs Hl1 q).
    + intros p. unfold hb_loc. replace (hd_query_b q) with true; [reflexivity|].
      symmetry. apply hd_query_b_spec. split; assumption.
  - intros id Hid. apply (blocks_extract_spec hb_loc hb_ext hb_blk hb_cont parts Hpo Hne Hs Hl1 id Hid).
  - apply (blocks_table_spec hb_loc hb_ext hb_blk hb_cont parts Hpo Hne Hs Hl1 Hl).
  - unfold view, ids_view. clear -Hok. induction Hok as [|p l Hp _ IH]; cbn [map concat]; [constructor|].
    apply Permutation_app; [|exact IH].
    destruct Hp as (Hc & _). destruct (hashrpdac_chk_sound _ _ Hc) as (t & Hwf).
    destruct Hwf as (_ & (cs & Hb) & _). unfold hb_cont, hb_blk. rewrite Hb. apply (tf_perm _ _ _ _ Hb).
Qed.
