(* RPDAC prefix search of the current tree (guard for the empty prefix): every NUL-free pattern, the empty one included. *)
From LibCSD Require Import Base Spec SpecProofs PFCLayout RPDACDefs RPDACProofs.
From Coq Require Import Lia ZArith.
Local Open Scope N_scope.

Lemma rpdac_locate_prefix_api_cons d c p : rpdac_locate_prefix_api d (c :: p) = rpdac_locate_prefix d (c :: p).
Proof. reflexivity. Qed.

Lemma rpdac_extract_prefix_api_cons d c p : rpdac_extract_prefix_api d (c :: p) = rpdac_extract_prefix d (c :: p).
Proof. reflexivity. Qed.

Lemma filter_all_true (l : list str) : filter (is_prefix []) l = l.
Proof. induction l as [|x l IH]; [reflexivity|]. cbn [filter]. change (is_prefix [] x) with true. cbv iota. f_equal. exact IH. Qed.

Section Empty.
  Variables (d : rpdac) (S : list str).
  Hypothesis Hrepr : rpdac_repr d S.
  Hypothesis Hin : rpdac_input S.

  Lemma n_facts : 1 <= lenN S /\ lenN S < 2 ^ 31 /\ d_elements d = lenN S.
  Proof.
    destruct Hin as (Hne & _ & _ & _ & Hn). destruct Hrepr as (_ & _ & _ & _ & Hel & _).
    split; [|split; assumption]. destruct S; [congruence|]. rewrite lenN_cons. lia.
  Qed.

  Lemma locate_prefix_api_nil : rpdac_locate_prefix_api d [] = Some (1, lenN S).
  Proof.
    destruct n_facts as (H1 & H31 & Hel). unfold rpdac_locate_prefix_api. rewrite Hel.
    destruct (locate_prefix_gen_spec (lenN S) (fun _ => Eq) (fun c => prefix_compare_dac_api d c []) H31) as (res & E & R).
    - intros i _. exists 0%Z. split; reflexivity.
    - intros i j _ _ _ H. discriminate.
    - intros i j _ _ _ H. discriminate.
    - exact H1.
    - rewrite E. f_equal. destruct R as [(_ & Hno)|(lo & hi & -> & Hlo & Hlh & Hhi & Hm)].
      + exfalso. apply (Hno 1); [lia|reflexivity].
      + assert (L : lo <= 1 <= hi) by (apply (Hm 1); [lia|reflexivity]).
        assert (R : lo <= lenN S <= hi) by (apply (Hm (lenN S)); [lia|reflexivity]).
        f_equal; lia.
  Qed.

  Theorem rpdac_locate_prefix_api_empty : rpdac_locate_prefix_api d [] = Some (range_of (spec_prefix_ids S [])).
  Proof.
    rewrite locate_prefix_api_nil. f_equal. symmetry. destruct n_facts as (H1 & H31 & Hel).
    destruct Hin as (_ & _ & _ & Hsorted & _).
    apply range_of_interval; [apply spec_prefix_ids_contiguous; exact Hsorted|exact H1|].
    intros y. rewrite spec_prefix_ids_spec. split.
    - intros (s & Es & _). apply spec_extract_range in Es. tauto.
    - intros Hy. exists (sid S y). split; [apply spec_extract_sid; exact Hy|reflexivity].
  Qed.

  Theorem rpdac_extract_prefix_api_empty : rpdac_extract_prefix_api d [] = Some (spec_prefix_strs S []).
  Proof.
    unfold rpdac_extract_prefix_api. rewrite locate_prefix_api_nil. destruct n_facts as (H1 & H31 & Hel).
    replace (u64 (1 + (2 ^ 64 - 1))) with 0 by (vm_compute; reflexivity).
    replace (lenN S + 1 - 1) with (lenN S) by lia.
    pose proof (rpdac_table_spec d S Hrepr Hin) as T. unfold rpdac_extract_table in T. rewrite Hel in T. rewrite T.
    f_equal. unfold spec_table, spec_prefix_strs. symmetry. apply filter_all_true.
  Qed.
End Empty.

(* every NUL-free pattern *)
Theorem rpdac_locate_prefix_api_spec d S p : rpdac_repr d S -> rpdac_input S -> nul_free p -> lenN p < 2 ^ 32 ->
  rpdac_locate_prefix_api d p = Some (range_of (spec_prefix_ids S p)).
Proof.
  intros Hr Hi Hp Hl. destruct p as [|c p'].
  - apply rpdac_locate_prefix_api_empty; assumption.
  - rewrite rpdac_locate_prefix_api_cons. apply (rpdac_locate_prefix_spec d S Hr Hi); [discriminate|exact Hp|exact Hl].
Qed.

Theorem rpdac_extract_prefix_api_spec d S p : rpdac_repr d S -> rpdac_input S -> nul_free p -> lenN p < 2 ^ 32 ->
  rpdac_extract_prefix_api d p = Some (spec_prefix_strs S p).
Proof.
  intros Hr Hi Hp Hl. destruct p as [|c p'].
  - apply rpdac_extract_prefix_api_empty; assumption.
  - rewrite rpdac_extract_prefix_api_cons. apply (rpdac_extract_prefix_spec d S Hr Hi); [discriminate|exact Hp|exact Hl].
Qed.
