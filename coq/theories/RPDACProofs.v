(* Proofs about the RPDAC model (RPDACDefs.v): compare-while-expanding = lexicographic comparison of
   the expanded string, the binary searches of locate / locatePrefix, extract and the string iterator. *)
From LibCSD Require Import Base Spec SpecProofs PFCLayout LexLemmas RePairDefs RePairProofs RPDACDefs.
Require Import Lia ZifyBool ZifyNat ZifyN.
Ltac Zify.zify_post_hook ::= Z.to_euclidean_division_equations.
Local Open Scope N_scope.

(* ---------------------------------------------------------------------------------------- *)
(* 0. machine arithmetic                                                                     *)

Lemma u32_small x : x < 2 ^ 32 -> u32 x = x.
Proof. intros H. unfold u32. apply N.mod_small. exact H. Qed.

Lemma u64_small x : x < 2 ^ 64 -> u64 x = x.
Proof. intros H. unfold u64. apply N.mod_small. exact H. Qed.

Lemma u32_pred x : 1 <= x < 2 ^ 32 -> u32 (x + (2 ^ 32 - 1)) = x - 1.
Proof.
  intros H. unfold u32. change (2 ^ 32) with 4294967296 in *.
  replace (x + (4294967296 - 1)) with ((x - 1) + 1 * 4294967296) by lia.
  rewrite N.mod_add by lia. apply N.mod_small. lia.
Qed.

Lemma u64_pred x : 1 <= x < 2 ^ 64 -> u64 (x + (2 ^ 64 - 1)) = x - 1.
Proof.
  intros H. unfold u64. change (2 ^ 64) with 18446744073709551616 in *.
  replace (x + (18446744073709551616 - 1)) with ((x - 1) + 1 * 18446744073709551616) by lia.
  rewrite N.mod_add by lia. apply N.mod_small. lia.
Qed.

Lemma rule_at_small rules r : r < 2 ^ 31 -> rule_at rules r = nthN rules r.
Proof.
  intros H. unfold rule_at. f_equal. change (2 ^ 31) with 2147483648 in H.
  rewrite u32_small by (change (2 ^ 32) with 4294967296; lia).
  rewrite N.mul_comm. apply N.div_mul. lia.
Qed.

Lemma pow31_32 : 2 ^ 31 < 2 ^ 32. Proof. reflexivity. Qed.
Lemma pow32_64 : 2 ^ 32 < 2 ^ 64. Proof. reflexivity. Qed.

(* ---------------------------------------------------------------------------------------- *)
(* 1. list-level reference functions for the two comparisons                                  *)

Definition cmp_char0 (qb : list N) (c pos : N) : option (Z * N) :=
  match nthN qb pos with
  | None => None
  | Some b => if c =? b then Some (0%Z, u32 (pos + 1)) else Some ((Z.of_N c - Z.of_N b)%Z, pos)
  end.

Lemma cmp_char_small qb c pos : c < 256 -> cmp_char qb c pos = cmp_char0 qb c pos.
Proof. intros H. unfold cmp_char, cmp_char0. rewrite N.mod_small by exact H. reflexivity. Qed.

(* compare the bytes of x with the query from the cursor on, stop at the first difference *)
Fixpoint cmp_list (x qb : list N) (pos : N) : option (Z * N) :=
  match x with
  | [] => Some (0%Z, pos)
  | c :: x' =>
      match cmp_char0 qb c pos with
      | None => None
      | Some (z, pos1) => if (z =? 0)%Z then cmp_list x' qb pos1 else Some (z, pos1)
      end
  end.

Lemma cmp_list_app x y qb : forall pos,
  cmp_list (x ++ y) qb pos =
  match cmp_list x qb pos with
  | None => None
  | Some (z, p1) => if (z =? 0)%Z then cmp_list y qb p1 else Some (z, p1)
  end.
Proof.
  induction x as [|c x IH]; intros pos; cbn [app cmp_list].
  - reflexivity.
  - destruct (cmp_char0 qb c pos) as [[z p1]|]; [|reflexivity].
    destruct (z =? 0)%Z eqn:Ez; [apply IH|]. rewrite Ez. reflexivity.
Qed.

(* the prefix variant: between two bytes the code tests whether the pattern is exhausted *)
Fixpoint cmp_list_p (x qb : list N) (pos : N) : option (Z * N) :=
  match x with
  | [] => Some (0%Z, pos)
  | c :: x' =>
      match cmp_char0 qb c pos with
      | None => None
      | Some (z, pos1) =>
          if (z =? 0)%Z then
            match x' with
            | [] => Some (z, pos1)
            | _ :: _ =>
                match nthN qb pos1 with
                | None => None
                | Some b => if b =? 0 then Some (z, pos1) else cmp_list_p x' qb pos1
                end
            end
          else Some (z, pos1)
      end
  end.

Lemma cmp_list_p_cons2 c c' x qb pos :
  cmp_list_p (c :: c' :: x) qb pos =
  match cmp_char0 qb c pos with
  | None => None
  | Some (z, pos1) =>
      if (z =? 0)%Z then
        match nthN qb pos1 with
        | None => None
        | Some b => if b =? 0 then Some (z, pos1) else cmp_list_p (c' :: x) qb pos1
        end
      else Some (z, pos1)
  end.
Proof. reflexivity. Qed.

Lemma cmp_list_p_one c qb pos :
  cmp_list_p [c] qb pos =
  match cmp_char0 qb c pos with
  | None => None
  | Some (z, pos1) => if (z =? 0)%Z then Some (z, pos1) else Some (z, pos1)
  end.
Proof. reflexivity. Qed.

Lemma cmp_list_p_app x y qb : x <> [] -> y <> [] -> forall pos,
  cmp_list_p (x ++ y) qb pos =
  match cmp_list_p x qb pos with
  | None => None
  | Some (z, p1) =>
      if (z =? 0)%Z then
        match nthN qb p1 with
        | None => None
        | Some b => if b =? 0 then Some (z, p1) else cmp_list_p y qb p1
        end
      else Some (z, p1)
  end.
Proof.
  intros Hx Hy. induction x as [|c x IH]; [congruence|]. intros pos.
  destruct x as [|c' x'].
  - destruct y as [|d y']; [congruence|].
    change ([c] ++ d :: y') with (c :: d :: y'). rewrite cmp_list_p_cons2, cmp_list_p_one.
    destruct (cmp_char0 qb c pos) as [[z p1]|]; [|reflexivity].
    destruct (z =? 0)%Z eqn:Ez; rewrite Ez; reflexivity.
  - assert (Hx' : c' :: x' <> []) by discriminate. specialize (IH Hx').
    change ((c :: c' :: x') ++ y) with (c :: c' :: (x' ++ y)). rewrite !cmp_list_p_cons2.
    destruct (cmp_char0 qb c pos) as [[z p1]|]; [|reflexivity].
    destruct (z =? 0)%Z eqn:Ez; [|rewrite Ez; reflexivity].
    destruct (nthN qb p1) as [b|] eqn:Eb; [|reflexivity].
    destruct (b =? 0) eqn:Eb0.
    + rewrite Ez, Eb, Eb0. reflexivity.
    + apply (IH p1).
Qed.

(* ---------------------------------------------------------------------------------------- *)
(* 2. facts about is_prefix / lex_compare on concatenations                                   *)

Lemma is_prefix_refl p : is_prefix p p = true.
Proof. induction p as [|x p IH]; cbn [is_prefix]; [reflexivity|]. rewrite N.eqb_refl. exact IH. Qed.

Lemma is_prefix_app_same x : forall a b, is_prefix (x ++ a) (x ++ b) = is_prefix a b.
Proof. induction x as [|c x IH]; intros a b; cbn [app is_prefix]; [reflexivity|]. rewrite N.eqb_refl. apply IH. Qed.

Lemma is_prefix_app_r p x y : is_prefix p x = true -> is_prefix p (x ++ y) = true.
Proof.
  intros H. apply is_prefix_app in H. destruct H as [r ->]. rewrite <- app_assoc.
  apply is_prefix_app. eauto.
Qed.

Lemma is_prefix_nil_r x : is_prefix x [] = true -> x = [].
Proof. destruct x; [reflexivity|discriminate]. Qed.

(* x and y differ at a position inside both: appending anything changes nothing *)
Lemma diverge_app x : forall y a b, is_prefix x y = false -> is_prefix y x = false ->
  is_prefix (x ++ a) (y ++ b) = false /\ is_prefix (y ++ b) (x ++ a) = false /\
  lex_compare (x ++ a) (y ++ b) = lex_compare x y.
Proof.
  induction x as [|c x IH]; intros [|d y] a b H1 H2; cbn [is_prefix] in H1, H2; try discriminate.
  cbn [app is_prefix lex_compare]. rewrite (N.eqb_sym d c) in *.
  destruct (N.eqb_spec c d) as [->|Hcd].
  - cbn [andb] in *. rewrite N.compare_refl. apply IH; assumption.
  - cbn [andb]. repeat split; try reflexivity.
    destruct (N.compare_spec c d); [congruence|reflexivity|reflexivity].
Qed.

Lemma diverge_app_l x y a : is_prefix x y = false -> is_prefix y x = false ->
  is_prefix (x ++ a) y = false /\ is_prefix y (x ++ a) = false /\ lex_compare (x ++ a) y = lex_compare x y.
Proof. intros H1 H2. pose proof (diverge_app x y a [] H1 H2) as H. rewrite app_nil_r in H. exact H. Qed.

Lemma proper_prefix_lt s q : is_prefix s q = true -> s <> q -> lex_compare s q = Lt.
Proof.
  intros H Hne. apply is_prefix_app in H. destruct H as [r ->].
  rewrite <- (app_nil_r s) at 1. rewrite lex_compare_app.
  destruct r; [rewrite app_nil_r in Hne; congruence|reflexivity].
Qed.

Lemma sign_sub c d : c <> d -> Z.compare (Z.of_N c - Z.of_N d) 0 = N.compare c d.
Proof.
  intros H. destruct (N.compare_spec c d) as [E|E|E]; [congruence| |].
  - apply Z.compare_lt_iff. lia.
  - apply Z.compare_gt_iff. lia.
Qed.

Lemma nthN_after {A} (pre rest : list A) : nthN (pre ++ rest) (lenN pre) = nthN rest 0.
Proof. rewrite nthN_app_r by lia. rewrite N.sub_diag. reflexivity. Qed.

Lemma lenN_snoc' {A} (l : list A) x : lenN (l ++ [x]) = lenN l + 1.
Proof. rewrite lenN_app, lenN_cons, lenN_nil. lia. Qed.

(* ---------------------------------------------------------------------------------------- *)
(* 3. what the reference functions compute                                                    *)

Lemma cmp_list_spec x : forall pre rest, nul_free x -> lenN pre + lenN rest < 2 ^ 32 ->
  exists z p, cmp_list x (pre ++ rest ++ [0]) (lenN pre) = Some (z, p) /\
    if is_prefix x rest then z = 0%Z /\ p = lenN pre + lenN x
    else z <> 0%Z /\ Z.compare z 0 = lex_compare x rest.
Proof.
  induction x as [|c x IH]; intros pre rest Hx Hlen.
  - exists 0%Z, (lenN pre). cbn [cmp_list is_prefix]. rewrite lenN_nil. repeat split. lia.
  - apply nul_free_cons in Hx. destruct Hx as [Hc Hx].
    cbn [cmp_list]. unfold cmp_char0. rewrite nthN_after.
    destruct rest as [|b rest].
    + change (nthN ([] ++ [0]) 0) with (Some 0). cbv beta iota. destruct (N.eqb_spec c 0) as [E|_]; [congruence|].
      destruct (Z.eqb_spec (Z.of_N c - Z.of_N 0) 0) as [E|_]; [lia|].
      eexists _, _. split; [reflexivity|]. cbn [is_prefix lex_compare]. split; [lia|].
      apply Z.compare_gt_iff. lia.
    + change (nthN ((b :: rest) ++ [0]) 0) with (Some b). cbv beta iota. rewrite lenN_cons in Hlen.
      destruct (N.eqb_spec c b) as [->|Hcb].
      * cbn [Z.eqb]. rewrite u32_small by lia.
        replace (lenN pre + 1) with (lenN (pre ++ [b])) by apply lenN_snoc'.
        replace (pre ++ (b :: rest) ++ [0]) with ((pre ++ [b]) ++ rest ++ [0])
          by (rewrite <- app_assoc; reflexivity).
        destruct (IH (pre ++ [b]) rest Hx) as (z & p & E & Hs); [rewrite lenN_snoc'; lia|].
        exists z, p. split; [exact E|]. cbn [is_prefix lex_compare]. rewrite N.eqb_refl, N.compare_refl. cbn [andb].
        destruct (is_prefix x rest); [|exact Hs]. rewrite lenN_snoc', lenN_cons in *. destruct Hs; split; [assumption|lia].
      * destruct (Z.eqb_spec (Z.of_N c - Z.of_N b) 0) as [E|_]; [lia|].
        eexists _, _. split; [reflexivity|]. cbn [is_prefix lex_compare].
        destruct (N.eqb_spec c b) as [E|_]; [congruence|]. cbn [andb]. split; [lia|].
        rewrite (sign_sub c b Hcb). destruct (N.compare_spec c b); [congruence|reflexivity|reflexivity].
Qed.

Lemma cmp_list_p_spec x : forall pre rest, x <> [] -> rest <> [] -> nul_free x -> nul_free rest ->
  lenN pre + lenN rest < 2 ^ 32 ->
  exists z p, cmp_list_p x (pre ++ rest ++ [0]) (lenN pre) = Some (z, p) /\
    if is_prefix x rest then z = 0%Z /\ p = lenN pre + lenN x
    else if is_prefix rest x then z = 0%Z /\ p = lenN pre + lenN rest
    else z <> 0%Z /\ Z.compare z 0 = lex_compare x rest.
Proof.
  induction x as [|c x IH]; intros pre rest Hne Hrne Hx Hr Hlen; [congruence|].
  apply nul_free_cons in Hx. destruct Hx as [Hc Hx].
  destruct rest as [|b rest]; [congruence|]. apply nul_free_cons in Hr. destruct Hr as [Hb Hr].
  cbn [cmp_list_p]. unfold cmp_char0. rewrite nthN_after.
  change (nthN ((b :: rest) ++ [0]) 0) with (Some b). cbv beta iota. rewrite lenN_cons in Hlen.
  destruct (N.eqb_spec c b) as [->|Hcb].
  - cbn [Z.eqb]. rewrite u32_small by lia.
    replace (lenN pre + 1) with (lenN (pre ++ [b])) by apply lenN_snoc'.
    replace (pre ++ (b :: rest) ++ [0]) with ((pre ++ [b]) ++ rest ++ [0])
      by (rewrite <- app_assoc; reflexivity).
    cbn [is_prefix]. rewrite N.eqb_refl. cbn [andb].
    destruct x as [|c' x'].
    + eexists _, _. split; [reflexivity|]. cbn [is_prefix]. rewrite lenN_snoc', !lenN_cons, lenN_nil. split; [reflexivity|lia].
    + rewrite nthN_after. destruct rest as [|b' rest'].
      * change (nthN ([] ++ [0]) 0) with (Some 0). cbv beta iota. cbn [N.eqb].
        eexists _, _. split; [reflexivity|]. cbn [is_prefix]. rewrite lenN_snoc', !lenN_cons, lenN_nil. split; [reflexivity|lia].
      * change (nthN ((b' :: rest') ++ [0]) 0) with (Some b'). cbv beta iota.
        apply nul_free_cons in Hr. destruct (N.eqb_spec b' 0) as [E|_]; [destruct Hr; congruence|].
        destruct (IH (pre ++ [b]) (b' :: rest')) as (z & p & E & Hs);
          [discriminate|discriminate|exact Hx|apply nul_free_cons; exact Hr|rewrite lenN_snoc'; lia|].
        exists z, p. split; [exact E|].
        rewrite lenN_snoc' in Hs. rewrite (lenN_cons b (c' :: x')), (lenN_cons b (b' :: rest')).
        destruct (is_prefix (c' :: x') (b' :: rest')); [destruct Hs; split; [assumption|lia]|].
        destruct (is_prefix (b' :: rest') (c' :: x')); [destruct Hs; split; [assumption|lia]|].
        cbn [lex_compare]. rewrite N.compare_refl. exact Hs.
  - destruct (Z.eqb_spec (Z.of_N c - Z.of_N b) 0) as [E|_]; [lia|].
    eexists _, _. split; [reflexivity|]. cbn [is_prefix lex_compare]. rewrite (N.eqb_sym b c).
    destruct (N.eqb_spec c b) as [E|_]; [congruence|]. cbn [andb]. split; [lia|].
    rewrite (sign_sub c b Hcb). destruct (N.compare_spec c b); [congruence|reflexivity|reflexivity].
Qed.

(* ---------------------------------------------------------------------------------------- *)
(* 4. the model's recursive functions against the reference functions                         *)

Lemma cmp_sym_eq rules t qb f s pos :
  cmp_sym rules t qb f s pos =
  if t <=? s then
    match f with
    | O => None
    | S f' =>
        match rule_at rules (u32 (s - t)) with
        | None => None
        | Some (lsym, rsym) =>
            match cmp_sym rules t qb f' lsym pos with
            | None => None
            | Some (cmp, pos1) => if (cmp =? 0)%Z then cmp_sym rules t qb f' rsym pos1 else Some (cmp, pos1)
            end
        end
    end
  else cmp_char qb s pos.
Proof. destruct f; reflexivity. Qed.

Lemma pcmp_sym_eq rules t qb f s pos :
  pcmp_sym rules t qb f s pos =
  if t <=? s then
    match f with
    | O => None
    | S f' =>
        match rule_at rules (u32 (s - t)) with
        | None => None
        | Some (lsym, rsym) =>
            match pcmp_sym rules t qb f' lsym pos with
            | None => None
            | Some (cmp, pos1) =>
                if (cmp =? 0)%Z then
                  match nthN qb pos1 with
                  | None => None
                  | Some b => if b =? 0 then Some (cmp, pos1) else pcmp_sym rules t qb f' rsym pos1
                  end
                else Some (cmp, pos1)
            end
        end
    end
  else cmp_char qb s pos.
Proof. destruct f; reflexivity. Qed.

Lemma xsym_eq rules t f s :
  xsym rules t f s =
  if t <=? s then
    match f with
    | O => None
    | S f' =>
        match rule_at rules (u32 (s - t)) with
        | None => None
        | Some (lsym, rsym) =>
            match xsym rules t f' lsym with
            | None => None
            | Some x => match xsym rules t f' rsym with
                        | None => None
                        | Some y => Some (x ++ y)
                        end
            end
        end
    end
  else Some [s mod 256].
Proof. destruct f; reflexivity. Qed.

Section Grammar.
  Variables (rules : list rule) (t : N).
  Hypothesis Ht : 1 <= t <= 256.
  Hypothesis Hsz : t + lenN rules < 2 ^ 31.

  Lemma rule_at_sym s a b : nthN rules (s - t) = Some (a, b) -> rule_at rules (u32 (s - t)) = Some (a, b).
  Proof.
    intros E. pose proof (nthN_Some_lt _ _ _ E) as Hlt. pose proof pow31_32.
    rewrite u32_small by lia. rewrite rule_at_small by lia. exact E.
  Qed.

  Lemma expand_sym_nonempty : forall f s x, expand_sym rules t f s = Some x -> x <> [].
  Proof.
    induction f as [|f IH]; intros s x H; rewrite expand_sym_eq in H.
    - destruct (s <? t); [inversion H; discriminate|discriminate].
    - destruct (s <? t); [inversion H; discriminate|].
      destruct (nthN rules (s - t)) as [[a b]|]; [|discriminate].
      destruct (expand_sym rules t f a) as [xa|] eqn:Ea; [|discriminate].
      destruct (expand_sym rules t f b) as [xb|] eqn:Eb; [|discriminate].
      inversion H; subst. intros E. apply app_eq_nil in E. destruct E as [E _]. exact (IH a xa Ea E).
  Qed.

  Lemma cmp_term qb s pos : s < t -> cmp_char qb s pos = cmp_list [s] qb pos.
  Proof.
    intros Hs. rewrite cmp_char_small by lia. cbn [cmp_list].
    destruct (cmp_char0 qb s pos) as [[z p1]|]; [|reflexivity].
    destruct (Z.eqb_spec z 0); [subst|]; reflexivity.
  Qed.

  Lemma cmp_term_p qb s pos : s < t -> cmp_char qb s pos = cmp_list_p [s] qb pos.
  Proof.
    intros Hs. rewrite cmp_char_small by lia. rewrite cmp_list_p_one.
    destruct (cmp_char0 qb s pos) as [[z p1]|]; [|reflexivity].
    destruct (z =? 0)%Z; reflexivity.
  Qed.

  Lemma cmp_sym_list qb : forall f s x pos, expand_sym rules t f s = Some x ->
    cmp_sym rules t qb f s pos = cmp_list x qb pos.
  Proof.
    induction f as [|f IH]; intros s x pos H; rewrite expand_sym_eq in H; rewrite cmp_sym_eq.
    - destruct (N.ltb_spec s t); [|discriminate]. destruct (N.leb_spec t s); [lia|].
      inversion H; subst. apply cmp_term. assumption.
    - destruct (N.ltb_spec s t).
      + destruct (N.leb_spec t s); [lia|]. inversion H; subst. apply cmp_term. assumption.
      + destruct (N.leb_spec t s); [|lia].
        destruct (nthN rules (s - t)) as [[a b]|] eqn:E; [|discriminate].
        rewrite (rule_at_sym s a b E).
        destruct (expand_sym rules t f a) as [xa|] eqn:Ea; [|discriminate].
        destruct (expand_sym rules t f b) as [xb|] eqn:Eb; [|discriminate].
        inversion H; subst. rewrite cmp_list_app, (IH a xa pos Ea).
        destruct (cmp_list xa qb pos) as [[z p1]|]; [|reflexivity].
        destruct (z =? 0)%Z; [apply IH; assumption|reflexivity].
  Qed.

  Lemma pcmp_sym_list qb : forall f s x pos, expand_sym rules t f s = Some x ->
    pcmp_sym rules t qb f s pos = cmp_list_p x qb pos.
  Proof.
    induction f as [|f IH]; intros s x pos H; rewrite expand_sym_eq in H; rewrite pcmp_sym_eq.
    - destruct (N.ltb_spec s t); [|discriminate]. destruct (N.leb_spec t s); [lia|].
      inversion H; subst. apply cmp_term_p. assumption.
    - destruct (N.ltb_spec s t).
      + destruct (N.leb_spec t s); [lia|]. inversion H; subst. apply cmp_term_p. assumption.
      + destruct (N.leb_spec t s); [|lia].
        destruct (nthN rules (s - t)) as [[a b]|] eqn:E; [|discriminate].
        rewrite (rule_at_sym s a b E).
        destruct (expand_sym rules t f a) as [xa|] eqn:Ea; [|discriminate].
        destruct (expand_sym rules t f b) as [xb|] eqn:Eb; [|discriminate].
        inversion H; subst.
        rewrite cmp_list_p_app by (eapply expand_sym_nonempty; eassumption).
        rewrite (IH a xa pos Ea).
        destruct (cmp_list_p xa qb pos) as [[z p1]|]; [|reflexivity].
        destruct (z =? 0)%Z; [|reflexivity].
        destruct (nthN qb p1) as [b0|]; [|reflexivity].
        destruct (b0 =? 0); [reflexivity|apply IH; assumption].
  Qed.

  Lemma xsym_expand : forall f s x, expand_sym rules t f s = Some x -> xsym rules t f s = Some x.
  Proof.
    induction f as [|f IH]; intros s x H; rewrite expand_sym_eq in H; rewrite xsym_eq.
    - destruct (N.ltb_spec s t); [|discriminate]. destruct (N.leb_spec t s); [lia|].
      rewrite N.mod_small by lia. exact H.
    - destruct (N.ltb_spec s t).
      + destruct (N.leb_spec t s); [lia|]. rewrite N.mod_small by lia. exact H.
      + destruct (N.leb_spec t s); [|lia].
        destruct (nthN rules (s - t)) as [[a b]|] eqn:E; [|discriminate].
        rewrite (rule_at_sym s a b E).
        destruct (expand_sym rules t f a) as [xa|] eqn:Ea; [|discriminate].
        destruct (expand_sym rules t f b) as [xb|] eqn:Eb; [|discriminate].
        rewrite (IH a xa Ea), (IH b xb Eb). exact H.
  Qed.

  Lemma xseq_expand f : forall seq x, expand_list rules t f seq = Some x -> xseq rules t f seq = Some x.
  Proof.
    induction seq as [|a seq IH]; intros x H; cbn [expand_list xseq] in *; [exact H|].
    destruct (expand_sym rules t f a) as [xa|] eqn:Ea; [|discriminate].
    destruct (expand_list rules t f seq) as [y|] eqn:Ey; [|discriminate].
    rewrite (xsym_expand f a xa Ea), (IH y eq_refl). exact H.
  Qed.

  Lemma cmp_loop_list qb f : forall seq s pos, expand_list rules t f seq = Some s ->
    cmp_loop rules t qb f seq pos 0%Z =
    match cmp_list s qb pos with
    | None => None
    | Some (z, p) => if (z =? 0)%Z then Some (Fin 0%Z p) else Some (Ret z)
    end.
  Proof.
    induction seq as [|a seq IH]; intros s pos H; cbn [expand_list] in H; cbn [cmp_loop].
    - inversion H; subst. reflexivity.
    - destruct (expand_sym rules t f a) as [x|] eqn:Ex; [|discriminate].
      destruct (expand_list rules t f seq) as [y|] eqn:Ey; [|discriminate].
      inversion H; subst. rewrite (cmp_sym_list qb f a x pos Ex), cmp_list_app.
      destruct (cmp_list x qb pos) as [[z p1]|]; [|reflexivity].
      destruct (z =? 0)%Z eqn:Ez.
      + apply Z.eqb_eq in Ez. subst z. apply IH. reflexivity.
      + cbv beta iota. rewrite Ez. reflexivity.
  Qed.

  Lemma pcmp_loop_spec f : forall seq s pre rest,
    expand_list rules t f seq = Some s -> nul_free s -> rest <> [] -> nul_free rest ->
    lenN pre + lenN rest < 2 ^ 32 ->
    match pcmp_loop rules t (pre ++ rest ++ [0]) f seq (lenN pre) 0%Z with
    | Some (Ret z) =>
        if is_prefix rest s then z = 0%Z
        else is_prefix s rest = false /\ z <> 0%Z /\ Z.compare z 0 = lex_compare s rest
    | Some (Fin c p) => c = 0%Z /\ is_prefix rest s = false /\ is_prefix s rest = true /\ p = lenN pre + lenN s
    | None => False
    end.
  Proof.
    induction seq as [|a seq IH]; intros s pre rest H Hs Hrne Hr Hlen; cbn [expand_list] in H; cbn [pcmp_loop].
    - inversion H; subst. destruct rest; [congruence|]. cbn [is_prefix]. rewrite lenN_nil. repeat split. lia.
    - destruct (expand_sym rules t f a) as [x|] eqn:Ex; [|discriminate].
      destruct (expand_list rules t f seq) as [y|] eqn:Ey; [|discriminate].
      inversion H; subst. unfold nul_free in Hs. apply Forall_app in Hs. destruct Hs as [Hx Hy].
      pose proof (expand_sym_nonempty f a x Ex) as Hxne.
      rewrite (pcmp_sym_list _ f a x _ Ex).
      destruct (cmp_list_p_spec x pre rest Hxne Hrne Hx Hr Hlen) as (z & p & E & Hz). rewrite E.
      destruct (is_prefix x rest) eqn:E1.
      + destruct Hz as [-> ->]. cbn [Z.eqb].
        apply is_prefix_app in E1. destruct E1 as [r ->].
        replace (pre ++ (x ++ r) ++ [0]) with ((pre ++ x) ++ r ++ [0]) by (rewrite <- !app_assoc; reflexivity).
        rewrite <- lenN_app. rewrite nthN_after.
        unfold nul_free in Hr. apply Forall_app in Hr. destruct Hr as [_ Hr].
        rewrite lenN_app in Hlen.
        destruct r as [|b r'].
        * change (nthN ([] ++ [0]) 0) with (Some 0). cbv beta iota. cbn [N.eqb].
          rewrite is_prefix_app_same. reflexivity.
        * change (nthN ((b :: r') ++ [0]) 0) with (Some b). cbv beta iota.
          pose proof Hr as Hr'. apply nul_free_cons in Hr'. destruct Hr' as [Hb _].
          destruct (N.eqb_spec b 0) as [Eb|_]; [congruence|].
          specialize (IH y (pre ++ x) (b :: r') eq_refl Hy ltac:(discriminate) Hr ltac:(rewrite lenN_app; lia)).
          rewrite !is_prefix_app_same, lex_compare_app.
          destruct (pcmp_loop rules t ((pre ++ x) ++ (b :: r') ++ [0]) f seq (lenN (pre ++ x)) 0%Z) as [[z|c p]|];
            [exact IH| |exact IH].
          rewrite !lenN_app in *. destruct IH as (H1 & H2 & H3 & H4). repeat split; try assumption. lia.
      + destruct (is_prefix rest x) eqn:E2.
        * destruct Hz as [-> ->]. cbn [Z.eqb].
          replace (pre ++ rest ++ [0]) with ((pre ++ rest) ++ [0]) by (rewrite <- app_assoc; reflexivity).
          rewrite <- lenN_app. rewrite nthN_after. change (nthN [0] 0) with (Some 0). cbv beta iota. cbn [N.eqb].
          rewrite (is_prefix_app_r rest x y E2). reflexivity.
        * destruct Hz as [Hz0 Hzc]. destruct (Z.eqb_spec z 0) as [|_]; [congruence|].
          destruct (diverge_app_l x rest y E1 E2) as (D1 & D2 & D3).
          rewrite D2. rewrite D1, D3. repeat split; assumption.
  Qed.
End Grammar.

(* ---------------------------------------------------------------------------------------- *)
(* 5. the dictionary represents S                                                             *)

Definition rpdac_repr (d : rpdac) (S : list str) : Prop :=
  1 <= d_t d <= 256 /\ rules_wf (d_t d) (d_rules d) /\ d_t d + lenN (d_rules d) < 2 ^ 31 /\
  map (expand_seq (d_rules d) (d_t d)) (d_seqs d) = map Some S /\
  d_elements d = lenN S /\ d_maxlength d = spec_maxlen S + 1.

(* the input sets of the theorems: what Build.cpp feeds the constructor *)
Definition rpdac_input (S : list str) : Prop :=
  S <> [] /\ Forall nul_free S /\ Forall (fun s => s <> []) S /\ sorted_lt S /\ lenN S < 2 ^ 31.

Lemma repr_seq d S i s : rpdac_repr d S -> nthN S i = Some s ->
  exists sq, nthN (d_seqs d) i = Some sq /\ expand_seq (d_rules d) (d_t d) sq = Some s.
Proof.
  intros (_ & _ & _ & Hm & _) Hi. unfold nthN in *.
  pose proof (map_nth_error Some _ _ Hi) as H1. rewrite <- Hm in H1.
  destruct (nth_error (d_seqs d) (N.to_nat i)) as [sq|] eqn:E.
  - exists sq. split; [reflexivity|].
    pose proof (map_nth_error (expand_seq (d_rules d) (d_t d)) _ _ E) as H2.
    unfold str in *. rewrite H1 in H2. inversion H2. reflexivity.
  - apply nth_error_None in E. assert (H2 : nth_error (map (expand_seq (d_rules d) (d_t d)) (d_seqs d)) (N.to_nat i) = None)
      by (apply nth_error_None; rewrite map_length; exact E).
    unfold str in *. rewrite H2 in H1. discriminate.
Qed.

Lemma seq_of_id d id : 1 <= id < 2 ^ 32 -> seq_of d id = nthN (d_seqs d) (id - 1).
Proof. intros H. unfold seq_of. rewrite u32_pred by exact H. reflexivity. Qed.

Lemma nth_tail_byte (s r : str) : nul_free (s ++ r) -> r <> [] ->
  exists b, nthN ((s ++ r) ++ [0]) (lenN s) = Some b /\ b <> 0.
Proof.
  intros Hn Hr. destruct r as [|b r']; [congruence|]. exists b.
  rewrite <- app_assoc. rewrite nthN_after. split; [reflexivity|].
  unfold nul_free in Hn. apply Forall_app in Hn. destruct Hn as [_ Hn]. inversion Hn; assumption.
Qed.

Definition pkey (p s : str) : comparison := if is_prefix p s then Eq else lex_compare s p.

Section Compare.
  Variables (d : rpdac) (S : list str).
  Hypothesis Hrepr : rpdac_repr d S.
  Hypothesis Hn : lenN S < 2 ^ 31.

  (* 1. compare-while-expanding of string id against q = sign of lex_compare S_id q *)
  Theorem compare_expand_spec id s q :
    nthN S (id - 1) = Some s -> 1 <= id -> nul_free s -> s <> [] -> nul_free q -> lenN q < 2 ^ 32 ->
    exists z, compare_dac d id q = Some z /\ Z.compare z 0 = lex_compare s q.
  Proof.
    intros Hi Hid Hs Hsne Hq Hql.
    pose proof (nthN_Some_lt _ _ _ Hi) as Hlt. pose proof pow31_32 as P.
    destruct (repr_seq d S _ s Hrepr Hi) as (sq & Esq & Ex).
    destruct Hrepr as (Ht & Hw & Hsz & _).
    unfold compare_dac, run_loop. rewrite (u32_small id) by lia.
    destruct (N.eqb_spec id (2 ^ 32 - 1)) as [E|_]; [change (2 ^ 32) with 4294967296 in *; change (2 ^ 31) with 2147483648 in *; lia|].
    rewrite seq_of_id by lia. rewrite Esq.
    assert (Hsq : sq <> []) by (intros ->; cbv in Ex; congruence).
    destruct sq as [|a sq']; [congruence|].
    unfold expand_seq in Ex.
    rewrite (cmp_loop_list (d_rules d) (d_t d) Ht Hsz _ _ _ s 0 Ex).
    destruct (cmp_list_spec s [] q Hs) as (z & p & E & Hz); [rewrite lenN_nil; lia|].
    change (lenN (@nil N)) with 0 in *. cbn [app] in E. rewrite E.
    unfold finish. rewrite (u32_small (lenN q)) by lia.
    destruct (is_prefix s q) eqn:Ep.
    - destruct Hz as [-> ->]. cbn [Z.eqb]. apply is_prefix_app in Ep. destruct Ep as [r ->].
      rewrite N.add_0_l. rewrite lenN_app.
      destruct r as [|b r'].
      + rewrite lenN_nil, N.add_0_r, N.eqb_refl. exists 0%Z. rewrite app_nil_r, lex_compare_refl. split; reflexivity.
      + destruct (N.eqb_spec (lenN s) (lenN s + lenN (b :: r'))) as [E'|_]; [rewrite lenN_cons in E'; lia|].
        destruct (nth_tail_byte s (b :: r') Hq ltac:(discriminate)) as (b0 & Eb & Hb0).
        rewrite Eb. eexists. split; [reflexivity|].
        rewrite proper_prefix_lt.
        * apply Z.compare_lt_iff. lia.
        * apply is_prefix_app. eauto.
        * intros E'. apply (f_equal (@length N)) in E'. rewrite app_length in E'. cbn [length] in E'. lia.
    - destruct Hz as [Hz0 Hzc]. destruct (Z.eqb_spec z 0) as [|_]; [congruence|]. exists z. split; [reflexivity|exact Hzc].
  Qed.

  (* 3a. the prefix variant: 0 as soon as the pattern is exhausted *)
  Theorem prefix_compare_spec id s p :
    nthN S (id - 1) = Some s -> 1 <= id -> nul_free s -> s <> [] -> p <> [] -> nul_free p -> lenN p < 2 ^ 32 ->
    exists z, prefix_compare_dac d id p = Some z /\ Z.compare z 0 = pkey p s.
  Proof.
    intros Hi Hid Hs Hsne Hpne Hp Hpl.
    pose proof (nthN_Some_lt _ _ _ Hi) as Hlt. pose proof pow31_32 as P.
    destruct (repr_seq d S _ s Hrepr Hi) as (sq & Esq & Ex).
    destruct Hrepr as (Ht & Hw & Hsz & _).
    unfold prefix_compare_dac, run_loop. rewrite (u32_small id) by lia.
    destruct (N.eqb_spec id (2 ^ 32 - 1)) as [E|_]; [change (2 ^ 32) with 4294967296 in *; change (2 ^ 31) with 2147483648 in *; lia|].
    rewrite seq_of_id by lia. rewrite Esq.
    assert (Hsq : sq <> []) by (intros ->; cbv in Ex; congruence).
    destruct sq as [|a sq']; [congruence|].
    unfold expand_seq in Ex.
    pose proof (pcmp_loop_spec (d_rules d) (d_t d) Ht Hsz _ _ s [] p Ex Hs Hpne Hp ltac:(rewrite lenN_nil; lia)) as L.
    change (lenN (@nil N)) with 0 in *. cbn [app] in L.
    unfold finish, pkey. rewrite (u32_small (lenN p)) by lia.
    destruct (pcmp_loop (d_rules d) (d_t d) (p ++ [0]) (length (d_rules d)) (a :: sq') 0 0%Z) as [[z|c pos]|]; [| |contradiction].
    - exists z. split; [reflexivity|]. destruct (is_prefix p s); [subst; reflexivity|]. apply L.
    - destruct L as (-> & E1 & E2 & ->). rewrite N.add_0_l. rewrite E1.
      apply is_prefix_app in E2. destruct E2 as [r ->].
      destruct r as [|b r']; [rewrite app_nil_r, is_prefix_refl in E1; discriminate|].
      rewrite lenN_app.
      destruct (N.eqb_spec (lenN s) (lenN s + lenN (b :: r'))) as [E'|_]; [rewrite lenN_cons in E'; lia|].
      destruct (nth_tail_byte s (b :: r') Hp ltac:(discriminate)) as (b0 & Eb & Hb0).
      rewrite Eb. eexists. split; [reflexivity|].
      rewrite proper_prefix_lt.
      * apply Z.compare_lt_iff. lia.
      * apply is_prefix_app. eauto.
      * intros E'. apply (f_equal (@length N)) in E'. rewrite app_length in E'. cbn [length] in E'. lia.
  Qed.
End Compare.

(* ---------------------------------------------------------------------------------------- *)
(* 6. the binary searches, over an abstract three-way key that is monotone in the id          *)

Lemma bsearch_eq cmpf fuel lft rgt center cmp :
  bsearch cmpf fuel lft rgt center cmp =
  if lft <=? rgt then
    match fuel with
    | O => None
    | S f =>
        let center := u64 (lft + rgt) / 2 in
        match cmpf center with
        | None => None
        | Some cmp =>
            if (0 <? cmp)%Z then bsearch cmpf f lft (u64 (center + (2 ^ 64 - 1))) center cmp
            else if (cmp <? 0)%Z then bsearch cmpf f (u64 (center + 1)) rgt center cmp
            else Some (lft, rgt, center, cmp, true)
        end
    end
  else Some (lft, rgt, center, cmp, false).
Proof. destruct fuel; reflexivity. Qed.

Lemma bs_left_eq cmpf fuel ll lr :
  bs_left cmpf fuel ll lr =
  if ll <=? lr then
    match fuel with
    | O => None
    | S f =>
        let lc := u32 (ll + lr) / 2 in
        match cmpf lc with
        | None => None
        | Some cmp =>
            if (cmp =? 0)%Z then bs_left cmpf f ll (u32 (lc + (2 ^ 32 - 1)))
            else bs_left cmpf f (u32 (lc + 1)) lr
        end
    end
  else Some lr.
Proof. destruct fuel; reflexivity. Qed.

Lemma bs_right_eq cmpf fuel rl rr :
  bs_right cmpf fuel rl rr =
  if rl <? u32 (rr + (2 ^ 32 - 1)) then
    match fuel with
    | O => None
    | S f =>
        let rc := u32 (rl + rr) / 2 in
        match cmpf rc with
        | None => None
        | Some cmp =>
            if (cmp =? 0)%Z then bs_right cmpf f rc rr
            else bs_right cmpf f rl rc
        end
    end
  else Some rl.
Proof. destruct fuel; reflexivity. Qed.

Lemma bs_fuel_ok n : n < 2 ^ N.of_nat (bs_fuel n).
Proof.
  unfold bs_fuel. rewrite Nat2N.inj_succ, N2Nat.id, N.pow_succ_r'. pose proof (N.size_gt n). lia.
Qed.

Lemma sign_gt z c : Z.compare z 0 = c -> (0 < z)%Z -> c = Gt.
Proof. intros <- H. apply Z.compare_gt_iff. exact H. Qed.
Lemma sign_lt z c : Z.compare z 0 = c -> (z < 0)%Z -> c = Lt.
Proof. intros <- H. apply Z.compare_lt_iff. exact H. Qed.
Lemma sign_eq z c : Z.compare z 0 = c -> z = 0%Z -> c = Eq.
Proof. intros <- ->. reflexivity. Qed.
Lemma sign_eq_inv z : Z.compare z 0 = Eq -> z = 0%Z.
Proof. apply Z.compare_eq. Qed.

Section BSearch.
  Variable n : N.
  Variable k : N -> comparison.
  Variable cmpf : N -> option Z.
  Hypothesis Hn : n < 2 ^ 31.
  Hypothesis Hcmp : forall i, 1 <= i <= n -> exists z, cmpf i = Some z /\ Z.compare z 0 = k i.
  Hypothesis Hlt : forall i j, 1 <= i -> i <= j -> j <= n -> k j = Lt -> k i = Lt.
  Hypothesis Hgt : forall i j, 1 <= i -> i <= j -> j <= n -> k i = Gt -> k j = Gt.

  Let n31 : n < 2147483648. Proof. exact Hn. Qed.

  (* between two ids with key Eq every key is Eq *)
  Lemma key_convex a b i : 1 <= a -> a <= i -> i <= b -> b <= n -> k a = Eq -> k b = Eq -> k i = Eq.
  Proof.
    intros H1 H2 H3 H4 Ka Kb. destruct (k i) eqn:Ki; [reflexivity| |].
    - rewrite (Hlt a i H1 H2 ltac:(lia) Ki) in Ka. discriminate.
    - rewrite (Hgt i b ltac:(lia) H3 H4 Ki) in Kb. discriminate.
  Qed.

  Lemma bsearch_spec : forall fuel l r c z0,
    1 <= l -> r <= n -> l <= r + 1 -> r + 1 - l < 2 ^ N.of_nat fuel ->
    (forall i, 1 <= i < l -> k i = Lt) -> (forall i, r < i <= n -> k i = Gt) ->
    exists l' r' c' z' hit, bsearch cmpf fuel l r c z0 = Some (l', r', c', z', hit) /\
      1 <= l' /\ r' <= n /\ (forall i, 1 <= i < l' -> k i = Lt) /\ (forall i, r' < i <= n -> k i = Gt) /\
      (hit = true -> l' <= c' <= r' /\ k c' = Eq /\ z' = 0%Z) /\
      (hit = false -> l' = r' + 1 /\ ((l <= r \/ z0 <> 0%Z) -> z' <> 0%Z)).
  Proof.
    induction fuel as [|f IH]; intros l r c z0 H1 H2 H3 Hsz HL HG; rewrite bsearch_eq;
      destruct (N.leb_spec l r) as [Hlr|Hlr].
    - change (2 ^ N.of_nat 0) with 1 in Hsz. lia.
    - exists l, r, c, z0, false. repeat split; try assumption; try discriminate; try lia.
    - rewrite Nat2N.inj_succ, N.pow_succ_r' in Hsz. remember (2 ^ N.of_nat f) as P eqn:EP.
      cbv zeta. rewrite (u64_small (l + r)) by (change (2 ^ 64) with 18446744073709551616; lia).
      remember ((l + r) / 2) as m eqn:Em.
      assert (Hm : l <= m <= r) by lia.
      destruct (Hcmp m ltac:(lia)) as (z & Ez & Hz). rewrite Ez.
      destruct (Z.ltb_spec 0 z) as [Hpos|Hnpos].
      + pose proof (sign_gt _ _ Hz Hpos) as Km.
        rewrite u64_pred by (change (2 ^ 64) with 18446744073709551616; lia).
        destruct (IH l (m - 1) m z H1 ltac:(lia) ltac:(lia)) as (l' & r' & c' & z' & hit & E & R);
          [lia|exact HL| |].
        { intros i Hi. apply (Hgt m i); [lia|lia|lia|exact Km]. }
        exists l', r', c', z', hit. split; [exact E|].
        destruct R as (R1 & R2 & R3 & R4 & R5 & R6). repeat split; try assumption; try (apply R5; assumption); try (apply R6; assumption).
        intros _. apply R6; [assumption|]. right. lia.
      + destruct (Z.ltb_spec z 0) as [Hneg|Hnneg].
        * pose proof (sign_lt _ _ Hz Hneg) as Km.
          rewrite (u64_small (m + 1)) by (change (2 ^ 64) with 18446744073709551616; lia).
          destruct (IH (m + 1) r m z ltac:(lia) H2 ltac:(lia)) as (l' & r' & c' & z' & hit & E & R);
            [lia| |exact HG|].
          { intros i Hi. apply (Hlt i m); [lia|lia|lia|exact Km]. }
          exists l', r', c', z', hit. split; [exact E|].
          destruct R as (R1 & R2 & R3 & R4 & R5 & R6). repeat split; try assumption; try (apply R5; assumption); try (apply R6; assumption).
          intros _. apply R6; [assumption|]. right. lia.
        * assert (z = 0%Z) by lia. subst z. pose proof (sign_eq _ _ Hz eq_refl) as Km.
          exists l, r, m, 0%Z, true. repeat split; try assumption; try discriminate; lia.
    - exists l, r, c, z0, false. repeat split; try assumption; try discriminate; try lia.
  Qed.

  Theorem bsearch_locate :
    exists res,
      match bsearch cmpf (bs_fuel n) 1 n 0 0%Z with
      | None => None
      | Some (_, _, center, _, hit) => Some (if hit then center else 0)
      end = Some res /\
      ((1 <= res <= n /\ k res = Eq) \/ (res = 0 /\ forall i, 1 <= i <= n -> k i <> Eq)).
  Proof.
    destruct (bsearch_spec (bs_fuel n) 1 n 0 0%Z) as (l' & r' & c' & z' & hit & E & R1 & R2 & R3 & R4 & R5 & R6);
      try lia.
    { pose proof (bs_fuel_ok n). lia. }
    rewrite E. destruct hit.
    - exists c'. split; [reflexivity|]. left. destruct (R5 eq_refl) as (Hc & Kc & _). split; [lia|exact Kc].
    - exists 0. split; [reflexivity|]. right. split; [reflexivity|]. destruct (R6 eq_refl) as (Hl & _).
      intros i Hi Ki. destruct (N.lt_ge_cases i l') as [H|H].
      + rewrite (R3 i ltac:(lia)) in Ki. discriminate.
      + rewrite (R4 i ltac:(lia)) in Ki. discriminate.
  Qed.

  Lemma bs_left_spec : forall fuel ll lr hi,
    1 <= ll -> ll <= lr + 1 -> lr < hi -> hi <= n -> lr + 1 - ll < 2 ^ N.of_nat fuel ->
    (forall i, 1 <= i < ll -> k i = Lt) -> (forall i, lr < i <= hi -> k i = Eq) ->
    exists lr', bs_left cmpf fuel ll lr = Some lr' /\ lr' < hi /\
      (forall i, 1 <= i <= lr' -> k i = Lt) /\ (forall i, lr' < i <= hi -> k i = Eq).
  Proof.
    induction fuel as [|f IH]; intros ll lr hi H1 H2 H3 H4 Hsz HL HE; rewrite bs_left_eq;
      destruct (N.leb_spec ll lr) as [Hlr|Hlr].
    - change (2 ^ N.of_nat 0) with 1 in Hsz. lia.
    - exists lr. repeat split; try assumption. intros i Hi. apply HL. lia.
    - rewrite Nat2N.inj_succ, N.pow_succ_r' in Hsz. remember (2 ^ N.of_nat f) as P eqn:EP.
      cbv zeta. rewrite (u32_small (ll + lr)) by (change (2 ^ 32) with 4294967296; lia).
      remember ((ll + lr) / 2) as m eqn:Em.
      assert (Hm : ll <= m <= lr) by lia.
      assert (Khi : k hi = Eq) by (apply HE; lia).
      destruct (Hcmp m ltac:(lia)) as (z & Ez & Hz). rewrite Ez.
      destruct (Z.eqb_spec z 0) as [->|Hz0].
      + pose proof (sign_eq _ _ Hz eq_refl) as Km.
        rewrite u32_pred by (change (2 ^ 32) with 4294967296; lia).
        apply (IH ll (m - 1) hi); try lia; try assumption.
        intros i Hi. apply (key_convex m hi i); try lia; assumption.
      + assert (Km : k m = Lt).
        { destruct (k m) eqn:Km; [apply sign_eq_inv in Hz; congruence|reflexivity|].
          rewrite (Hgt m hi ltac:(lia) ltac:(lia) H4 Km) in Khi. discriminate. }
        rewrite (u32_small (m + 1)) by (change (2 ^ 32) with 4294967296; lia).
        apply (IH (m + 1) lr hi); try lia; try assumption.
        intros i Hi. apply (Hlt i m); [lia|lia|lia|exact Km].
    - exists lr. repeat split; try assumption. intros i Hi. apply HL. lia.
  Qed.

  Lemma bs_right_spec : forall fuel rl rr,
    1 <= rl -> rl < rr -> rr <= n + 1 -> rr - rl - 1 < 2 ^ N.of_nat fuel ->
    k rl = Eq -> (forall i, rr <= i <= n -> k i = Gt) ->
    exists rl', bs_right cmpf fuel rl rr = Some rl' /\ rl <= rl' /\ rl' <= n /\ k rl' = Eq /\
      (forall i, rl' < i <= n -> k i = Gt).
  Proof.
    induction fuel as [|f IH]; intros rl rr H1 H2 H3 Hsz KE HG; rewrite bs_right_eq;
      rewrite (u32_pred rr) by (change (2 ^ 32) with 4294967296; lia);
      destruct (N.ltb_spec rl (rr - 1)) as [Hlr|Hlr].
    - change (2 ^ N.of_nat 0) with 1 in Hsz. lia.
    - exists rl. repeat split; try assumption; try lia. intros i Hi. apply HG. lia.
    - rewrite Nat2N.inj_succ, N.pow_succ_r' in Hsz. remember (2 ^ N.of_nat f) as P eqn:EP.
      cbv zeta. rewrite (u32_small (rl + rr)) by (change (2 ^ 32) with 4294967296; lia).
      remember ((rl + rr) / 2) as m eqn:Em.
      assert (Hm : rl < m < rr) by lia.
      destruct (Hcmp m ltac:(lia)) as (z & Ez & Hz). rewrite Ez.
      destruct (Z.eqb_spec z 0) as [->|Hz0].
      + pose proof (sign_eq _ _ Hz eq_refl) as Km.
        destruct (IH m rr) as (rl' & E & R1 & R); try lia; try assumption.
        exists rl'. split; [exact E|]. split; [lia|exact R].
      + assert (Km : k m = Gt).
        { destruct (k m) eqn:Km; [apply sign_eq_inv in Hz; congruence| |reflexivity].
          rewrite (Hlt rl m H1 ltac:(lia) ltac:(lia) Km) in KE. discriminate. }
        apply (IH rl m); try lia; try assumption.
        intros i Hi. apply (Hgt m i); [lia|lia|lia|exact Km].
    - exists rl. repeat split; try assumption; try lia. intros i Hi. apply HG. lia.
  Qed.

  Theorem locate_prefix_gen_spec : 1 <= n ->
    exists res, locate_prefix_gen cmpf n = Some res /\
      ((res = (0, 0) /\ forall i, 1 <= i <= n -> k i <> Eq) \/
       (exists lo hi, res = (lo, hi) /\ 1 <= lo /\ lo <= hi /\ hi <= n /\
                      forall i, 1 <= i <= n -> (k i = Eq <-> lo <= i <= hi))).
  Proof.
    intros Hn1. unfold locate_prefix_gen. pose proof (bs_fuel_ok n) as Hf.
    destruct (bsearch_spec (bs_fuel n) 1 n 0 0%Z) as (l' & r' & c & z' & hit & E & R1 & R2 & R3 & R4 & R5 & R6);
      try lia.
    rewrite E. destruct hit.
    - destruct (R5 eq_refl) as (Hc & Kc & ->). cbn [Z.eqb negb].
      (* left boundary *)
      assert (HLeft : exists lo,
        (if 1 <? c then
           match bs_left cmpf (bs_fuel n) (u32 l') (u32 (u64 (c + (2 ^ 64 - 1)))) with
           | None => None
           | Some lr => Some (if 0 <? lr then u32 (lr + 1) else 1)
           end
         else Some c) = Some lo /\ 1 <= lo <= c /\
        (forall i, 1 <= i < lo -> k i = Lt) /\ (forall i, lo <= i <= c -> k i = Eq)).
      { destruct (N.ltb_spec 1 c) as [Hc1|Hc1].
        - rewrite u64_pred by (change (2 ^ 64) with 18446744073709551616; lia).
          rewrite !u32_small by (change (2 ^ 32) with 4294967296; lia).
          destruct (bs_left_spec (bs_fuel n) l' (c - 1) c) as (lr' & El & L1 & L2 & L3); try lia; try assumption.
          { intros i Hi. replace i with c by lia. exact Kc. }
          rewrite El. exists (lr' + 1). split.
          + f_equal. destruct (N.ltb_spec 0 lr'); [|lia].
            apply u32_small. change (2 ^ 32) with 4294967296; lia.
          + split; [lia|]. split; intros i Hi; [apply L2|apply L3]; lia.
        - exists c. split; [reflexivity|]. split; [lia|]. split; intros i Hi; [lia|].
          replace i with c by lia. exact Kc. }
      destruct HLeft as (lo & -> & Hlo & LL & LE).
      (* right boundary *)
      assert (HRight : exists hi,
        (if c <? n then bs_right cmpf (bs_fuel n) (u32 c) (u32 (u64 (r' + 1))) else Some c) = Some hi /\
        c <= hi <= n /\ k hi = Eq /\ (forall i, hi < i <= n -> k i = Gt)).
      { destruct (N.ltb_spec c n) as [Hcn|Hcn].
        - rewrite (u64_small (r' + 1)) by (change (2 ^ 64) with 18446744073709551616; lia).
          rewrite !u32_small by (change (2 ^ 32) with 4294967296; lia).
          destruct (bs_right_spec (bs_fuel n) c (r' + 1)) as (rl' & Er & Q1 & Q2 & Q3 & Q4); try lia; try assumption.
          { intros i Hi. apply R4. lia. }
          exists rl'. split; [exact Er|]. repeat split; try assumption; lia.
        - exists c. split; [reflexivity|]. split; [lia|]. split; [exact Kc|]. intros i Hi. lia. }
      destruct HRight as (hi & -> & Hhi & KH & HG).
      exists (lo, hi). split; [reflexivity|]. right. exists lo, hi. split; [reflexivity|].
      split; [lia|]. split; [lia|]. split; [lia|]. intros i Hi. split.
      + intros Ki. destruct (N.lt_ge_cases i lo) as [H|H]; [rewrite (LL i ltac:(lia)) in Ki; discriminate|].
        destruct (N.lt_ge_cases hi i) as [H'|H']; [rewrite (HG i ltac:(lia)) in Ki; discriminate|]. lia.
      + intros Hi'. destruct (N.le_gt_cases i c) as [H|H]; [apply LE; lia|].
        apply (key_convex c hi i); try lia; assumption.
    - destruct (R6 eq_refl) as (Hl & Hz). specialize (Hz ltac:(left; lia)).
      destruct (Z.eqb_spec z' 0) as [|_]; [congruence|]. cbn [negb].
      exists (0, 0). split; [reflexivity|]. left. split; [reflexivity|].
      intros i Hi Ki. destruct (N.lt_ge_cases i l') as [H|H].
      + rewrite (R3 i ltac:(lia)) in Ki. discriminate.
      + rewrite (R4 i ltac:(lia)) in Ki. discriminate.
  Qed.
End BSearch.

(* ---------------------------------------------------------------------------------------- *)
(* 7. the specification's answers in terms of ids                                             *)

(* the id-th string (ids start at 1) *)
Definition sid (S : list str) (i : N) : str := match nthN S (i - 1) with Some s => s | None => [] end.

Lemma sid_nth S i : 1 <= i <= lenN S -> nthN S (i - 1) = Some (sid S i).
Proof.
  intros H. unfold sid. destruct (nthN_lt_Some S (i - 1) ltac:(lia)) as [s ->]. reflexivity.
Qed.

Lemma sid_In S i : 1 <= i <= lenN S -> In (sid S i) S.
Proof. intros H. pose proof (sid_nth S i H) as E. unfold nthN in E. eapply nth_error_In; exact E. Qed.

Lemma sid_lt S i j : sorted_lt S -> 1 <= i -> i < j -> j <= lenN S -> lex_lt (sid S i) (sid S j).
Proof.
  intros Hs H1 H2 H3.
  pose proof (sid_nth S i ltac:(lia)) as Ei. pose proof (sid_nth S j ltac:(lia)) as Ej. unfold nthN in *.
  apply (sorted_nth_lt S Hs (N.to_nat (i - 1)) (N.to_nat (j - 1))); [lia|assumption|assumption].
Qed.

Lemma In_sid S q : In q S -> exists i, 1 <= i <= lenN S /\ sid S i = q.
Proof.
  intros Hin. apply In_nth_error in Hin. destruct Hin as [m Hm].
  assert (Hlt : (m < length S)%nat) by (apply nth_error_Some; congruence).
  exists (N.of_nat m + 1). split; [unfold lenN; lia|]. unfold sid, nthN.
  replace (N.to_nat (N.of_nat m + 1 - 1)) with m by lia. rewrite Hm. reflexivity.
Qed.

Lemma spec_extract_sid S i : 1 <= i <= lenN S -> spec_extract S i = Some (sid S i).
Proof.
  intros H. unfold spec_extract. destruct (N.eqb_spec i 0); [lia|]. apply sid_nth. exact H.
Qed.

Lemma spec_extract_range S i s : spec_extract S i = Some s -> 1 <= i <= lenN S /\ sid S i = s.
Proof.
  unfold spec_extract. destruct (N.eqb_spec i 0); [discriminate|]. intros H.
  pose proof (nthN_Some_lt _ _ _ H). split; [lia|]. unfold sid. rewrite H. reflexivity.
Qed.

Lemma pkey_eq p s : pkey p s = Eq <-> is_prefix p s = true.
Proof.
  unfold pkey. destruct (is_prefix p s) eqn:E; split; try reflexivity; try discriminate.
  intros H. apply lex_compare_eq in H. subst. rewrite is_prefix_refl in E. discriminate.
Qed.

Lemma prefix_not_lt p s : is_prefix p s = true -> lex_compare s p <> Lt.
Proof.
  intros H. apply is_prefix_app in H. destruct H as [r ->].
  rewrite <- (app_nil_r p) at 2. rewrite lex_compare_app. destruct r; discriminate.
Qed.

Lemma last_default {A} (a : A) l d d' : last (a :: l) d = last (a :: l) d'.
Proof. revert a; induction l as [|b l IH]; intros a; [reflexivity|]. cbn [last]. apply (IH b). Qed.

Lemma contiguous_mem : forall r x, contiguous (x :: r) ->
  forall y, In y (x :: r) <-> x <= y <= last (x :: r) x.
Proof.
  induction r as [|x1 r IH]; intros x Hc y.
  - cbn [In last]. split; [intros [->|[]]; lia|intros H; left; lia].
  - inversion Hc; subst. specialize (IH (x + 1) H0).
    change (last (x :: x + 1 :: r) x) with (last (x + 1 :: r) x). rewrite (last_default (x + 1) r x (x + 1)).
    pose proof (proj1 (IH (x + 1)) (or_introl eq_refl)) as Hx1.
    split.
    + intros [->|Hin]; [lia|]. apply IH in Hin. lia.
    + intros H. destruct (N.eq_dec y x) as [->|Hne]; [left; reflexivity|]. right. apply IH. lia.
Qed.

Lemma range_of_interval l lo hi : contiguous l -> lo <= hi ->
  (forall y, In y l <-> lo <= y <= hi) -> range_of l = (lo, hi).
Proof.
  intros Hc Hle Hm. destruct l as [|x r].
  - exfalso. apply (proj2 (Hm lo)). lia.
  - unfold range_of. pose proof (contiguous_mem r x Hc) as Hcm.
    pose proof (proj1 (Hcm x) (or_introl eq_refl)) as Hx.
    set (la := last (x :: r) x) in *.
    pose proof (proj1 (Hm x) (proj2 (Hcm x) ltac:(lia))) as A1.
    pose proof (proj1 (Hcm lo) (proj2 (Hm lo) ltac:(lia))) as A2.
    pose proof (proj1 (Hm la) (proj2 (Hcm la) ltac:(lia))) as A3.
    pose proof (proj1 (Hcm hi) (proj2 (Hm hi) ltac:(lia))) as A4.
    f_equal; lia.
Qed.

(* ---------------------------------------------------------------------------------------- *)
(* 8. main theorems                                                                           *)

Section Main.
  Variables (d : rpdac) (S : list str).
  Hypothesis Hrepr : rpdac_repr d S.
  Hypothesis Hin : rpdac_input S.

  Let Hn : lenN S < 2 ^ 31. Proof. apply Hin. Qed.
  Let Hsorted : sorted_lt S. Proof. apply Hin. Qed.
  Let Hel : d_elements d = lenN S. Proof. apply Hrepr. Qed.

  Lemma sid_ok i : 1 <= i <= lenN S -> nul_free (sid S i) /\ sid S i <> [].
  Proof.
    intros H. destruct Hin as (_ & Hnf & Hne & _). rewrite Forall_forall in Hnf, Hne.
    pose proof (sid_In S i H). split; [apply Hnf|apply Hne]; assumption.
  Qed.

  Lemma cmp_total q : nul_free q -> lenN q < 2 ^ 32 ->
    forall i, 1 <= i <= lenN S -> exists z, compare_dac d i q = Some z /\ Z.compare z 0 = lex_compare (sid S i) q.
  Proof.
    intros Hq Hql i Hi. destruct (sid_ok i Hi).
    apply (compare_expand_spec d S Hrepr Hn i (sid S i) q); try assumption; [apply sid_nth; exact Hi|lia].
  Qed.

  Lemma pcmp_total p : p <> [] -> nul_free p -> lenN p < 2 ^ 32 ->
    forall i, 1 <= i <= lenN S -> exists z, prefix_compare_dac d i p = Some z /\ Z.compare z 0 = pkey p (sid S i).
  Proof.
    intros Hpne Hp Hpl i Hi. destruct (sid_ok i Hi).
    apply (prefix_compare_spec d S Hrepr Hn i (sid S i) p); try assumption; [apply sid_nth; exact Hi|lia].
  Qed.

  (* 2a. locate *)
  Theorem rpdac_locate_spec q : nul_free q -> lenN q < 2 ^ 32 -> rpdac_locate d q = Some (spec_locate S q).
  Proof.
    intros Hq Hql. unfold rpdac_locate. rewrite Hel.
    destruct (bsearch_locate (lenN S) (fun i => lex_compare (sid S i) q) (fun c => compare_dac d c q) Hn
                (cmp_total q Hq Hql)) as (res & E & R).
    - intros i j H1 H2 H3 Kj. destruct (N.eq_dec i j) as [->|Hne]; [exact Kj|].
      change (lex_lt (sid S i) q). eapply lex_lt_trans; [apply (sid_lt S i j); try assumption; lia|exact Kj].
    - intros i j H1 H2 H3 Ki. destruct (N.eq_dec i j) as [->|Hne]; [exact Ki|].
      apply lex_gt_lt. apply lex_gt_lt in Ki.
      eapply lex_lt_trans; [exact Ki|apply (sid_lt S i j); try assumption; lia].
    - rewrite E. f_equal. destruct R as [(Hr & Kr)|(-> & Hno)].
      + apply lex_compare_eq in Kr. symmetry. apply spec_locate_extract; [apply sorted_NoDup; exact Hsorted|].
        rewrite spec_extract_sid by exact Hr. f_equal. exact Kr.
      + symmetry. apply spec_locate_absent. intros Hq'. destruct (In_sid S q Hq') as (i & Hi & Ei).
        apply (Hno i Hi). rewrite Ei. apply lex_compare_refl.
  Qed.

  (* 2b. extract: every id, including 0 and ids beyond the last *)
  Theorem rpdac_extract_spec id : rpdac_extract d id = Some (spec_extract S id).
  Proof.
    unfold rpdac_extract. rewrite Hel. pose proof pow31_32 as P.
    destruct (N.ltb_spec 0 id) as [H0|H0]; cbn [andb].
    - destruct (N.leb_spec id (lenN S)) as [H1|H1].
      + rewrite (u32_small id) by lia. rewrite seq_of_id by lia.
        pose proof (sid_nth S id ltac:(lia)) as Es.
        destruct (repr_seq d S _ _ Hrepr Es) as (sq & Esq & Ex). rewrite Esq.
        destruct Hrepr as (Ht & Hw & Hsz & _ & _ & Hml).
        unfold expand_seq in Ex. rewrite (xseq_expand _ _ Ht Hsz _ _ _ Ex).
        pose proof (spec_maxlen_bounds_aux S (sid S id) (sid_In S id ltac:(lia))) as Hb.
        destruct (N.leb_spec (lenN (sid S id)) (d_maxlength d)); [|lia].
        rewrite spec_extract_sid by lia. reflexivity.
      + f_equal. symmetry. apply spec_extract_out_of_range. right. exact H1.
    - f_equal. symmetry. apply spec_extract_out_of_range. left. lia.
  Qed.

  (* monotonicity of the prefix key along the sorted set *)
  Lemma pkey_mono_lt p i j : 1 <= i -> i <= j -> j <= lenN S -> pkey p (sid S j) = Lt -> pkey p (sid S i) = Lt.
  Proof.
    intros H1 H2 H3 Kj. destruct (N.eq_dec i j) as [->|Hne]; [exact Kj|].
    unfold pkey in *. destruct (is_prefix p (sid S j)); [discriminate|].
    assert (L : lex_lt (sid S i) p) by (eapply lex_lt_trans; [apply (sid_lt S i j); try assumption; lia|exact Kj]).
    destruct (is_prefix p (sid S i)) eqn:E; [|exact L]. exfalso. exact (prefix_not_lt _ _ E L).
  Qed.

  Lemma pkey_mono_gt p i j : 1 <= i -> i <= j -> j <= lenN S -> pkey p (sid S i) = Gt -> pkey p (sid S j) = Gt.
  Proof.
    intros H1 H2 H3 Ki. destruct (N.eq_dec i j) as [->|Hne]; [exact Ki|].
    unfold pkey in *. destruct (is_prefix p (sid S i)) eqn:Ei; [discriminate|].
    apply lex_gt_lt in Ki.
    pose proof (sid_lt S i j Hsorted H1 ltac:(lia) H3) as Lij.
    destruct (is_prefix p (sid S j)) eqn:Ej.
    - rewrite (prefix_convex p p (sid S i) (sid S j) (is_prefix_refl p) Ej Ki Lij) in Ei. discriminate.
    - apply lex_gt_lt. eapply lex_lt_trans; eassumption.
  Qed.

  (* 3b. locatePrefix: the limits of the matching id range, (0,0) when nothing matches *)
  Lemma locate_prefix_char p : p <> [] -> nul_free p -> lenN p < 2 ^ 32 ->
    exists res, rpdac_locate_prefix d p = Some res /\
      ((res = (0, 0) /\ forall i, 1 <= i <= lenN S -> is_prefix p (sid S i) = false) \/
       (exists lo hi, res = (lo, hi) /\ 1 <= lo /\ lo <= hi /\ hi <= lenN S /\
                      forall i, 1 <= i <= lenN S -> (is_prefix p (sid S i) = true <-> lo <= i <= hi))).
  Proof.
    intros Hpne Hp Hpl. unfold rpdac_locate_prefix. rewrite Hel.
    assert (Hn1 : 1 <= lenN S).
    { destruct Hin as (Hne & _). destruct S; [congruence|]. rewrite lenN_cons. lia. }
    destruct (locate_prefix_gen_spec (lenN S) (fun i => pkey p (sid S i)) (fun c => prefix_compare_dac d c p) Hn
                (pcmp_total p Hpne Hp Hpl) (pkey_mono_lt p) (pkey_mono_gt p) Hn1) as (res & E & R).
    exists res. split; [exact E|]. destruct R as [(-> & Hno)|(lo & hi & -> & H1 & H2 & H3 & Hm)].
    - left. split; [reflexivity|]. intros i Hi. destruct (is_prefix p (sid S i)) eqn:Ep; [|reflexivity].
      exfalso. apply (Hno i Hi). apply pkey_eq. exact Ep.
    - right. exists lo, hi. split; [reflexivity|]. split; [exact H1|]. split; [exact H2|]. split; [exact H3|].
      intros i Hi. split; intros X.
      + apply (Hm i Hi). apply pkey_eq. exact X.
      + apply pkey_eq. apply (Hm i Hi). exact X.
  Qed.

  Theorem rpdac_locate_prefix_spec p : p <> [] -> nul_free p -> lenN p < 2 ^ 32 ->
    rpdac_locate_prefix d p = Some (range_of (spec_prefix_ids S p)).
  Proof.
    intros Hpne Hp Hpl. destruct (locate_prefix_char p Hpne Hp Hpl) as (res & E & R).
    rewrite E. f_equal. destruct R as [(-> & Hno)|(lo & hi & -> & H1 & H2 & H3 & Hm)].
    - destruct (spec_prefix_ids S p) as [|x r] eqn:El; [reflexivity|]. exfalso.
      assert (Hx : In x (spec_prefix_ids S p)) by (rewrite El; left; reflexivity).
      apply spec_prefix_ids_spec in Hx. destruct Hx as (s & Es & Ep).
      apply spec_extract_range in Es. destruct Es as [Hr <-].
      rewrite (Hno x Hr) in Ep. discriminate.
    - symmetry. apply range_of_interval; [apply spec_prefix_ids_contiguous; exact Hsorted|exact H2|].
      intros y. rewrite spec_prefix_ids_spec. split.
      + intros (s & Es & Ep). apply spec_extract_range in Es. destruct Es as [Hr <-].
        apply (Hm y Hr). exact Ep.
      + intros Hy. exists (sid S y). split; [apply spec_extract_sid; lia|].
        apply (Hm y ltac:(lia)). exact Hy.
  Qed.

  (* 4. the string iterator: extractTable and extractPrefix *)
  Lemma it_next_spec pr : pr < lenN S -> it_next d pr = Some (sid S (pr + 1), pr + 1).
  Proof.
    intros Hpr. unfold it_next. pose proof pow31_32 as P. pose proof pow32_64 as P'.
    rewrite (u64_small (pr + 1)) by lia. rewrite (u32_small (pr + 1)) by lia. rewrite seq_of_id by lia.
    pose proof (sid_nth S (pr + 1) ltac:(lia)) as Es.
    destruct (repr_seq d S _ _ Hrepr Es) as (sq & Esq & Ex). rewrite Esq.
    destruct Hrepr as (Ht & Hw & Hsz & _ & _ & Hml).
    unfold expand_seq in Ex. rewrite (xseq_expand _ _ Ht Hsz _ _ _ Ex).
    pose proof (spec_maxlen_bounds_aux S (sid S (pr + 1)) (sid_In S (pr + 1) ltac:(lia))) as Hb.
    destruct (N.ltb_spec (lenN (sid S (pr + 1))) (2 * d_maxlength d)); [reflexivity|lia].
  Qed.

  Lemma it_drain_spec sc : sc <= lenN S -> forall k pr fuel,
    pr + N.of_nat k = sc -> (k <= fuel)%nat ->
    it_drain d fuel pr sc = Some (firstn k (skipn (N.to_nat pr) S)).
  Proof.
    intros Hsc. induction k as [|k IH]; intros pr fuel Hk Hf.
    - destruct fuel; cbn [it_drain]; (destruct (N.ltb_spec pr sc); [lia|reflexivity]).
    - destruct fuel as [|f]; [lia|]. cbn [it_drain]. destruct (N.ltb_spec pr sc); [|lia].
      rewrite it_next_spec by lia. rewrite (IH (pr + 1) f) by lia. cbn [option_map]. f_equal.
      pose proof (sid_nth S (pr + 1) ltac:(lia)) as Es. unfold nthN in Es.
      replace (N.to_nat (pr + 1 - 1)) with (N.to_nat pr) in Es by lia.
      rewrite (skipn_nth_cons S (N.to_nat pr) _ Es). cbn [firstn].
      replace (N.to_nat (pr + 1)) with (Datatypes.S (N.to_nat pr)) by lia. reflexivity.
  Qed.

  Theorem rpdac_table_spec : rpdac_extract_table d = Some (spec_table S).
  Proof.
    unfold rpdac_extract_table, spec_table. rewrite Hel.
    rewrite (it_drain_spec (lenN S) (N.le_refl _) (N.to_nat (lenN S)) 0) by lia.
    cbn [N.to_nat skipn]. f_equal. apply firstn_all2. unfold lenN. lia.
  Qed.
End Main.

(* ---------------------------------------------------------------------------------------- *)
(* 9. extractPrefix: the strings of the matching range are the matching strings              *)

Lemma filter_all_false {A} (f : A -> bool) l : (forall x, In x l -> f x = false) -> filter f l = [].
Proof.
  induction l as [|a l IH]; intros H; cbn [filter]; [reflexivity|].
  rewrite (H a (or_introl eq_refl)). apply IH. intros x Hx. apply H. right. exact Hx.
Qed.

Lemma filter_all_true {A} (f : A -> bool) l : (forall x, In x l -> f x = true) -> filter f l = l.
Proof.
  induction l as [|a l IH]; intros H; cbn [filter]; [reflexivity|].
  rewrite (H a (or_introl eq_refl)). f_equal. apply IH. intros x Hx. apply H. right. exact Hx.
Qed.

Lemma sid_of_nth S j s : nth_error S j = Some s -> sid S (N.of_nat j + 1) = s.
Proof.
  intros H. unfold sid, nthN. replace (N.to_nat (N.of_nat j + 1 - 1)) with j by lia. rewrite H. reflexivity.
Qed.

Lemma filter_interval (f : str -> bool) S lo hi : 1 <= lo -> lo <= hi -> hi <= lenN S ->
  (forall i, 1 <= i <= lenN S -> (f (sid S i) = true <-> lo <= i <= hi)) ->
  filter f S = firstn (N.to_nat (hi + 1 - lo)) (skipn (N.to_nat (lo - 1)) S).
Proof.
  intros H1 H2 H3 Hm.
  set (a := N.to_nat (lo - 1)). set (m := N.to_nat (hi + 1 - lo)).
  assert (EA : S = firstn a S ++ firstn m (skipn a S) ++ skipn m (skipn a S))
    by (rewrite (firstn_skipn m), (firstn_skipn a); reflexivity).
  set (A := firstn a S) in *. set (M := firstn m (skipn a S)) in *. set (B := skipn m (skipn a S)) in *.
  assert (LA : length A = a) by (unfold A; rewrite firstn_length; unfold lenN in *; lia).
  assert (LM : length M = m) by (unfold M; rewrite firstn_length, skipn_length; unfold lenN in *; lia).
  assert (LS : length S = (a + m + length B)%nat) by (rewrite EA at 1; rewrite !app_length; lia).
  assert (Hkey : forall j s, nth_error S j = Some s -> (f s = true <-> (a <= j < a + m)%nat)).
  { intros j s Hj. assert (j < length S)%nat by (apply nth_error_Some; congruence).
    rewrite <- (sid_of_nth S j s Hj). rewrite (Hm (N.of_nat j + 1)) by (unfold lenN; lia). unfold a, m. lia. }
  rewrite EA at 1. rewrite !filter_app.
  rewrite (filter_all_false f A), (filter_all_true f M), (filter_all_false f B).
  - rewrite app_nil_r. reflexivity.
  - intros x Hx. apply In_nth_error in Hx. destruct Hx as [j Hj].
    assert (j < length B)%nat by (apply nth_error_Some; congruence).
    assert (Hj' : nth_error S (a + m + j) = Some x).
    { rewrite EA. rewrite nth_error_app2 by lia. rewrite nth_error_app2 by lia.
      replace (a + m + j - length A - length M)%nat with j by lia. exact Hj. }
    destruct (f x) eqn:Ef; [|reflexivity]. apply (Hkey _ _ Hj') in Ef. lia.
  - intros x Hx. apply In_nth_error in Hx. destruct Hx as [j Hj].
    assert (j < length M)%nat by (apply nth_error_Some; congruence).
    assert (Hj' : nth_error S (a + j) = Some x).
    { rewrite EA. rewrite nth_error_app2 by lia. rewrite nth_error_app1 by lia.
      replace (a + j - length A)%nat with j by lia. exact Hj. }
    apply (Hkey _ _ Hj'). lia.
  - intros x Hx. apply In_nth_error in Hx. destruct Hx as [j Hj].
    assert (j < length A)%nat by (apply nth_error_Some; congruence).
    assert (Hj' : nth_error S j = Some x) by (rewrite EA; rewrite nth_error_app1 by lia; exact Hj).
    destruct (f x) eqn:Ef; [|reflexivity]. apply (Hkey _ _ Hj') in Ef. lia.
Qed.

Section Main2.
  Variables (d : rpdac) (S : list str).
  Hypothesis Hrepr : rpdac_repr d S.
  Hypothesis Hin : rpdac_input S.

  Theorem rpdac_extract_prefix_spec p : p <> [] -> nul_free p -> lenN p < 2 ^ 32 ->
    rpdac_extract_prefix d p = Some (spec_prefix_strs S p).
  Proof.
    intros Hpne Hp Hpl. unfold rpdac_extract_prefix, spec_prefix_strs.
    destruct (locate_prefix_char d S Hrepr Hin p Hpne Hp Hpl) as (res & E & R). rewrite E.
    destruct R as [(-> & Hno)|(lo & hi & -> & H1 & H2 & H3 & Hm)].
    - assert (Ed : forall fuel x, it_drain d fuel x 0 = Some []).
      { intros fuel x. destruct fuel; cbn [it_drain]; (destruct (N.ltb_spec x 0); [lia|reflexivity]). }
      rewrite Ed. f_equal. symmetry.
      apply filter_all_false. intros x Hx. destruct (In_sid S x Hx) as (i & Hi & <-). apply Hno. exact Hi.
    - pose proof pow31_32 as P. pose proof pow32_64 as P'. destruct Hin as (_ & _ & _ & _ & Hn).
      rewrite u64_pred by lia.
      rewrite (it_drain_spec d S Hrepr Hin hi H3 (N.to_nat (hi + 1 - lo)) (lo - 1)) by lia.
      f_equal. symmetry. apply filter_interval; assumption.
  Qed.
End Main2.

(* ---------------------------------------------------------------------------------------- *)
(* 10. the boolean checkers are sound                                                         *)

Lemma expands_to_map rules t : forall seqs S, expands_to rules t seqs S = true ->
  map (expand_seq rules t) seqs = map Some S.
Proof.
  induction seqs as [|sq seqs IH]; intros [|s S] H; cbn [expands_to] in H; try discriminate; [reflexivity|].
  destruct (expand_seq rules t sq) as [x|] eqn:Ex; [|discriminate].
  apply andb_true_iff in H. destruct H as [H1 H2]. apply list_eqb_eq in H1. subst x.
  cbn [map]. rewrite Ex, (IH S H2). reflexivity.
Qed.

Theorem rpdac_checkb_sound d S : rpdac_checkb d S = true -> rpdac_repr d S.
Proof.
  unfold rpdac_checkb, rpdac_repr. intros H. split_andb.
  repeat match goal with H : (_ <=? _) = true |- _ => apply N.leb_le in H end.
  repeat match goal with H : (_ <? _) = true |- _ => apply N.ltb_lt in H end.
  repeat match goal with H : (_ =? _) = true |- _ => apply N.eqb_eq in H end.
  split; [lia|]. split.
  { intros i a b Hi.
    match goal with H : rules_ok _ _ = true |- _ => pose proof (rules_ok_from_spec _ _ 0 H i a b Hi) end. lia. }
  split; [assumption|]. split; [apply expands_to_map; assumption|]. split; assumption.
Qed.

Theorem rpdac_inputb_sound S : rpdac_inputb S = true -> rpdac_input S.
Proof.
  unfold rpdac_inputb, rpdac_input. intros H. split_andb.
  split. { destruct S; [discriminate|discriminate]. }
  split.
  { apply Forall_forall. intros s Hs. apply Forall_forall. intros b Hb.
    match goal with H : forallb (fun s => forallb _ s) S = true |- _ => rewrite forallb_forall in H; specialize (H s Hs);
      rewrite forallb_forall in H; specialize (H b Hb) end.
    intros ->. discriminate. }
  split.
  { apply Forall_forall. intros s Hs.
    match goal with H : forallb (fun s => negb _) S = true |- _ => rewrite forallb_forall in H; specialize (H s Hs) end.
    intros ->. discriminate. }
  split; [apply sorted_lt_b_sound; assumption|]. apply N.ltb_lt. assumption.
Qed.

(* ---------------------------------------------------------------------------------------- *)
(* 11. corollaries in the vocabulary of the properties (C01, C02, C03, C04, C13)              *)

Section Corollaries.
  Variables (d : rpdac) (S : list str).
  Hypothesis Hrepr : rpdac_repr d S.
  Hypothesis Hin : rpdac_input S.

  Let Hnf : forall s, In s S -> nul_free s.
  Proof. destruct Hin as (_ & H & _). rewrite Forall_forall in H. exact H. Qed.

  (* the strings of the dictionary are shorter than 2^32: maxlength is a uint *)
  Hypothesis Hlen : forall s, In s S -> lenN s < 2 ^ 32.

  Theorem rpdac_round_trip s : In s S ->
    exists id, rpdac_locate d s = Some id /\ 1 <= id <= lenN S /\ rpdac_extract d id = Some (Some s).
  Proof.
    intros Hs. exists (spec_locate S s). rewrite (rpdac_locate_spec d S Hrepr Hin) by auto.
    split; [reflexivity|]. split; [apply spec_locate_member; exact Hs|].
    rewrite (rpdac_extract_spec d S Hrepr Hin). f_equal. apply spec_extract_locate. exact Hs.
  Qed.

  Theorem rpdac_round_trip_id i : 1 <= i <= lenN S ->
    exists s, rpdac_extract d i = Some (Some s) /\ In s S /\ rpdac_locate d s = Some i.
  Proof.
    intros Hi. destruct (spec_extract_in_range S i Hi) as (s & Hs & Hins).
    exists s. rewrite (rpdac_extract_spec d S Hrepr Hin), Hs. split; [reflexivity|]. split; [exact Hins|].
    rewrite (rpdac_locate_spec d S Hrepr Hin) by auto. f_equal.
    apply spec_locate_extract; [apply sorted_NoDup; apply Hin|exact Hs].
  Qed.

  Theorem rpdac_no_false_positive q : nul_free q -> lenN q < 2 ^ 32 -> ~ In q S -> rpdac_locate d q = Some 0.
  Proof.
    intros Hq Hql Hn. rewrite (rpdac_locate_spec d S Hrepr Hin) by auto. f_equal. apply spec_locate_absent. exact Hn.
  Qed.

  Theorem rpdac_bad_id_null id : id = 0 \/ lenN S < id -> rpdac_extract d id = Some None.
  Proof.
    intros Hid. rewrite (rpdac_extract_spec d S Hrepr Hin). f_equal. apply spec_extract_out_of_range. exact Hid.
  Qed.

  Theorem rpdac_locate_monotone s u : In s S -> In u S -> lex_lt s u ->
    exists i j, rpdac_locate d s = Some i /\ rpdac_locate d u = Some j /\ i < j.
  Proof.
    intros Hs Hu Hlt. exists (spec_locate S s), (spec_locate S u).
    rewrite !(rpdac_locate_spec d S Hrepr Hin) by auto. repeat split.
    apply spec_locate_monotone; auto. apply Hin.
  Qed.
End Corollaries.
