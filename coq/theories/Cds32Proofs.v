(* Proofs about the 32-bit word primitives of libcdsBasics.h (Cds32Defs.v), by [N.testbit]
   extensionality exactly as LogSeqProofs.v does for the 64-bit LogSequence, and their
   composition into the DAC_VLS model (DACDefs / DACProofs) and the word-exact
   BitSequenceRG model (BitRGDefs / BitRGProofs). *)
From LibCSD Require Import Base Bytes LogSeqDefs LogSeqProofs DACDefs DACProofs BitRGDefs BitRGProofs Cds32Defs.
Local Open Scope N_scope.

Ltac Zify.zify_post_hook ::= Z.to_euclidean_division_equations.

(* ========================================================================= *)
(* 1. the primitives, bit by bit                                               *)
(* ========================================================================= *)

Lemma c32_W_pow : c32_W = 2 ^ 32. Proof. reflexivity. Qed.
Lemma c32_W64_pow : c32_W64 = 2 ^ 64. Proof. reflexivity. Qed.

Lemma shl32_spec x s k : s < 32 ->
  N.testbit (shl32 x s) k = (k <? 32) && (s <=? k) && N.testbit x (k - s).
Proof.
  intros Hs. unfold shl32. rewrite c32_W_pow. rewrite (N.mod_small s 32) by assumption.
  destruct (N.ltb_spec k 32) as [Hk|Hk]; cbn [andb].
  - rewrite N.mod_pow2_bits_low by assumption.
    destruct (N.leb_spec s k) as [Hsk|Hsk]; cbn [andb].
    + apply N.shiftl_spec_high'. assumption.
    + apply N.shiftl_spec_low. assumption.
  - apply N.mod_pow2_bits_high. assumption.
Qed.

Lemma shr32_spec x s k : s < 32 -> N.testbit (shr32 x s) k = N.testbit x (k + s).
Proof.
  intros Hs. unfold shr32. rewrite (N.mod_small s 32) by assumption. apply N.shiftr_spec'.
Qed.

Lemma not32_spec x k :
  N.testbit (not32 x) k = if k <? 32 then negb (N.testbit x k) else N.testbit x k.
Proof.
  unfold not32. destruct (N.ltb_spec k 32).
  - apply N.lnot_spec_low; assumption.
  - apply N.lnot_spec_high; assumption.
Qed.

Lemma ones32_spec k : N.testbit ones32 k = (k <? 32).
Proof.
  change ones32 with (N.ones 32). destruct (N.ltb_spec k 32).
  - apply N.ones_spec_low; assumption.
  - apply N.ones_spec_high; assumption.
Qed.

Definition word32 (d : N) : Prop := d < c32_W.

Lemma word32_bit_high d k : word32 d -> 32 <= k -> N.testbit d k = false.
Proof. intros H Hk. apply (testbit_lt_pow2_false d k 32); assumption. Qed.

Lemma word32_of_bits d : (forall k, 32 <= k -> N.testbit d k = false) -> word32 d.
Proof. intros H. unfold word32. rewrite c32_W_pow. apply lt_pow2_of_bits. exact H. Qed.

Lemma shl32_word x s : word32 (shl32 x s).
Proof. unfold shl32, word32. apply N.mod_lt. discriminate. Qed.

Lemma c32_u32_small x : x < c32_W -> c32_u32 x = x.
Proof. intros H. unfold c32_u32. apply N.mod_small. exact H. Qed.

Lemma c32_u64_small x : x < c32_W64 -> c32_u64 x = x.
Proof. intros H. unfold c32_u64. apply N.mod_small. exact H. Qed.

(* the two integer types the C code computes j + len, W - j - len ... in *)
Definition wrap_ok (wrap : N -> N) : Prop :=
  forall x, x < c32_W -> wrap x = x /\ wrap (c32_W64 + x) = x.

Lemma wrap_ok_u64 : wrap_ok c32_u64.
Proof.
  intros x Hx. unfold c32_u64, c32_W, c32_W64 in *. split.
  - apply N.mod_small. lia.
  - symmetry. apply (N.mod_unique _ _ 1); lia.
Qed.

Lemma wrap_ok_u32 : wrap_ok c32_u32.
Proof.
  intros x Hx. unfold c32_u32, c32_W, c32_W64 in *. split.
  - apply N.mod_small. lia.
  - symmetry. apply (N.mod_unique _ _ 4294967296); lia.
Qed.

Lemma subw_small wrap a b : wrap_ok wrap -> b <= a -> a < c32_W -> c32_subw wrap a b = a - b.
Proof.
  intros Hw Hb Ha. unfold c32_subw. rewrite c32_u64_small by (unfold c32_W, c32_W64 in *; lia).
  replace (a + c32_W64 - b) with (c32_W64 + (a - b)) by lia.
  apply Hw. lia.
Qed.

(* ---- the array seen as one long little-endian bit string ------------------- *)

Definition words32 (A : list N) : Prop := Forall word32 A.

Definition wbit32 (A : list N) (k : N) : bool :=
  match nthN A (k / 32) with
  | Some d => N.testbit d (k mod 32)
  | None => false
  end.

(* a C array of uint whose bit indices fit in a size_t *)
Definition arr32 (A : list N) : Prop := words32 A /\ lenN A < 2 ^ 59.

Lemma words32_nth A i d : words32 A -> nthN A i = Some d -> word32 d.
Proof.
  unfold words32, nthN. intros H E. rewrite Forall_forall in H. apply H.
  eapply nth_error_In; eauto.
Qed.

Lemma words32_upd A i x : words32 A -> word32 x -> words32 (updN A i x).
Proof.
  unfold words32, updN. generalize (N.to_nat i) as n. intros n H Hx. revert n.
  induction H as [|h t Hh Ht IH]; intros [|n]; simpl; constructor; auto.
Qed.

Lemma words32_repeat0 n : words32 (repeat 0 n).
Proof.
  unfold words32. apply Forall_forall. intros x Hx. apply repeat_spec in Hx. subst. reflexivity.
Qed.

Lemma c32_rd_eq A i : c32_rd A i = nthN A i.
Proof. apply rdN_eq. Qed.

Lemma nth_error_ext_eq {A} (l l' : list A) : (forall q, nth_error l q = nth_error l' q) -> l = l'.
Proof.
  revert l'; induction l as [|a l IH]; intros [|b l'] H.
  - reflexivity.
  - specialize (H O). discriminate.
  - specialize (H O). discriminate.
  - pose proof (H O) as H0. cbn in H0. injection H0 as ->. f_equal. apply IH. intros q. apply (H (S q)).
Qed.

(* two word arrays of the same length with the same bits are equal *)
Lemma wbit32_ext A B : words32 A -> words32 B -> length A = length B ->
  (forall k, wbit32 A k = wbit32 B k) -> A = B.
Proof.
  unfold words32. intros HA HB HL Hb. apply nth_error_ext_eq. intros q.
  destruct (nth_error A q) as [a|] eqn:Ea; destruct (nth_error B q) as [b|] eqn:Eb.
  - f_equal. apply N.bits_inj. intros t.
    assert (Wa : word32 a) by (rewrite Forall_forall in HA; apply HA; eapply nth_error_In; eauto).
    assert (Wb : word32 b) by (rewrite Forall_forall in HB; apply HB; eapply nth_error_In; eauto).
    destruct (N.lt_ge_cases t 32) as [Ht|Ht].
    + specialize (Hb (32 * N.of_nat q + t)). unfold wbit32, nthN in Hb.
      replace ((32 * N.of_nat q + t) / 32) with (N.of_nat q) in Hb by lia.
      replace ((32 * N.of_nat q + t) mod 32) with t in Hb by lia.
      rewrite Nat2N.id, Ea, Eb in Hb. exact Hb.
    + rewrite !word32_bit_high by assumption. reflexivity.
  - apply nth_error_None in Eb. assert (q < length A)%nat by (apply nth_error_Some; congruence). lia.
  - apply nth_error_None in Ea. assert (q < length B)%nat by (apply nth_error_Some; congruence). lia.
  - reflexivity.
Qed.

(* ========================================================================= *)
(* 2. the read core: bits [32 i + j, 32 i + j + len)                            *)
(* ========================================================================= *)

Lemma rd_core32_bits wrap A i j len :
  wrap_ok wrap -> words32 A -> j < 32 -> 1 <= len <= 32 -> 32 * i + j + len <= 32 * lenN A ->
  exists v, rd_core32 shl32 shr32 wrap A i j len = Some v /\
    forall t, N.testbit v t = (t <? len) && wbit32 A (32 * i + j + t).
Proof.
  intros Hwrap Hw Hj Hlen Hin. unfold rd_core32. rewrite !c32_rd_eq.
  assert (HW : c32_W = 4294967296) by reflexivity.
  assert (Hi : i < lenN A) by lia.
  destruct (nthN_lt_Some A i Hi) as [d Hd]. rewrite Hd.
  pose proof (words32_nth _ _ _ Hw Hd) as Hdw.
  destruct (Hwrap (j + len) ltac:(lia)) as [-> _].
  rewrite (subw_small wrap 32 len) by (assumption || lia).
  destruct (N.leb_spec (j + len) 32) as [Hfit|Hstr].
  - rewrite (subw_small wrap 32 j), (subw_small wrap (32 - j) len) by (assumption || lia).
    eexists; split; [reflexivity|]. intros t.
    rewrite shr32_spec by lia. rewrite shl32_spec by lia.
    destruct (N.ltb_spec t len) as [Htw|Htw]; cbn [andb].
    + destruct (N.ltb_spec (t + (32 - len)) 32); [|lia].
      destruct (N.leb_spec (32 - j - len) (t + (32 - len))); [|lia].
      cbn [andb]. unfold wbit32.
      replace ((32 * i + j + t) / 32) with i by lia.
      rewrite Hd. f_equal. lia.
    + destruct (N.ltb_spec (t + (32 - len)) 32); [lia|]. reflexivity.
  - rewrite (subw_small wrap 64 j), (subw_small wrap (64 - j) len) by (assumption || lia).
    assert (Hi1 : i + 1 < lenN A) by lia.
    destruct (nthN_lt_Some A (i + 1) Hi1) as [d1 Hd1]. rewrite Hd1.
    pose proof (words32_nth _ _ _ Hw Hd1) as Hd1w.
    eexists; split; [reflexivity|]. intros t.
    rewrite N.lor_spec, !shr32_spec by lia. rewrite shl32_spec by lia.
    destruct (N.ltb_spec t len) as [Htw|Htw]; cbn [andb].
    + destruct (N.ltb_spec (t + j) 32) as [Hlo|Hhi].
      * destruct (N.leb_spec (64 - j - len) (t + (32 - len))); [lia|].
        rewrite andb_false_r. cbn [andb]. rewrite orb_false_r.
        unfold wbit32. replace ((32 * i + j + t) / 32) with i by lia.
        rewrite Hd. f_equal. lia.
      * rewrite (word32_bit_high d) by (auto; lia). cbn [orb].
        destruct (N.ltb_spec (t + (32 - len)) 32); [|lia].
        destruct (N.leb_spec (64 - j - len) (t + (32 - len))); [|lia].
        cbn [andb]. unfold wbit32.
        replace ((32 * i + j + t) / 32) with (i + 1) by lia.
        rewrite Hd1. f_equal. lia.
    + rewrite (word32_bit_high d) by (auto; lia). cbn [orb].
      destruct (N.ltb_spec (t + (32 - len)) 32); [lia|]. reflexivity.
Qed.

(* ========================================================================= *)
(* 3. the write core: replaces exactly the bits [32 i + j, 32 i + j + len)      *)
(* ========================================================================= *)

Lemma wr_core32_bits wrap A i j len x :
  wrap_ok wrap -> words32 A -> j < 32 -> 1 <= len <= 32 -> 32 * i + j + len <= 32 * lenN A ->
  x < 2 ^ len ->
  exists A', wr_core32 shl32 shr32 wrap A i j len x = Some A' /\
    words32 A' /\ lenN A' = lenN A /\
    forall k, wbit32 A' k =
      if (32 * i + j <=? k) && (k <? 32 * i + j + len) then N.testbit x (k - (32 * i + j))
      else wbit32 A k.
Proof.
  intros Hwrap Hw Hj Hlen Hin Hx. unfold wr_core32. cbv zeta. rewrite !c32_rd_eq.
  assert (HW : c32_W = 4294967296) by reflexivity.
  assert (Hi : i < lenN A) by lia.
  destruct (nthN_lt_Some A i Hi) as [d Hd]. rewrite Hd.
  pose proof (words32_nth _ _ _ Hw Hd) as Hdw.
  destruct (Hwrap (j + len) ltac:(lia)) as [-> _].
  rewrite (subw_small wrap 32 j) by (assumption || lia).
  assert (Hxhigh : forall k, len <= k -> N.testbit x k = false)
    by (intros k Hk; apply (testbit_lt_pow2_false x k len); assumption).
  set (mask := N.lor (if j + len <? 32 then shl32 ones32 (j + len) else 0)
                     (if 32 - j <? 32 then shr32 ones32 (32 - j) else 0)).
  assert (Hmask : forall k, N.testbit mask k = ((k <? 32) && (j + len <=? k)) || (k <? j)).
  { intros k. unfold mask. rewrite N.lor_spec. f_equal.
    - destruct (N.ltb_spec (j + len) 32) as [H1|H1].
      + rewrite shl32_spec by lia. rewrite ones32_spec.
        destruct (N.ltb_spec k 32); destruct (N.leb_spec (j + len) k); cbn [andb]; try reflexivity.
        destruct (N.ltb_spec (k - (j + len)) 32); [reflexivity|lia].
      + rewrite N.bits_0. destruct (N.ltb_spec k 32); destruct (N.leb_spec (j + len) k); cbn [andb]; try reflexivity. lia.
    - destruct (N.ltb_spec (32 - j) 32) as [H1|H1].
      + rewrite shr32_spec by lia. rewrite ones32_spec.
        destruct (N.ltb_spec (k + (32 - j)) 32); destruct (N.ltb_spec k j); try reflexivity; lia.
      + rewrite N.bits_0. destruct (N.ltb_spec k j); [lia|reflexivity]. }
  clearbody mask.
  set (d' := N.lor (N.land d mask) (shl32 x j)).
  assert (Hd'bits : forall k, N.testbit d' k =
      if (j <=? k) && (k <? j + len) && (k <? 32) then N.testbit x (k - j) else N.testbit d k).
  { intros k. unfold d'. rewrite N.lor_spec, N.land_spec, Hmask, shl32_spec by lia.
    destruct (N.ltb_spec k 32) as [Hk|Hk]; cbn [andb].
    - destruct (N.leb_spec j k) as [Hjk|Hjk]; cbn [andb].
      + destruct (N.ltb_spec k j); [lia|]. rewrite orb_false_r.
        destruct (N.leb_spec (j + len) k); destruct (N.ltb_spec k (j + len)); try lia.
        * rewrite andb_true_r. rewrite Hxhigh by lia. apply orb_false_r.
        * rewrite andb_false_r. reflexivity.
      + destruct (N.ltb_spec k j); [|lia]. rewrite orb_true_r, andb_true_r. apply orb_false_r.
    - rewrite !andb_false_r. cbn [andb orb]. rewrite (word32_bit_high d) by (auto; lia).
      rewrite orb_false_r. reflexivity. }
  assert (Hd'w : word32 d').
  { apply word32_of_bits. intros k Hk. rewrite Hd'bits.
    destruct (N.ltb_spec k 32); [lia|]. rewrite andb_false_r. apply word32_bit_high; auto. }
  destruct (N.ltb_spec 32 (j + len)) as [Hstr|Hfit].
  - (* straddling *)
    assert (Hi1 : i + 1 < lenN A) by lia.
    rewrite c32_rd_eq, nthN_updN_other by lia.
    destruct (nthN_lt_Some A (i + 1) Hi1) as [d1 Hd1]. rewrite Hd1.
    pose proof (words32_nth _ _ _ Hw Hd1) as Hd1w.
    destruct (Hwrap (len + j) ltac:(lia)) as [-> _].
    rewrite (subw_small wrap (len + j) 32) by (assumption || lia).
    set (d1' := N.lor (N.land d1 (shl32 ones32 (len + j - 32))) (shr32 x (32 - j))).
    assert (Hd1'bits : forall k, N.testbit d1' k =
        if k <? len + j - 32 then N.testbit x (k + (32 - j)) else N.testbit d1 k).
    { intros k. unfold d1'. rewrite N.lor_spec, N.land_spec, shl32_spec, shr32_spec by lia.
      rewrite ones32_spec.
      destruct (N.ltb_spec k (len + j - 32)) as [Hk|Hk].
      - destruct (N.leb_spec (len + j - 32) k); [lia|].
        rewrite !andb_false_r. reflexivity.
      - rewrite (Hxhigh (k + (32 - j))) by lia. rewrite orb_false_r.
        destruct (N.ltb_spec k 32) as [Hk32|Hk32]; cbn [andb].
        + destruct (N.leb_spec (len + j - 32) k); [|lia]. cbn [andb].
          destruct (N.ltb_spec (k - (len + j - 32)) 32); [|lia]. apply andb_true_r.
        + rewrite andb_false_r. symmetry. apply word32_bit_high; auto. }
    assert (Hd1'w : word32 d1').
    { apply word32_of_bits. intros k Hk. rewrite Hd1'bits.
      destruct (N.ltb_spec k (len + j - 32)); [lia|]. apply word32_bit_high; auto. }
    eexists; split; [reflexivity|]. split; [|split].
    + apply words32_upd; [apply words32_upd|]; assumption.
    + rewrite !lenN_updN. reflexivity.
    + intros k. unfold wbit32.
      destruct (N.eq_dec (k / 32) (i + 1)) as [E1|E1].
      * rewrite E1. rewrite nthN_updN_same by (rewrite lenN_updN; assumption).
        rewrite Hd1'bits. rewrite Hd1.
        destruct (N.leb_spec (32 * i + j) k); [|lia]. cbn [andb].
        destruct (N.ltb_spec (k mod 32) (len + j - 32)); destruct (N.ltb_spec k (32 * i + j + len)); try lia.
        -- f_equal. lia.
        -- reflexivity.
      * rewrite nthN_updN_other by congruence.
        destruct (N.eq_dec (k / 32) i) as [E0|E0].
        -- rewrite E0. rewrite nthN_updN_same by assumption. rewrite Hd'bits, Hd.
           destruct (N.ltb_spec (k mod 32) 32); [|lia].
           destruct (N.leb_spec j (k mod 32)); destruct (N.leb_spec (32 * i + j) k); try lia; cbn [andb].
           ++ destruct (N.ltb_spec (k mod 32) (j + len)); destruct (N.ltb_spec k (32 * i + j + len)); try lia; cbn [andb].
              f_equal. lia.
           ++ reflexivity.
        -- rewrite nthN_updN_other by congruence.
           destruct (N.leb_spec (32 * i + j) k); destruct (N.ltb_spec k (32 * i + j + len)); try lia; reflexivity.
  - (* the field lives in one word *)
    eexists; split; [reflexivity|]. split; [|split].
    + apply words32_upd; assumption.
    + rewrite lenN_updN. reflexivity.
    + intros k. unfold wbit32.
      destruct (N.eq_dec (k / 32) i) as [E0|E0].
      * rewrite E0. rewrite nthN_updN_same by assumption. rewrite Hd'bits, Hd.
        destruct (N.ltb_spec (k mod 32) 32); [|lia].
        destruct (N.leb_spec j (k mod 32)); destruct (N.leb_spec (32 * i + j) k); try lia; cbn [andb].
        -- destruct (N.ltb_spec (k mod 32) (j + len)); destruct (N.ltb_spec k (32 * i + j + len)); try lia; cbn [andb].
           ++ f_equal. lia.
           ++ reflexivity.
        -- reflexivity.
      * rewrite nthN_updN_other by congruence.
        destruct (N.leb_spec (32 * i + j) k); destruct (N.ltb_spec k (32 * i + j + len)); try lia; reflexivity.
Qed.

(* ========================================================================= *)
(* 4. get_field / set_field : every len in 0..32, every field inside the array  *)
(* ========================================================================= *)

(* field [index] of width [len] lies inside the array *)
Definition in_range32 (A : list N) (len index : N) : Prop := index * len + len <= 32 * lenN A.

Lemma subw64_small a b : b <= a -> a < c32_W64 -> c32_subw c32_u64 a b = a - b.
Proof.
  intros Hb Ha. unfold c32_subw. rewrite (c32_u64_small b) by lia.
  unfold c32_u64. symmetry. apply (N.mod_unique _ _ 1); [lia|]. unfold c32_W64 in *. lia.
Qed.

Lemma arr32_bits_lt A : arr32 A -> 32 * lenN A < c32_W64.
Proof. intros [_ H]. unfold c32_W64. change (2 ^ 59) with 576460752303423488 in H. lia. Qed.

Theorem get_field32_bits A len index :
  arr32 A -> len <= 32 -> in_range32 A len index ->
  exists v, get_field32 A len index = Some v /\
    forall t, N.testbit v t = (t <? len) && wbit32 A (index * len + t).
Proof.
  intros HA Hlen Hin. pose proof (arr32_bits_lt A HA) as Hsz. destruct HA as [Hw Hn].
  unfold in_range32 in Hin. unfold get_field32, get_field32_gen.
  destruct (N.eqb_spec len 32) as [->|H32].
  - rewrite c32_rd_eq. assert (Hi : index < lenN A) by lia.
    destruct (nthN_lt_Some A index Hi) as [d Hd]. rewrite Hd. eexists; split; [reflexivity|].
    pose proof (words32_nth _ _ _ Hw Hd) as Hdw. intros t.
    destruct (N.ltb_spec t 32) as [Ht|Ht]; cbn [andb].
    + unfold wbit32. replace ((index * 32 + t) / 32) with index by lia. rewrite Hd. f_equal. lia.
    + apply word32_bit_high; assumption.
  - destruct (N.eqb_spec len 0) as [->|H0].
    + eexists; split; [reflexivity|]. intros t. rewrite N.bits_0. destruct (N.ltb_spec t 0); [lia|reflexivity].
    + cbv zeta. rewrite (c32_u64_small (index * len)) by lia.
      rewrite subw64_small by lia.
      set (p := index * len) in *.
      destruct (rd_core32_bits c32_u64 A (p / 32) (p - 32 * (p / 32)) len wrap_ok_u64 Hw) as (v & Hv & Hb); try lia.
      exists v. split; [exact Hv|]. intros t. rewrite Hb. do 2 f_equal. lia.
Qed.

Theorem set_field32_bits A len index v :
  arr32 A -> len <= 32 -> in_range32 A len index -> v < 2 ^ len ->
  exists A', set_field32 A len index v = Some A' /\
    arr32 A' /\ lenN A' = lenN A /\
    forall k, wbit32 A' k =
      if (index * len <=? k) && (k <? index * len + len) then N.testbit v (k - index * len)
      else wbit32 A k.
Proof.
  intros HA Hlen Hin Hv. pose proof (arr32_bits_lt A HA) as Hsz. destruct HA as [Hw Hn].
  unfold in_range32 in Hin. unfold set_field32, set_field32_gen. cbv zeta.
  assert (Hv32 : v < c32_W).
  { rewrite c32_W_pow. eapply N.lt_le_trans; [exact Hv|]. apply N.pow_le_mono_r; lia. }
  rewrite (c32_u32_small v) by exact Hv32.
  destruct (N.eqb_spec len 32) as [->|H32].
  - assert (Hi : index < lenN A) by lia.
    destruct (N.ltb_spec index (lenN A)); [|lia].
    eexists; split; [reflexivity|]. split; [|split].
    + split; [apply words32_upd; assumption|rewrite lenN_updN; exact Hn].
    + apply lenN_updN.
    + intros k. unfold wbit32.
      destruct (N.eq_dec (k / 32) index) as [E|E].
      * rewrite E, nthN_updN_same by assumption.
        destruct (N.leb_spec (index * 32) k); destruct (N.ltb_spec k (index * 32 + 32)); try lia.
        cbn [andb]. f_equal. lia.
      * rewrite nthN_updN_other by congruence.
        destruct (N.leb_spec (index * 32) k); destruct (N.ltb_spec k (index * 32 + 32)); try lia; reflexivity.
  - destruct (N.eqb_spec len 0) as [->|H0].
    + exists A. split; [reflexivity|]. split; [split; assumption|]. split; [reflexivity|].
      intros k. destruct (N.leb_spec (index * 0) k); destruct (N.ltb_spec k (index * 0 + 0)); try lia; reflexivity.
    + rewrite (c32_u64_small (index * len)) by lia.
      rewrite subw64_small by lia.
      set (p := index * len) in *.
      destruct (wr_core32_bits c32_u64 A (p / 32) (p - p / 32 * 32) len v wrap_ok_u64 Hw) as (A' & HA' & Hw' & Hl' & Hb); try lia.
      exists A'. split; [exact HA'|]. split; [split; [exact Hw'|rewrite Hl'; exact Hn]|]. split; [exact Hl'|].
      intros k. rewrite Hb. replace (32 * (p / 32) + (p - p / 32 * 32)) with p by lia. reflexivity.
Qed.

(* ---- the laws ------------------------------------------------------------- *)

(* read back what was stored *)
Theorem cds32_get_set A len index v :
  arr32 A -> len <= 32 -> in_range32 A len index -> v < 2 ^ len ->
  exists A', set_field32 A len index v = Some A' /\ get_field32 A' len index = Some v.
Proof.
  intros HA Hlen Hin Hv.
  destruct (set_field32_bits A len index v HA Hlen Hin Hv) as (A' & Hset & HA' & Hl & Hbits).
  exists A'. split; [exact Hset|].
  assert (Hin' : in_range32 A' len index) by (unfold in_range32 in *; rewrite Hl; exact Hin).
  destruct (get_field32_bits A' len index HA' Hlen Hin') as (v' & Hget & Hv'). rewrite Hget. f_equal.
  apply N.bits_inj. intro t. rewrite Hv', Hbits.
  destruct (N.ltb_spec t len) as [Ht|Ht]; cbn [andb].
  - destruct (N.leb_spec (index * len) (index * len + t)); [|lia].
    destruct (N.ltb_spec (index * len + t) (index * len + len)); [|lia]. cbn [andb]. f_equal. lia.
  - symmetry. apply (testbit_lt_pow2_false v t len); assumption.
Qed.

(* other fields keep their value *)
Theorem cds32_set_frame A len index index' v :
  arr32 A -> len <= 32 -> in_range32 A len index -> in_range32 A len index' -> v < 2 ^ len ->
  index' <> index ->
  exists A', set_field32 A len index v = Some A' /\ get_field32 A' len index' = get_field32 A len index'.
Proof.
  intros HA Hlen Hin Hin' Hv Hne.
  destruct (set_field32_bits A len index v HA Hlen Hin Hv) as (A' & Hset & HA' & Hl & Hbits).
  exists A'. split; [exact Hset|].
  assert (Hin2 : in_range32 A' len index') by (unfold in_range32 in *; rewrite Hl; exact Hin').
  destruct (get_field32_bits A' len index' HA' Hlen Hin2) as (v1 & Hget1 & Hv1).
  destruct (get_field32_bits A len index' HA Hlen Hin') as (v0 & Hget0 & Hv0).
  rewrite Hget1, Hget0. f_equal. apply N.bits_inj. intro t. rewrite Hv1, Hv0, Hbits.
  destruct (N.ltb_spec t len) as [Ht|Ht]; cbn [andb]; [|reflexivity].
  assert (Hdisj : index' * len + t < index * len \/ index * len + len <= index' * len + t) by nia.
  destruct (N.leb_spec (index * len) (index' * len + t)); destruct (N.ltb_spec (index' * len + t) (index * len + len));
    cbn [andb]; try reflexivity; lia.
Qed.

(* only words i and i+1 can change (i = the word holding the first bit of the field);
   structural: holds for every array, len, index (as long as the bit index fits a size_t) *)
Theorem cds32_word_frame A len index v A' k :
  index * len < c32_W64 ->
  set_field32 A len index v = Some A' ->
  k <> index * len / 32 -> k <> index * len / 32 + 1 -> nthN A' k = nthN A k.
Proof.
  unfold set_field32, set_field32_gen. cbv zeta. intros Hp H H0 H1.
  destruct (len =? 32) eqn:E32.
  - apply N.eqb_eq in E32. subst len.
    destruct (index <? lenN A); [|discriminate]. injection H as <-.
    apply nthN_updN_other. intros ->. apply H0. symmetry. apply N.div_mul. discriminate.
  - destruct (len =? 0); [injection H as <-; reflexivity|].
    rewrite (c32_u64_small (index * len)) in H by exact Hp.
    unfold wr_core32 in H. rewrite c32_rd_eq in H.
    destruct (nthN A (index * len / 32)) as [d|]; [|discriminate].
    match type of H with (if ?c then _ else _) = _ => destruct c end.
    + rewrite c32_rd_eq in H. cbv zeta in H.
      match type of H with match ?r with _ => _ end = _ => destruct r as [d1|]; [|discriminate] end.
      injection H as <-. rewrite !nthN_updN_other by congruence. reflexivity.
    + injection H as <-. rewrite nthN_updN_other by congruence. reflexivity.
Qed.

(* ---- the little-endian concatenation of the words, as ONE number ------------- *)

Definition le_concat32 (A : list N) : N := fold_right (fun w acc => w + c32_W * acc) 0 A.

Lemma le_concat32_bits A : words32 A -> forall k, N.testbit (le_concat32 A) k = wbit32 A k.
Proof.
  induction 1 as [|w A Hw HA IH]; intros k.
  - change (le_concat32 []) with 0. rewrite N.bits_0. unfold wbit32, nthN. destruct (N.to_nat (k / 32)); reflexivity.
  - cbn [le_concat32 fold_right]. fold (le_concat32 A).
    assert (E : w + c32_W * le_concat32 A = N.lor w (N.shiftl (le_concat32 A) 32)).
    { rewrite lor_disjoint_add.
      - rewrite N.shiftl_mul_pow2. rewrite c32_W_pow. lia.
      - apply land_low_shiftl. exact Hw. }
    rewrite E, N.lor_spec. unfold wbit32.
    destruct (N.lt_ge_cases k 32) as [Hk|Hk].
    + rewrite N.shiftl_spec_low by assumption. rewrite orb_false_r.
      replace (k / 32) with 0 by lia. unfold nthN. cbn. f_equal. lia.
    + rewrite (word32_bit_high w) by assumption. cbn [orb].
      rewrite N.shiftl_spec_high' by assumption. rewrite IH. unfold wbit32, nthN.
      replace (N.to_nat (k / 32)) with (S (N.to_nat ((k - 32) / 32))) by lia. cbn [nth_error].
      replace ((k - 32) mod 32) with (k mod 32) by lia. reflexivity.
Qed.

(* the value read is bits [index*len, (index+1)*len) of the little-endian concatenation *)
Theorem cds32_get_bits A len index :
  arr32 A -> len <= 32 -> in_range32 A len index ->
  get_field32 A len index = Some ((le_concat32 A / 2 ^ (index * len)) mod 2 ^ len).
Proof.
  intros HA Hlen Hin. destruct (get_field32_bits A len index HA Hlen Hin) as (v & Hv & Hb).
  rewrite Hv. f_equal. apply N.bits_inj. intros t. rewrite Hb.
  destruct (N.ltb_spec t len) as [Ht|Ht]; cbn [andb].
  - rewrite N.mod_pow2_bits_low by assumption. rewrite N.div_pow2_bits.
    rewrite le_concat32_bits by apply HA. f_equal. lia.
  - rewrite N.mod_pow2_bits_high by assumption. reflexivity.
Qed.

Corollary cds32_get_lt A len index v : get_field32 A len index = Some v ->
  arr32 A -> len <= 32 -> in_range32 A len index -> v < 2 ^ len.
Proof.
  intros Hv HA Hlen Hin. rewrite (cds32_get_bits A len index HA Hlen Hin) in Hv. injection Hv as <-.
  apply N.mod_lt. apply N.pow_nonzero. discriminate.
Qed.

Corollary cds32_get_len0 A index : get_field32 A 0 index = Some 0.
Proof. reflexivity. Qed.

(* ========================================================================= *)
(* 5. bitget / bitset / bitclean, bits, uint_len                               *)
(* ========================================================================= *)

Lemma testbit_one m : N.testbit 1 m = (m =? 0).
Proof. destruct m; reflexivity. Qed.

Theorem bitget32_spec e p : words32 e -> p < 32 * lenN e ->
  bitget32 e p = Some (if wbit32 e p then 1 else 0).
Proof.
  intros Hw Hp. unfold bitget32, wbit32. rewrite c32_rd_eq.
  assert (Hi : p / 32 < lenN e) by lia.
  destruct (nthN_lt_Some e (p / 32) Hi) as [w Hd]. rewrite Hd. f_equal.
  change 1 with (N.ones 1) at 1. rewrite N.land_ones. change (2 ^ 1) with 2.
  rewrite <- N.bit0_mod. rewrite shr32_spec by lia. rewrite N.add_0_l.
  destruct (N.testbit w (p mod 32)); reflexivity.
Qed.

Theorem bitset32_spec e p : words32 e -> p < 32 * lenN e ->
  exists e', bitset32 e p = Some e' /\ words32 e' /\ lenN e' = lenN e /\
    forall k, wbit32 e' k = if k =? p then true else wbit32 e k.
Proof.
  intros Hw Hp. unfold bitset32. rewrite c32_rd_eq.
  assert (Hi : p / 32 < lenN e) by lia.
  destruct (nthN_lt_Some e (p / 32) Hi) as [w Hd]. rewrite Hd.
  pose proof (words32_nth _ _ _ Hw Hd) as Hww.
  assert (Hb : forall t, N.testbit (N.lor w (shl32 1 (p mod 32))) t =
                         if t =? p mod 32 then true else N.testbit w t).
  { intros t. rewrite N.lor_spec, shl32_spec by lia. rewrite testbit_one.
    destruct (N.eqb_spec t (p mod 32)) as [->|Hne].
    - destruct (N.ltb_spec (p mod 32) 32); [|lia]. rewrite N.leb_refl, N.sub_diag. apply orb_true_r.
    - destruct (N.ltb_spec t 32); destruct (N.leb_spec (p mod 32) t); cbn [andb]; try apply orb_false_r.
      destruct (N.eqb_spec (t - p mod 32) 0); [lia|]. apply orb_false_r. }
  eexists; split; [reflexivity|]. split; [|split].
  - apply words32_upd; [assumption|]. apply word32_of_bits. intros t Ht. rewrite Hb.
    destruct (N.eqb_spec t (p mod 32)); [lia|]. apply word32_bit_high; assumption.
  - apply lenN_updN.
  - intros k. unfold wbit32.
    destruct (N.eq_dec (k / 32) (p / 32)) as [E|E].
    + rewrite E, nthN_updN_same by assumption. rewrite Hb, Hd.
      destruct (N.eqb_spec (k mod 32) (p mod 32)); destruct (N.eqb_spec k p); try reflexivity; lia.
    + rewrite nthN_updN_other by congruence. destruct (N.eqb_spec k p); [subst; congruence|reflexivity].
Qed.

Theorem bitclean32_spec e p : words32 e -> p < 32 * lenN e ->
  exists e', bitclean32 e p = Some e' /\ words32 e' /\ lenN e' = lenN e /\
    forall k, wbit32 e' k = if k =? p then false else wbit32 e k.
Proof.
  intros Hw Hp. unfold bitclean32. rewrite c32_rd_eq.
  assert (Hi : p / 32 < lenN e) by lia.
  destruct (nthN_lt_Some e (p / 32) Hi) as [w Hd]. rewrite Hd.
  pose proof (words32_nth _ _ _ Hw Hd) as Hww.
  assert (Hb : forall t, N.testbit (N.land w (not32 (shl32 1 (p mod 32)))) t =
                         if t =? p mod 32 then false else N.testbit w t).
  { intros t. rewrite N.land_spec, not32_spec, shl32_spec by lia. rewrite testbit_one.
    destruct (N.eqb_spec t (p mod 32)) as [->|Hne].
    - destruct (N.ltb_spec (p mod 32) 32); [|lia]. rewrite N.leb_refl, N.sub_diag. cbn. apply andb_false_r.
    - destruct (N.ltb_spec t 32); cbn [andb].
      + destruct (N.leb_spec (p mod 32) t); cbn [andb negb]; [|apply andb_true_r].
        destruct (N.eqb_spec (t - p mod 32) 0); [lia|]. apply andb_true_r.
      + rewrite (word32_bit_high w) by assumption. reflexivity. }
  eexists; split; [reflexivity|]. split; [|split].
  - apply words32_upd; [assumption|]. apply word32_of_bits. intros t Ht. rewrite Hb.
    destruct (N.eqb_spec t (p mod 32)); [lia|]. apply word32_bit_high; assumption.
  - apply lenN_updN.
  - intros k. unfold wbit32.
    destruct (N.eq_dec (k / 32) (p / 32)) as [E|E].
    + rewrite E, nthN_updN_same by assumption. rewrite Hb, Hd.
      destruct (N.eqb_spec (k mod 32) (p mod 32)); destruct (N.eqb_spec k p); try reflexivity; lia.
    + rewrite nthN_updN_other by congruence. destruct (N.eqb_spec k p); [subst; congruence|reflexivity].
Qed.

(* the bit just set reads 1, every other bit is unchanged *)
Theorem bitget_bitset e p : words32 e -> p < 32 * lenN e ->
  exists e', bitset32 e p = Some e' /\ bitget32 e' p = Some 1 /\
    forall q, q < 32 * lenN e -> q <> p -> bitget32 e' q = bitget32 e q.
Proof.
  intros Hw Hp. destruct (bitset32_spec e p Hw Hp) as (e' & Hs & Hw' & Hl & Hb).
  exists e'. split; [exact Hs|]. split.
  - rewrite bitget32_spec by (rewrite ?Hl; assumption). rewrite Hb, N.eqb_refl. reflexivity.
  - intros q Hq Hne. rewrite !bitget32_spec by (rewrite ?Hl; assumption). rewrite Hb.
    destruct (N.eqb_spec q p); [contradiction|reflexivity].
Qed.

Theorem bitget_bitclean e p : words32 e -> p < 32 * lenN e ->
  exists e', bitclean32 e p = Some e' /\ bitget32 e' p = Some 0 /\
    forall q, q < 32 * lenN e -> q <> p -> bitget32 e' q = bitget32 e q.
Proof.
  intros Hw Hp. destruct (bitclean32_spec e p Hw Hp) as (e' & Hs & Hw' & Hl & Hb).
  exists e'. split; [exact Hs|]. split.
  - rewrite bitget32_spec by (rewrite ?Hl; assumption). rewrite Hb, N.eqb_refl. reflexivity.
  - intros q Hq Hne. rewrite !bitget32_spec by (rewrite ?Hl; assumption). rewrite Hb.
    destruct (N.eqb_spec q p); [contradiction|reflexivity].
Qed.

(* ---- bits(n) --------------------------------------------------------------- *)

Lemma size_half n : n <> 0 -> N.size n = N.size (n / 2) + 1.
Proof.
  intros Hn. rewrite <- N.div2_div. destruct n as [|[p|p|]]; try congruence; cbn [N.div2 N.size Pos.size].
  - lia.
  - lia.
  - reflexivity.
Qed.

Lemma bits32_loop_size : forall fuel n b, N.size n <= N.of_nat fuel -> bits32_loop fuel n b = b + N.size n.
Proof.
  induction fuel as [|f IH]; intros n b H; cbn [bits32_loop].
  - assert (N.size n = 0) by lia. lia.
  - destruct (N.eqb_spec n 0) as [->|Hn]; [cbn; lia|].
    pose proof (size_half n Hn). rewrite IH by lia. lia.
Qed.

Lemma size_le_32 n : n < c32_W -> N.size n <= 32.
Proof.
  intros H. destruct (N.le_gt_cases (N.size n) 32) as [|Hgt]; [assumption|exfalso].
  pose proof (N.size_le n) as Hle. rewrite N.succ_double_spec in Hle.
  assert (2 ^ 33 <= 2 ^ N.size n) by (apply N.pow_le_mono_r; lia).
  change (2 ^ 33) with 8589934592 in *. unfold c32_W in H. lia.
Qed.

Theorem bits32_size n : n < c32_W -> bits32 n = N.size n.
Proof.
  intros H. unfold bits32. rewrite c32_u32_small by exact H.
  rewrite bits32_loop_size; [lia|]. pose proof (size_le_32 n H). lia.
Qed.

Theorem bits32_spec n : n < c32_W ->
  n < 2 ^ bits32 n /\ (0 < n -> 2 ^ (bits32 n - 1) <= n).
Proof.
  intros H. rewrite bits32_size by exact H. split.
  - apply N.size_gt.
  - intros Hn. pose proof (N.size_le n) as Hle. rewrite N.succ_double_spec in Hle.
    pose proof (N.size_gt n) as Hgt.
    destruct (N.eq_dec (N.size n) 0) as [E|E]; [rewrite E in Hgt; cbn in Hgt; lia|].
    replace (N.size n) with (N.succ (N.size n - 1)) in Hle by lia.
    rewrite N.pow_succ_r' in Hle. lia.
Qed.

Corollary bits32_le_32 n : n < c32_W -> bits32 n <= 32.
Proof. intros H. rewrite bits32_size by exact H. apply size_le_32. exact H. Qed.

(* ---- uint_len ------------------------------------------------------------------ *)
Theorem uint_len32_spec e n : e <= 32 -> n < c32_W -> uint_len32 e n = (e * n + 31) / 32.
Proof.
  intros He Hn. unfold uint_len32. unfold c32_W in Hn.
  rewrite (c32_u32_small e) by (unfold c32_W; lia).
  rewrite (c32_u64_small n) by (unfold c32_W64; lia).
  assert (e * n <= 32 * 4294967295) by nia.
  rewrite c32_u64_small by (unfold c32_W64; lia).
  apply c32_u32_small. unfold c32_W. lia.
Qed.

(* ========================================================================= *)
(* 6. get_var_field / set_var_field                                            *)
(* ========================================================================= *)

Theorem get_var_field32_bits A ini fin :
  arr32 A -> ini <= fin + 1 -> fin + 1 - ini <= 32 -> fin + 1 <= 32 * lenN A ->
  exists v, get_var_field32 A ini fin = Some v /\
    forall t, N.testbit v t = (t <? fin + 1 - ini) && wbit32 A (ini + t).
Proof.
  intros HA Hle Hlen Hin. pose proof (arr32_bits_lt A HA) as Hsz. destruct HA as [Hw Hn].
  assert (HW : c32_W = 4294967296) by reflexivity.
  unfold get_var_field32, get_var_field32_gen. rewrite (c32_u64_small (fin + 1)) by lia.
  destruct (N.eqb_spec ini (fin + 1)) as [E|E].
  - eexists; split; [reflexivity|]. intros t. rewrite N.bits_0.
    destruct (N.ltb_spec t (fin + 1 - ini)); [lia|reflexivity].
  - cbv zeta. rewrite !subw64_small by lia.
    rewrite (c32_u64_small (fin - ini + 1)) by lia. rewrite (c32_u32_small (fin - ini + 1)) by lia.
    destruct (rd_core32_bits c32_u64 A (ini / 32) (ini - 32 * (ini / 32)) (fin - ini + 1) wrap_ok_u64 Hw) as (v & Hv & Hb); try lia.
    exists v. split; [exact Hv|]. intros t. rewrite Hb.
    replace (fin + 1 - ini) with (fin - ini + 1) by lia. do 2 f_equal. lia.
Qed.

(* set_var_field keeps i and j in [uint]: right only while the bit index fits 32 bits *)
Theorem set_var_field32_bits A ini fin v :
  arr32 A -> ini <= fin + 1 -> fin + 1 - ini <= 32 -> fin + 1 <= 32 * lenN A -> fin < c32_W ->
  v < 2 ^ (fin + 1 - ini) ->
  exists A', set_var_field32 A ini fin v = Some A' /\ arr32 A' /\ lenN A' = lenN A /\
    forall k, wbit32 A' k =
      if (ini <=? k) && (k <? fin + 1) then N.testbit v (k - ini) else wbit32 A k.
Proof.
  intros HA Hle Hlen Hin Hfin Hv. pose proof (arr32_bits_lt A HA) as Hsz. destruct HA as [Hw Hn].
  assert (HW : c32_W = 4294967296) by reflexivity.
  unfold set_var_field32, set_var_field32_gen. cbv zeta. rewrite (c32_u64_small (fin + 1)) by lia.
  assert (Hv32 : v < c32_W).
  { rewrite c32_W_pow. eapply N.lt_le_trans; [exact Hv|]. apply N.pow_le_mono_r; lia. }
  rewrite (c32_u32_small v) by exact Hv32.
  destruct (N.eqb_spec ini (fin + 1)) as [E|E].
  - exists A. split; [reflexivity|]. split; [split; assumption|]. split; [reflexivity|].
    intros k. destruct (N.leb_spec ini k); destruct (N.ltb_spec k (fin + 1)); try lia; reflexivity.
  - rewrite (c32_u32_small (ini / 32)) by lia.
    rewrite (c32_u32_small (ini / 32 * 32)) by lia.
    rewrite !subw64_small by lia.
    rewrite (c32_u32_small (ini - ini / 32 * 32)) by lia.
    rewrite (c32_u64_small (fin - ini + 1)) by lia. rewrite (c32_u32_small (fin - ini + 1)) by lia.
    replace (fin + 1 - ini) with (fin - ini + 1) in Hv by lia.
    destruct (wr_core32_bits c32_u32 A (ini / 32) (ini - ini / 32 * 32) (fin - ini + 1) v wrap_ok_u32 Hw) as (A' & HA' & Hw' & Hl' & Hb); try lia.
    exists A'. split; [exact HA'|]. split; [split; [exact Hw'|rewrite Hl'; exact Hn]|]. split; [exact Hl'|].
    intros k. rewrite Hb. replace (32 * (ini / 32) + (ini - ini / 32 * 32)) with ini by lia.
    replace (ini + (fin - ini + 1)) with (fin + 1) by lia. reflexivity.
Qed.

Theorem cds32_var_get_set A ini fin v :
  arr32 A -> ini <= fin + 1 -> fin + 1 - ini <= 32 -> fin + 1 <= 32 * lenN A -> fin < c32_W ->
  v < 2 ^ (fin + 1 - ini) ->
  exists A', set_var_field32 A ini fin v = Some A' /\ get_var_field32 A' ini fin = Some v.
Proof.
  intros HA Hle Hlen Hin Hfin Hv.
  destruct (set_var_field32_bits A ini fin v HA Hle Hlen Hin Hfin Hv) as (A' & Hset & HA' & Hl & Hbits).
  exists A'. split; [exact Hset|].
  destruct (get_var_field32_bits A' ini fin HA' Hle Hlen ltac:(rewrite Hl; exact Hin)) as (v' & Hget & Hv').
  rewrite Hget. f_equal. apply N.bits_inj. intro t. rewrite Hv', Hbits.
  destruct (N.ltb_spec t (fin + 1 - ini)) as [Ht|Ht]; cbn [andb].
  - destruct (N.leb_spec ini (ini + t)); [|lia]. destruct (N.ltb_spec (ini + t) (fin + 1)); [|lia].
    cbn [andb]. f_equal. lia.
  - symmetry. apply (testbit_lt_pow2_false v t (fin + 1 - ini)); assumption.
Qed.

(* ========================================================================= *)
(* 7. no shift by 32 (or more) is ever evaluated for len in 0..32                *)
(* ========================================================================= *)

Section NoShift32.
  Variables sl sr : N -> N -> N.
  Hypothesis Hsl : forall x c, c < 32 -> sl x c = shl32 x c.
  Hypothesis Hsr : forall x c, c < 32 -> sr x c = shr32 x c.

  Lemma rd_core32_shift_indep wrap A i j len : wrap_ok wrap -> j < 32 -> 1 <= len <= 32 ->
    rd_core32 sl sr wrap A i j len = rd_core32 shl32 shr32 wrap A i j len.
  Proof.
    intros Hwrap Hj Hlen. unfold rd_core32.
    assert (HW : c32_W = 4294967296) by reflexivity.
    destruct (Hwrap (j + len) ltac:(lia)) as [-> _].
    rewrite (subw_small wrap 32 len) by (assumption || lia).
    destruct (N.leb_spec (j + len) 32).
    - rewrite (subw_small wrap 32 j), (subw_small wrap (32 - j) len) by (assumption || lia).
      destruct (c32_rd A i); [|reflexivity]. rewrite Hsl, Hsr by lia. reflexivity.
    - rewrite (subw_small wrap 64 j), (subw_small wrap (64 - j) len) by (assumption || lia).
      destruct (c32_rd A i); [|reflexivity]. destruct (c32_rd A (i + 1)); [|reflexivity].
      rewrite Hsl, !Hsr by lia. reflexivity.
  Qed.

  Lemma wr_core32_shift_indep wrap A i j len x : wrap_ok wrap -> j < 32 -> 1 <= len <= 32 ->
    wr_core32 sl sr wrap A i j len x = wr_core32 shl32 shr32 wrap A i j len x.
  Proof.
    intros Hwrap Hj Hlen. unfold wr_core32. cbv zeta.
    assert (HW : c32_W = 4294967296) by reflexivity.
    destruct (Hwrap (j + len) ltac:(lia)) as [-> _].
    destruct (Hwrap (len + j) ltac:(lia)) as [-> _].
    rewrite (subw_small wrap 32 j) by (assumption || lia).
    assert (E1 : (if j + len <? 32 then sl ones32 (j + len) else 0) = (if j + len <? 32 then shl32 ones32 (j + len) else 0)).
    { destruct (N.ltb_spec (j + len) 32); [apply Hsl; assumption|reflexivity]. }
    assert (E2 : (if 32 - j <? 32 then sr ones32 (32 - j) else 0) = (if 32 - j <? 32 then shr32 ones32 (32 - j) else 0)).
    { destruct (N.ltb_spec (32 - j) 32); [apply Hsr; assumption|reflexivity]. }
    rewrite E1, E2, (Hsl x j) by assumption.
    destruct (c32_rd A i); [|reflexivity].
    destruct (N.ltb_spec 32 (j + len)); [|reflexivity].
    rewrite (subw_small wrap (len + j) 32) by (assumption || lia).
    match goal with |- match ?r with _ => _ end = _ => destruct r; [|reflexivity] end.
    rewrite Hsl, Hsr by lia. reflexivity.
  Qed.

  (* whatever a shift by >= 32 would do, get_field / set_field never find out *)
  Theorem cds32_no_shift32 A len index v : len <= 32 ->
    get_field32_gen sl sr c32_u64 A len index = get_field32 A len index /\
    set_field32_gen sl sr c32_u64 A len index v = set_field32 A len index v.
  Proof.
    intros Hlen. unfold get_field32, set_field32, get_field32_gen, set_field32_gen. cbv zeta.
    destruct (len =? 32); [split; reflexivity|].
    destruct (N.eqb_spec len 0); [split; reflexivity|].
    set (p := c32_u64 (index * len)).
    assert (Hp : p < c32_W64) by (apply N.mod_lt; discriminate).
    rewrite !subw64_small by lia.
    split.
    - apply rd_core32_shift_indep; [apply wrap_ok_u64|lia|lia].
    - apply wr_core32_shift_indep; [apply wrap_ok_u64|lia|lia].
  Qed.

  Theorem cds32_var_no_shift32 A ini fin v : ini <= fin + 1 -> fin + 1 - ini <= 32 -> fin < c32_W ->
    get_var_field32_gen sl sr c32_u64 A ini fin = get_var_field32 A ini fin /\
    set_var_field32_gen sl sr c32_u32 A ini fin v = set_var_field32 A ini fin v.
  Proof.
    intros Hle Hlen Hfin. assert (HW : c32_W = 4294967296) by reflexivity.
    assert (HW6 : c32_W64 = 18446744073709551616) by reflexivity.
    unfold get_var_field32, set_var_field32, get_var_field32_gen, set_var_field32_gen. cbv zeta.
    rewrite (c32_u64_small (fin + 1)) by lia.
    destruct (N.eqb_spec ini (fin + 1)); [split; reflexivity|].
    rewrite (c32_u32_small (ini / 32)) by lia.
    rewrite (c32_u32_small (ini / 32 * 32)) by lia.
    rewrite !subw64_small by lia.
    rewrite (c32_u32_small (ini - ini / 32 * 32)) by lia.
    rewrite (c32_u64_small (fin - ini + 1)) by lia. rewrite (c32_u32_small (fin - ini + 1)) by lia.
    split.
    - apply rd_core32_shift_indep; [apply wrap_ok_u64|lia|lia].
    - apply wr_core32_shift_indep; [apply wrap_ok_u32|lia|lia].
  Qed.
End NoShift32.

(* ========================================================================= *)
(* 8. the array-of-fields view: pack32 / fields_of32                            *)
(* ========================================================================= *)

Lemma nth_lt_pow2 (vs : list N) len m : Forall (fun v => v < 2 ^ len) vs -> nth m vs 0 < 2 ^ len.
Proof.
  intros H. destruct (Nat.lt_ge_cases m (length vs)) as [Hm|Hm].
  - rewrite Forall_forall in H. apply H. apply nth_In. exact Hm.
  - rewrite nth_overflow by exact Hm. apply pow2_pos.
Qed.

(* fields i .. i+|vs|-1 receive vs, every other bit is unchanged *)
Lemma pack32_fill_bits : forall vs A len i,
  arr32 A -> len <= 32 -> Forall (fun v => v < 2 ^ len) vs -> (i + lenN vs) * len <= 32 * lenN A ->
  exists A', pack32_fill A len i vs = Some A' /\ arr32 A' /\ lenN A' = lenN A /\
    (forall q t, i <= q < i + lenN vs -> t < len ->
       wbit32 A' (q * len + t) = N.testbit (nth (N.to_nat (q - i)) vs 0) t) /\
    (forall k, k < i * len \/ (i + lenN vs) * len <= k -> wbit32 A' k = wbit32 A k).
Proof.
  induction vs as [|v r IH]; intros A len i HA Hlen Hvs Hin; cbn [pack32_fill].
  - exists A. split; [reflexivity|]. split; [exact HA|]. split; [reflexivity|]. split.
    + intros q t Hq. rewrite lenN_nil in Hq. lia.
    + reflexivity.
  - rewrite lenN_cons in Hin. inversion Hvs as [|? ? Hv Hr]; subst.
    assert (Hin1 : in_range32 A len i) by (unfold in_range32; nia).
    destruct (set_field32_bits A len i v HA Hlen Hin1 Hv) as (A1 & Hs1 & HA1 & Hl1 & Hb1).
    rewrite Hs1.
    destruct (IH A1 len (i + 1) HA1 Hlen Hr ltac:(rewrite Hl1; nia)) as (A' & Hs' & HA' & Hl' & Hb' & Hf').
    exists A'. split; [exact Hs'|]. split; [exact HA'|]. split; [congruence|]. split.
    + intros q t Hq Ht. rewrite lenN_cons in Hq.
      destruct (N.eq_dec q i) as [->|Hqi].
      * rewrite Hf' by (left; nia). rewrite Hb1.
        destruct (N.leb_spec (i * len) (i * len + t)); [|lia].
        destruct (N.ltb_spec (i * len + t) (i * len + len)); [|lia]. cbn [andb].
        rewrite N.sub_diag. cbn [N.to_nat nth]. f_equal. lia.
      * rewrite Hb' by lia.
        replace (N.to_nat (q - i)) with (S (N.to_nat (q - (i + 1)))) by lia. reflexivity.
    + intros k Hk. rewrite lenN_cons in Hk.
      rewrite Hf' by (destruct Hk; [left; nia|right; nia]). rewrite Hb1.
      destruct (N.leb_spec (i * len) k); destruct (N.ltb_spec k (i * len + len)); cbn [andb]; try reflexivity.
      destruct Hk; nia.
Qed.

Lemma arr32_repeat0 n : N.of_nat n < 2 ^ 59 -> arr32 (repeat 0 n).
Proof. intros H. split; [apply words32_repeat0|]. rewrite lenN_repeat. exact H. Qed.

Lemma wbit32_repeat0 n k : wbit32 (repeat 0 n) k = false.
Proof.
  unfold wbit32, nthN. destruct (nth_error (repeat 0 n) (N.to_nat (k / 32))) as [d|] eqn:E; [|reflexivity].
  apply nth_error_In, repeat_spec in E. subst. apply N.bits_0.
Qed.

(* pack32w: the fields read back, the words are determined bit by bit *)
Theorem pack32w_spec nw len vs :
  len <= 32 -> Forall (fun v => v < 2 ^ len) vs -> lenN vs * len <= 32 * nw -> nw < 2 ^ 59 ->
  exists A, pack32w nw len vs = Some A /\ arr32 A /\ lenN A = nw /\
    (forall q, q < lenN vs -> get_field32 A len q = nthN vs q) /\
    (forall q t, q < lenN vs -> t < len -> wbit32 A (q * len + t) = N.testbit (nth (N.to_nat q) vs 0) t) /\
    (forall k, lenN vs * len <= k -> wbit32 A k = false).
Proof.
  intros Hlen Hvs Hin Hnw. unfold pack32w.
  assert (H0 : arr32 (repeat 0 (N.to_nat nw))) by (apply arr32_repeat0; lia).
  destruct (pack32_fill_bits vs (repeat 0 (N.to_nat nw)) len 0 H0 Hlen Hvs) as (A & HA & Harr & Hl & Hb & Hf).
  { rewrite lenN_repeat. lia. }
  rewrite lenN_repeat, N2Nat.id in Hl.
  exists A. split; [exact HA|]. split; [exact Harr|]. split; [exact Hl|]. split; [|split].
  - intros q Hq.
    assert (Hinq : in_range32 A len q) by (unfold in_range32; rewrite Hl; nia).
    destruct (get_field32_bits A len q Harr Hlen Hinq) as (v & Hv & Hvb). rewrite Hv.
    rewrite (nthN_nth vs q 0) by exact Hq. f_equal. apply N.bits_inj. intros t. rewrite Hvb.
    destruct (N.ltb_spec t len) as [Ht|Ht]; cbn [andb].
    + rewrite Hb by lia. rewrite N.sub_0_r. reflexivity.
    + symmetry. apply (testbit_lt_pow2_false _ t len); [apply nth_lt_pow2; exact Hvs|exact Ht].
  - intros q t Hq Ht. rewrite Hb by lia. rewrite N.sub_0_r. reflexivity.
  - intros k Hk. rewrite Hf by (right; lia). apply wbit32_repeat0.
Qed.

Lemma uint_len32_fits len n : len <= 32 -> n < c32_W ->
  n * len <= 32 * uint_len32 len n /\ uint_len32 len n < 2 ^ 59.
Proof.
  intros Hlen Hn. rewrite uint_len32_spec by assumption. unfold c32_W in Hn.
  assert (len * n <= 32 * 4294967295) by nia.
  change (2 ^ 59) with 576460752303423488. split; [|lia].
  replace (n * len) with (len * n) by lia. lia.
Qed.

Section Pack32.
  Variables (len : N) (vs : list N).
  Hypothesis Hlen : len <= 32.
  Hypothesis Hn : lenN vs < c32_W.
  Hypothesis Hvs : Forall (fun v => v < 2 ^ len) vs.

  Lemma pack32_is_pack32w : pack32w (uint_len32 len (lenN vs)) len vs = Some (pack32 len vs).
  Proof.
    destruct (uint_len32_fits len (lenN vs) Hlen Hn) as [H1 H2].
    destruct (pack32w_spec _ len vs Hlen Hvs H1 H2) as (A & HA & _). unfold pack32. rewrite HA. reflexivity.
  Qed.

  (* what was packed is read back, field by field *)
  Theorem pack32_get i : i < lenN vs -> get_field32 (pack32 len vs) len i = nthN vs i.
  Proof.
    destruct (uint_len32_fits len (lenN vs) Hlen Hn) as [H1 H2].
    destruct (pack32w_spec _ len vs Hlen Hvs H1 H2) as (A & HA & _ & _ & Hg & _).
    rewrite pack32_is_pack32w in HA. injection HA as <-. apply Hg.
  Qed.

  Theorem pack32_length : lenN (pack32 len vs) = uint_len32 len (lenN vs) /\
                          uint_len32 len (lenN vs) = (len * lenN vs + 31) / 32.
  Proof.
    destruct (uint_len32_fits len (lenN vs) Hlen Hn) as [H1 H2].
    destruct (pack32w_spec _ len vs Hlen Hvs H1 H2) as (A & HA & _ & Hl & _).
    rewrite pack32_is_pack32w in HA. injection HA as <-. split; [exact Hl|].
    apply uint_len32_spec; assumption.
  Qed.

  Theorem pack32_arr : arr32 (pack32 len vs).
  Proof.
    destruct (uint_len32_fits len (lenN vs) Hlen Hn) as [H1 H2].
    destruct (pack32w_spec _ len vs Hlen Hvs H1 H2) as (A & HA & Harr & _).
    rewrite pack32_is_pack32w in HA. injection HA as <-. exact Harr.
  Qed.

  (* bit t of field q is bit q*len + t of the little-endian concatenation; padding is zero *)
  Theorem pack32_bits :
    (forall q t, q < lenN vs -> t < len ->
       N.testbit (le_concat32 (pack32 len vs)) (q * len + t) = N.testbit (nth (N.to_nat q) vs 0) t) /\
    (forall k, lenN vs * len <= k -> N.testbit (le_concat32 (pack32 len vs)) k = false).
  Proof.
    destruct (uint_len32_fits len (lenN vs) Hlen Hn) as [H1 H2].
    destruct (pack32w_spec _ len vs Hlen Hvs H1 H2) as (A & HA & Harr & _ & _ & Hb & Hz).
    rewrite pack32_is_pack32w in HA. injection HA as <-.
    split; intros; rewrite le_concat32_bits by apply Harr; auto.
  Qed.
End Pack32.

Lemma fields_of32_from_spec A len : forall cnt i vs,
  length vs = cnt -> (forall q, q < N.of_nat cnt -> get_field32 A len (i + q) = nthN vs q) ->
  fields_of32_from A len i cnt = Some vs.
Proof.
  induction cnt as [|c IH]; intros i vs Hl Hg.
  - destruct vs; [reflexivity|discriminate].
  - destruct vs as [|v r]; [discriminate|]. cbn [fields_of32_from].
    pose proof (Hg 0 ltac:(lia)) as H0. rewrite N.add_0_r in H0.
    change (nthN (v :: r) 0) with (Some v) in H0. rewrite H0.
    rewrite (IH (i + 1) r); [reflexivity|cbn in Hl; lia|].
    intros q Hq. replace (i + 1 + q) with (i + (q + 1)) by lia. rewrite Hg by lia.
    unfold nthN. replace (N.to_nat (q + 1)) with (S (N.to_nat q)) by lia. reflexivity.
Qed.

Theorem fields_of_pack32 len vs :
  len <= 32 -> lenN vs < c32_W -> Forall (fun v => v < 2 ^ len) vs ->
  fields_of32 (pack32 len vs) len (lenN vs) = Some vs.
Proof.
  intros Hlen Hn Hvs. unfold fields_of32. apply fields_of32_from_spec.
  - unfold lenN. lia.
  - intros q Hq. rewrite N.add_0_l. apply pack32_get; try assumption. unfold lenN in *. lia.
Qed.

(* a larger zeroed array (DAC_VLS allocates tamCode / W + 1 words): the same words, zero padded *)
Lemma wbit32_app_zeros A m k : wbit32 (A ++ repeat 0 m) k = wbit32 A k.
Proof.
  unfold wbit32. destruct (N.lt_ge_cases (k / 32) (lenN A)) as [H|H].
  - rewrite nthN_app_l by exact H. reflexivity.
  - rewrite nthN_app_r by exact H.
    replace (nthN A (k / 32)) with (@None N).
    + unfold nthN. destruct (nth_error (repeat 0 m) (N.to_nat (k / 32 - lenN A))) as [d|] eqn:E; [|reflexivity].
      apply nth_error_In, repeat_spec in E. subst. apply N.bits_0.
    + symmetry. unfold nthN, lenN in *. apply nth_error_None. lia.
Qed.

Theorem pack32w_padded nw len vs :
  len <= 32 -> lenN vs < c32_W -> Forall (fun v => v < 2 ^ len) vs ->
  uint_len32 len (lenN vs) <= nw -> nw < 2 ^ 59 ->
  pack32w nw len vs = Some (pack32 len vs ++ repeat 0 (N.to_nat (nw - uint_len32 len (lenN vs)))).
Proof.
  intros Hlen Hn Hvs Hnw Hsz.
  destruct (uint_len32_fits len (lenN vs) Hlen Hn) as [H1 H2].
  destruct (pack32w_spec nw len vs Hlen Hvs ltac:(lia) Hsz) as (A & HA & Harr & Hl & _ & Hb & Hz).
  destruct (pack32w_spec _ len vs Hlen Hvs H1 H2) as (B & HB & Hbarr & Hbl & _ & Hbb & Hbz).
  rewrite (pack32_is_pack32w len vs Hlen Hn Hvs) in HB. injection HB as <-.
  rewrite HA. f_equal. apply wbit32_ext.
  - apply Harr.
  - unfold words32. apply Forall_app. split; [apply Hbarr|apply words32_repeat0].
  - unfold lenN in *. rewrite app_length, repeat_length. lia.
  - intros k. rewrite wbit32_app_zeros.
    destruct (N.lt_ge_cases k (lenN vs * len)) as [Hk|Hk].
    + assert (Hl0 : len <> 0) by (intros ->; lia).
      pose proof (N.div_mod' k len) as Hd. pose proof (N.mod_lt k len Hl0) as Hm.
      assert (Hq : k / len < lenN vs) by (apply N.div_lt_upper_bound; lia).
      replace k with (k / len * len + k mod len) by lia.
      rewrite Hb, Hbb by assumption. reflexivity.
    + rewrite Hz, Hbz by assumption. reflexivity.
Qed.

(* ========================================================================= *)
(* 9. bits set one by one = BitRGDefs.words_of_bits                             *)
(* ========================================================================= *)

Lemma wbit32_words_of_bits bv k : wbit32 (words_of_bits bv) k = nth (N.to_nat k) bv false.
Proof.
  unfold wbit32. destruct (N.lt_ge_cases (k / 32) (lenN bv / 32 + 1)) as [Hq|Hq].
  - rewrite (nthN_nth _ _ 0) by (rewrite words_of_bits_length; exact Hq).
    rewrite words_of_bits_nth by exact Hq. rewrite word_of_bits_testbit.
    rewrite nth_firstn_lt by lia. rewrite nth_skipn_add. f_equal. lia.
  - replace (nthN (words_of_bits bv) (k / 32)) with (@None N).
    + symmetry. apply nth_overflow. unfold lenN in *. lia.
    + symmetry. unfold nthN. apply nth_error_None. pose proof (words_of_bits_length bv) as H.
      unfold lenN in *. lia.
Qed.

Lemma words32_words_of_bits bv : words32 (words_of_bits bv).
Proof. apply words_of_bits_bounded. Qed.

Lemma bitset_fill_bits : forall bv e i, words32 e -> i + lenN bv <= 32 * lenN e ->
  exists e', bitset_fill e i bv = Some e' /\ words32 e' /\ lenN e' = lenN e /\
    forall k, wbit32 e' k = ((i <=? k) && (k <? i + lenN bv) && nth (N.to_nat (k - i)) bv false) || wbit32 e k.
Proof.
  induction bv as [|b r IH]; intros e i Hw Hin; cbn [bitset_fill].
  - exists e. split; [reflexivity|]. split; [exact Hw|]. split; [reflexivity|].
    intros k. rewrite lenN_nil. destruct (N.leb_spec i k); destruct (N.ltb_spec k (i + 0)); try lia; reflexivity.
  - rewrite lenN_cons in Hin.
    assert (Hgoal : forall e1, words32 e1 -> lenN e1 = lenN e ->
              (forall k, wbit32 e1 k = (if k =? i then b else false) || wbit32 e k) ->
              exists e', bitset_fill e1 (i + 1) r = Some e' /\ words32 e' /\ lenN e' = lenN e /\
                forall k, wbit32 e' k = ((i <=? k) && (k <? i + lenN (b :: r)) && nth (N.to_nat (k - i)) (b :: r) false) || wbit32 e k).
    { intros e1 Hw1 Hl1 Hb1.
      destruct (IH e1 (i + 1) Hw1 ltac:(rewrite Hl1; lia)) as (e' & He' & Hw' & Hl' & Hb').
      exists e'. split; [exact He'|]. split; [exact Hw'|]. split; [congruence|].
      intros k. rewrite Hb', Hb1, lenN_cons.
      destruct (N.eqb_spec k i) as [->|Hne].
      - destruct (N.leb_spec (i + 1) i); [lia|]. destruct (N.leb_spec i i); [|lia].
        destruct (N.ltb_spec i (i + (1 + lenN r))); [|lia]. rewrite N.sub_diag. cbn [andb orb N.to_nat nth]. reflexivity.
      - cbn [orb]. destruct (N.leb_spec (i + 1) k); destruct (N.leb_spec i k); try lia; cbn [andb]; [|reflexivity].
        destruct (N.ltb_spec k (i + 1 + lenN r)); destruct (N.ltb_spec k (i + (1 + lenN r))); try lia; cbn [andb]; [|reflexivity].
        replace (N.to_nat (k - i)) with (S (N.to_nat (k - (i + 1)))) by lia. reflexivity. }
    destruct b.
    + destruct (bitset32_spec e i Hw ltac:(lia)) as (e1 & Hs1 & Hw1 & Hl1 & Hb1). rewrite Hs1.
      apply Hgoal; try assumption. intros k. rewrite Hb1. destruct (k =? i); reflexivity.
    + apply Hgoal; [assumption|reflexivity|]. intros k. destruct (k =? i); reflexivity.
Qed.

(* what  bits_BS = new uint[n / W + 1]  zeroed + one bitset per 1 holds is exactly the array
   BitRGDefs.rg_of_bits feeds to the BitSequenceRG constructor *)
Theorem bitset_words_spec bv : bitset_words bv = Some (words_of_bits bv).
Proof.
  unfold bitset_words.
  destruct (bitset_fill_bits bv (repeat 0 (N.to_nat (lenN bv / 32 + 1))) 0 (words32_repeat0 _)) as (e' & He & Hw & Hl & Hb).
  { rewrite lenN_repeat. lia. }
  rewrite He. f_equal. apply wbit32_ext.
  - exact Hw.
  - apply words32_words_of_bits.
  - pose proof (words_of_bits_length bv) as H. rewrite lenN_repeat in Hl. unfold lenN in *. lia.
  - intros k. rewrite Hb, wbit32_repeat0, wbit32_words_of_bits, orb_false_r, N.sub_0_r.
    destruct (N.leb_spec 0 k); [|lia].
    destruct (N.ltb_spec k (0 + lenN bv)); cbn [andb]; [reflexivity|].
    symmetry. apply nth_overflow. unfold lenN in *. lia.
Qed.

(* ========================================================================= *)
(* 10. Part 2: the DAC model's abstractions are realised by the packed words    *)
(*     and by the word-exact BitSequenceRG                                      *)
(* ========================================================================= *)

Lemma dac_count_countb l : dac_count l = countb true l.
Proof. induction l as [|[|] r IH]; cbn [dac_count countb Bool.eqb]; lia. Qed.

Section RGBitmap.
  Variable bits : list bool.
  Variable r : rg.
  Hypothesis Hlen : lenN bits < BitRGDefs.W32 - 64.
  Hypothesis Hbuilt : rg_of_bits bits dac_rg_factor = Some r.

  (* the rank the DAC model uses is the rank BitSequenceRG computes (factor 4, as DAC_VLS passes) *)
  Theorem dac_rank_is_rg i : i < lenN bits -> rg_rank1 r i = dac_rank1 bits i.
  Proof.
    intros Hi. rewrite (rg_rank1_spec bits dac_rg_factor r ltac:(unfold dac_rg_factor; lia) Hlen Hbuilt i Hi).
    unfold dac_rank1. destruct (N.ltb_spec i (lenN bits)); [|lia]. f_equal.
    rewrite dac_count_countb. unfold bv_rank1, prefix_count. f_equal. f_equal. lia.
  Qed.

  Lemma rg_data_words : rg_data r = words_of_bits bits.
  Proof.
    destruct (rg_of_bits_inv bits dac_rg_factor r ltac:(unfold dac_rg_factor; lia) Hlen Hbuilt) as (Hwf & _).
    apply Hwf.
  Qed.

  (* bitget(bS->data, ini) reads the model's bit *)
  Theorem dac_bitget_is_rg i : i < lenN bits ->
    bitget32 (rg_data r) i = Some (if nth (N.to_nat i) bits false then 1 else 0).
  Proof.
    intros Hi. rewrite rg_data_words. rewrite bitget32_spec.
    - rewrite wbit32_words_of_bits. reflexivity.
    - apply words32_words_of_bits.
    - rewrite words_of_bits_length. lia.
  Qed.
End RGBitmap.

(* the concrete object realises the abstract reads *)
Definition conc_ok (d : dac) (c : dacc) : Prop :=
  c_nLevels c = d_nLevels d /\ c_levelsIndex c = d_levelsIndex d /\ c_rankLevels c = d_rankLevels d /\
  (forall ini v, dac_nth (d_syms d) ini = Some v -> dacc_sym c ini = Some v) /\
  (forall ini b, dac_nth (d_bits d) ini = Some b -> dacc_bit c ini = Some b) /\
  (forall ini k, dac_rank1 (d_bits d) ini = Some k -> rg_rank1 (c_bS c) ini = Some k).

Ltac bind_step H E :=
  match type of H with
  | dac_bind ?o _ = Some _ => destruct o eqn:E; cbn [dac_bind] in H; [|discriminate H]
  end.

Lemma dac_access_loop_refines d c : conc_ok d c ->
  forall fuel j ini acc s, dac_access_loop d fuel j ini acc = Some s -> dac_access_c_loop c fuel j ini acc = Some s.
Proof.
  intros (HnL & Hli & Hrl & Hsym & Hbit & Hrank).
  induction fuel as [|f IH]; intros j ini acc s H.
  - cbn [dac_access_loop] in H. cbn [dac_access_c_loop]. rewrite HnL.
    destruct (j <? dac_sub32 (d_nLevels d) 1); [|exact H].
    bind_step H Eb. rewrite (Hbit _ _ Eb). cbn [dac_bind]. destruct b; [discriminate H|exact H].
  - cbn [dac_access_loop] in H. cbn [dac_access_c_loop]. rewrite HnL, Hli, Hrl.
    destruct (j <? dac_sub32 (d_nLevels d) 1); [|exact H].
    bind_step H Eb. rewrite (Hbit _ _ Eb). cbn [dac_bind]. destruct b; [|exact H].
    bind_step H Er. rewrite (Hrank _ _ Er). cbn [dac_bind].
    bind_step H Erl. bind_step H Eli. cbn [dac_bind]. bind_step H Ev. rewrite (Hsym _ _ Ev). cbn [dac_bind].
    destruct (dac_add32 j 1 <? d_nLevels d); [|discriminate H].
    destruct (dac_add32 j 1 =? dac_sub32 (d_nLevels d) 1); [exact H|].
    apply IH. exact H.
Qed.

Theorem dac_access_refines d c pos s : conc_ok d c ->
  dac_access d pos = Some s -> dac_access_c c pos = Some s.
Proof.
  intros Hok H. pose proof Hok as (HnL & _ & _ & Hsym & _).
  unfold dac_access in H. unfold dac_access_c. bind_step H Ev. rewrite (Hsym _ _ Ev). cbn [dac_bind].
  rewrite HnL. destruct (0 <? d_nLevels d); [|discriminate H].
  apply (dac_access_loop_refines d c Hok). exact H.
Qed.

Theorem dac_access_next_refines d c l pos x : conc_ok d c ->
  dac_access_next d l pos = Some x -> dac_access_next_c c l pos = Some x.
Proof.
  intros (HnL & Hli & Hrl & Hsym & Hbit & Hrank) H.
  unfold dac_access_next in H. unfold dac_access_next_c. bind_step H Ev. rewrite (Hsym _ _ Ev). cbn [dac_bind].
  rewrite HnL, Hli, Hrl. destruct (l =? dac_sub32 (d_nLevels d) 1); [exact H|].
  bind_step H Eb. rewrite (Hbit _ _ Eb). cbn [dac_bind]. destruct b; [|exact H].
  bind_step H Er. rewrite (Hrank _ _ Er). cbn [dac_bind]. exact H.
Qed.

Theorem dac_chain_refines d c : conc_ok d c ->
  forall fuel l pos s, dac_chain d fuel l pos = Some s -> dac_chain_c c fuel l pos = Some s.
Proof.
  intros Hok. induction fuel as [|f IH]; intros l pos s H; cbn [dac_chain] in H; cbn [dac_chain_c].
  - destruct (pos =? dac_END); [exact H|discriminate H].
  - destruct (pos =? dac_END); [exact H|].
    bind_step H Ex. rewrite (dac_access_next_refines d c l pos _ Hok Ex). cbn [dac_bind].
    destruct p as [v pos']. bind_step H Er. rewrite (IH _ _ _ Er). cbn [dac_bind]. exact H.
Qed.

Theorem dac_chain_bounded_refines d c : conc_ok d c ->
  forall k l pos s, dac_chain_bounded d k l pos = Some s -> dac_chain_bounded_c c k l pos = Some s.
Proof.
  intros Hok. induction k as [|k IH]; intros l pos s H; cbn [dac_chain_bounded] in H; cbn [dac_chain_bounded_c].
  - exact H.
  - destruct (pos =? dac_END); [exact H|].
    bind_step H Ex. rewrite (dac_access_next_refines d c l pos _ Hok Ex). cbn [dac_bind].
    destruct p as [v pos']. bind_step H Er. rewrite (IH _ _ _ Er). cbn [dac_bind]. exact H.
Qed.

(* ---- the level array: pack32 with the same global index ---------------------- *)

Theorem dac_levels_packed d :
  d_base_bits d <= 32 -> lenN (d_syms d) < c32_W ->
  Forall (fun x => x < 2 ^ d_base_bits d) (d_syms d) ->
  d_tamCode d = d_base_bits d * lenN (d_syms d) -> d_tamCode d < dac_U32 ->
  exists lv, dac_levels_c d = Some lv /\
    lv = pack32 (d_base_bits d) (d_syms d) ++
         repeat 0 (N.to_nat (d_tamCode d / 32 + 1 - uint_len32 (d_base_bits d) (lenN (d_syms d)))) /\
    lenN lv = d_tamCode d / 32 + 1 /\
    forall ini, ini < lenN (d_syms d) -> get_field32 lv (d_base_bits d) ini = nthN (d_syms d) ini.
Proof.
  intros Hbb Hn Hsy Htam Hlt. unfold dac_levels_c. unfold dac_U32 in Hlt.
  set (bb := d_base_bits d) in *. set (syms := d_syms d) in *. set (tam := d_tamCode d) in *.
  assert (Hsz : tam / 32 + 1 < 2 ^ 59) by (change (2 ^ 59) with 576460752303423488; lia).
  destruct (pack32w_spec (tam / 32 + 1) bb syms Hbb Hsy ltac:(lia) Hsz) as (A & HA & Harr & Hl & Hg & _).
  exists A. split; [exact HA|]. split; [|split; [exact Hl|exact Hg]].
  assert (Hu : uint_len32 bb (lenN syms) <= tam / 32 + 1).
  { rewrite uint_len32_spec by assumption. lia. }
  rewrite (pack32w_padded _ bb syms Hbb Hn Hsy Hu Hsz) in HA. injection HA as <-. reflexivity.
Qed.

Lemma dac_obj_wf_inv d : dac_obj_wf d = true ->
  d_tamCode d < dac_U32 /\ d_tamCode d = d_base_bits d * lenN (d_syms d) /\
  Forall (fun x => x < 2 ^ d_base_bits d) (d_syms d).
Proof.
  unfold dac_obj_wf. rewrite !andb_true_iff. intros H.
  repeat match goal with H : _ /\ _ |- _ => destruct H end.
  repeat match goal with
         | H : (_ <? _) = true |- _ => apply N.ltb_lt in H
         | H : (_ =? _) = true |- _ => apply N.eqb_eq in H
         end.
  split; [assumption|]. split; [assumption|].
  match goal with H : forallb (fun x => x <? 2 ^ d_base_bits d) (d_syms d) = true |- _ =>
    rewrite forallb_forall in H; apply Forall_forall; intros x Hx; apply N.ltb_lt; apply H; exact Hx end.
Qed.

(* the object over packed words + RG realises every read of the abstract object *)
Theorem dac_concretize_ok d :
  dac_obj_wf d = true -> d_base_bits d <= 32 -> lenN (d_syms d) < c32_W ->
  lenN (d_bits d) < BitRGDefs.W32 - 64 ->
  exists c, dac_concretize d = Some c /\ conc_ok d c /\
    c_levels c = pack32 (d_base_bits d) (d_syms d) ++
         repeat 0 (N.to_nat (d_tamCode d / 32 + 1 - uint_len32 (d_base_bits d) (lenN (d_syms d)))) /\
    rg_of_bits (d_bits d) dac_rg_factor = Some (c_bS c) /\
    rg_data (c_bS c) = words_of_bits (d_bits d).
Proof.
  intros Hwf Hbb Hn Hbl. destruct (dac_obj_wf_inv d Hwf) as (Hlt & Htam & Hsy).
  destruct (dac_levels_packed d Hbb Hn Hsy Htam Hlt) as (lv & Hlv & Hpk & Hll & Hg).
  destruct (rg_build_wf (d_bits d) dac_rg_factor ltac:(unfold dac_rg_factor; lia) Hbl) as (r & Hr & _).
  unfold dac_concretize. rewrite Hlv, Hr. eexists. split; [reflexivity|].
  split; [|split; [exact Hpk|split; [reflexivity|apply (rg_data_words _ _ Hbl Hr)]]].
  unfold conc_ok, dacc_sym, dacc_bit. cbn [c_nLevels c_levelsIndex c_rankLevels c_levels c_base_bits c_bS].
  split; [reflexivity|]. split; [reflexivity|]. split; [reflexivity|]. split; [|split].
  - intros ini v E. rewrite dac_nth_eq in E. rewrite Hg by (eapply nthN_Some_lt; exact E). exact E.
  - intros ini b E. rewrite dac_nth_eq in E. pose proof (nthN_Some_lt _ _ _ E) as Hi.
    rewrite (dac_bitget_is_rg _ _ Hbl Hr ini Hi). rewrite (nthN_nth _ _ false) in E by exact Hi.
    injection E as <-. destruct (nth (N.to_nat ini) (d_bits d) false); reflexivity.
  - intros ini k E. assert (Hi : ini < lenN (d_bits d)).
    { unfold dac_rank1 in E. destruct (N.ltb_spec ini (lenN (d_bits d))); [assumption|discriminate]. }
    rewrite (dac_rank_is_rg _ _ Hbl Hr ini Hi). exact E.
Qed.

(* ---- end to end: DAC_VLS over the packed words and the RG bitmap ---------------- *)

Lemma dac_wf_c_sound seqs logr maxseq : dac_wf_c seqs logr maxseq = true ->
  dac_wf seqs logr maxseq = true /\ logr * LI seqs (N.to_nat maxseq) < dac_U32 /\
  LI seqs (N.to_nat maxseq) + 1 < dac_U32 - 64.
Proof.
  unfold dac_wf_c. rewrite !andb_true_iff. intros [[H Ht] Hf].
  apply N.ltb_lt in Ht, Hf. split; [exact H|].
  assert (Hle : LI seqs (N.to_nat maxseq) <= lenN (dac_flatten seqs) - lenN seqs).
  { unfold dac_flatten, lenN. rewrite flatten_length.
    pose proof (sum_cnt_le seqs (N.to_nat maxseq)). unfold LI, sz. lia. }
  destruct (dac_wf_sound _ _ _ H) as (Hne & _).
  assert (1 <= lenN seqs) by (destruct seqs; [congruence|rewrite lenN_cons; lia]).
  assert (lenN seqs <= lenN (dac_flatten seqs)) by (unfold dac_flatten, lenN; rewrite flatten_length; lia).
  split; [|unfold dac_U32 in *; lia].
  eapply N.le_lt_trans; [|exact Ht]. apply N.mul_le_mono_l. exact Hle.
Qed.

Theorem dac_build_c_ok seqs logr maxseq : dac_wf_c seqs logr maxseq = true ->
  let d := the_dac seqs logr (N.to_nat maxseq) in
  exists c, dac_build_c (dac_flatten seqs) (dac_llen seqs) logr maxseq = Some c /\ conc_ok d c /\
    c_levels c = pack32 logr (d_syms d) ++
                 repeat 0 (N.to_nat (d_tamCode d / 32 + 1 - uint_len32 logr (lenN (d_syms d)))) /\
    rg_of_bits (d_bits d) dac_rg_factor = Some (c_bS c) /\
    rg_data (c_bS c) = words_of_bits (d_bits d).
Proof.
  intros Hc d. destruct (dac_wf_c_sound _ _ _ Hc) as (H & Ht & Hb).
  destruct (dac_wf_syms _ _ _ H) as (_ & Hlogr & _ & _).
  destruct (dac_wf_sound _ _ _ H) as (_ & _ & _ & _ & Hbd).
  pose proof (dac_build_obj_wf seqs logr maxseq H Ht) as Hobj. fold d in Hobj.
  assert (Hbb : d_base_bits d = logr) by (cbn [d the_dac d_base_bits]; apply N.mod_small; lia).
  assert (Hsl : lenN (d_syms d) = LI seqs (N.to_nat maxseq)).
  { cbn [d the_dac d_syms]. apply cat_offset. intros k. apply level_length. }
  assert (Hbl : lenN (d_bits d) <= LI seqs (N.to_nat maxseq) + 1).
  { cbn [d the_dac d_bits]. rewrite lenN_app, (cat_offset seqs (contbits seqs) _ (contbits_length seqs)).
    change (lenN [true]) with 1.
    pose proof (LI_mono seqs (N.to_nat maxseq - 1) (N.to_nat maxseq) ltac:(lia)). lia. }
  destruct (dac_concretize_ok d Hobj) as (c & Hcc & Hok & Hlv & Hrg & Hdata).
  - rewrite Hbb. exact Hlogr.
  - rewrite Hsl. unfold dac_U32, c32_W in *. lia.
  - unfold dac_U32, BitRGDefs.W32 in *. lia.
  - exists c. unfold dac_build_c. rewrite (dac_build_layout _ _ _ H). fold d. rewrite Hcc.
    split; [reflexivity|]. split; [exact Hok|]. rewrite Hbb in Hlv. auto.
Qed.

(* [dac_access_spec] with the abstraction functions removed: access over the PACKED words of
   [levels] and the word-exact BitSequenceRG returns the stored sequence, for every index *)
Theorem dac_access_spec_concrete seqs logr maxseq c i :
  dac_wf_c seqs logr maxseq = true ->
  dac_build_c (dac_flatten seqs) (dac_llen seqs) logr maxseq = Some c ->
  1 <= i <= lenN seqs ->
  dac_access_c c i = Some (nth (N.to_nat (i - 1)) seqs []).
Proof.
  intros Hc Hb Hi. destruct (dac_build_c_ok _ _ _ Hc) as (c' & Hb' & Hok & _).
  rewrite Hb in Hb'. injection Hb' as <-.
  destruct (dac_wf_c_sound _ _ _ Hc) as (H & _).
  apply (dac_access_refines _ _ _ _ Hok).
  apply (dac_access_spec seqs logr maxseq _ i H (dac_build_layout _ _ _ H) Hi).
Qed.

(* the access_next walk the dictionaries perform *)
Theorem dac_chain_spec_concrete seqs logr maxseq c i fuel :
  dac_wf_c seqs logr maxseq = true ->
  dac_build_c (dac_flatten seqs) (dac_llen seqs) logr maxseq = Some c ->
  1 <= i <= lenN seqs -> (N.to_nat maxseq <= fuel)%nat ->
  dac_chain_c c fuel 0 i = Some (nth (N.to_nat (i - 1)) seqs []) /\
  dac_chain_bounded_c c fuel 0 i = Some (nth (N.to_nat (i - 1)) seqs []).
Proof.
  intros Hc Hb Hi Hf. destruct (dac_build_c_ok _ _ _ Hc) as (c' & Hb' & Hok & _).
  rewrite Hb in Hb'. injection Hb' as <-.
  destruct (dac_wf_c_sound _ _ _ Hc) as (H & _).
  destruct (dac_access_next_chain seqs logr maxseq _ i fuel H (dac_build_layout _ _ _ H) Hi Hf) as [C1 C2].
  split.
  - apply (dac_chain_refines _ _ Hok). exact C1.
  - apply (dac_chain_bounded_refines _ _ Hok). exact C2.
Qed.

(* no read of the concrete access leaves the packed arrays *)
Corollary dac_no_oob_concrete seqs logr maxseq i :
  dac_wf_c seqs logr maxseq = true -> 1 <= i <= lenN seqs ->
  exists c, dac_build_c (dac_flatten seqs) (dac_llen seqs) logr maxseq = Some c /\
            dac_access_c c i <> None /\ dac_chain_c c (N.to_nat maxseq) 0 i <> None.
Proof.
  intros Hc Hi. destruct (dac_build_c_ok _ _ _ Hc) as (c & Hb & _).
  exists c. split; [exact Hb|].
  rewrite (dac_access_spec_concrete _ _ _ _ _ Hc Hb Hi).
  destruct (dac_chain_spec_concrete _ _ _ _ _ _ Hc Hb Hi (le_n _)) as [-> _].
  split; discriminate.
Qed.

(* ========================================================================= *)
(* 11. the order of the stores does not matter (the DAC constructor fills the    *)
(*     level array sequence by sequence, i.e. level-interleaved)                 *)
(* ========================================================================= *)
From Coq Require Import Permutation.

Lemma set_fields32_bits : forall ops A len n,
  arr32 A -> len <= 32 -> n * len <= 32 * lenN A ->
  (forall q v, In (q, v) ops -> q < n /\ v < 2 ^ len) -> NoDup (map fst ops) ->
  exists A', set_fields32 A len ops = Some A' /\ arr32 A' /\ lenN A' = lenN A /\
    (forall q v t, In (q, v) ops -> t < len -> wbit32 A' (q * len + t) = N.testbit v t) /\
    (forall k, (forall q v, In (q, v) ops -> k < q * len \/ q * len + len <= k) -> wbit32 A' k = wbit32 A k).
Proof.
  induction ops as [|[q0 v0] r IH]; intros A len n HA Hlen Hin Hops Hnd; cbn [set_fields32].
  - exists A. split; [reflexivity|]. split; [exact HA|]. split; [reflexivity|]. split.
    + intros q v t [].
    + reflexivity.
  - destruct (Hops q0 v0 (or_introl eq_refl)) as [Hq0 Hv0].
    cbn [map fst] in Hnd. inversion Hnd as [|? ? Hnotin Hnd']; subst.
    assert (Hin0 : in_range32 A len q0) by (unfold in_range32; nia).
    destruct (set_field32_bits A len q0 v0 HA Hlen Hin0 Hv0) as (A1 & Hs1 & HA1 & Hl1 & Hb1). rewrite Hs1.
    destruct (IH A1 len n HA1 Hlen ltac:(rewrite Hl1; exact Hin) (fun q v H => Hops q v (or_intror H)) Hnd')
      as (A' & Hs' & HA' & Hl' & Hb' & Hf').
    assert (Hdisj : forall q v, In (q, v) r -> q <> q0).
    { intros q v Hqv ->. apply Hnotin. apply (in_map fst) in Hqv. exact Hqv. }
    exists A'. split; [exact Hs'|]. split; [exact HA'|]. split; [congruence|]. split.
    + intros q v t [E|Hr] Ht.
      * injection E as <- <-. rewrite Hf'.
        -- rewrite Hb1. destruct (N.leb_spec (q0 * len) (q0 * len + t)); [|lia].
           destruct (N.ltb_spec (q0 * len + t) (q0 * len + len)); [|lia]. cbn [andb]. f_equal. lia.
        -- intros q' v' H'. pose proof (Hdisj _ _ H'). nia.
      * apply Hb'; assumption.
    + intros k Hk. rewrite Hf' by (intros q v H; apply (Hk q v); right; exact H). rewrite Hb1.
      destruct (Hk q0 v0 (or_introl eq_refl)).
      * destruct (N.leb_spec (q0 * len) k); [lia|reflexivity].
      * destruct (N.ltb_spec k (q0 * len + len)); [lia|]. rewrite andb_false_r. reflexivity.
Qed.

Lemma in_combine_idx : forall (vs : list N) a q v,
  In (q, v) (combine (map N.of_nat (seq a (length vs))) vs) <->
  exists k, (k < length vs)%nat /\ q = N.of_nat (a + k) /\ v = nth k vs 0.
Proof.
  induction vs as [|x r IH]; intros a q v; cbn [length seq map combine].
  - split; [intros []|intros (k & Hk & _); inversion Hk].
  - split.
    + intros [E|H].
      * injection E as <- <-. exists O. split; [cbn; lia|]. split; [f_equal; lia|reflexivity].
      * apply IH in H. destruct H as (k & Hk & -> & ->). exists (S k). cbn [length nth]. split; [lia|]. split; [f_equal; lia|reflexivity].
    + intros (k & Hk & -> & ->). destruct k as [|k].
      * left. f_equal. f_equal. lia.
      * right. apply IH. exists k. cbn [length] in Hk. split; [lia|]. split; [f_equal; lia|reflexivity].
Qed.

Lemma map_fst_combine_idx (vs : list N) a :
  map fst (combine (map N.of_nat (seq a (length vs))) vs) = map N.of_nat (seq a (length vs)).
Proof.
  revert a; induction vs as [|x r IH]; intros a; cbn [length seq map combine fst]; [reflexivity|].
  f_equal. apply IH.
Qed.

(* any order of the n stores (each field written once) gives the array pack32w gives *)
Theorem set_fields32_any_order nw len vs ops :
  len <= 32 -> Forall (fun v => v < 2 ^ len) vs -> lenN vs * len <= 32 * nw -> nw < 2 ^ 59 ->
  Permutation ops (combine (map N.of_nat (seq 0 (length vs))) vs) ->
  set_fields32 (repeat 0 (N.to_nat nw)) len ops = pack32w nw len vs.
Proof.
  intros Hlen Hvs Hin Hnw Hperm.
  assert (H0 : arr32 (repeat 0 (N.to_nat nw))) by (apply arr32_repeat0; lia).
  assert (Hmem : forall q v, In (q, v) ops <-> q < lenN vs /\ v = nth (N.to_nat q) vs 0).
  { intros q v. split.
    - intros H. apply (Permutation_in _ Hperm), in_combine_idx in H. destruct H as (k & Hk & -> & ->).
      unfold lenN. split; [lia|]. f_equal. lia.
    - intros [Hq ->]. apply (Permutation_in _ (Permutation_sym Hperm)), in_combine_idx.
      exists (N.to_nat q). unfold lenN in Hq. split; [lia|]. split; [lia|reflexivity]. }
  assert (Hnd : NoDup (map fst ops)).
  { apply (Permutation_NoDup (Permutation_sym (Permutation_map fst Hperm))).
    rewrite map_fst_combine_idx. apply FinFun.Injective_map_NoDup; [intros x y; lia|apply seq_NoDup]. }
  destruct (set_fields32_bits ops (repeat 0 (N.to_nat nw)) len (lenN vs) H0 Hlen) as (A' & HA' & Harr' & Hl' & Hb' & Hf').
  { rewrite lenN_repeat. lia. }
  { intros q v H. apply Hmem in H. destruct H as [Hq ->]. split; [exact Hq|]. apply nth_lt_pow2. exact Hvs. }
  { exact Hnd. }
  destruct (pack32w_spec nw len vs Hlen Hvs Hin Hnw) as (B & HB & Hbarr & Hbl & _ & Hbb & Hbz).
  rewrite HA', HB. f_equal. apply wbit32_ext.
  - apply Harr'.
  - apply Hbarr.
  - rewrite lenN_repeat in Hl'. unfold lenN in *. lia.
  - intros k. destruct (N.lt_ge_cases k (lenN vs * len)) as [Hk|Hk].
    + assert (Hl0 : len <> 0) by (intros ->; lia).
      pose proof (N.div_mod' k len) as Hd. pose proof (N.mod_lt k len Hl0) as Hm.
      assert (Hq : k / len < lenN vs) by (apply N.div_lt_upper_bound; lia).
      replace k with (k / len * len + k mod len) by lia.
      rewrite (Hb' (k / len) (nth (N.to_nat (k / len)) vs 0)) by (try apply Hmem; auto).
      rewrite Hbb by assumption. reflexivity.
    + rewrite Hbz by exact Hk. rewrite Hf'; [apply wbit32_repeat0|].
      intros q v H. apply Hmem in H. destruct H as [Hq _]. right. nia.
Qed.

(* ========================================================================= *)
(* 12. why [v < 2^len] is a hypothesis: set_field does not mask its argument     *)
(*     (x << j and x >> (W - j) are OR-ed in whole), so a larger value spills     *)
(*     into the following fields.  Witness replayed on the implementation:        *)
(*     f32_new 5 4 / f32_set 0 63 / f32_get 1  ->  1.                             *)
(* ========================================================================= *)
Example cds32_set_unmasked_spills :
  exists A v A', arr32 A /\ in_range32 A 5 0 /\ in_range32 A 5 1 /\ ~ v < 2 ^ 5 /\
    set_field32 A 5 0 v = Some A' /\ get_field32 A 5 1 = Some 0 /\ get_field32 A' 5 1 = Some 1.
Proof.
  exists [0], 63, [63]. split; [split; [repeat constructor|vm_compute; reflexivity]|].
  split; [vm_compute; discriminate|]. split; [vm_compute; discriminate|].
  split; [vm_compute; discriminate|]. repeat split; vm_compute; reflexivity.
Qed.
