(* Executable model of the Re-Pair component (RePair/RePair.{h,cpp}, the compaction loops of
   the dictionary constructors, and an abstract nondeterministic Re-Pair compressor).
   Definitions only; proofs are in RePairProofs.v.

   A. abstract compressor: [rp_state], [replace_pairs], [apply_step], [rp_step], [rp_run];
      grammar expansion [expand_sym] / [expand_seq].
   B. verified checker [check_grammar] (run by the harness on the grammar the real compressor produced).
   C. exact decoder: [bits32] (libcds bits(uint)), [rp_pack] (the RePair constructor's rule table G),
      [expandRule] (RePair::expandRule on the packed table), [decode_seq] (the extract loops of the callers),
      [compact] (the gap-following loop of the constructors), [split0] (cut at terminators).
   D. [rp_save] / [rp_loadNoSeq] / [rp_save_seq] / [rp_load_seq] (RePair::save / loadNoSeq / save(enc) / load). *)
From LibCSD Require Import Base Bytes LogSeqDefs.
Local Open Scope N_scope.

(* ---------------------------------------------------------------------------------------- *)
(* libcds  inline uint bits(uint n) { uint b = 0; while (n) { b++; n >>= 1; } return b; }
   The argument  rules + terminals  is a uint64_t that is truncated to uint at the call. *)
Definition u32 (x : N) : N := x mod 2 ^ 32.
Definition bits32 (n : N) : N := N.size (u32 n).

(* ---------------------------------------------------------------------------------------- *)
(* A. grammar, expansion, abstract compressor                                                *)

Definition rule := (N * N)%type.

(* symbol s < t is a terminal; symbol t + i is rule i.  [fuel] bounds the nesting depth. *)
Fixpoint expand_sym (rules : list rule) (t : N) (fuel : nat) (s : N) : option (list N) :=
  if s <? t then Some [s] else
  match fuel with
  | O => None
  | S f =>
      match nthN rules (s - t) with
      | None => None
      | Some (a, b) =>
          match expand_sym rules t f a, expand_sym rules t f b with
          | Some x, Some y => Some (x ++ y)
          | _, _ => None
          end
      end
  end.

Fixpoint expand_list (rules : list rule) (t : N) (fuel : nat) (seq : list N) : option (list N) :=
  match seq with
  | [] => Some []
  | s :: r =>
      match expand_sym rules t fuel s, expand_list rules t fuel r with
      | Some x, Some y => Some (x ++ y)
      | _, _ => None
      end
  end.

(* a rule only mentions smaller symbols, so the depth of rule i is at most i+1 <= length rules *)
Definition expand_seq (rules : list rule) (t : N) (seq : list N) : option (list N) :=
  expand_list rules t (length rules) seq.

Record rp_state := { rp_rules : list rule; rp_seq : list N }.

Definition expand_state (t : N) (st : rp_state) : option (list N) :=
  expand_seq (rp_rules st) t (rp_seq st).

(* replace the occurrences of (a,b) selected by [mask] (one boolean per position of the
   sequence: "replace the pair starting here") by [n], scanning left to right so that the
   replaced occurrences never overlap.  A selected position that does not hold (a,b) is left alone:
   every mask denotes a legal set of non-overlapping occurrences, and every such set is denoted by a mask. *)
Fixpoint replace_pairs (a b n : N) (mask : list bool) (seq : list N) {struct seq} : list N :=
  match seq with
  | [] => []
  | x :: rest1 =>
      match rest1 with
      | [] => [x]
      | y :: rest2 =>
          if hd false mask && (x =? a) && (y =? b)
          then n :: replace_pairs a b n (tl (tl mask)) rest2
          else x :: replace_pairs a b n (tl mask) rest1
      end
  end.

Definition apply_step (t a b : N) (mask : list bool) (st : rp_state) : rp_state :=
  {| rp_rules := rp_rules st ++ [(a, b)];
     rp_seq := replace_pairs a b (t + lenN (rp_rules st)) mask (rp_seq st) |}.

(* legality of a step: the pair does not touch the terminator 0 (heap.cpp incFreq guard) and
   consists of existing symbols *)
Definition step_ok (t a b : N) (st : rp_state) : Prop :=
  a <> 0 /\ b <> 0 /\ a < t + lenN (rp_rules st) /\ b < t + lenN (rp_rules st).

Definition step_okb (t a b : N) (st : rp_state) : bool :=
  negb (a =? 0) && negb (b =? 0) && (a <? t + lenN (rp_rules st)) && (b <? t + lenN (rp_rules st)).

Inductive rp_step (t : N) : rp_state -> rp_state -> Prop :=
| rp_step_intro a b mask st : step_ok t a b st -> rp_step t st (apply_step t a b mask st).

Inductive rp_run (t : N) : rp_state -> rp_state -> Prop :=
| rp_run_refl st : rp_run t st st
| rp_run_step st1 st2 st3 : rp_run t st1 st2 -> rp_step t st2 st3 -> rp_run t st1 st3.

(* executable run: a list of (a, b, mask) choices; [None] when a choice is illegal *)
Fixpoint run_steps (t : N) (steps : list (N * N * list bool)) (st : rp_state) : option rp_state :=
  match steps with
  | [] => Some st
  | (a, b, mask) :: more =>
      if step_okb t a b st then run_steps t more (apply_step t a b mask st) else None
  end.

Definition init_state (input : list N) : rp_state := {| rp_rules := []; rp_seq := input |}.

(* IRePair::prepare:  alph = max C[i];  n = ++alph  *)
Definition terminals_of (input : list N) : N := fold_right N.max 0 input + 1.

(* ---------------------------------------------------------------------------------------- *)
(* cutting at terminators: the pieces between 0s (always non-empty list; the last piece is
   what follows the last 0) *)
Fixpoint split0 (l : list N) : list (list N) :=
  match l with
  | [] => [[]]
  | x :: r =>
      if x =? 0 then [] :: split0 r
      else match split0 r with
           | h :: tl => (x :: h) :: tl
           | [] => [[x]]
           end
  end.

(* ---------------------------------------------------------------------------------------- *)
(* B. checker                                                                                *)

Fixpoint rules_ok_from (t i : N) (rules : list rule) : bool :=
  match rules with
  | [] => true
  | (a, b) :: r =>
      negb (a =? 0) && negb (b =? 0) && (a <? t + i) && (b <? t + i) && rules_ok_from t (i + 1) r
  end.
Definition rules_ok (t : N) (rules : list rule) : bool := rules_ok_from t 0 rules.

Definition seq_ok (t : N) (rules : list rule) (seq : list N) : bool :=
  forallb (fun s => s <? t + lenN rules) seq.

Definition flat_rules (rules : list rule) : list N := flat_map (fun r => [fst r; snd r]) rules.

(* the width the RePair constructor, getBits() and the callers use: bits(rules + terminals) *)
Definition rp_bits (t : N) (rules : list rule) : N := bits32 (lenN rules + t).

Definition bits_ok (t : N) (rules : list rule) (seq : list N) : bool :=
  forallb (fun s => s <? 2 ^ rp_bits t rules) (seq ++ flat_rules rules).

Fixpoint list_eqb (x y : list N) : bool :=
  match x, y with
  | [], [] => true
  | a :: x', b :: y' => (a =? b) && list_eqb x' y'
  | _, _ => false
  end.

Definition check_grammar (input : list N) (t : N) (rules : list rule) (cseq : list N) : bool :=
  (1 <=? t) && rules_ok t rules && seq_ok t rules cseq && bits_ok t rules cseq &&
  match expand_seq rules t cseq with
  | Some l => list_eqb l input
  | None => false
  end.

(* ---------------------------------------------------------------------------------------- *)
(* C. exact decoder                                                                          *)

(* RePair::RePair(int*, uint, uchar):
     G = new LogSequence(bits(rules + terminals), 2 * rules);
     for i < rules: G->setField(2*i, left_i); G->setField(2*i+1, right_i);            *)
Definition rp_pack (t : N) (rules : list rule) : option logseq :=
  ls_fill (ls_new (rp_bits t rules) (2 * lenN rules)) 0 (flat_rules rules).

(* uint RePair::expandRule(uint rule, uchar *str):
     uint left = G->getField(2*rule); uint right = G->getField(2*rule+1);       (uint arithmetic)
     if (left >= terminals) pos += expandRule(left - terminals, ...) else str[pos++] = (char)left;
     same for right.
   [None] = getField throws, or the recursion is deeper than [fuel] (the C++ has no bound: a cyclic
   table would overflow the stack). *)
Fixpoint expandRule (G : logseq) (t : N) (fuel : nat) (rule : N) : option (list N) :=
  match fuel with
  | O => None
  | S f =>
      match ls_get G (u32 (2 * rule)), ls_get G (u32 (2 * rule + 1)) with
      | Some l0, Some r0 =>
          let left := u32 l0 in
          let right := u32 r0 in
          match (if t <=? left then expandRule G t f (u32 (left - t)) else Some [left mod 256]) with
          | None => None
          | Some x =>
              match (if t <=? right then expandRule G t f (u32 (right - t)) else Some [right mod 256]) with
              | None => None
              | Some y => Some (x ++ y)
              end
          end
      | _, _ => None
      end
  end.

(* the extract loops of the callers (StringDictionaryRPDAC::extract, HASHRPF, RPFC decodeString):
     if (sym >= rp->terminals) len += rp->expandRule(sym - rp->terminals, s + len); else s[len++] = (uchar)sym; *)
Fixpoint decode_seq (G : logseq) (t : N) (fuel : nat) (seq : list N) : option (list N) :=
  match seq with
  | [] => Some []
  | s :: r =>
      match (if t <=? s then expandRule G t fuel (u32 (s - t)) else Some [s mod 256]) with
      | None => None
      | Some x => match decode_seq G t fuel r with
                  | None => None
                  | Some y => Some (x ++ y)
                  end
      end
  end.

(* The compaction loop shared by the constructors of RPDAC / HASHRPDAC / HASHRPF / RPFC / RPHTFC:
     while (io < processed) {
       if (dict[io] >= 0) { <emit dict[io]>; io++; }
       else               { io = -(dict[io] + 1); }          // gap: follow the pointer
     }
   [arr] is the caller's int array after IRePair::compress ran over it.  Every terminating walk
   visits a position at most once, so [length arr] iterations are exact: [None] = the C++ loops forever. *)
Fixpoint compact_walk (arr : list Z) (n : N) (fuel : nat) (io : N) : option (list N) :=
  if n <=? io then Some [] else
  match fuel with
  | O => None
  | S f =>
      match nthN arr io with
      | None => None
      | Some v =>
          if (0 <=? v)%Z
          then match compact_walk arr n f (io + 1) with
               | Some out => Some (Z.to_N v :: out)
               | None => None
               end
          else compact_walk arr n f (u32 (Z.to_N (- (v + 1))))
      end
  end.

Definition compact (arr : list Z) : option (list N) := compact_walk arr (lenN arr) (length arr) 0.

(* well-formed gap structure (boolean, run by the harness on the real array): every negative entry
   met by the walk points strictly forward and not beyond the end *)
Fixpoint gaps_wf_walk (arr : list Z) (n : N) (fuel : nat) (io : N) : bool :=
  if n <=? io then true else
  match fuel with
  | O => false
  | S f =>
      match nthN arr io with
      | None => false
      | Some v =>
          if (0 <=? v)%Z then gaps_wf_walk arr n f (io + 1)
          else let j := Z.to_N (- (v + 1)) in
               (io <? j) && (j <=? n) && gaps_wf_walk arr n f j
      end
  end.
Definition gaps_wf (arr : list Z) : bool := gaps_wf_walk arr (lenN arr) (length arr) 0.

(* the per-string symbol sequences the RPDAC/HASHRPDAC constructors hand to DAC_VLS (a 0 closes a string) *)
Definition compact_strings (arr : list Z) : option (list (list N)) :=
  match compact arr with Some c => Some (split0 c) | None => None end.

(* ---------------------------------------------------------------------------------------- *)
(* D. save / load                                                                            *)

Record rp_obj := { ro_maxchar : N; ro_terminals : N; ro_rules : N; ro_G : logseq }.

(* void RePair::save(ostream&): uchar maxchar; uint64 terminals; uint64 rules; G->save *)
Definition rp_save (o : rp_obj) : list N :=
  le_bytes 1 (ro_maxchar o) ++ le_bytes 8 (ro_terminals o) ++ le_bytes 8 (ro_rules o) ++ ls_save (ro_G o).

Definition take_le (k : nat) (bs : list N) : option (N * list N) :=
  if (length bs <? k)%nat then None else Some (le_value (firstn k bs), skipn k bs).

(* RePair *RePair::loadNoSeq(istream&) *)
Definition rp_loadNoSeq (bs : list N) : option (rp_obj * list N) :=
  match take_le 1 bs with
  | None => None
  | Some (mc, r1) =>
      match take_le 8 r1 with
      | None => None
      | Some (t, r2) =>
          match take_le 8 r2 with
          | None => None
          | Some (r, r3) =>
              match ls_load r3 with
              | None => None
              | Some (g, r4) => Some ({| ro_maxchar := mc; ro_terminals := t; ro_rules := r; ro_G := g |}, r4)
              end
          end
      end
  end.

(* void RePair::save(ostream&, uint encoding) with a LogSequence sequence (encoding <> RPDAC=3, HASHRPDAC=124):
   the object, uint32 encoding, Cls->save.  RePair::load reads the same fields. *)
Definition enc_is_dac (e : N) : bool := (e =? 124) || (e =? 3).

Definition rp_save_seq (o : rp_obj) (enc : N) (cls : logseq) : list N :=
  rp_save o ++ le_bytes 4 enc ++ ls_save cls.

Definition rp_load_seq (bs : list N) : option (rp_obj * N * logseq * list N) :=
  match rp_loadNoSeq bs with
  | None => None
  | Some (o, r1) =>
      match take_le 4 r1 with
      | None => None
      | Some (enc, r2) =>
          if enc_is_dac enc then None (* Cdac = DAC_VLS::load: not part of this model *)
          else match ls_load r2 with
               | None => None
               | Some (c, r3) => Some (o, enc, c, r3)
               end
      end
  end.

(* the RePair object the constructor builds for a grammar *)
Definition rp_build_obj (maxchar t : N) (rules : list rule) : option rp_obj :=
  match rp_pack t rules with
  | Some g => Some {| ro_maxchar := maxchar; ro_terminals := t; ro_rules := lenN rules; ro_G := g |}
  | None => None
  end.

(* uint RePair::getBits() { return bits(rules + terminals); } *)
Definition rp_getBits (o : rp_obj) : N := bits32 (ro_rules o + ro_terminals o).
