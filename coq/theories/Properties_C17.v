(* C17 — integer containers and codecs round-trip every value.
   This file contains ONLY the exported statements, each closed by [exact] of a
   lemma proved elsewhere, followed by Print Assumptions. *)
From LibCSD Require Import Base Bytes VByteDefs VByteProofs LogSeqDefs LogSeqProofs.
Local Open Scope N_scope.

(* VByte (utils/VByte.cpp, encodeVB2/decodeVB2): every 32-bit value decodes to
   itself, the decoder consumes exactly the bytes the encoder produced, whatever
   follows them; at most 5 bytes; all bytes < 256. *)
Theorem C17_vbyte_roundtrip : forall c rest, c < 2 ^ 32 ->
  vb_decode (vb_encode c ++ rest) = Some (c, lenN (vb_encode c)).
Proof. exact vbyte_roundtrip. Qed.
Print Assumptions C17_vbyte_roundtrip.

Theorem C17_vbyte_length : forall c, c < 2 ^ 32 -> (length (vb_encode c) <= 5)%nat.
Proof. exact vbyte_length_le5. Qed.
Print Assumptions C17_vbyte_length.

Theorem C17_vbyte_bytes : forall c, c < 2 ^ 32 -> Forall (fun b => b < 256) (vb_encode c).
Proof. exact vbyte_bytes. Qed.
Print Assumptions C17_vbyte_bytes.

(* LogSequence get_field/set_field: for EVERY width 1..64, every position inside
   the array (incl. fields straddling two words), every value < 2^w: the value
   stored is the value read ... *)
Theorem C17_logseq_get_set : forall data w idx v,
  words data -> 1 <= w <= 64 -> in_range data w idx -> v < 2 ^ w ->
  exists data', set_field data w idx v = Some data' /\ get_field data' w idx = Some v.
Proof. exact logseq_get_set. Qed.
Print Assumptions C17_logseq_get_set.

(* ... every other position keeps its value ... *)
Theorem C17_logseq_set_frame : forall data w idx idx' v,
  words data -> 1 <= w <= 64 -> in_range data w idx -> in_range data w idx' -> v < 2 ^ w ->
  idx' <> idx ->
  exists data', set_field data w idx v = Some data' /\ get_field data' w idx' = get_field data w idx'.
Proof. exact logseq_set_frame. Qed.
Print Assumptions C17_logseq_set_frame.

(* ... and no word other than the (at most two) words of the field changes. *)
Theorem C17_logseq_word_frame : forall fixed data w idx v data' k,
  set_field_gen fixed data w idx v = Some data' ->
  k <> idx * w / 64 -> k <> idx * w / 64 + 1 -> nthN data' k = nthN data k.
Proof. exact logseq_word_frame. Qed.
Print Assumptions C17_logseq_word_frame.

(* Object level: LogSequence(vector, numbits) then getField returns the vector. *)
Theorem C17_logseq_of_list : forall vs w,
  1 <= w <= 64 -> Forall (fun v => v < 2 ^ w) vs ->
  exists s, ls_of_list vs w = Some s /\ ls_wf s /\ ls_n s = lenN vs /\
    forall k, k < lenN vs -> ls_get s k = nthN vs k.
Proof. exact ls_of_list_get. Qed.
Print Assumptions C17_logseq_of_list.

Theorem C17_logseq_set_spec : forall s pos v,
  ls_wf s -> pos < ls_n s -> v < 2 ^ ls_bits s ->
  exists s', ls_set s pos v = Some s' /\ ls_wf s' /\ ls_n s' = ls_n s /\ ls_bits s' = ls_bits s /\
    ls_get s' pos = Some v /\
    forall pos', pos' < ls_n s -> pos' <> pos -> ls_get s' pos' = ls_get s pos'.
Proof. exact ls_set_spec. Qed.
Print Assumptions C17_logseq_set_spec.

(* save / load: the loader consumes exactly the image and rebuilds the same object *)
Theorem C17_logseq_load_save : forall s rest,
  ls_wf s -> ls_bits s < 256 -> ls_n s < 2 ^ 64 ->
  ls_load (ls_save s ++ rest) = Some (s, rest).
Proof. exact logseq_load_save. Qed.
Print Assumptions C17_logseq_load_save.

(* History: the pinned set_field (mask ~(~0 << bitsField)) is correct for widths
   1..63 and WRONG for width 64 (kept as regression facts about the old
   definition; the tree carries the fix). *)
Theorem C17_logseq_pinned_ok_below_64 : forall data w idx v,
  words data -> 1 <= w < 64 -> in_range data w idx -> v < 2 ^ w ->
  exists data', set_field_pinned data w idx v = Some data' /\ get_field data' w idx = Some v.
Proof. exact logseq_get_set_pinned. Qed.
Print Assumptions C17_logseq_pinned_ok_below_64.

Theorem C17_logseq_pinned_width64_refuted :
  exists data v data', words data /\ v < 2 ^ 64 /\ in_range data 64 0 /\
    set_field_pinned data 64 0 v = Some data' /\ get_field data' 64 0 <> Some v.
Proof. exact logseq_set64_overwrite_pinned_refuted. Qed.
Print Assumptions C17_logseq_pinned_width64_refuted.

(* non-vacuity: the hypotheses are met by concrete non-trivial states *)
Example C17_nonvacuous_straddle :
  words [0xFFFFFFFFFFFFFFFF; 0; 5] /\ in_range [0xFFFFFFFFFFFFFFFF; 0; 5] 37 1 /\
  64 < (1 * 37) mod 64 + 37 /\
  (exists d, set_field [0xFFFFFFFFFFFFFFFF; 0; 5] 37 1 0x1555555555 = Some d /\
             get_field d 37 1 = Some 0x1555555555 /\ get_field d 37 0 = Some 0x1FFFFFFFFF).
Proof.
  split; [repeat constructor|]. split; [vm_compute; discriminate|]. split; [vm_compute; reflexivity|].
  eexists. split; [vm_compute; reflexivity|]. split; vm_compute; reflexivity.
Qed.
