(* Executable model (definitions only) of the FM-index dictionary
     /repo/StringDictionaryFMINDEX.cpp   (locate, extract, locatePrefix, locateSubstr, extractPrefix, extractSubstr)
     /repo/FMIndex/SSA.cpp               (locate_id, locateP, locate, extract_id, LF through occ[] + Sequence::rank/access)
     /repo/iterators/IteratorDictStringFMINDEX{,Duplicates}.h
   Tier B: algorithm-exact over an ABSTRACT BWT.  The wavelet tree is the plain symbol list [fm_bwt]
   (Sequence::rank(c,i) = occurrences of c in positions 0..i INCLUSIVE, Sequence::access(i,r) = symbol and
   its inclusive rank), the two bitmaps are plain bit lists; every array read goes through Base.nthN
   (None = the C++ would read outside the array).  uint / unsigned long / size_t arithmetic is written
   modulo 2^32 / 2^64 where the C++ computes in those types.
   The second half is the SPECIFICATION side: the text of a dictionary, suffix order, "is the BWT of T",
   and the boolean checkers run (extracted) on the arrays dumped from the real object.
   Proofs are in FMProofs.v. *)
From LibCSD Require Import Base Spec IterDefs.
Local Open Scope N_scope.

Definition w32 : N := 4294967296.
(* x - 1 in a W-bit unsigned type (x < W) *)
Definition sub1W (W x : N) : N := (x + W - 1) mod W.

(* ---- the abstract sequence / bitmaps ------------------------------------------------ *)
Fixpoint count_eq (c : N) (l : list N) : N :=
  match l with [] => 0 | x :: r => (if x =? c then 1 else 0) + count_eq c r end.
Fixpoint count_lt (c : N) (l : list N) : N :=
  match l with [] => 0 | x :: r => (if x <? c then 1 else 0) + count_lt c r end.
Fixpoint count_true (l : list bool) : N :=
  match l with [] => 0 | x :: r => (if x then 1 else 0) + count_true r end.

(* occurrences of c in l[0..k) *)
Definition rank_excl (l : list N) (c k : N) : N := count_eq c (firstn (N.to_nat k) l).

(* Sequence::rank(c, i): occurrences of c in positions 0..i inclusive *)
Definition seq_rank (l : list N) (c i : N) : option N :=
  if i <? lenN l then Some (rank_excl l c (i + 1)) else None.
(* Sequence::access(i, rank) *)
Definition seq_access (l : list N) (i : N) : option (N * N) :=
  match nthN l i with
  | None => None
  | Some c => Some (c, rank_excl l c (i + 1))
  end.
(* BitSequence::rank1(i): ones in positions 0..i inclusive *)
Definition bit_rank1 (b : list bool) (i : N) : option N :=
  if i <? lenN b then Some (count_true (firstn (N.to_nat (i + 1)) b)) else None.

(* ---- the object ------------------------------------------------------------------- *)
Record fmidx : Type := mk_fmidx {
  fm_bwt : list N;          (* SSA::bwt, n+1 symbols *)
  fm_occ : list N;          (* SSA::occ, maxV+1 entries *)
  fm_alpha : list bool;     (* SSA::alphabet, 256 entries *)
  fm_samplesuff : N;        (* SSA::samplesuff = BWTsampling *)
  fm_sampled : list bool;   (* SSA::sampled, n+1 bits *)
  fm_suff : list N;         (* SSA::suff_sample AFTER build_ssa mapped it through separators->rank1 *)
  fm_elements : N;          (* StringDictionary::elements *)
  fm_maxlength : N          (* StringDictionary::maxlength *)
}.

(* ---- backward search (shared loop of SSA::locate_id / locateP / locate) ------------- *)
Inductive bs_result : Type :=
| BS_oob                      (* an array is read out of bounds *)
| BS_notalpha                 (* `if (!alphabet[c]) return 0` *)
| BS_range (sp ep : N).       (* loop left normally *)

(* sp = occ[c] + bwt->rank(c, sp - 1);  ep = occ[c] + bwt->rank(c, ep) - 1;   in a W-bit type *)
Definition bs_step (W : N) (d : fmidx) (c sp ep : N) : option (N * N) :=
  match nthN (fm_occ d) c, seq_rank (fm_bwt d) c (sub1W W sp), seq_rank (fm_bwt d) c ep with
  | Some o, Some r1, Some r2 => Some ((o + r1) mod W, sub1W W ((o + r2) mod W))
  | _, _, _ => None
  end.

(* while (sp <= ep && i >= 1) { c = pattern[--i]; if (!alphabet[c]) return 0; step }
   [rp] = the not yet processed symbols, last first *)
Fixpoint bs_loop (W : N) (d : fmidx) (rp : list N) (sp ep : N) : bs_result :=
  match rp with
  | [] => BS_range sp ep
  | c :: rp' =>
      if sp <=? ep then
        match nthN (fm_alpha d) c with
        | None => BS_oob
        | Some false => BS_notalpha
        | Some true =>
            match bs_step W d c sp ep with
            | None => BS_oob
            | Some (sp', ep') => bs_loop W d rp' sp' ep'
            end
        end
      else BS_range sp ep
  end.

(* SSA::locate_id: uint sp, ep; no alphabet test for the last symbol *)
Definition ssa_locate_id (d : fmidx) (pat : list N) : option N :=
  match rev pat with
  | [] => None                                   (* pattern[m-1] with m = 0 *)
  | c :: rp =>
      match nthN (fm_occ d) c, nthN (fm_occ d) (c + 1) with
      | Some o0, Some o1 =>
          match bs_loop w32 d rp o0 (sub1W w32 o1) with
          | BS_oob => None
          | BS_notalpha => Some 0
          | BS_range sp ep => Some (if sp <=? ep then sp else 0)
          end
      | _, _ => None
      end
  end.

(* SSA::locateP: unsigned long sp, ep (the initial ep = occ[c+1] - 1 is computed in uint).
   None = out of bounds; Some None = returns 0; Some (Some (left, right, count)) *)
Definition ssa_locateP (d : fmidx) (pat : list N) : option (option (N * N * N)) :=
  match rev pat with
  | [] => None
  | c :: rp =>
      match nthN (fm_alpha d) c with
      | None => None
      | Some false => Some None
      | Some true =>
          match nthN (fm_occ d) c, nthN (fm_occ d) (c + 1) with
          | Some o0, Some o1 =>
              match bs_loop sz64 d rp o0 (sub1W w32 o1) with
              | BS_oob => None
              | BS_notalpha => Some None
              | BS_range sp ep =>
                  if sp <=? ep then Some (Some (sub_sz sp 2, sub_sz ep 2, wrap64 (sub_sz ep sp + 1)))
                  else Some None
              end
          | _, _ => None
          end
      end
  end.

(* the LF walk of SSA::locate for one row:
     while (!sampled->access(j)) { c = bwt->access(j, rank_tmp); if (c == 1) break; rank_tmp--; j = occ[c] + rank_tmp; }
     if (c != 1) suff_sample[sampled->rank1(j) - 1] else rank_tmp - 1
   fuel: the number of rows + 1 (a walk that does not end within that many steps is reported as None) *)
Fixpoint ssa_walk (d : fmidx) (fuel : nat) (j : N) : option N :=
  match fuel with
  | O => None
  | S f =>
      match nthN (fm_sampled d) j with
      | None => None
      | Some true =>
          match bit_rank1 (fm_sampled d) j with
          | None => None
          | Some r => nthN (fm_suff d) (sub_sz r 1)
          end
      | Some false =>
          match seq_access (fm_bwt d) j with
          | None => None
          | Some (c, rk) =>
              if c =? 1 then Some (sub_sz rk 1)
              else match nthN (fm_occ d) c with
                   | None => None
                   | Some o => ssa_walk d f (wrap64 (o + sub_sz rk 1))
                   end
          end
      end
  end.

Fixpoint walk_rows (d : fmidx) (rows : list N) : option (list N) :=
  match rows with
  | [] => Some []
  | r :: rest =>
      match ssa_walk d (S (length (fm_bwt d))) r, walk_rows d rest with
      | Some x, Some l => Some (x :: l)
      | _, _ => None
      end
  end.

(* SSA::locate: None = out of bounds; Some l = the occs array (l = [] when it returns 0) *)
Definition ssa_locate (d : fmidx) (pat : list N) : option (list N) :=
  if fm_samplesuff d =? 0 then Some []
  else
    match rev pat with
    | [] => None
    | c :: rp =>
        match nthN (fm_alpha d) c with
        | None => None
        | Some false => Some []
        | Some true =>
            match nthN (fm_occ d) c, nthN (fm_occ d) (c + 1) with
            | Some o0, Some o1 =>
                match bs_loop sz64 d rp o0 (sub1W w32 o1) with
                | BS_oob => None
                | BS_notalpha => Some []
                | BS_range sp ep =>
                    if sp <=? ep then
                      if ep <? lenN (fm_bwt d) then walk_rows d (seq_from sp (N.to_nat (ep + 1 - sp)))
                      else None
                    else Some []
                end
            | _, _ => None
            end
        end
    end.

(* SSA::extract_id(uint id, strLen, max_len): symbols are written from res[max_len] downwards *)
Fixpoint extract_loop (d : fmidx) (fuel : nat) (i : N) (acc : list N) (k : N) : option (list N) :=
  match fuel with
  | O => None
  | S f =>
      match seq_access (fm_bwt d) i with
      | None => None
      | Some (c, rk) =>
          if c =? 1 then Some acc
          else if fm_maxlength d <? k then None          (* res[pos] below the buffer *)
          else match nthN (fm_occ d) c with
               | None => None
               | Some o => extract_loop d f ((sub_sz rk 1 + o) mod w32) (c :: acc) (k + 1)
               end
      end
  end.
Definition ssa_extract_id (d : fmidx) (row : N) : option (list N) :=
  extract_loop d (S (length (fm_bwt d))) (row mod w32) [] 0.

(* ---- StringDictionaryFMINDEX ------------------------------------------------------- *)
(* locate: None = out of bounds *)
Definition fm_locate (d : fmidx) (q : str) : option N :=
  match ssa_locate_id d (1 :: q ++ [1]) with
  | None => None
  | Some o => Some (if o =? 0 then 0 else sub_sz o 2)
  end.

(* the row handed to extract_id for string [id] *)
Definition row_of_id (d : fmidx) (id : N) : N := if id =? fm_elements d then 2 else wrap64 (id + 3).

(* extract: None = out of bounds; Some None = NULL *)
Definition fm_extract (d : fmidx) (id : N) : option (option str) :=
  if (0 <? id) && (id <=? fm_elements d) then
    match ssa_extract_id d (row_of_id d id) with
    | None => None
    | Some s => Some (Some s)
    end
  else Some None.

(* locatePrefix: the limits handed to IteratorDictIDContiguous *)
Definition fm_locatePrefix (d : fmidx) (p : str) : option (N * N) :=
  match ssa_locateP d (1 :: p) with
  | None => None
  | Some None => Some (0, 0)
  | Some (Some (l, r, cnt)) => if 0 <? cnt mod w32 then Some (l, r) else Some (0, 0)
  end.
(* the ID stream as the canonical client loop sees it (ids, hasNext afterwards) *)
Definition fm_locatePrefix_ids (d : fmidx) (p : str) (cap : nat) : option (list N * bool) :=
  match fm_locatePrefix d p with
  | None => None
  | Some (l, r) =>
      match run_iter contig_iter cap (contig_init l r) with
      | None => None
      | Some (ids, more, _) => Some (ids, more)
      end
  end.

(* std::sort *)
Fixpoint insertN (x : N) (l : list N) : list N :=
  match l with
  | [] => [x]
  | y :: r => if x <=? y then x :: l else y :: insertN x r
  end.
Definition isortN (l : list N) : list N := fold_right insertN [] l.

(* locateSubstr: None = out of bounds; Some None = NULL (BWTsampling = 0) *)
Definition fm_locateSubstr (d : fmidx) (p : str) (cap : nat) : option (option (list N * bool)) :=
  if fm_samplesuff d =? 0 then Some None
  else
    match ssa_locate d p with
    | None => None
    | Some occs =>
        if w32 <=? lenN occs then None                   (* uint num_occ would truncate: not modelled *)
        else if 0 <? lenN occs then
          match run_iter dup_iter cap (arr_init (dup_array (isortN occs)) (lenN occs)) with
          | None => None
          | Some (ids, more, _) => Some (Some (ids, more))
          end
        else
          match run_iter contig_iter cap (contig_init 0 0) with
          | None => None
          | Some (ids, more, _) => Some (Some (ids, more))
          end
    end.

Fixpoint extract_ids (d : fmidx) (ids : list N) : option (list str) :=
  match ids with
  | [] => Some []
  | id :: r =>
      match ssa_extract_id d (row_of_id d id), extract_ids d r with
      | Some s, Some l => Some (s :: l)
      | _, _ => None
      end
  end.

(* extractSubstr: IteratorDictStringFMINDEXDuplicates has the same skipping loop as the ID iterator and
   hands `ids[processed] == last ? 2 : ids[processed] + 3` to extract_id *)
Definition fm_extractSubstr (d : fmidx) (p : str) (cap : nat) : option (option (list str * bool)) :=
  if fm_samplesuff d =? 0 then Some None
  else
    match ssa_locate d p with
    | None => None
    | Some occs =>
        if w32 <=? lenN occs then None
        else if 0 <? lenN occs then
          match run_iter dup_iter cap (arr_init (dup_array (isortN occs)) (lenN occs)) with
          | None => None
          | Some (ids, more, _) =>
              match extract_ids d ids with None => None | Some l => Some (Some (l, more)) end
          end
        else Some None
    end.

(* extractPrefix: IteratorDictStringFMINDEX(fm_index, (uint) left, right + 1, elements, maxlength):
   processed runs from left while processed < right + 1 *)
Fixpoint fmstr_iter (d : fmidx) (cap : nat) (processed scanneable : N) : option (list str * bool) :=
  match cap with
  | O => Some ([], processed <? scanneable)
  | S f =>
      if processed <? scanneable then
        match ssa_extract_id d (row_of_id d processed), fmstr_iter d f (wrap64 (processed + 1)) scanneable with
        | Some s, Some (l, more) => Some (s :: l, more)
        | _, _ => None
        end
      else Some ([], false)
  end.
Definition fm_extractPrefix (d : fmidx) (p : str) (cap : nat) : option (option (list str * bool)) :=
  match ssa_locateP d (1 :: p) with
  | None => None
  | Some None => Some None
  | Some (Some (l, r, cnt)) =>
      if 0 <? cnt mod w32 then
        match fmstr_iter d cap (l mod w32) (wrap64 (r + 1)) with
        | None => None
        | Some x => Some (Some x)
        end
      else Some None
  end.
Definition fm_extractTable (d : fmidx) (cap : nat) : option (list str * bool) :=
  fmstr_iter d cap 1 (wrap64 (fm_elements d + 1)).

(* ==================================================================================== *)
(* SPECIFICATION SIDE                                                                    *)
(* ==================================================================================== *)

(* the text the constructor hands to SSA:  \1 s1 \1 s2 ... \1 sn \1 \0   (SSA::n = its length) *)
Definition dict_text (S : list str) : list N := flat_map (fun s => 1 :: s) S ++ [1; 0].
(* the same text as the constructor writes it: leading \1, then each string followed by \1, then \0 *)
Definition dict_text_cxx (S : list str) : list N := 1 :: flat_map (fun s => s ++ [1]) S ++ [0].

Definition suffix (T : list N) (i : N) : list N := skipn (N.to_nat i) T.
(* the symbol SSA::build_bwt stores for suffix i *)
Definition prev_sym (T : list N) (i : N) : N :=
  if i =? 0 then 0 else nth (N.to_nat (i - 1)) T 0.
(* separators->rank1(i): number of \1 in T[0..i] *)
Definition id_of_pos (T : list N) (i : N) : N := count_eq 1 (firstn (N.to_nat (i + 1)) T).

Fixpoint sorted_suffixes_b (T : list N) (sa : list N) : bool :=
  match sa with
  | [] => true
  | a :: r =>
      match r with
      | [] => true
      | b :: _ => (match lex_compare (suffix T a) (suffix T b) with Lt => true | _ => false end)
                  && sorted_suffixes_b T r
      end
  end.

Fixpoint list_eqb (a b : list N) : bool :=
  match a, b with
  | [], [] => true
  | x :: a', y :: b' => (x =? y) && list_eqb a' b'
  | _, _ => false
  end.

(* sa lists the n+1 suffix start positions in strictly increasing suffix order and bwt is its BWT *)
Definition check_bwt (T sa bwt : list N) : bool :=
  (lenN sa =? lenN T + 1) && forallb (fun i => i <=? lenN T) sa
  && sorted_suffixes_b T sa && list_eqb bwt (map (prev_sym T) sa).

(* occ[c] = number of BWT symbols below c, for c = 0 .. maxV *)
Fixpoint check_occ_from (bwt : list N) (c : N) (occ : list N) : bool :=
  match occ with
  | [] => true
  | o :: r => (o =? count_lt c bwt) && check_occ_from bwt (c + 1) r
  end.
Definition max_sym (l : list N) : N := fold_right N.max 0 l.
Definition check_occ (bwt occ : list N) : bool :=
  (lenN occ =? max_sym bwt + 2) && check_occ_from bwt 0 occ.

Fixpoint check_alpha_from (bwt : list N) (c : N) (al : list bool) : bool :=
  match al with
  | [] => true
  | a :: r => Bool.eqb a (existsb (N.eqb c) bwt) && check_alpha_from bwt (c + 1) r
  end.
Definition check_alpha (bwt : list N) (al : list bool) : bool :=
  (lenN al =? 256) && check_alpha_from bwt 0 al.

(* every sampled row r (other than the row of the empty suffix) carries the string ID of its position:
   suff_sample[rank1(sampled, r) - 1] = id_of_pos T sa[r];  [k] = ones seen so far.
   With [strict] the sampling rule itself (sampled <-> sa[r] mod step = 0) is checked too. *)
Fixpoint check_samples_from (T : list N) (step : N) (suff : list N) (rows : list (N * bool)) (k : N) : bool :=
  match rows with
  | [] => true
  | (p, b) :: r =>
      let k' := if b then k + 1 else k in
      (if p <? lenN T then
         Bool.eqb b (p mod step =? 0) &&
         (if b then match nthN suff k with Some v => v =? id_of_pos T p | None => false end else true)
       else true)
      && check_samples_from T step suff r k'
  end.
Definition check_samples (T sa : list N) (step : N) (sampled : list bool) (suff : list N) : bool :=
  (lenN sampled =? lenN sa) && check_samples_from T step suff (combine sa sampled) 0.

(* the separator bitmap the constructor builds: bit i set iff T[i] = \1 *)
Definition check_seps (T : list N) (seps : list bool) : bool :=
  list_eqb (map (fun b : bool => if b then 1 else 0) seps) (map (fun c => if c =? 1 then 1 else 0) T).

(* everything the theorems need about a dumped object, for the input set S and a candidate suffix array *)
Definition fm_check (S : list str) (sa : list N) (d : fmidx) : bool :=
  let T := dict_text S in
  check_bwt T sa (fm_bwt d) && check_occ (fm_bwt d) (fm_occ d) && check_alpha (fm_bwt d) (fm_alpha d)
  && (if fm_samplesuff d =? 0 then true
      else check_samples T sa (fm_samplesuff d) (fm_sampled d) (fm_suff d))
  && (fm_elements d =? lenN S) && (fm_maxlength d =? spec_maxlen S + 1)
  && (lenN T + 1 <? w32).

(* query validity: bytes 2..255 (the dictionary's strings obey the stricter Spec.valid_str) *)
Definition valid_query_b (q : str) : bool := forallb (fun b => (2 <=? b) && (b <? 256)) q.
