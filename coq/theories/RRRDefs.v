(* C19 — libcds BitSequenceRRR (Raman/Raman/Rao compressed bitmap, blocks of 15 bits),
   the bitmap the FM-index uses with sparse_bitsequence = true and the XBW always uses.

   Executable WORD-EXACT model, statement by statement, of
     libcds/src/bitsequence/TableOffsetRRR.cpp   (table_offset: binomial, log2binomial, genera /
                                                   generaClase, offset_class, short_bitmaps, rev_offset)
     libcds/src/bitsequence/BitSequenceRRR.cpp   (build, create_sampling, access, rank0, rank1,
                                                   select0, select1, save, load)
   over the bit-exact 32-bit word primitives of Cds32Defs (get_field32 / set_field32 /
   get_var_field32 / set_var_field32 / bits32 / uint_len32) and popcount of BitRGDefs.

   Conventions: a [uint] is kept as [c32_u32 x], a [size_t] as [c32_u64 x]; [a - b] in an unsigned
   type of width w is written [wrap (a + 2^w - b)].  Every read of C, O, C_sampling, O_pos, of the
   caller's bit array and of the universal table goes through a checked read ([c32_rd] = Base.nthN
   behind a bounds test; [None] = out of bounds).  The specification side is section A of
   BitRGDefs (bv_access / bv_rank1 / bv_rank0 / bv_select1 / bv_select0): C19 stays ONE specification.

   Definitions only; the proofs are in RRRProofs.v. *)
From LibCSD Require Import Base Bytes LogSeqDefs BitRGDefs Cds32Defs.
Local Open Scope N_scope.

(* ------------------------------------------------------------------------- *)
(* 0. small C vocabulary                                                        *)
(* ------------------------------------------------------------------------- *)
Definition rrr_BS : N := 15.                         (* #define BLOCK_SIZE 15 *)
Definition rrr_u16 (x : N) : N := x mod 65536.       (* value kept in a [ushort] *)
(* a - 1 in [uint] / [size_t] *)
Definition rrr_dec32 (a : N) : N := c32_u32 (a + c32_W - 1).
Definition rrr_dec64 (a : N) : N := c32_u64 (a + c32_W64 - 1).

(* a functional array with random writes ([ushort *__Lis = new ushort[2 << (u+1)]], never
   initialised): binary trie over the index bits, LSB first.  [None] = the slot was never
   written (uninitialised read) or the index is outside the allocation. *)
Inductive tarr : Type := TE | TL (v : N) | TN (l r : tarr).
Fixpoint tarr_get (d : nat) (t : tarr) (i : N) : option N :=
  match d with
  | O => match t with TL v => if i =? 0 then Some v else None | _ => None end
  | S d' => match t with
            | TN l r => if N.even i then tarr_get d' l (i / 2) else tarr_get d' r (i / 2)
            | _ => None
            end
  end.
Fixpoint tarr_set (d : nat) (t : tarr) (i v : N) : tarr :=
  match d with
  | O => if i =? 0 then TL v else t
  | S d' =>
      let l := match t with TN l _ => l | _ => TE end in
      let r := match t with TN _ r => r | _ => TE end in
      if N.even i then TN (tarr_set d' l (i / 2) v) r else TN l (tarr_set d' r (i / 2) v)
  end.

(* ------------------------------------------------------------------------- *)
(* 1. table_offset (TableOffsetRRR.cpp)                                        *)
(* ------------------------------------------------------------------------- *)
Definition tab2 := list (list N).
Definition rd2 (T : tab2) (i j : N) : option N :=
  match rdN T i with Some r => c32_rd r j | None => None end.
Definition wr2 (T : tab2) (i j v : N) : option tab2 :=
  match rdN T i with
  | Some r => if j <? lenN r then Some (updN T i (updN r j v)) else None
  | None => None
  end.

Record toff := mkToff {
  e_u : N;
  e_binomial : tab2;            (* uint   binomial[u+1][u+1]                         *)
  e_log2binomial : tab2;        (* ushort log2binomial[u+1][u+1]                     *)
  e_offset_class : list N;      (* ushort offset_class[u+2]                          *)
  e_short_bitmaps : tarr;       (* ushort short_bitmaps[(1<<u)+1] (slot 1<<u is never written) *)
  e_rev_offset : tarr           (* ushort rev_offset[2 << (u+1)] = __Lis             *)
}.
Definition rrr_lis_depth : nat := 17.                (* 2 << (15+1) = 2^17 slots *)
Definition rrr_bch_depth : nat := 16.                (* (1 << 15) + 1 slots: indices 0 .. 2^15 *)

(* for (i = 0; i < u+1; i++) { binomial[i][0] = binomial[i][1] = binomial[i][i] = 1;
                               log2binomial[i][0] = log2binomial[i][1] = log2binomial[i][i] = 0; } *)
Fixpoint toff_init (cnt : nat) (i : N) (B L : tab2) : option (tab2 * tab2) :=
  match cnt with
  | O => Some (B, L)
  | S c =>
      match wr2 B i 0 1 with None => None | Some B1 =>
      match wr2 B1 i 1 1 with None => None | Some B2 =>
      match wr2 B2 i i 1 with None => None | Some B3 =>
      match wr2 L i 0 0 with None => None | Some L1 =>
      match wr2 L1 i 1 0 with None => None | Some L2 =>
      match wr2 L2 i i 0 with None => None | Some L3 =>
        toff_init c (i + 1) B3 L3
      end end end end end end
  end.

(* for (i = j+1; i < u+1; i++) { binomial[i][j] = binomial[i-1][j-1] + binomial[i-1][j];
                                 log2binomial[i][j] = bits(binomial[i][j] - 1); } *)
Fixpoint toff_col (cnt : nat) (i j : N) (B L : tab2) : option (tab2 * tab2) :=
  match cnt with
  | O => Some (B, L)
  | S c =>
      match rd2 B (i - 1) (j - 1), rd2 B (i - 1) j with
      | Some a, Some b =>
          let v := c32_u32 (a + b) in
          match wr2 B i j v with None => None | Some B1 =>
          match wr2 L i j (rrr_u16 (bits32 (rrr_dec32 v))) with None => None | Some L1 =>
            toff_col c (i + 1) j B1 L1
          end end
      | _, _ => None
      end
  end.
(* for (j = 1; j < u+1; j++) <column j> *)
Fixpoint toff_cols (cnt : nat) (u j : N) (B L : tab2) : option (tab2 * tab2) :=
  match cnt with
  | O => Some (B, L)
  | S c =>
      match toff_col (N.to_nat (u + 1 - (j + 1))) (j + 1) j B L with
      | None => None
      | Some (B1, L1) => toff_cols c u (j + 1) B1 L1
      end
  end.

(* generaClase(bch, u, clase, puestos, pos_ini, generado).  State: __indiceFunc, bch, __Lis.
   __indAcumulado is constant during one top-level call.  [1 << i] is evaluated in int; i < u <= 15
   by the loop condition, so the plain shift is exact. *)
Definition gstate : Type := (N * tarr * tarr)%type.
Fixpoint genera_clase (fuel : nat) (u clase puestos pos_ini generado indAcum : N) (st : gstate)
  : option (N * gstate) :=
  match fuel with
  | O => None
  | S f =>
      if clase =? puestos then
        let '(indice, bch, lis) := st in
        (* bch[__indiceFunc] = generado;  __Lis[generado] = __indiceFunc - __indAcumulado;  __indiceFunc++ *)
        if (indice <? 2 ^ u + 1) && (generado <? 2 ^ N.of_nat rrr_lis_depth) then
          Some (1, (c32_u32 (indice + 1), tarr_set rrr_bch_depth bch indice (rrr_u16 generado),
                    tarr_set rrr_lis_depth lis generado (rrr_u16 (c32_u32 (indice + c32_W - indAcum)))))
        else None
      else if clase <? puestos then Some (0, st)
      else
        (fix loop (cnt : nat) (i ret : N) (st : gstate) {struct cnt} : option (N * gstate) :=
           match cnt with
           | O => Some (ret, st)
           | S c =>
               if i <? u then
                 match genera_clase f u clase (puestos + 1) (i + 1) (N.lor generado (N.shiftl 1 i)) indAcum st with
                 | None => None
                 | Some (r, st') => loop c (i + 1) (c32_u32 (ret + r)) st'
                 end
               else Some (ret, st)
           end) (N.to_nat u) pos_ini 0 st
  end.

(* genera: F[0] = 0; for (i = 0; i <= u; i++) { __indAcumulado += generaClase(bch,u,i,0,0,0); F[i+1] = __indiceFunc; } *)
Fixpoint genera_loop (cnt : nat) (u i indAcum : N) (st : gstate) (F : list N) : option (gstate * list N) :=
  match cnt with
  | O => Some (st, F)
  | S c =>
      match genera_clase (S (N.to_nat u)) u i 0 0 0 indAcum st with
      | None => None
      | Some (r, st') =>
          let '(indice, _, _) := st' in
          if i + 1 <? lenN F then
            genera_loop c u (i + 1) (c32_u32 (indAcum + r)) st' (updN F (i + 1) (rrr_u16 indice))
          else None
      end
  end.

Definition zeros2 (n : N) : tab2 := repeat (repeat 0 (N.to_nat n)) (N.to_nat n).

(* table_offset::table_offset(uint u) *)
Definition table_offset (u : N) : option toff :=
  match toff_init (N.to_nat (u + 1)) 0 (zeros2 (u + 1)) (zeros2 (u + 1)) with
  | None => None
  | Some (B0, L0) =>
      match toff_cols (N.to_nat u) u 1 B0 L0 with
      | None => None
      | Some (B, L) =>
          match genera_loop (N.to_nat (u + 1)) u 0 0 (0, TE, TE) (repeat 0 (N.to_nat (u + 2))) with
          | None => None
          | Some ((_, bch, lis), F) => Some (mkToff u B L F bch lis)
          end
      end
  end.

Definition toff_dummy : toff := mkToff 15 [] [] [] TE TE.
Definition toff_get (o : option toff) : toff := match o with Some e => e | None => toff_dummy end.
(* static table_offset *BitSequenceRRR::E = new table_offset(BLOCK_SIZE) *)
Definition rrr_E : toff := toff_get (table_offset rrr_BS).

(* inline ushort get_log2binomial(uint n, uint k) { return log2binomial[n][k]; } *)
Definition e_get_log2binomial (e : toff) (n k : N) : option N := rd2 (e_log2binomial e) n k.
Definition e_get_binomial (e : toff) (n k : N) : option N := rd2 (e_binomial e) n k.
(* inline ushort compute_offset(ushort v) { return rev_offset[v]; } *)
Definition e_compute_offset (e : toff) (v : N) : option N :=
  if v <? 2 ^ N.of_nat rrr_lis_depth then tarr_get rrr_lis_depth (e_rev_offset e) v else None.
(* inline ushort short_bitmap(uint class_offset, uint inclass_offset) *)
Definition e_short_bitmap (e : toff) (class_offset inclass_offset : N) : option N :=
  if class_offset =? 0 then Some 0
  else if class_offset =? e_u e then Some (rrr_u16 (rrr_dec32 (shl32 1 (e_u e))))
  else match c32_rd (e_offset_class e) class_offset with
       | None => None
       | Some oc =>
           let idx := c32_u32 (oc + inclass_offset) in
           if idx <? 2 ^ e_u e + 1 then tarr_get rrr_bch_depth (e_short_bitmaps e) idx else None
       end.

(* The functions of BitSequenceRRR take the universal table as an explicit first argument [E]
   (the C++ uses the static member BitSequenceRRR::E); the harness and the theorems instantiate it
   with [rrr_E]. *)
Section WithE.
Variable E : toff.

(* E->get_log2binomial(BLOCK_SIZE, k) *)
Definition rrr_log2 (k : N) : option N := e_get_log2binomial E rrr_BS (c32_u32 k).
Definition rrr_short_bitmap (c o : N) : option N := e_short_bitmap E (c32_u32 c) (c32_u32 o).
Definition rrr_compute_offset (v : N) : option N := e_compute_offset E (rrr_u16 v).

(* ------------------------------------------------------------------------- *)
(* 2. the object                                                               *)
(* ------------------------------------------------------------------------- *)
Record rrr := mkRRR {
  r_length : N; r_ones : N;                       (* size_t length, ones (BitSequence) *)
  r_C : list N; r_O : list N;                     (* uint *C, *O                        *)
  r_C_len : N; r_O_len : N;
  r_C_field_bits : N; r_O_bits_len : N;
  r_C_sampling : list N; r_O_pos : list N;        (* uint *C_sampling, *O_pos           *)
  r_C_sampling_len : N; r_O_pos_len : N;
  r_C_sampling_field_bits : N; r_O_pos_field_bits : N;
  r_sample_rate : N }.

(* ------------------------------------------------------------------------- *)
(* 3. create_sampling                                                          *)
(* ------------------------------------------------------------------------- *)
(* uint sum = 0; for (uint i = 0; i < C_len; i++) {
     if (i % sample_rate == 0) set_field(C_sampling, C_sampling_field_bits, i / sample_rate, sum);
     sum += get_field(C, C_field_bits, i); } *)
Fixpoint rrr_cs_loop (C : list N) (cfb sr fb : N) (cnt : nat) (i : N) (CS : list N) (sum : N)
  : option (list N * N) :=
  match cnt with
  | O => Some (CS, sum)
  | S c =>
      match (if i mod sr =? 0 then set_field32 CS fb (i / sr) sum else Some CS) with
      | None => None
      | Some CS' =>
          match get_field32 C cfb i with
          | None => None
          | Some v => rrr_cs_loop C cfb sr fb c (i + 1) CS' (c32_u32 (sum + v))
          end
      end
  end.
(* for (uint i = <start>; i < C_sampling_len; i++) set_field(C_sampling, C_sampling_field_bits, i, sum); *)
Fixpoint rrr_cs_pad (fb : N) (cnt : nat) (i : N) (CS : list N) (sum : N) : option (list N) :=
  match cnt with
  | O => Some CS
  | S c =>
      match set_field32 CS fb i sum with
      | None => None
      | Some CS' => rrr_cs_pad fb c (i + 1) CS' sum
      end
  end.
(* uint pos = 0; for (uint i = 0; i < C_len; i++) {
     if (i % sample_rate == 0) set_field(O_pos, O_pos_field_bits, i / sample_rate, pos);
     pos += E->get_log2binomial(BLOCK_SIZE, get_field(C, C_field_bits, i)); } *)
Fixpoint rrr_op_loop (C : list N) (cfb sr fb : N) (cnt : nat) (i : N) (OP : list N) (pos : N)
  : option (list N) :=
  match cnt with
  | O => Some OP
  | S c =>
      match (if i mod sr =? 0 then set_field32 OP fb (i / sr) pos else Some OP) with
      | None => None
      | Some OP' =>
          match get_field32 C cfb i with
          | None => None
          | Some v =>
              match rrr_log2 v with
              | None => None
              | Some l => rrr_op_loop C cfb sr fb c (i + 1) OP' (c32_u32 (pos + l))
              end
          end
      end
  end.

(* the first index of the padding loop: (C_len - 1) / sample_rate + 1, in [uint] *)
Definition rrr_pad_start (C_len sr : N) : N := c32_u32 (rrr_dec32 C_len / sr + 1).
(* the seeded change: the padding loop started one index too late, at C_len / sample_rate + 1 *)
Definition rrr_pad_start_late (C_len sr : N) : N := c32_u32 (C_len / sr + 1).

(* void BitSequenceRRR::create_sampling(uint sample_rate); [padf] = first index of the padding loop *)
Definition rrr_create_sampling_gen (padf : N -> N -> N) (d : rrr) (sr : N) : option rrr :=
  if sr =? 0 then None (* division by zero *) else
  let C_len := r_C_len d in
  let csl := c32_u32 (C_len / sr + 2) in
  let csfb := bits32 (c32_u32 (r_ones d)) in
  let cs0 := repeat 0 (N.to_nat (N.max 1 (uint_len32 csl csfb))) in
  match rrr_cs_loop (r_C d) (r_C_field_bits d) sr csfb (N.to_nat C_len) 0 cs0 0 with
  | None => None
  | Some (cs1, sum) =>
      let st := padf C_len sr in
      match rrr_cs_pad csfb (N.to_nat (csl - st)) st cs1 sum with
      | None => None
      | Some cs =>
          let opl := c32_u32 (C_len / sr + 1) in
          let opfb := bits32 (r_O_bits_len d) in
          let op0 := repeat 0 (N.to_nat (uint_len32 opl opfb)) in
          match rrr_op_loop (r_C d) (r_C_field_bits d) sr opfb (N.to_nat C_len) 0 op0 0 with
          | None => None
          | Some op =>
              Some (mkRRR (r_length d) (r_ones d) (r_C d) (r_O d) (r_C_len d) (r_O_len d)
                          (r_C_field_bits d) (r_O_bits_len d) cs op csl opl csfb opfb sr)
          end
      end
  end.
Definition rrr_create_sampling := rrr_create_sampling_gen rrr_pad_start.

(* ------------------------------------------------------------------------- *)
(* 4. build                                                                    *)
(* ------------------------------------------------------------------------- *)
(* get_var_field(bitseq, i * BLOCK_SIZE, min((uint)len - 1, (i + 1) * BLOCK_SIZE - 1))   (all in uint) *)
Definition rrr_block (bitseq : list N) (len i : N) : option N :=
  get_var_field32 bitseq (c32_u32 (i * rrr_BS))
    (N.min (rrr_dec32 (c32_u32 len)) (rrr_dec32 (c32_u32 ((i + 1) * rrr_BS)))).

(* for (uint i = 0; i < C_len; i++) { uint value = popcount(<block i>); set_field(C, C_field_bits, i, value);
     ones += value; O_bits_len += E->get_log2binomial(BLOCK_SIZE, value); } *)
Fixpoint rrr_build_C (bitseq : list N) (len cfb : N) (cnt : nat) (i : N) (C : list N) (ones obl : N)
  : option (list N * N * N) :=
  match cnt with
  | O => Some (C, ones, obl)
  | S c =>
      match rrr_block bitseq len i with
      | None => None
      | Some w =>
          let value := popcount w in
          match set_field32 C cfb i value with
          | None => None
          | Some C' =>
              match rrr_log2 value with
              | None => None
              | Some l => rrr_build_C bitseq len cfb c (i + 1) C' (c32_u64 (ones + value)) (c32_u32 (obl + l))
              end
          end
      end
  end.

(* uint O_pos = 0; for (uint i = 0; i < C_len; i++) { uint value = (ushort)<block i>;
     set_var_field(O, O_pos, O_pos + E->get_log2binomial(BLOCK_SIZE, popcount(value)) - 1,
                   E->compute_offset((ushort)value));
     O_pos += E->get_log2binomial(BLOCK_SIZE, popcount(value)); } *)
Fixpoint rrr_build_O (bitseq : list N) (len : N) (cnt : nat) (i : N) (Ow : list N) (opos : N)
  : option (list N) :=
  match cnt with
  | O => Some Ow
  | S c =>
      match rrr_block bitseq len i with
      | None => None
      | Some w =>
          let value := rrr_u16 w in
          match rrr_log2 (popcount value) with
          | None => None
          | Some l =>
              match rrr_compute_offset value with
              | None => None
              | Some off =>
                  match set_var_field32 Ow opos (rrr_dec32 (opos + l)) off with
                  | None => None
                  | Some Ow' => rrr_build_O bitseq len c (i + 1) Ow' (c32_u32 (opos + l))
                  end
              end
          end
      end
  end.

(* void BitSequenceRRR::build(const uint *bitseq, size_t len, uint sample_rate).
   [olenf] maps uint_len(1, O_bits_len) to O_len: [N.max 1] in the current tree (commit 6ffe6c2),
   the identity before it. *)
Definition rrr_build_gen (olenf : N -> N) (padf : N -> N -> N) (bitseq : list N) (len sr : N) : option rrr :=
  let C_len := c32_u32 (len / rrr_BS + (if len mod rrr_BS =? 0 then 0 else 1)) in
  let cfb := bits32 rrr_BS in
  let c0 := repeat 0 (N.to_nat (uint_len32 C_len cfb)) in
  match rrr_build_C bitseq len cfb (N.to_nat C_len) 0 c0 0 0 with
  | None => None
  | Some (C, ones, obl) =>
      let O_len := olenf (uint_len32 1 obl) in
      let o0 := repeat 0 (N.to_nat O_len) in
      match rrr_build_O bitseq len (N.to_nat C_len) 0 o0 0 with
      | None => None
      | Some Ow =>
          rrr_create_sampling_gen padf
            (mkRRR len ones C Ow C_len O_len cfb obl [] [] 0 0 0 0 0) sr
      end
  end.
Definition rrr_build := rrr_build_gen (N.max 1) rrr_pad_start.
(* before 6ffe6c2:  O_len = uint_len(1, O_bits_len) *)
Definition rrr_build_old := rrr_build_gen (fun x => x) rrr_pad_start.
(* the seeded change of create_sampling *)
Definition rrr_build_latepad := rrr_build_gen (N.max 1) rrr_pad_start_late.

(* the caller's array: n/W + 1 zeroed words, bits set LSB-first (BitRGDefs.words_of_bits,
   = Cds32Defs.bitset_words by Cds32Proofs.bitset_words_spec) *)
Definition rrr_of_bits (bv : list bool) (sr : N) : option rrr := rrr_build (words_of_bits bv) (lenN bv) sr.
Definition rrr_of_bits_old (bv : list bool) (sr : N) : option rrr := rrr_build_old (words_of_bits bv) (lenN bv) sr.
Definition rrr_of_bits_latepad (bv : list bool) (sr : N) : option rrr := rrr_build_latepad (words_of_bits bv) (lenN bv) sr.

(* ------------------------------------------------------------------------- *)
(* 5. access / rank                                                            *)
(* ------------------------------------------------------------------------- *)
(* for (size_t k = ...; k < pos; k++) { size_t aux = get_field(C, C_field_bits, k);
                                        pos_O += E->get_log2binomial(BLOCK_SIZE, aux); } *)
Fixpoint rrr_acc_loop (d : rrr) (cnt : nat) (k pos_O : N) : option N :=
  match cnt with
  | O => Some pos_O
  | S c =>
      match get_field32 (r_C d) (r_C_field_bits d) k with
      | None => None
      | Some aux =>
          match rrr_log2 aux with
          | None => None
          | Some l => rrr_acc_loop d c (k + 1) (c32_u64 (pos_O + l))
          end
      end
  end.

(* bool BitSequenceRRR::access(size_t i) const      (everything in size_t) *)
Definition rrr_access (d : rrr) (i : N) : option bool :=
  if r_sample_rate d =? 0 then None else
  let nsv := i / rrr_BS / r_sample_rate d in
  match get_field32 (r_O_pos d) (r_O_pos_field_bits d) nsv with
  | None => None
  | Some pos_O0 =>
      let pos := i / rrr_BS in
      let k0 := c32_u64 (nsv * r_sample_rate d) in
      match rrr_acc_loop d (N.to_nat (pos - k0)) k0 pos_O0 with
      | None => None
      | Some pos_O =>
          match get_field32 (r_C d) (r_C_field_bits d) pos with
          | None => None
          | Some c =>
              match rrr_log2 c with
              | None => None
              | Some l =>
                  match get_var_field32 (r_O d) pos_O (rrr_dec64 (c32_u64 (pos_O + l))) with
                  | None => None
                  | Some off =>
                      match rrr_short_bitmap c off with
                      | None => None
                      | Some sb => Some (negb (N.land (N.shiftl 1 (i mod rrr_BS)) sb =? 0))
                      end
                  end
              end
          end
      end
  end.

(* C viewed as an array of unsigned char (the cast of rank1): byte b, little-endian machine *)
Definition rrr_byte (A : list N) (b : N) : option N :=
  match c32_rd A (b / 4) with
  | Some w => Some ((w / 2 ^ (8 * (b mod 4))) mod 256)
  | None => None
  end.

(* while (k < lim) { sum += (a[0] & mask) + a[0] / 16;
                     pos_O += E->get_log2binomial(BLOCK_SIZE, a[0] & mask) + E->get_log2binomial(BLOCK_SIZE, a[0] / 16);
                     a++; k += 2; }
   (the loop runs exactly ceil((lim - k) / 2) times; the two asserts inside compare with get_field and are not modelled) *)
Fixpoint rrr_rank_bytes (C : list N) (cnt : nat) (a k sum pos_O : N) : option (N * N * N) :=
  match cnt with
  | O => Some (k, sum, pos_O)
  | S c =>
      match rrr_byte C a with
      | None => None
      | Some b =>
          match rrr_log2 (N.land b 15), rrr_log2 (b / 16) with
          | Some l1, Some l2 =>
              rrr_rank_bytes C c (a + 1) (c32_u32 (k + 2)) (c32_u32 (sum + (N.land b 15 + b / 16)))
                             (c32_u32 (pos_O + (l1 + l2)))
          | _, _ => None
          end
      end
  end.

(* one class added:  aux = get_field(C, C_field_bits, k); sum += aux; pos_O += E->get_log2binomial(BLOCK_SIZE, aux); k++; *)
Definition rrr_rank_one (d : rrr) (k sum pos_O : N) : option (N * N * N) :=
  match get_field32 (r_C d) (r_C_field_bits d) k with
  | None => None
  | Some aux =>
      match rrr_log2 aux with
      | None => None
      | Some l => Some (c32_u32 (k + 1), c32_u32 (sum + aux), c32_u32 (pos_O + l))
      end
  end.

(* (uint)max(0, (int)pos - 1) *)
Definition rrr_rank_lim (pos : N) : N :=
  if (pos =? 0) || (2147483648 <=? pos) then 0 else pos - 1.

(* size_t BitSequenceRRR::rank1(size_t i) const *)
Definition rrr_rank1 (d : rrr) (i : N) : option N :=
  if c32_u64 (i + 1) =? 0 then Some 0 else
  if r_sample_rate d =? 0 then None else
  let nsv := c32_u32 (i / rrr_BS / r_sample_rate d) in
  match get_field32 (r_C_sampling d) (r_C_sampling_field_bits d) nsv,
        get_field32 (r_O_pos d) (r_O_pos_field_bits d) nsv with
  | Some sum0, Some pos_O0 =>
      let pos := c32_u32 (i / rrr_BS) in
      let k0 := c32_u32 (nsv * r_sample_rate d) in
      match (if (k0 mod 2 =? 1) && (k0 <? pos) then rrr_rank_one d k0 sum0 pos_O0
             else Some (k0, sum0, pos_O0)) with
      | None => None
      | Some (k1, sum1, pos_O1) =>
          let lim := rrr_rank_lim pos in
          match rrr_rank_bytes (r_C d) (N.to_nat ((lim - k1 + 1) / 2)) (k1 / 2) k1 sum1 pos_O1 with
          | None => None
          | Some (k2, sum2, pos_O2) =>
              match (if k2 <? pos then rrr_rank_one d k2 sum2 pos_O2 else Some (k2, sum2, pos_O2)) with
              | None => None
              | Some (_, sum3, pos_O3) =>
                  match get_field32 (r_C d) (r_C_field_bits d) pos with
                  | None => None
                  | Some c =>
                      match rrr_log2 c with
                      | None => None
                      | Some l =>
                          (* pos_O + l - 1 is evaluated in uint and passed as a size_t *)
                          match get_var_field32 (r_O d) pos_O3 (rrr_dec32 (pos_O3 + l)) with
                          | None => None
                          | Some off =>
                              match rrr_short_bitmap c off with
                              | None => None
                              | Some sb =>
                                  Some (c32_u32 (sum3 + popcount (N.land (2 ^ (i mod rrr_BS + 1) - 1) sb)))
                              end
                          end
                      end
                  end
              end
          end
      end
  | _, _ => None
  end.

(* size_t BitSequenceRRR::rank0(size_t i) const { if (i + 1 == 0) return 0; return 1 + i - rank1(i); } *)
Definition rrr_rank0 (d : rrr) (i : N) : option N :=
  if c32_u64 (i + 1) =? 0 then Some 0 else
  match rrr_rank1 d i with
  | None => None
  | Some r => Some (c32_u64 (1 + i + c32_W64 - r))
  end.

(* ------------------------------------------------------------------------- *)
(* 6. select  (the text shared by select1 / select0 is parameterised by [want])   *)
(* ------------------------------------------------------------------------- *)
Definition rrr_cs (d : rrr) (k : N) : option N :=
  get_field32 (r_C_sampling d) (r_C_sampling_field_bits d) k.

(* acc of the binary search: C_sampling[med] (select1), med * sample_rate * BLOCK_SIZE - C_sampling[med] (select0) *)
Definition rrr_sel_key (want : bool) (d : rrr) (med v : N) : N :=
  if want then v else c32_u64 (c32_u64 (c32_u64 (med * r_sample_rate d) * rrr_BS) + c32_W64 - v).

(* while (start < end - 1) { med = (start + end) / 2; acc = key(med);
     if (acc < i) { if (med == start) break; start = med; } else { if (end == 0) break; end = med - 1; } } *)
Fixpoint rrr_sel_bsearch (want : bool) (d : rrr) (i : N) (fuel : nat) (start en : N) : option N :=
  if start <? rrr_dec64 en then
    match fuel with
    | O => None
    | S f =>
        let med := c32_u64 (start + en) / 2 in
        match rrr_cs d med with
        | None => None
        | Some v =>
            if rrr_sel_key want d med v <? i then
              if med =? start then Some start else rrr_sel_bsearch want d i f med en
            else
              if en =? 0 then Some start else rrr_sel_bsearch want d i f start (rrr_dec64 med)
        end
    end
  else Some start.

(* sample_rate * BLOCK_SIZE is evaluated in uint *)
Definition rrr_sel_step (want : bool) (d : rrr) : N :=
  if want then 0 else c32_u32 (r_sample_rate d * rrr_BS).

(* while (start < C_len - 1 && acc [+ sample_rate * BLOCK_SIZE] == C_sampling[start + 1]) { start++; [acc += ...;] } *)
Fixpoint rrr_sel_skip (want : bool) (d : rrr) (fuel : nat) (start acc : N) : option (N * N) :=
  if start <? rrr_dec32 (r_C_len d) then
    match rrr_cs d (c32_u64 (start + 1)) with
    | None => None
    | Some v =>
        if c32_u64 (acc + rrr_sel_step want d) =? v then
          match fuel with
          | O => None
          | S f => rrr_sel_skip want d f (c32_u64 (start + 1)) (c32_u64 (acc + rrr_sel_step want d))
          end
        else Some (start, acc)
    end
  else Some (start, acc).

(* contribution of a block of class s: s ones, BLOCK_SIZE - s zeros (acc + BLOCK_SIZE - s in size_t) *)
Definition rrr_sel_add (want : bool) (acc s : N) : N :=
  if want then c32_u64 (acc + s) else c32_u64 (c32_u64 (acc + rrr_BS) + c32_W64 - s).

(* for (; pos < C_len; pos++) { s = get_field(C, C_field_bits, pos); if (acc + <contribution> >= i) break;
                                pos_O += E->get_log2binomial(BLOCK_SIZE, s); acc += <contribution>; } *)
Fixpoint rrr_sel_scan (want : bool) (d : rrr) (i : N) (cnt : nat) (pos pos_O acc s : N)
  : option (N * N * N * N) :=
  match cnt with
  | O => Some (pos, pos_O, acc, s)
  | S c =>
      match get_field32 (r_C d) (r_C_field_bits d) pos with
      | None => None
      | Some s' =>
          if i <=? rrr_sel_add want acc s' then Some (pos, pos_O, acc, s')
          else
            match rrr_log2 s' with
            | None => None
            | Some l => rrr_sel_scan want d i c (c32_u64 (pos + 1)) (c32_u64 (pos_O + l)) (rrr_sel_add want acc s') s'
            end
      end
  end.

(* while (acc < i && new_posO < BLOCK_SIZE) { pos++; new_posO++; acc += <bit 0 of block is [want]>; block = block / 2; } *)
Fixpoint rrr_sel_bits (want : bool) (i : N) (cnt : nat) (pos acc block : N) : N * N :=
  match cnt with
  | O => (pos, acc)
  | S c =>
      if acc <? i then
        rrr_sel_bits want i c (c32_u64 (pos + 1)) (c32_u64 (acc + (if Bool.eqb (N.odd block) want then 1 else 0))) (block / 2)
      else (pos, acc)
  end.

(* while (acc < i) { new_posO = pos_O + E->get_log2binomial(BLOCK_SIZE, s);
                     block = E->short_bitmap(s, get_var_field(O, pos_O, new_posO - 1)); pos_O = new_posO; <bit loop> } *)
Fixpoint rrr_sel_inblock (want : bool) (d : rrr) (i s : N) (fuel : nat) (pos pos_O acc : N) : option N :=
  if acc <? i then
    match fuel with
    | O => None
    | S f =>
        match rrr_log2 s with
        | None => None
        | Some l =>
            let new_posO := c32_u64 (pos_O + l) in
            match get_var_field32 (r_O d) pos_O (rrr_dec64 new_posO) with
            | None => None
            | Some off =>
                match rrr_short_bitmap s off with
                | None => None
                | Some block =>
                    let '(pos', acc') := rrr_sel_bits want i (N.to_nat rrr_BS) pos acc block in
                    rrr_sel_inblock want d i s f pos' new_posO acc'
                end
            end
        end
    end
  else Some pos.

(* fuel of the loops of select: logarithmic for the binary search, the allocation sizes for the others
   (a block scan that does not finish reads beyond O or never advances) *)
Definition rrr_bsearch_fuel (d : rrr) : nat := S (S (N.size_nat (r_C_sampling_len d))).
Definition rrr_inblock_fuel (d : rrr) : nat := (2 + 8 * (length (r_C d) + length (r_O d)))%nat.

(* from "Search over partial sums" to "pos--; return pos;" *)
Definition rrr_select_core (want : bool) (d : rrr) (i : N) : option N :=
  match rrr_sel_bsearch want d i (rrr_bsearch_fuel d) 0 (rrr_dec32 (r_C_sampling_len d)) with
  | None => None
  | Some start0 =>
      match rrr_cs d start0 with
      | None => None
      | Some acc0 =>
          match rrr_sel_skip want d (N.to_nat (r_C_len d)) start0 acc0 with
          | None => None
          | Some (start, acc1) =>
              let pos0 := c32_u64 (start * r_sample_rate d) in
              match get_field32 (r_O_pos d) (r_O_pos_field_bits d) start,
                    (if want then rrr_cs d start
                     else Some (c32_u64 (c32_u64 (c32_u64 (start * r_sample_rate d) * rrr_BS) + c32_W64 - acc1))) with
              | Some pos_O0, Some acc2 =>
                  match rrr_sel_scan want d i (N.to_nat (r_C_len d - pos0)) pos0 pos_O0 acc2 0 with
                  | None => None
                  | Some (pos1, pos_O1, acc3, s) =>
                      match rrr_sel_inblock want d i s (rrr_inblock_fuel d) (c32_u64 (pos1 * rrr_BS)) pos_O1 acc3 with
                      | None => None
                      | Some pos2 => Some (rrr_dec64 pos2)
                      end
                  end
              | _, _ => None
              end
          end
      end
  end.

(* size_t BitSequenceRRR::select1(size_t i) const:  if (i == 0) return -1;  if (i > ones) return -1; *)
Definition rrr_select1 (d : rrr) (i : N) : option N :=
  if i =? 0 then Some (c32_W64 - 1) else
  if r_ones d <? i then Some (c32_W64 - 1) else rrr_select_core true d i.
(* size_t BitSequenceRRR::select0(size_t i) const:  if (i == 0) return (uint)-1;  if (i > length - ones) return (uint)-1; *)
Definition rrr_select0 (d : rrr) (i : N) : option N :=
  if i =? 0 then Some (c32_W - 1) else
  if c32_u64 (r_length d + c32_W64 - r_ones d) <? i then Some (c32_W - 1) else rrr_select_core false d i.

(* ------------------------------------------------------------------------- *)
(* 7. save / load                                                              *)
(* ------------------------------------------------------------------------- *)
Definition RRR02_HDR : N := 2.
(* save: uint hdr, size_t length, size_t ones, uint C_len, C_field_bits, O_len, O_bits_len, sample_rate,
         C[uint_len(C_len, C_field_bits)], O[O_len] *)
Definition rrr_save (d : rrr) : option (list N) :=
  match take_exact (uint_len32 (r_C_len d) (r_C_field_bits d)) (r_C d), take_exact (r_O_len d) (r_O d) with
  | Some cw, Some ow =>
      Some (le_bytes 4 RRR02_HDR ++ le_bytes 8 (r_length d) ++ le_bytes 8 (r_ones d) ++
            le_bytes 4 (r_C_len d) ++ le_bytes 4 (r_C_field_bits d) ++ le_bytes 4 (r_O_len d) ++
            le_bytes 4 (r_O_bits_len d) ++ le_bytes 4 (r_sample_rate d) ++
            flat_map (le_bytes 4) cw ++ flat_map (le_bytes 4) ow)
  | _, _ => None
  end.

Definition rrr_load (bs : list N) : option (rrr * list N) :=
  match take_bytes 4 bs with None => None | Some (t, b1) =>
  if negb (le_value t =? RRR02_HDR) then None (* abort() *) else
  match take_bytes 8 b1 with None => None | Some (lenb, b2) =>
  match take_bytes 8 b2 with None => None | Some (onesb, b3) =>
  match take_bytes 4 b3 with None => None | Some (clb, b4) =>
  match take_bytes 4 b4 with None => None | Some (cfbb, b5) =>
  match take_bytes 4 b5 with None => None | Some (olb, b6) =>
  match take_bytes 4 b6 with None => None | Some (oblb, b7) =>
  match take_bytes 4 b7 with None => None | Some (srb, b8) =>
    let C_len := le_value clb in
    let cfb := le_value cfbb in
    let O_len := le_value olb in
    let cw := uint_len32 C_len cfb in
    match take_bytes (4 * cw) b8 with None => None | Some (cb, b9) =>
    match take_bytes (4 * O_len) b9 with None => None | Some (ob, b10) =>
      let d0 := mkRRR (le_value lenb) (le_value onesb) (words32_of_bytes (N.to_nat cw) cb)
                      (words32_of_bytes (N.to_nat O_len) ob) C_len O_len cfb (le_value oblb)
                      [] [] 0 0 0 0 (le_value srb) in
      match rrr_create_sampling d0 (le_value srb) with
      | None => None
      | Some d => Some (d, b10)
      end
    end end
  end end end end end end end end.

End WithE.

(* ------------------------------------------------------------------------- *)
(* 8. views used by the harness and by the statements                           *)
(* ------------------------------------------------------------------------- *)
(* start, start+1, ..., start+cnt-1 *)
Fixpoint rrr_range (cnt : nat) (start : N) : list N :=
  match cnt with O => [] | S c => start :: rrr_range c (start + 1) end.

(* block k of the plain bit vector as a 15-bit number (bits beyond the end are 0) *)
Definition rrr_blockv (bv : list bool) (k : N) : N :=
  word_of_bits (firstn 15 (skipn (N.to_nat (15 * k)) bv)).

(* the bijection statement of the universal table, as a boolean over the 2^15 blocks:
   offset < binomial(15, class), offset fits log2binomial bits, short_bitmap inverts compute_offset *)
Definition rrr_block_ok (E : toff) (b : N) : bool :=
  let c := popcount b in
  match rrr_compute_offset E b, rrr_log2 E c, e_get_binomial E rrr_BS c with
  | Some o, Some l, Some bn =>
      (o <? bn) && (o <? 2 ^ l) && (l <=? 13) && (c <=? 15) &&
      match rrr_short_bitmap E c o with Some b' => b' =? b | None => false end
  | _, _, _ => false
  end.
(* ... and over (class, offset): the block stored there has that class and that offset *)
Definition rrr_slot_ok (E : toff) (c o : N) : bool :=
  match rrr_short_bitmap E c o with
  | Some b => (b <? 32768) && (popcount b =? c) &&
              match rrr_compute_offset E b with Some o' => o' =? o | None => false end
  | None => false
  end.
Definition rrr_class_ok (E : toff) (c : N) : bool :=
  match e_get_binomial E rrr_BS c, rrr_log2 E c with
  | Some bn, Some l =>
      (l =? bits32 (bn - 1)) && forallb (rrr_slot_ok E c) (rrr_range (N.to_nat bn) 0)
  | _, _ => false
  end.

(* ------------------------------------------------------------------------- *)
(* 9. the RRR instance of the pointer wavelet tree of BitRGDefs section C      *)
(*    (BitSequenceBuilderRRR(sample_rate): FM-index with sparse_bitsequence, XBW) *)
(* ------------------------------------------------------------------------- *)
Definition rrr_empty_obj : rrr := mkRRR 0 0 [] [0] 0 1 4 0 [0] [] 2 1 0 0 1.
Definition rrrt_build_e (E : toff) (sr : N) (bits : list bool) : rrr :=
  match rrr_of_bits E bits sr with Some d => d | None => rrr_empty_obj end.
Definition rrrt_access_e (E : toff) (d : rrr) (i : N) : bool := match rrr_access E d i with Some b => b | None => false end.
Definition rrrt_rank1_e (E : toff) (d : rrr) (i : N) : N := match rrr_rank1 E d i with Some v => v | None => 0 end.
Definition rrrt_select1_e (E : toff) (d : rrr) (j : N) : N := match rrr_select1 E d j with Some v => v | None => 0 end.
Definition rrrt_select0_e (E : toff) (d : rrr) (j : N) : N := match rrr_select0 E d j with Some v => v | None => 0 end.
Definition rrrt_build := rrrt_build_e rrr_E.
Definition rrrt_access := rrrt_access_e rrr_E.
Definition rrrt_rank1 := rrrt_rank1_e rrr_E.
Definition rrrt_select1 := rrrt_select1_e rrr_E.
Definition rrrt_select0 := rrrt_select0_e rrr_E.
