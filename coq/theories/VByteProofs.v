From LibCSD Require Import Base VByteDefs.
Local Open Scope N_scope.

Lemma land_127 c : N.land c 127 = c mod 128.
Proof. change 127 with (N.ones 7). rewrite N.land_ones. reflexivity. Qed.

Lemma lor_128_small c : c < 128 -> N.lor c 128 = c + 128.
Proof.
  intros H. apply lor_disjoint_add.
  change 128 with (N.shiftl 1 7). apply land_low_shiftl. exact H.
Qed.

Lemma testbit7_small c : c < 128 -> N.testbit c 7 = false.
Proof. intros H; apply (testbit_lt_pow2_false c 7 7); [exact H|lia]. Qed.

Lemma testbit7_big c : c < 128 -> N.testbit (c + 128) 7 = true.
Proof.
  intros H. rewrite N.testbit_eqb. change (2^7) with 128.
  replace ((c + 128) / 128) with 1.
  - reflexivity.
  - apply (N.div_unique _ _ _ c); lia.
Qed.

Lemma mod128_lt c : c mod 128 < 128.
Proof. apply N.mod_lt; lia. Qed.

Lemma land127_of_flagged c : c < 128 -> N.land (c + 128) 127 = c.
Proof.
  intros H. rewrite land_127.
  rewrite <- (N.mod_unique (c + 128) 128 1 c); [reflexivity|lia|lia].
Qed.

(* every byte produced by the encoder is a byte, only the last one is flagged *)
Lemma vb_encode_fuel_bytes fuel c :
  Forall (fun b => b < 256) (vb_encode_fuel fuel c) \/ 2 ^ (7 * N.of_nat (S fuel)) <= c.
Proof.
  revert c; induction fuel as [|f IH]; intros c; cbn [vb_encode_fuel].
  - destruct (N.lt_ge_cases c 128) as [Hc|Hc].
    + left. constructor; [|constructor]. rewrite lor_128_small by assumption. lia.
    + right. exact Hc.
  - destruct (N.ltb_spec 127 c) as [Hc|Hc].
    + destruct (IH (N.shiftr c 7)) as [H|H].
      * left. constructor; [|exact H]. rewrite land_127. pose proof (mod128_lt c). lia.
      * right. rewrite N.shiftr_div_pow2 in H.
        replace (7 * N.of_nat (S (S f))) with (7 + 7 * N.of_nat (S f)) by lia.
        rewrite N.pow_add_r.
        pose proof (N.mul_div_le c (2^7)) as Hle.
        assert (2 ^ 7 * 2 ^ (7 * N.of_nat (S f)) <= 2 ^ 7 * (c / 2 ^ 7)) by (apply N.mul_le_mono_l; exact H).
        assert (2 ^ 7 <> 0) by (apply N.pow_nonzero; lia).
        specialize (Hle H1). lia.
    + left. constructor; [|constructor]. rewrite lor_128_small by lia. lia.
Qed.

(* main invariant of the decoder loop *)
Lemma vb_decode_encode_from fuel : forall c shift acc i rest,
  c < 2 ^ (7 * N.of_nat (S fuel)) ->
  acc < 2 ^ shift ->
  acc + c * 2 ^ shift < W32 ->
  vb_decode_from (vb_encode_fuel fuel c ++ rest) shift acc i
  = Some (acc + c * 2 ^ shift, i + lenN (vb_encode_fuel fuel c)).
Proof.
  induction fuel as [|f IH]; intros c shift acc i rest Hc Hacc Hfit.
  - cbn [vb_encode_fuel app vb_decode_from].
    assert (Hc' : c < 128) by (change (2 ^ (7 * N.of_nat 1)) with 128 in Hc; exact Hc).
    rewrite lor_128_small by assumption.
    rewrite testbit7_big by assumption.
    rewrite land127_of_flagged by assumption.
    rewrite N.shiftl_mul_pow2.
    rewrite N.mod_small by lia.
    rewrite lor_disjoint_add.
    + reflexivity.
    + rewrite <- N.shiftl_mul_pow2. apply land_low_shiftl. exact Hacc.
  - cbn [vb_encode_fuel].
    destruct (N.ltb_spec 127 c) as [Hbig|Hsmall].
    + cbn [app vb_decode_from].
      rewrite land_127.
      assert (Hm : c mod 128 < 128) by apply mod128_lt.
      rewrite testbit7_small by assumption.
      rewrite (land_127 (c mod 128)).
      rewrite N.mod_mod by lia.
      rewrite N.shiftl_mul_pow2.
      pose proof (N.div_mod c 128 ltac:(lia)) as Hdm.
      assert (Hle : c mod 128 * 2 ^ shift <= c * 2 ^ shift).
      { apply N.mul_le_mono_r. lia. }
      rewrite N.mod_small by lia.
      rewrite lor_disjoint_add
        by (rewrite <- N.shiftl_mul_pow2; apply land_low_shiftl; exact Hacc).
      rewrite N.shiftr_div_pow2. change (2^7) with 128.
      rewrite IH.
      * f_equal. f_equal.
        -- rewrite N.pow_add_r. change (2^7) with 128. nia.
        -- rewrite lenN_cons. lia.
      * replace (7 * N.of_nat (S (S f))) with (7 + 7 * N.of_nat (S f)) in Hc by lia.
        rewrite N.pow_add_r in Hc. change (2^7) with 128 in Hc.
        apply N.div_lt_upper_bound; [lia|exact Hc].
      * rewrite N.pow_add_r. change (2^7) with 128.
        assert (c mod 128 * 2 ^ shift < 128 * 2 ^ shift) by (apply N.mul_lt_mono_pos_r; auto).
        nia.
      * rewrite N.pow_add_r. change (2^7) with 128. nia.
    + cbn [app vb_decode_from].
      assert (Hc' : c < 128) by lia.
      rewrite lor_128_small by assumption.
      rewrite testbit7_big by assumption.
      rewrite land127_of_flagged by assumption.
      rewrite N.shiftl_mul_pow2.
      rewrite N.mod_small by lia.
      rewrite lor_disjoint_add.
      * reflexivity.
      * rewrite <- N.shiftl_mul_pow2. apply land_low_shiftl. exact Hacc.
Qed.

Lemma W32_lt_fuel : W32 < 2 ^ (7 * N.of_nat 10).
Proof. vm_compute. reflexivity. Qed.

Theorem vbyte_roundtrip c rest :
  c < W32 ->
  vb_decode (vb_encode c ++ rest) = Some (c, lenN (vb_encode c)).
Proof.
  intros Hc. unfold vb_decode, vb_encode.
  rewrite vb_decode_encode_from.
  - rewrite N.pow_0_r. f_equal. f_equal; lia.
  - pose proof W32_lt_fuel. lia.
  - rewrite N.pow_0_r. lia.
  - rewrite N.pow_0_r. lia.
Qed.

(* length: at most 5 bytes for a 32-bit value, and exact thresholds *)
Lemma vb_encode_fuel_len fuel : forall c k,
  c < 2 ^ (7 * N.of_nat (S k)) -> (k <= fuel)%nat ->
  (length (vb_encode_fuel fuel c) <= S k)%nat.
Proof.
  induction fuel as [|f IH]; intros c k Hc Hk; cbn [vb_encode_fuel].
  - simpl; lia.
  - destruct (N.ltb_spec 127 c) as [Hbig|Hsmall]; [|simpl; lia].
    destruct k as [|k].
    + change (2 ^ (7 * N.of_nat 1)) with 128 in Hc. lia.
    + cbn [length]. apply le_n_S. apply IH; [|lia].
      rewrite N.shiftr_div_pow2.
      replace (7 * N.of_nat (S (S k))) with (7 + 7 * N.of_nat (S k)) in Hc by lia.
      rewrite N.pow_add_r in Hc.
      apply N.div_lt_upper_bound; [apply N.pow_nonzero; lia|exact Hc].
Qed.

Theorem vbyte_length_le5 c : c < W32 -> (length (vb_encode c) <= 5)%nat.
Proof.
  intros Hc. unfold vb_encode. apply (vb_encode_fuel_len 9 c 4); [|lia].
  assert (W32 < 2 ^ (7 * N.of_nat 5)) by (vm_compute; reflexivity). lia.
Qed.

Theorem vbyte_bytes c : c < W32 -> Forall (fun b => b < 256) (vb_encode c).
Proof.
  intros Hc. unfold vb_encode.
  destruct (vb_encode_fuel_bytes 9 c) as [H|H]; [exact H|].
  pose proof W32_lt_fuel. lia.
Qed.

(* one-byte case used by the front-coding models: lcp < 128 is a single flagged byte *)
Lemma vb_encode_small c : c < 128 -> vb_encode c = [c + 128].
Proof.
  intros H. unfold vb_encode. cbn [vb_encode_fuel].
  destruct (N.ltb_spec 127 c); [lia|]. rewrite lor_128_small by assumption. reflexivity.
Qed.

(* the decoder never looks past the flagged byte: frame property *)
Theorem vbyte_decode_prefix_only c rest1 rest2 :
  c < W32 ->
  vb_decode (vb_encode c ++ rest1) = vb_decode (vb_encode c ++ rest2).
Proof. intros H. rewrite !vbyte_roundtrip by assumption. reflexivity. Qed.
