(* StringDictionaryPFC::locatePrefix / extractPrefix (with locateBoundaryBuckets,
   searchPrefix, searchDistinctPrefix and IteratorDictIDContiguous) are exact on every
   dictionary that has the layout of PFCLayout.v:

     pfc_locate_prefix_spec  : pfc_locate_prefix d p = Some (range_of (spec_prefix_ids S p))
     contig_ids_spec         : contig_ids l r = [l; l+1; ...; r]        (1 <= l <= r < 2^64)
     pfc_locate_prefix_ids   : the contiguous ID iterator built from the limits enumerates
                               exactly spec_prefix_ids S p
     pfc_extract_prefix_spec : pfc_extract_prefix d p =
                               Some (if nobody has the prefix then None else Some (spec_prefix_strs S p))

   The memory-error outcome [None] of the model (read outside the text / the offset array /
   past the pattern's NUL, fuel exhausted) is unreachable.

   Method: everything is index based on the flat stream view of PFCExtractProofs.v
   ([snth S i] = string number i, [soff b S i] = where its encoding starts).  The class of
   a string w.r.t. the pattern, [pcls p s] (Lt: below p, Eq: has prefix p, Gt: above p and
   not prefixed), is monotone along a sorted list; strncmp on a header computes it; the three
   binary searches of locateBoundaryBuckets are verified against an abstract monotone
   classification of the bucket numbers (Section BoundarySearch). *)
From LibCSD Require Import Base VByteDefs VByteProofs Spec SpecProofs PFCDefs PFCLayout
  PFCBuildProofs PFCExtractProofs LexLemmas PFCLocateProofs PFCTheorems.
From Coq Require Import Lia ZifyBool ZifyNat ZifyN.
Ltac Zify.zify_post_hook ::= Z.to_euclidean_division_equations.
Local Open Scope N_scope.

(* ====================================================================== *)
(* 1. the contiguous ID iterator                                           *)
(* ====================================================================== *)
(* [l; l+1; ...] (n elements) *)
Fixpoint nrange (l : N) (n : nat) : list N :=
  match n with
  | O => []
  | Datatypes.S n' => l :: nrange (l + 1) n'
  end.

Lemma nrange_length l n : length (nrange l n) = n.
Proof. revert l; induction n as [|n IH]; intros l; cbn [nrange length]; [reflexivity|]. rewrite IH. reflexivity. Qed.

Lemma nrange_seq n : forall l, nrange l n = map (fun i => l + N.of_nat i) (seq 0 n).
Proof.
  induction n as [|n IH]; intros l; cbn [nrange seq map]; [reflexivity|].
  rewrite N.add_0_r. f_equal. rewrite IH, <- seq_shift, map_map.
  apply map_ext. intros i. lia.
Qed.

Lemma nrange_last n : forall l d, last (nrange l (Datatypes.S n)) d = l + N.of_nat n.
Proof.
  induction n as [|n IH]; intros l d.
  - cbn [nrange last]. lia.
  - change (nrange l (Datatypes.S (Datatypes.S n))) with (l :: nrange (l + 1) (Datatypes.S n)).
    rewrite last_cons_default, IH. lia.
Qed.

Lemma range_of_nrange l n : range_of (nrange l (Datatypes.S n)) = (l, l + N.of_nat n).
Proof. unfold range_of. cbn [nrange]. f_equal. exact (nrange_last n l l). Qed.

Lemma W64m_small x : x < 2 ^ 64 -> W64m x = x.
Proof. intros H. unfold W64m. apply N.mod_small. exact H. Qed.

Lemma contig_drain_spec r : r < 2 ^ 64 -> forall n pr fuel,
  pr <= r -> N.to_nat (r - pr) = n -> (n < fuel)%nat ->
  contig_drain fuel pr r = nrange (pr + 1) n.
Proof.
  intros Hr. induction n as [|n IH]; intros pr fuel Hle Hn Hf.
  - destruct fuel as [|f]; [lia|]. cbn [contig_drain nrange].
    destruct (N.ltb_spec pr r); [lia|reflexivity].
  - destruct fuel as [|f]; [lia|]. cbn [contig_drain nrange].
    destruct (N.ltb_spec pr r); [|lia].
    rewrite W64m_small by lia. f_equal. apply IH; lia.
Qed.

(* IteratorDictIDContiguous(l, r) drained: l, l+1, ..., r *)
Theorem contig_ids_spec l r : 1 <= l <= r -> r < 2 ^ 64 ->
  contig_ids l r = nrange l (N.to_nat (r - l + 1)).
Proof.
  intros Hl Hr. unfold contig_ids.
  assert (E : W64m (l + 2 ^ 64 - 1) = l - 1).
  { unfold W64m. replace (l + 2 ^ 64 - 1) with (l - 1 + 1 * 2 ^ 64) by lia.
    rewrite N.mod_add by lia. apply N.mod_small. lia. }
  rewrite E.
  rewrite (contig_drain_spec r Hr (N.to_nat (r - l + 1)) (l - 1)); [|lia|lia|lia].
  f_equal. lia.
Qed.

(* the same as an explicit enumeration *)
Corollary contig_ids_seq l r : 1 <= l <= r -> r < 2 ^ 64 ->
  contig_ids l r = map (fun i => l + N.of_nat i) (seq 0 (N.to_nat (r - l + 1))).
Proof. intros Hl Hr. rewrite contig_ids_spec by assumption. apply nrange_seq. Qed.

(* the empty range (0,0): processed = 0 - 1 wraps to 2^64 - 1, hasNext is false at once *)
Theorem contig_ids_00 : contig_ids 0 0 = [].
Proof. reflexivity. Qed.

(* ====================================================================== *)
(* 2. the class of a string with respect to the pattern                    *)
(* ====================================================================== *)
(* what strncmp(s, p, |p|) reports: Eq iff p is a prefix of s, otherwise the order of s and p *)
Definition pcls (p s : str) : comparison := if is_prefix p s then Eq else lex_compare s p.

Lemma pcls_Eq p s : pcls p s = Eq <-> is_prefix p s = true.
Proof.
  unfold pcls. destruct (is_prefix p s) eqn:E; [tauto|]. split; [|discriminate].
  intros H. apply lex_compare_eq in H. subst s.
  assert (is_prefix p p = true) by (apply is_prefix_app; exists []; rewrite app_nil_r; reflexivity).
  congruence.
Qed.

Lemma pcls_not_Eq p s : pcls p s <> Eq -> is_prefix p s = false.
Proof. intros H. destruct (is_prefix p s) eqn:E; [|reflexivity]. apply pcls_Eq in E. contradiction. Qed.

Lemma pcls_Lt p s : pcls p s = Lt -> is_prefix p s = false /\ lex_lt s p.
Proof. unfold pcls, lex_lt. destruct (is_prefix p s); [discriminate|auto]. Qed.

Lemma pcls_Gt p s : pcls p s = Gt -> is_prefix p s = false /\ lex_lt p s.
Proof. unfold pcls. destruct (is_prefix p s); [discriminate|]. intros H. split; [reflexivity|apply lex_gt_lt; exact H]. Qed.

(* a string that has prefix p is not below p *)
Lemma prefix_not_lt p s : is_prefix p s = true -> ~ lex_lt s p.
Proof.
  intros H. apply is_prefix_app in H. destruct H as [r ->]. unfold lex_lt.
  rewrite <- (app_nil_r p) at 2. rewrite lex_compare_app. destruct r; discriminate.
Qed.

Lemma is_prefix_refl p : is_prefix p p = true.
Proof. apply is_prefix_app. exists []. rewrite app_nil_r. reflexivity. Qed.

(* monotonicity: below a string of class Lt everything is Lt; above a Gt everything is Gt *)
Lemma pcls_mono_Lt p s t : lex_lt s t -> pcls p t = Lt -> pcls p s = Lt.
Proof.
  intros Hst Ht. apply pcls_Lt in Ht. destruct Ht as [_ Htp].
  pose proof (lex_lt_trans _ _ _ Hst Htp) as Hsp.
  unfold pcls. destruct (is_prefix p s) eqn:E; [|exact Hsp].
  exfalso. exact (prefix_not_lt p s E Hsp).
Qed.

Lemma pcls_mono_Gt p s t : lex_lt s t -> pcls p s = Gt -> pcls p t = Gt.
Proof.
  intros Hst Hs. apply pcls_Gt in Hs. destruct Hs as [Hns Hps].
  pose proof (lex_lt_trans _ _ _ Hps Hst) as Hpt.
  unfold pcls. destruct (is_prefix p t) eqn:E.
  - rewrite (prefix_convex p p s t (is_prefix_refl p) E Hps Hst) in Hns. discriminate.
  - apply lex_gt_lt. exact Hpt.
Qed.

(* strncmp(text + off, p, strlen(p)) on a NUL-terminated string of the text *)
Lemma c_strncmp_spec a : forall q rest, nul_free a -> nul_free q ->
  c_strncmp (a ++ 0 :: rest) q (length q) = Some (pcls q a).
Proof.
  unfold pcls.
  induction a as [|x a IH]; intros [|y q] rest Ha Hq; cbn [app c_strncmp length is_prefix lex_compare];
    try reflexivity.
  - apply nul_free_cons in Hq. destruct Hq as [Hy _].
    destruct (N.eqb_spec 0 y) as [E|_]; [congruence|].
    f_equal. destruct (N.compare_spec 0 y); try lia; reflexivity.
  - apply nul_free_cons in Ha. destruct Ha as [Hx Ha].
    apply nul_free_cons in Hq. destruct Hq as [Hy Hq].
    destruct (N.eqb_spec x y) as [<-|Hxy].
    + destruct (N.eqb_spec x 0); [contradiction|]. rewrite N.eqb_refl, N.compare_refl.
      cbn [andb]. apply IH; assumption.
    + rewrite (N.eqb_sym y x). destruct (N.eqb_spec x y); [contradiction|]. cbn [andb].
      destruct (N.compare_spec x y); try congruence; reflexivity.
Qed.

(* having the prefix, in terms of the number of shared symbols *)
Lemma is_prefix_lcp p : forall s, is_prefix p s = true <-> lcp p s = lenN p.
Proof.
  induction p as [|x p IH]; intros s; cbn [is_prefix lcp].
  - split; reflexivity.
  - destruct s as [|y s]; [rewrite lenN_cons; split; [discriminate|lia]|].
    rewrite lenN_cons. destruct (N.eqb_spec x y) as [->|Hxy]; cbn [andb].
    + rewrite IH. lia.
    + split; [discriminate|lia].
Qed.

Lemma is_prefix_lcp' p s : is_prefix p s = true <-> lcp s p = lenN p.
Proof. rewrite (lcp_comm s p). apply is_prefix_lcp. Qed.

(* next to a string that has the prefix, having the prefix = sharing at least |p| symbols
   with it: what searchDistinctPrefix tests *)
Lemma prefix_next p a c : is_prefix p a = true ->
  (is_prefix p c = true <-> lenN p <= lcp a c).
Proof.
  intros Ha. apply is_prefix_lcp in Ha. rewrite is_prefix_lcp.
  pose proof (lcp_min p a c). pose proof (lcp_min a p c). rewrite (lcp_comm a p) in *.
  pose proof (LexLemmas.lcp_le_l p c). lia.
Qed.

(* longestCommonPrefix(decoded + s, str + s, decLen - s, &shared): the variant without the
   terminating NUL used by searchPrefix.  shared becomes lcp a q; the sign of the result
   tells the order unless q is a prefix of a *)
Lemma lcp_cmp0_spec a : forall q acc, nul_free a -> nul_free q ->
  exists z, lcp_cmp (a ++ [0]) (q ++ [0]) (lenN a) acc = Some (z, acc + lcp a q) /\
    (lcp a q < lenN q ->
     ((0 < z)%Z /\ lex_compare a q = Gt) \/ ((z <= 0)%Z /\ lex_compare a q = Lt)).
Proof.
  induction a as [|x a IH]; intros [|y q] acc Ha Hq; cbn [app lcp_cmp lex_compare lcp].
  - exists 0%Z. change (@lenN N []) with 0. cbn [N.eqb]. rewrite N.add_0_r. split; [reflexivity|lia].
  - exists 0%Z. change (@lenN N []) with 0. cbn [N.eqb]. rewrite N.add_0_r. split; [reflexivity|].
    intros _. right. split; [lia|reflexivity].
  - apply nul_free_cons in Ha. destruct Ha as [Hx _].
    destruct (N.eqb_spec (lenN (x :: a)) 0) as [E|_]; [rewrite lenN_cons in E; lia|].
    destruct (N.eqb_spec x 0); [contradiction|].
    exists (Z.of_N x - Z.of_N 0)%Z. rewrite N.add_0_r. split; [reflexivity|].
    change (@lenN N []) with 0. lia.
  - apply nul_free_cons in Ha. destruct Ha as [Hx Ha].
    apply nul_free_cons in Hq. destruct Hq as [Hy Hq].
    destruct (N.eqb_spec (lenN (x :: a)) 0) as [E|_]; [rewrite lenN_cons in E; lia|].
    destruct (N.eqb_spec x y) as [<-|Hxy].
    + rewrite N.compare_refl.
      replace (lenN (x :: a) - 1) with (lenN a) by (rewrite lenN_cons; lia).
      destruct (IH q (acc + 1) Ha Hq) as (z & E & Hs).
      exists z. split; [rewrite E; f_equal; f_equal; lia|].
      rewrite lenN_cons. intros Hl. apply Hs. lia.
    + exists (Z.of_N x - Z.of_N y)%Z. rewrite N.add_0_r. split; [reflexivity|].
      intros _. destruct (N.compare_spec x y); try congruence; [right|left]; split; try lia; reflexivity.
Qed.

Lemma cmp_from0_spec a q s : nul_free a -> nul_free q -> s <= lcp a q ->
  exists z, cmp_from a q s 0 = Some (z, lcp a q) /\
    (lcp a q < lenN q ->
     ((0 < z)%Z /\ lex_compare a q = Gt) \/ ((z <= 0)%Z /\ lex_compare a q = Lt)).
Proof.
  intros Ha Hq Hs.
  pose proof (LexLemmas.lcp_le_l a q) as Hla. pose proof (LexLemmas.lcp_le_r a q) as Hlq.
  unfold cmp_from.
  destruct (N.leb_spec s (lenN a)); [|lia]. destruct (N.leb_spec s (lenN q)); [|lia].
  cbn [andb]. unfold skipN.
  rewrite !skipn_app.
  replace (N.to_nat s - length a)%nat with O by (unfold lenN in *; lia).
  replace (N.to_nat s - length q)%nat with O by (unfold lenN in *; lia).
  cbn [skipn].
  destruct (lcp_skip (N.to_nat s) a q ltac:(lia)) as [H1 H2].
  replace (lenN a - s + 0) with (lenN (skipn (N.to_nat s) a))
    by (unfold lenN in *; rewrite skipn_length; lia).
  destruct (lcp_cmp0_spec (skipn (N.to_nat s) a) (skipn (N.to_nat s) q) s
              (nul_free_skipn _ _ Ha) (nul_free_skipn _ _ Hq)) as (z & E & Hsgn).
  exists z. split; [rewrite E; f_equal; f_equal; lia|].
  intros Hl. rewrite H2. apply Hsgn.
  unfold lenN in *. rewrite skipn_length. lia.
Qed.

(* ====================================================================== *)
(* 3. classes along the sorted list, by index                              *)
(* ====================================================================== *)
Lemma snth_lt S i j : sorted_lt S -> i < j -> j < lenN S -> lex_lt (snth S i) (snth S j).
Proof.
  intros Hs Hij Hj.
  apply (sorted_nth_lt S Hs (N.to_nat i) (N.to_nat j)); [lia| |].
  - apply (nthN_snth S i). lia.
  - apply (nthN_snth S j). exact Hj.
Qed.

Lemma cls_before S p i j : sorted_lt S -> j <= i -> i < lenN S ->
  pcls p (snth S i) = Lt -> pcls p (snth S j) = Lt.
Proof.
  intros Hs Hji Hi Hc. destruct (N.eq_dec j i) as [->|Hne]; [exact Hc|].
  apply (pcls_mono_Lt p _ (snth S i)); [apply snth_lt; auto; lia|exact Hc].
Qed.

Lemma cls_after S p i j : sorted_lt S -> i <= j -> j < lenN S ->
  pcls p (snth S i) = Gt -> pcls p (snth S j) = Gt.
Proof.
  intros Hs Hij Hj Hc. destruct (N.eq_dec i j) as [->|Hne]; [exact Hc|].
  apply (pcls_mono_Gt p (snth S i)); [apply snth_lt; auto; lia|exact Hc].
Qed.

Lemma nomatch_before S p i j : sorted_lt S -> j <= i -> i < lenN S ->
  pcls p (snth S i) = Lt -> is_prefix p (snth S j) = false.
Proof. intros Hs Hji Hi Hc. apply pcls_not_Eq. rewrite (cls_before S p i j Hs Hji Hi Hc). discriminate. Qed.

Lemma nomatch_after S p i j : sorted_lt S -> i <= j -> j < lenN S ->
  pcls p (snth S i) = Gt -> is_prefix p (snth S j) = false.
Proof. intros Hs Hij Hj Hc. apply pcls_not_Eq. rewrite (cls_after S p i j Hs Hij Hj Hc). discriminate. Qed.

(* between two matches everything matches *)
Lemma match_between S p i j k : sorted_lt S -> i <= j -> j <= k -> k < lenN S ->
  is_prefix p (snth S i) = true -> is_prefix p (snth S k) = true -> is_prefix p (snth S j) = true.
Proof.
  intros Hs Hij Hjk Hk Hi Hkk.
  destruct (N.eq_dec i j) as [<-|N1]; [exact Hi|]. destruct (N.eq_dec j k) as [->|N2]; [exact Hkk|].
  apply (prefix_convex p (snth S i) _ (snth S k)); auto; apply snth_lt; auto; lia.
Qed.

(* ====================================================================== *)
(* 4. the decomposition of a sorted list by a prefix                       *)
(* ====================================================================== *)
Lemma sorted_prefix_decomp p : forall S, sorted_lt S ->
  exists A M B, S = A ++ M ++ B /\
    Forall (fun s => is_prefix p s = false) A /\
    Forall (fun s => is_prefix p s = true) M /\
    Forall (fun s => is_prefix p s = false) B.
Proof.
  induction S as [|s r IH]; intros Hs.
  - exists [], [], []. repeat split; constructor.
  - destruct (IH (sorted_tail _ _ Hs)) as (A & M & B & E & HA & HM & HB).
    destruct (is_prefix p s) eqn:Es.
    + destruct A as [|a A'].
      * exists [], (s :: M), B. cbn [app] in *. subst r. repeat split; auto.
      * (* s matches, a (the next) does not: nothing after matches *)
        exists [], [s], r. cbn [app]. repeat split; auto.
        pose proof (Forall_inv HA) as Ea. cbv beta in Ea.
        subst r. cbn [app] in *. apply Forall_forall. intros u Hu.
        destruct Hu as [<-|Hu]; [exact Ea|].
        exact (no_match_after p s a _ Hs Es Ea u Hu).
    + exists (s :: A), M, B. subst r. repeat split; auto.
Qed.

Lemma ids_where_app f : forall A B i,
  ids_where f (A ++ B) i = ids_where f A i ++ ids_where f B (i + lenN A).
Proof.
  induction A as [|a A IH]; intros B i; cbn [app ids_where].
  - rewrite lenN_nil, N.add_0_r. reflexivity.
  - rewrite IH, lenN_cons. replace (i + 1 + lenN A) with (i + (1 + lenN A)) by lia.
    destruct (f a); reflexivity.
Qed.

Lemma ids_where_all f : forall M i, Forall (fun s => f s = true) M ->
  ids_where f M i = nrange i (length M).
Proof.
  induction M as [|s M IH]; intros i H; cbn [ids_where nrange length]; [reflexivity|].
  rewrite (Forall_inv H). rewrite IH by exact (Forall_inv_tail H). reflexivity.
Qed.

Lemma ids_where_none' f A i : Forall (fun s => f s = false) A -> ids_where f A i = [].
Proof. intros H. apply ids_where_none. apply Forall_forall. exact H. Qed.

Lemma ids_where_decomp f A M B :
  Forall (fun s => f s = false) A -> Forall (fun s => f s = true) M -> Forall (fun s => f s = false) B ->
  ids_where f (A ++ M ++ B) 1 = nrange (1 + lenN A) (length M).
Proof.
  intros HA HM HB. rewrite !ids_where_app, (ids_where_none' f A), (ids_where_none' f B) by assumption.
  rewrite app_nil_r. cbn [app]. apply ids_where_all. exact HM.
Qed.

Lemma filter_none {X} (f : X -> bool) A : Forall (fun s => f s = false) A -> filter f A = [].
Proof. induction 1 as [|a A Ha _ IH]; cbn [filter]; [reflexivity|]. rewrite Ha. exact IH. Qed.

Lemma filter_all {X} (f : X -> bool) M : Forall (fun s => f s = true) M -> filter f M = M.
Proof. induction 1 as [|a A Ha _ IH]; cbn [filter]; [reflexivity|]. rewrite Ha, IH. reflexivity. Qed.

Lemma filter_decomp {X} (f : X -> bool) A M B :
  Forall (fun s => f s = false) A -> Forall (fun s => f s = true) M -> Forall (fun s => f s = false) B ->
  filter f (A ++ M ++ B) = M.
Proof.
  intros HA HM HB. rewrite !filter_app, (filter_none f A), (filter_none f B), (filter_all f M) by assumption.
  rewrite app_nil_r. reflexivity.
Qed.

(* string number j of a decomposed list *)
Lemma snth_decomp (A M B : list str) j :
  (j < lenN A -> In (snth (A ++ M ++ B) j) A) /\
  (lenN A <= j -> j < lenN A + lenN M -> In (snth (A ++ M ++ B) j) M) /\
  (lenN A + lenN M <= j -> j < lenN A + lenN M + lenN B -> In (snth (A ++ M ++ B) j) B).
Proof.
  unfold snth, lenN. repeat split; intros.
  - rewrite app_nth1 by lia. apply nth_In. lia.
  - rewrite app_nth2 by lia. rewrite app_nth1 by lia. apply nth_In. lia.
  - rewrite app_nth2 by lia. rewrite app_nth2 by lia. apply nth_In. lia.
Qed.

(* certificates for the answer: the first and the last matching index *)
Theorem range_cert S p lo hi : sorted_lt S -> lo <= hi -> hi < lenN S ->
  is_prefix p (snth S lo) = true -> is_prefix p (snth S hi) = true ->
  (lo = 0 \/ is_prefix p (snth S (lo - 1)) = false) ->
  (hi + 1 = lenN S \/ is_prefix p (snth S (hi + 1)) = false) ->
  range_of (spec_prefix_ids S p) = (lo + 1, hi + 1).
Proof.
  intros Hs Hlh Hhi Mlo Mhi Blo Bhi.
  destruct (sorted_prefix_decomp p S Hs) as (A & M & B & E & HA & HM & HB).
  unfold spec_prefix_ids. rewrite E in *. rewrite ids_where_decomp by assumption.
  rewrite Forall_forall in HA, HM, HB.
  rewrite !lenN_app in Hhi.
  assert (Hin : forall j, (j < lenN A -> is_prefix p (snth (A ++ M ++ B) j) = false) /\
                          (lenN A <= j -> j < lenN A + lenN M -> is_prefix p (snth (A ++ M ++ B) j) = true) /\
                          (lenN A + lenN M <= j -> j < lenN A + lenN M + lenN B ->
                           is_prefix p (snth (A ++ M ++ B) j) = false)).
  { intros j. destruct (snth_decomp A M B j) as (H1 & H2 & H3). repeat split; intros.
    - apply HA, H1; assumption.
    - apply HM, H2; assumption.
    - apply HB, H3; assumption. }
  assert (L1 : lenN A <= lo).
  { destruct (N.lt_ge_cases lo (lenN A)) as [H|H]; [|exact H].
    rewrite (proj1 (Hin lo) H) in Mlo. discriminate. }
  assert (L2 : lo < lenN A + lenN M).
  { destruct (N.lt_ge_cases lo (lenN A + lenN M)) as [H|H]; [exact H|].
    rewrite (proj2 (proj2 (Hin lo)) H ltac:(lia)) in Mlo. discriminate. }
  assert (L3 : hi < lenN A + lenN M).
  { destruct (N.lt_ge_cases hi (lenN A + lenN M)) as [H|H]; [exact H|].
    rewrite (proj2 (proj2 (Hin hi)) H ltac:(lia)) in Mhi. discriminate. }
  assert (L4 : lo = lenN A).
  { destruct Blo as [->|Blo]; [lia|].
    destruct (N.eq_dec lo (lenN A)) as [H|H]; [exact H|].
    rewrite (proj1 (proj2 (Hin (lo - 1))) ltac:(lia) ltac:(lia)) in Blo. discriminate. }
  assert (L5 : hi + 1 = lenN A + lenN M).
  { destruct (N.eq_dec (hi + 1) (lenN A + lenN M)) as [H|H]; [exact H|].
    destruct Bhi as [Bhi|Bhi].
    - rewrite !lenN_app in Bhi.
      assert (HB0 : 0 < lenN B) by lia.
      (* then some index in the M range beyond hi ... impossible: hi+1 is the end *)
      lia.
    - rewrite (proj1 (proj2 (Hin (hi + 1))) ltac:(lia) ltac:(lia)) in Bhi. discriminate. }
  assert (Hm : length M = Datatypes.S (N.to_nat (hi - lo))) by (unfold lenN in *; lia).
  rewrite Hm, range_of_nrange. f_equal; lia.
Qed.

Theorem none_cert S p : (forall j, j < lenN S -> is_prefix p (snth S j) = false) ->
  range_of (spec_prefix_ids S p) = (0, 0).
Proof.
  intros H. unfold spec_prefix_ids. rewrite ids_where_none; [reflexivity|].
  intros u Hu. destruct (In_nth S u [] Hu) as (n & Hn & E).
  specialize (H (N.of_nat n) ltac:(unfold lenN; lia)).
  unfold snth in H. rewrite Nat2N.id, E in H. exact H.
Qed.

(* ====================================================================== *)
(* 5. reading the dictionary, by index                                     *)
(* ====================================================================== *)
(* the front-coded entry of string i+1: its VByte is the lcp with string i, and
   decodeNextString rebuilds string i+1 from string i *)
Lemma stream_read b S i :
  Forall nul_free S -> Forall (fun s => lenN s < 2 ^ 32) S ->
  i + 1 < lenN S -> (i + 1) mod b <> 0 ->
  let l := lcp (snth S i) (snth S (i + 1)) in
  vb_at (enc_stream b 0 [] S) (soff b S (i + 1)) = Some (l, lenN (vb_encode l)) /\
  decode_next (enc_stream b 0 [] S) (soff b S (i + 1) + lenN (vb_encode l)) l (snth S i) =
    Some (soff b S (i + 1 + 1), snth S (i + 1)).
Proof.
  intros Hnf Hlen Hi Hm l.
  pose proof (stream_step b S i Hnf Hlen Hi Hm) as Hstep.
  assert (Ev : vb_at (enc_stream b 0 [] S) (soff b S (i + 1)) = Some (l, lenN (vb_encode l))).
  { rewrite (stream_split b S (i + 1) Hi). rewrite last_firstN_succ by lia.
    unfold enc_one. destruct (N.eqb_spec ((i + 1) mod b) 0) as [E|_]; [contradiction|].
    unfold enc_internal. fold l. rewrite <- !app_assoc. unfold soff. apply vb_at_app.
    rewrite Forall_forall in Hlen. pose proof (Hlen _ (snth_In S (i + 1) Hi)) as H1. cbv beta in H1.
    pose proof (LexLemmas.lcp_le_r (snth S i) (snth S (i + 1))). fold l in H. lia. }
  split; [exact Ev|]. unfold decode_step in Hstep. rewrite Ev in Hstep. exact Hstep.
Qed.

Lemma mul_pred_succ k b : 1 <= k -> k * b = (k - 1) * b + b.
Proof. intros H. replace k with (k - 1 + 1) at 1 by lia. rewrite N.mul_add_distr_r. lia. Qed.

(* everything the prefix search needs to know about bucket k, with the multiplication hidden:
   the bucket holds the strings number base .. E-1 *)
Lemma bucket_facts d b S k : layout_ok d b S -> 1 <= b -> Forall nul_free S ->
  1 <= k <= p_buckets d ->
  exists base E, base = (k - 1) * b /\ base mod b = 0 /\ base < E /\ E <= base + b /\ E <= lenN S /\
    scanneable_of d k = E - base /\
    get_header d k = Some (soff b S (base + 1), snth S base) /\
    (E < lenN S -> E = base + b /\ k + 1 <= p_buckets d) /\
    (k < p_buckets d -> E = base + b /\ E < lenN S).
Proof.
  intros HL Hb Hnf Hk.
  destruct (get_header_spec_gen d b S HL Hb Hnf k Hk) as (Hlt & _ & Eh & _).
  pose proof (scanneable_spec d b S k HL Hb Hk) as Esc.
  assert (Hlen : lenN (chunk_rest S b k) = N.min (b - 1) (lenN S - ((k - 1) * b + 1))).
  { unfold chunk_rest, lenN. rewrite firstn_length, skipn_length. lia. }
  pose proof (layout_buckets d b S HL Hb (k + 1) ltac:(lia)) as Hnext.
  rewrite N.add_sub in Hnext. rewrite (mul_pred_succ k b ltac:(lia)) in Hnext.
  pose proof (bucket_base_mod k b ltac:(lia)) as Hmod.
  rewrite Esc, Hlen. clear Esc Hlen. revert Hlt Eh Hnext Hmod. generalize ((k - 1) * b). intros base Hlt Eh Hnext Hmod.
  exists base, (base + N.min b (lenN S - base)).
  repeat split; try lia; try assumption.
Qed.

(* strncmp on the header of bucket k computes its class *)
Lemma strncmp_hdr d b S p k : layout_ok d b S -> 1 <= b -> Forall nul_free S -> nul_free p ->
  1 <= k <= p_buckets d ->
  strncmp_at d k p = Some (pcls p (snth S ((k - 1) * b))).
Proof.
  intros HL Hb Hnf Hnp Hk.
  assert (Hlt : (k - 1) * b < lenN S) by (apply (layout_buckets d b S HL Hb k); lia).
  assert (Hh : hdr S b k = Some (snth S ((k - 1) * b))) by (apply nthN_snth; exact Hlt).
  destruct (bucket_at d b S k _ HL Hb ltac:(lia) Hh) as (off & tail & Eo & [Hle Hs]).
  unfold strncmp_at. rewrite Eo. destruct (N.leb_spec off (lenN (p_text d))); [|lia].
  rewrite Hs. apply c_strncmp_spec; [|exact Hnp].
  rewrite Forall_forall in Hnf. apply Hnf. apply snth_In. exact Hlt.
Qed.

(* ====================================================================== *)
(* 6. searchPrefix and searchDistinctPrefix inside one bucket              *)
(* ====================================================================== *)
Section BucketScan.
  Variables (d : pfc) (b : N) (S : list str) (p : str).
  Hypothesis HL : layout_ok d b S.
  Hypothesis Hb : 1 <= b.
  Hypothesis Hnf : Forall nul_free S.
  Hypothesis Hlen : Forall (fun s => lenN s < 2 ^ 32) S.
  Hypothesis Hsort : sorted_lt S.
  Hypothesis Hnp : nul_free p.
  (* the bucket: strings number base .. E-1 *)
  Variables (base E : N).
  Hypothesis Hbase : base mod b = 0.
  Hypothesis HE1 : E <= base + b.
  Hypothesis HE2 : E <= lenN S.

  Let nomatch (j : N) : Prop := is_prefix p (snth S j) = false.

  Lemma in_bucket_mod i : base <= i -> i + 1 < E -> (i + 1) mod b <> 0.
  Proof.
    intros H1 H2. replace (i + 1) with (base + (i + 1 - base)) by lia.
    rewrite mod_of_zero_plus by (auto; lia). lia.
  Qed.

  Lemma snth_nul_free i : i < lenN S -> nul_free (snth S i).
  Proof. intros H. rewrite Forall_forall in Hnf. apply Hnf, snth_In, H. Qed.

  (* searchPrefix entered at string i of the bucket (decoded = string i, *ptr after it,
     id = its 1-based position, sharedCurr = s symbols already known to be shared with p):
     it finds the first string of the bucket at or after i that has the prefix *)
  Lemma search_prefix_spec : forall (n : nat) i fuel s,
    base <= i -> i < E -> N.to_nat (E - 1 - i) = n -> (n < fuel)%nat ->
    s <= lcp (snth S i) p ->
    (forall j, base <= j -> j < i -> nomatch j) ->
    exists r ptr' dec',
      search_prefix fuel d p (E - base) (soff b S (i + 1)) (snth S i) s (i - base + 1) = Some (r, ptr', dec') /\
      ((r = 0 /\ forall j, base <= j -> j < E -> nomatch j) \/
       (exists j, i <= j /\ j < E /\ r = j - base + 1 /\ ptr' = soff b S (j + 1) /\ dec' = snth S j /\
                  is_prefix p (snth S j) = true /\ forall j', base <= j' -> j' < j -> nomatch j')).
  Proof.
    induction n as [|n IH]; intros i fuel s Hi1 Hi2 Hn Hf Hs Hprev;
      (destruct fuel as [|f]; [lia|]); cbn [search_prefix].
    all: pose proof (LexLemmas.lcp_le_l (snth S i) p) as Hl1;
         pose proof (LexLemmas.lcp_le_r (snth S i) p) as Hl2.
    all: destruct (N.leb_spec s (lenN (snth S i))); [|lia].
    all: destruct (cmp_from0_spec (snth S i) p s (snth_nul_free i ltac:(lia)) Hnp Hs) as (z & Ec & Hsgn);
         rewrite Ec.
    all: destruct (N.eqb_spec (lcp (snth S i) p) (lenN p)) as [Efound|Enf].
    1,3: (eexists _, _, _; split; [reflexivity|]; right; exists i;
          repeat split; auto; try lia; apply is_prefix_lcp'; exact Efound).
    all: assert (Hnm : nomatch i)
           by (unfold nomatch; destruct (is_prefix p (snth S i)) eqn:Ei; [apply is_prefix_lcp' in Ei; contradiction|reflexivity]).
    all: specialize (Hsgn ltac:(lia)).
    - (* last string of the bucket *)
      assert (Hor : ((0 <? z)%Z || (E - base <? i - base + 1 + 1)) = true).
      { destruct (N.ltb_spec (E - base) (i - base + 1 + 1)); [apply orb_true_r|lia]. }
      rewrite Hor. eexists _, _, _; split; [reflexivity|]. left. split; [reflexivity|].
      intros j Hj1 Hj2. destruct (N.eq_dec j i) as [->|Hne]; [exact Hnm|apply Hprev; lia].
    - destruct (Z.ltb_spec 0 z) as [Hz|Hz]; cbn [orb].
      + (* the current string is already above the pattern *)
        destruct Hsgn as [[_ Hgt]|[Hz' _]]; [|lia].
        eexists _, _, _; split; [reflexivity|]. left. split; [reflexivity|].
        intros j Hj1 Hj2. destruct (N.lt_ge_cases j i) as [Hlt|Hge]; [apply Hprev; assumption|].
        apply (nomatch_after S p i j Hsort Hge ltac:(lia)).
        unfold pcls. unfold nomatch in Hnm. rewrite Hnm. exact Hgt.
      + destruct Hsgn as [[Hz' _]|[_ Hlt]]; [lia|].
        destruct (N.ltb_spec (E - base) (i - base + 1 + 1)); [lia|].
        assert (Hi3 : i + 1 < E) by lia.
        destruct (stream_read b S i Hnf Hlen ltac:(lia) (in_bucket_mod i Hi1 Hi3)) as [Ev Ed].
        cbv zeta in Ev, Ed. rewrite (layout_text d b S HL Hb). rewrite Ev.
        assert (Hii : lex_lt (snth S i) (snth S (i + 1))) by (apply snth_lt; auto; lia).
        destruct (N.ltb_spec (lcp (snth S i) (snth S (i + 1))) (lcp (snth S i) p)) as [Hsh|Hsh].
        * (* fewer shared symbols: the next string is above p and does not have the prefix *)
          eexists _, _, _; split; [reflexivity|]. left. split; [reflexivity|].
          intros j Hj1 Hj2. destruct (N.lt_ge_cases j i) as [Hlti|Hge]; [apply Hprev; assumption|].
          destruct (N.eq_dec j i) as [->|Hne]; [exact Hnm|].
          apply (nomatch_after S p (i + 1) j Hsort ltac:(lia) ltac:(lia)).
          assert (Hnm1 : is_prefix p (snth S (i + 1)) = false).
          { destruct (is_prefix p (snth S (i + 1))) eqn:E1; [|reflexivity].
            apply is_prefix_lcp in E1.
            pose proof (lcp_min p (snth S i) (snth S (i + 1))) as Hmin.
            rewrite (lcp_comm p (snth S i)) in Hmin. lia. }
          unfold pcls. rewrite Hnm1. apply lex_gt_lt.
          apply (scan_trick_lt (snth S i) p (snth S (i + 1)) Hlt Hii Hsh).
        * rewrite Ed.
          destruct (IH (i + 1) f (lcp (snth S i) p) ltac:(lia) Hi3 ltac:(lia) ltac:(lia)) as (r & ptr' & dec' & Er & Hr).
          { pose proof (lcp_min (snth S i) (snth S (i + 1)) p). lia. }
          { intros j Hj1 Hj2. destruct (N.eq_dec j i) as [->|Hne]; [exact Hnm|apply Hprev; lia]. }
          replace (i - base + 1 + 1) with (i + 1 - base + 1) by lia.
          rewrite Er.
          exists r, ptr', dec'. split; [reflexivity|].
          destruct Hr as [Hr|(j & Hj1 & Hj2 & Hr)]; [left; exact Hr|].
          right. exists j. split; [lia|]. split; [exact Hj2|exact Hr].
  Qed.

  (* searchDistinctPrefix entered after string j (which has the prefix), id = loop counter,
     scanneable = how many strings of the bucket are left to look at (+ id - 1): it counts the
     run of strings that still have the prefix *)
  Lemma search_distinct_spec : forall (n : nat) j fuel id sc,
    base <= j -> j < E -> N.to_nat (E - 1 - j) = n -> (n < fuel)%nat ->
    sc + 1 + j + 1 = E + id -> 1 <= id ->
    is_prefix p (snth S j) = true ->
    exists j', j <= j' /\ j' < E /\
      search_distinct fuel d (lenN p) sc (soff b S (j + 1)) (snth S j) id = Some (id + (j' - j)) /\
      is_prefix p (snth S j') = true /\ (j' + 1 < E -> nomatch (j' + 1)).
  Proof.
    induction n as [|n IH]; intros j fuel id sc Hj1 Hj2 Hn Hf Hsc Hid Hm;
      (destruct fuel as [|f]; [lia|]); cbn [search_distinct].
    - destruct (N.leb_spec id sc); [lia|].
      exists j. repeat split; auto; try lia. f_equal. lia.
    - destruct (N.leb_spec id sc); [|lia].
      assert (Hj3 : j + 1 < E) by lia.
      destruct (stream_read b S j Hnf Hlen ltac:(lia) (in_bucket_mod j Hj1 Hj3)) as [Ev Ed].
      cbv zeta in Ev, Ed. rewrite (layout_text d b S HL Hb). rewrite Ev.
      pose proof (prefix_next p (snth S j) (snth S (j + 1)) Hm) as Hnext.
      destruct (N.ltb_spec (lcp (snth S j) (snth S (j + 1))) (lenN p)) as [Hsh|Hsh].
      + exists j. repeat split; auto; try lia; [f_equal; lia|].
        intros _. unfold nomatch. destruct (is_prefix p (snth S (j + 1))); [|reflexivity].
        pose proof (proj1 Hnext eq_refl). lia.
      + rewrite Ed.
        destruct (IH (j + 1) f (id + 1) sc ltac:(lia) Hj3 ltac:(lia) ltac:(lia) ltac:(lia) ltac:(lia)
                    (proj2 Hnext Hsh)) as (j' & H1 & H2 & Er & H3 & H4).
        exists j'. split; [lia|]. split; [exact H2|]. split; [rewrite Er; f_equal; lia|]. split; assumption.
  Qed.
End BucketScan.

(* ====================================================================== *)
(* 7. locateBoundaryBuckets against an abstract monotone classification    *)
(* ====================================================================== *)
Section BoundarySearch.
  Variables (d : pfc) (p : str) (m : N) (cl : N -> comparison).
  Hypothesis Hm : p_buckets d = m.
  Hypothesis Hcmp : forall k, 1 <= k -> k <= m -> strncmp_at d k p = Some (cl k).
  Hypothesis HLt : forall j k, 1 <= j -> j < k -> k <= m -> cl k = Lt -> cl j = Lt.
  Hypothesis HGt : forall j k, 1 <= j -> j < k -> k <= m -> cl j = Gt -> cl k = Gt.

  (* between two Eq everything is Eq *)
  Lemma cl_between i j k : 1 <= i -> i <= j -> j <= k -> k <= m -> cl i = Eq -> cl k = Eq -> cl j = Eq.
  Proof.
    intros H1 H2 H3 H4 Ei Ek.
    destruct (N.eq_dec i j) as [<-|N1]; [exact Ei|]. destruct (N.eq_dec j k) as [->|N2]; [exact Ek|].
    destruct (cl j) eqn:Ej; [reflexivity| |].
    - rewrite (HLt i j ltac:(lia) ltac:(lia) ltac:(lia) Ej) in Ei. discriminate.
    - rewrite (HGt j k ltac:(lia) ltac:(lia) ltac:(lia) Ej) in Ek. discriminate.
  Qed.

  Definition main_post (r : N * N * N * comparison) : Prop :=
    let '(l', r', c', cmp') := r in
    match cmp' with
    | Eq => 1 <= l' /\ l' <= c' /\ c' <= r' /\ r' <= m /\ cl c' = Eq /\
            (forall j, 1 <= j -> j < l' -> cl j = Lt) /\ (forall j, r' < j -> j <= m -> cl j = Gt)
    | Lt => c' <= m /\ (forall j, 1 <= j -> j <= c' -> cl j = Lt) /\ (forall j, c' < j -> j <= m -> cl j = Gt)
    | Gt => 1 <= c' /\ c' - 1 <= m /\
            (forall j, 1 <= j -> j <= c' - 1 -> cl j = Lt) /\ (forall j, c' - 1 < j -> j <= m -> cl j = Gt)
    end.

  Lemma lbb_main_spec : forall fuel l r center cmp,
    1 <= l -> r <= m -> l <= r + 1 -> (N.to_nat (r + 1 - l) < fuel)%nat ->
    (forall j, 1 <= j -> j < l -> cl j = Lt) ->
    (forall j, r < j -> j <= m -> cl j = Gt) ->
    (r < l -> (cmp = Lt /\ center = r) \/ (cmp = Gt /\ center = r + 1)) ->
    exists res, lbb_main fuel d p l r center cmp = Some res /\ main_post res.
  Proof.
    induction fuel as [|f IH]; intros l r center cmp Hl Hr Hlr Hfuel Hlo Hhi Hexit; [lia|].
    cbn [lbb_main]. destruct (N.leb_spec l r) as [Hle|Hgt].
    - set (c := (l + r) / 2).
      assert (Hc : l <= c <= r) by (unfold c; lia).
      rewrite (Hcmp c ltac:(lia) ltac:(lia)).
      destruct (cl c) eqn:Ec.
      + eexists. split; [reflexivity|]. cbn. repeat split; auto; lia.
      + apply IH; try lia.
        * intros j Hj1 Hj2. destruct (N.eq_dec j c) as [->|Hne]; [exact Ec|].
          apply (HLt j c); auto; lia.
        * intros j Hj1 Hj2. apply Hhi; lia.
        * intros Hx. left. split; [reflexivity|lia].
      + apply IH; try lia.
        * intros j Hj1 Hj2. apply Hlo; lia.
        * intros j Hj1 Hj2. destruct (N.eq_dec j c) as [->|Hne]; [exact Ec|].
          apply (HGt c j); auto; lia.
        * intros Hx. right. split; [reflexivity|lia].
    - eexists. split; [reflexivity|]. cbn.
      destruct (Hexit Hgt) as [[-> ->]|[-> ->]].
      + repeat split; auto. intros j Hj1 Hj2. apply Hlo; lia.
      + rewrite N.add_sub. repeat split; auto; try lia. intros j Hj1 Hj2. apply Hlo; lia.
  Qed.

  (* left boundary: c is a bucket of class Eq *)
  Lemma lbb_left_spec c : c <= m -> cl c = Eq -> forall fuel ll lr,
    1 <= ll -> ll <= lr + 1 -> lr < c -> (N.to_nat (lr + 1 - ll) < fuel)%nat ->
    (forall j, 1 <= j -> j < ll -> cl j = Lt) ->
    (forall j, lr < j -> j <= c -> cl j = Eq) ->
    exists res, lbb_left fuel d p ll lr = Some res /\ res < c /\
      (forall j, 1 <= j -> j <= res -> cl j = Lt) /\ (forall j, res < j -> j <= c -> cl j = Eq).
  Proof.
    intros Hcm Ec. induction fuel as [|f IH]; intros ll lr Hl Hlr Hr Hfuel Hlo Hhi; [lia|].
    cbn [lbb_left]. destruct (N.leb_spec ll lr) as [Hle|Hgt].
    - set (lc := (ll + lr) / 2).
      assert (Hc : ll <= lc <= lr) by (unfold lc; lia).
      rewrite (Hcmp lc ltac:(lia) ltac:(lia)).
      assert (Hnotgt : cl lc <> Gt).
      { intros E. rewrite (HGt lc c ltac:(lia) ltac:(lia) Hcm E) in Ec. discriminate. }
      assert (HEq : cl lc = Eq -> exists res, lbb_left f d p ll (lc - 1) = Some res /\ res < c /\
                (forall j, 1 <= j -> j <= res -> cl j = Lt) /\ (forall j, res < j -> j <= c -> cl j = Eq)).
      { intros E. apply IH; try lia. exact Hlo.
        intros j Hj1 Hj2. apply (cl_between lc j c); auto; lia. }
      assert (HNe : cl lc = Lt -> exists res, lbb_left f d p (lc + 1) lr = Some res /\ res < c /\
                (forall j, 1 <= j -> j <= res -> cl j = Lt) /\ (forall j, res < j -> j <= c -> cl j = Eq)).
      { intros E. apply IH; try lia; [|exact Hhi].
        intros j Hj1 Hj2. destruct (N.eq_dec j lc) as [->|Hne]; [exact E|].
        apply (HLt j lc); auto; lia. }
      destruct (cl lc); [apply HEq; reflexivity|apply HNe; reflexivity|congruence].
    - exists lr. split; [reflexivity|]. split; [exact Hr|]. split.
      + intros j Hj1 Hj2. apply Hlo; lia.
      + exact Hhi.
  Qed.

  (* right boundary *)
  Lemma lbb_right_spec : forall fuel rl rr,
    1 <= rl -> rl < rr -> rr <= m + 1 -> (N.to_nat (rr - rl) < fuel)%nat ->
    cl rl = Eq -> (forall j, rr <= j -> j <= m -> cl j = Gt) ->
    exists res, lbb_right fuel d p rl rr = Some res /\ rl <= res /\ res <= m /\ cl res = Eq /\
      (forall j, res < j -> j <= m -> cl j = Gt).
  Proof.
    induction fuel as [|f IH]; intros rl rr Hl Hlr Hr Hfuel Erl Hhi; [lia|].
    cbn [lbb_right]. destruct (N.ltb_spec rl (rr - 1)) as [Hlt|Hge].
    - set (rc := (rl + rr) / 2).
      assert (Hc : rl < rc < rr) by (unfold rc; lia).
      rewrite (Hcmp rc ltac:(lia) ltac:(lia)).
      assert (Hnotlt : cl rc <> Lt).
      { intros E. rewrite (HLt rl rc ltac:(lia) ltac:(lia) ltac:(lia) E) in Erl. discriminate. }
      assert (HEq : cl rc = Eq -> exists res, lbb_right f d p rc rr = Some res /\ rl <= res /\ res <= m /\
                cl res = Eq /\ (forall j, res < j -> j <= m -> cl j = Gt)).
      { intros E. destruct (IH rc rr ltac:(lia) ltac:(lia) Hr ltac:(lia) E Hhi) as (res & H1 & H2 & H3).
        exists res. split; [exact H1|]. split; [lia|exact H3]. }
      assert (HNe : cl rc = Gt -> exists res, lbb_right f d p rl rc = Some res /\ rl <= res /\ res <= m /\
                cl res = Eq /\ (forall j, res < j -> j <= m -> cl j = Gt)).
      { intros E. apply IH; try lia; [exact Erl|].
        intros j Hj1 Hj2. destruct (N.eq_dec j rc) as [->|Hne]; [exact E|].
        apply (HGt rc j); auto; lia. }
      destruct (cl rc); [apply HEq; reflexivity|congruence|apply HNe; reflexivity].
    - exists rl. split; [reflexivity|]. repeat split; auto; try lia.
      intros j Hj1 Hj2. apply Hhi; lia.
  Qed.

  (* the outcome: either some header has the prefix (fE .. lE are exactly the buckets whose
     header has it; left = the bucket before fE, or 1; right = lE), or none has and
     left = right = the last bucket whose header is below p (0 if none) *)
  Definition lbb_post (L R : N) : Prop :=
    (exists fE lE, 1 <= fE /\ fE <= lE /\ lE <= m /\
       (forall j, 1 <= j -> j < fE -> cl j = Lt) /\ (forall j, fE <= j -> j <= lE -> cl j = Eq) /\
       (forall j, lE < j -> j <= m -> cl j = Gt) /\
       L = (if fE =? 1 then 1 else fE - 1) /\ R = lE) \/
    (L = R /\ R <= m /\ (forall j, 1 <= j -> j <= R -> cl j = Lt) /\ (forall j, R < j -> j <= m -> cl j = Gt)).

  Theorem locate_boundary_buckets_abs : 1 <= m ->
    exists L R, locate_boundary_buckets d p = Some (L, R) /\ lbb_post L R.
  Proof.
    intros Hm1. unfold locate_boundary_buckets. rewrite Hm.
    destruct (lbb_main_spec (Datatypes.S (Datatypes.S (N.to_nat m))) 1 m 0 Eq) as ([[[l r] c] cmp] & Em & Hpost);
      try lia.
    rewrite Em. unfold main_post in Hpost. destruct cmp.
    - destruct Hpost as (H1 & H2 & H3 & H4 & Ec & Hlo & Hhi).
      (* left boundary *)
      assert (HLeft : exists lb fE, (if 1 <? c then
                 match lbb_left (Datatypes.S (Datatypes.S (N.to_nat m))) d p l (c - 1) with
                 | None => None | Some lr => Some (if 0 <? lr then lr else 1) end
               else Some l) = Some lb /\ 1 <= fE /\ fE <= c /\
               (forall j, 1 <= j -> j < fE -> cl j = Lt) /\ (forall j, fE <= j -> j <= c -> cl j = Eq) /\
               lb = (if fE =? 1 then 1 else fE - 1)).
      { destruct (N.ltb_spec 1 c) as [Hc1|Hc1].
        - destruct (lbb_left_spec c ltac:(lia) Ec (Datatypes.S (Datatypes.S (N.to_nat m))) l (c - 1))
            as (res & Er & Hres & Hl1 & Hl2); try lia; auto.
          { intros j Hj1 Hj2. assert (j = c) by lia. subst j. exact Ec. }
          rewrite Er. eexists. exists (res + 1). split; [reflexivity|].
          split; [lia|]. split; [lia|]. split; [intros j Hj1 Hj2; apply Hl1; lia|].
          split; [intros j Hj1 Hj2; apply Hl2; lia|].
          destruct (N.ltb_spec 0 res); destruct (N.eqb_spec (res + 1) 1); lia.
        - eexists. exists 1. split; [reflexivity|]. assert (c = 1) by lia. assert (l = 1) by lia. subst c l.
          split; [lia|]. split; [lia|]. split; [intros; lia|].
          split; [intros j Hj1 Hj2; assert (j = 1) by lia; subst j; exact Ec|reflexivity]. }
      assert (HRight : exists lE, (if c <? m then lbb_right (Datatypes.S (Datatypes.S (N.to_nat m))) d p c (r + 1)
                                   else Some r) = Some lE /\ c <= lE /\ lE <= m /\ cl lE = Eq /\
                                  (forall j, lE < j -> j <= m -> cl j = Gt)).
      { destruct (N.ltb_spec c m) as [Hcm|Hcm].
        - apply lbb_right_spec; try lia; auto. intros j Hj1 Hj2. apply Hhi; lia.
        - exists r. split; [reflexivity|]. assert (c = m) by lia. assert (r = m) by lia. subst c r.
          repeat split; auto; try lia. }
      destruct HLeft as (lb & fE & El & Hf1 & Hf2 & Hf3 & Hf4 & Hlb).
      destruct HRight as (lE & Er & Hr1 & Hr2 & Hr3 & Hr4).
      rewrite El, Er. exists lb, lE. split; [reflexivity|]. left. exists fE, lE.
      repeat split; auto; try lia.
      intros j Hj1 Hj2. destruct (N.le_gt_cases j c) as [Hjc|Hjc]; [apply Hf4; assumption|].
      apply (cl_between c j lE); auto; lia.
    - destruct Hpost as (H1 & H2 & H3). exists c, c. split; [reflexivity|]. right. repeat split; auto.
    - destruct Hpost as (H1 & H2 & H3 & H4). exists (c - 1), (c - 1). split; [reflexivity|]. right.
      repeat split; auto.
  Qed.
End BoundarySearch.

(* ====================================================================== *)
(* 8. locateBoundaryBuckets on the dictionary                              *)
(* ====================================================================== *)
(* class of the header of bucket k *)
Definition hcls (b : N) (S : list str) (p : str) (k : N) : comparison := pcls p (snth S ((k - 1) * b)).

Lemma layout_buckets_pos d b S : layout_ok d b S -> 1 <= b -> S <> [] -> 1 <= p_buckets d.
Proof.
  intros HL Hb Hne. apply (layout_buckets d b S HL Hb 1); [lia|].
  destruct S; [congruence|]. rewrite lenN_cons. lia.
Qed.

Theorem locate_boundary_buckets_spec_gen d b S p :
  layout_ok d b S -> 1 <= b -> S <> [] -> Forall nul_free S -> sorted_lt S -> nul_free p ->
  exists L R, locate_boundary_buckets d p = Some (L, R) /\ lbb_post (p_buckets d) (hcls b S p) L R.
Proof.
  intros HL Hb Hne Hnf Hsort Hnp.
  assert (Hidx : forall k, 1 <= k -> k <= p_buckets d -> (k - 1) * b < lenN S).
  { intros k H1 H2. apply (layout_buckets d b S HL Hb k); lia. }
  apply (locate_boundary_buckets_abs d p (p_buckets d) (hcls b S p) eq_refl).
  - intros k H1 H2. apply (strncmp_hdr d b S p k HL Hb Hnf Hnp). lia.
  - intros j k H1 H2 H3 Hc. unfold hcls in *.
    apply (cls_before S p ((k - 1) * b) ((j - 1) * b) Hsort);
      [apply N.mul_le_mono_r; lia|apply Hidx; lia|exact Hc].
  - intros j k H1 H2 H3 Hc. unfold hcls in *.
    apply (cls_after S p ((j - 1) * b) ((k - 1) * b) Hsort);
      [apply N.mul_le_mono_r; lia|apply Hidx; lia|exact Hc].
  - apply (layout_buckets_pos d b S HL Hb Hne).
Qed.

Theorem locate_boundary_buckets_spec d b S p :
  layout_ok d b S -> 2 <= b -> pfc_input S -> nul_free p ->
  exists L R, locate_boundary_buckets d p = Some (L, R) /\ lbb_post (p_buckets d) (hcls b S p) L R.
Proof.
  intros HL Hb (Hne & Hnf & Hsort & _ & _) Hnp.
  apply (locate_boundary_buckets_spec_gen d b S p); auto. lia.
Qed.

(* ====================================================================== *)
(* 9. locatePrefix                                                         *)
(* ====================================================================== *)
Section Glue.
  Variables (d : pfc) (b : N) (S : list str) (p : str).
  Hypothesis HL : layout_ok d b S.
  Hypothesis Hb : 1 <= b.
  Hypothesis Hnf : Forall nul_free S.
  Hypothesis Hlen : Forall (fun s => lenN s < 2 ^ 32) S.
  Hypothesis Hsort : sorted_lt S.
  Hypothesis Hnp : nul_free p.

  (* all candidates in one bucket k: nothing before the bucket has the prefix, and the next
     header (if any) is above the pattern *)
  Lemma same_bucket_case k : 1 <= k -> k <= p_buckets d ->
    locate_boundary_buckets d p = Some (k, k) ->
    (forall j, j < (k - 1) * b -> is_prefix p (snth S j) = false) ->
    (k * b < lenN S -> pcls p (snth S (k * b)) = Gt) ->
    pfc_locate_prefix d p = Some (range_of (spec_prefix_ids S p)).
  Proof.
    intros Hk1 Hk2 Elbb Hbefore Hafter.
    pose proof HL as (_ & Ebs & _).
    unfold pfc_locate_prefix. rewrite Elbb, Ebs.
    destruct (N.ltb_spec 0 k); [|lia]. rewrite N.eqb_refl.
    rewrite (mul_pred_succ k b Hk1) in Hafter.
    destruct (bucket_facts d b S k HL Hb Hnf ltac:(lia)) as (base & E & Eb & Hmod & HbE & HE1 & HE2 & Esc & Egh & Hnext & _).
    rewrite <- Eb in *. clear Eb.
    rewrite Egh, Esc.
    destruct (search_prefix_spec d b S p HL Hb Hnf Hlen Hsort Hnp base E Hmod HE1 HE2
                (N.to_nat (E - 1 - base)) base (Datatypes.S (Datatypes.S (N.to_nat (E - base)))) 0)
      as (r & ptr' & dec' & Esp & Hsp); try lia.
    replace (base - base + 1) with 1 in Esp by lia. rewrite Esp.
    destruct Hsp as [[-> Hnone]|(j & Hj1 & Hj2 & -> & -> & -> & Hmj & Hprev)].
    - cbn [N.eqb]. f_equal. symmetry. apply none_cert.
      intros j Hj. destruct (N.lt_ge_cases j base) as [H1|H1]; [apply Hbefore; exact H1|].
      destruct (N.lt_ge_cases j E) as [H2|H2]; [apply Hnone; assumption|].
      destruct (Hnext ltac:(lia)) as [EE _]. subst E.
      apply (nomatch_after S p (base + b) j Hsort H2 Hj). apply Hafter. lia.
    - destruct (N.eqb_spec (j - base + 1) 0); [lia|].
      destruct (search_distinct_spec d b S p HL Hb Hnf Hlen base E Hmod HE1 HE2
                  (N.to_nat (E - 1 - j)) j (Datatypes.S (Datatypes.S (N.to_nat (E - base)))) 1
                  (E - base - (j - base + 1))) as (j' & H1 & H2 & Esd & Hmj' & Hnj'); try lia; auto.
      rewrite Esd. f_equal.
      rewrite (range_cert S p j j' Hsort H1 ltac:(lia) Hmj Hmj').
      + f_equal; lia.
      + destruct (N.eq_dec j base) as [->|Hne].
        * destruct (N.eq_dec base 0) as [->|Hb0]; [left; reflexivity|].
          right. apply Hbefore. lia.
        * right. apply Hprev; lia.
      + destruct (N.lt_ge_cases (j' + 1) E) as [H3|H3]; [right; apply Hnj'; exact H3|].
        assert (j' + 1 = E) by lia.
        destruct (N.eq_dec E (lenN S)) as [EE|NE]; [left; lia|].
        destruct (Hnext ltac:(lia)) as [EE _]. right.
        replace (j' + 1) with (base + b) by lia.
        apply (nomatch_after S p (base + b) (base + b) Hsort); [lia|lia|apply Hafter; lia].
  Qed.

  (* candidates spread over buckets L < R *)
  Lemma two_bucket_case L R : 1 <= L -> L < R -> R <= p_buckets d ->
    locate_boundary_buckets d p = Some (L, R) ->
    (L = 1 \/ hcls b S p L = Lt) ->
    hcls b S p (L + 1) = Eq -> hcls b S p R = Eq ->
    (R + 1 <= p_buckets d -> hcls b S p (R + 1) = Gt) ->
    pfc_locate_prefix d p = Some (range_of (spec_prefix_ids S p)).
  Proof.
    intros HL1 HLR HRm Elbb HcL HcL1 HcR HcR1.
    pose proof HL as (_ & Ebs & _).
    unfold pfc_locate_prefix. rewrite Elbb, Ebs.
    destruct (N.ltb_spec 0 L); [|lia]. destruct (N.eqb_spec L R); [lia|].
    unfold hcls in *. rewrite N.add_sub in HcL1, HcR1.
    apply pcls_Eq in HcL1, HcR.
    assert (HLb : L * b = (L - 1) * b + b) by (apply mul_pred_succ; lia).
    assert (HLRb : L * b <= (R - 1) * b) by (apply N.mul_le_mono_r; lia).
    assert (HRb : R * b = (R - 1) * b + b) by (apply mul_pred_succ; lia).
    destruct (bucket_facts d b S L HL Hb Hnf ltac:(lia)) as (baseL & EL & EbL & HmodL & HbEL & HEL1 & HEL2 & EscL & EghL & _ & HfullL).
    destruct (bucket_facts d b S R HL Hb Hnf ltac:(lia)) as (baseR & ER & EbR & HmodR & HbER & HER1 & HER2 & EscR & EghR & HnextR & _).
    destruct (HfullL ltac:(lia)) as [EEL HELn].
    assert (HbL0 : L = 1 -> baseL = 0) by (intros ->; rewrite EbL; reflexivity).
    rewrite <- EbL in *. rewrite <- EbR in *. clear EbL EbR.
    revert HcL1 HcR1 HLb HLRb HRb. generalize (L * b). generalize (R * b). intros Rb Lb HcL1 HcR1 HLb HLRb HRb.
    subst Lb Rb EL.
    rewrite EghL, EscL.
    destruct (search_prefix_spec d b S p HL Hb Hnf Hlen Hsort Hnp baseL (baseL + b) HmodL HEL1 HEL2
                (N.to_nat (baseL + b - 1 - baseL)) baseL (Datatypes.S (Datatypes.S (N.to_nat (baseL + b - baseL)))) 0)
      as (r & ptr' & dec' & Esp & Hsp); try lia.
    replace (baseL - baseL + 1) with 1 in Esp by lia. rewrite Esp.
    rewrite EghR, EscR.
    destruct (search_distinct_spec d b S p HL Hb Hnf Hlen baseR ER HmodR HER1 HER2
                (N.to_nat (ER - 1 - baseR)) baseR (Datatypes.S (Datatypes.S (N.to_nat (ER - baseR)))) 1
                (ER - baseR - 1)) as (j' & H1 & H2 & Esd & Hmj' & Hnj'); try lia; auto.
    rewrite Esd. f_equal. clear HmodL HmodR EghL EghR EscL EscR Esp Esd Elbb.
    assert (Hhi : j' + 1 = lenN S \/ is_prefix p (snth S (j' + 1)) = false).
    { destruct (N.lt_ge_cases (j' + 1) ER) as [H3|H3]; [right; apply Hnj'; exact H3|].
      assert (j' + 1 = ER) by lia.
      destruct (N.eq_dec ER (lenN S)) as [EE|NE]; [left; lia|].
      destruct (HnextR ltac:(lia)) as [EE HR1]. right.
      replace (j' + 1) with (baseR + b) by lia.
      apply (nomatch_after S p (baseR + b) (baseR + b) Hsort); [lia|lia|apply HcR1; exact HR1]. }
    destruct Hsp as [[-> Hnone]|(j & Hj1 & Hj2 & -> & -> & -> & Hmj & Hprev)].
    - (* nothing in bucket L: the first match is the header of bucket L+1 *)
      cbn [N.eqb].
      rewrite (range_cert S p (baseL + b) j' Hsort ltac:(lia) ltac:(lia) HcL1 Hmj').
      + f_equal; lia.
      + right. apply Hnone; lia.
      + exact Hhi.
    - destruct (N.eqb_spec (j - baseL + 1) 0); [lia|].
      rewrite (range_cert S p j j' Hsort ltac:(lia) ltac:(lia) Hmj Hmj').
      + f_equal; lia.
      + destruct (N.eq_dec j baseL) as [->|Hne]; [|right; apply Hprev; lia].
        destruct HcL as [HcL|HcL].
        * left. apply HbL0. exact HcL.
        * apply pcls_Lt in HcL. destruct HcL as [HcL _]. congruence.
      + exact Hhi.
  Qed.

  Hypothesis Hne : S <> [].

  Theorem pfc_locate_prefix_core : pfc_locate_prefix d p = Some (range_of (spec_prefix_ids S p)).
  Proof.
    assert (Hm1 : 1 <= p_buckets d) by (apply (layout_buckets_pos d b S HL Hb Hne)).
    assert (Hidx : forall k, 1 <= k -> k <= p_buckets d -> (k - 1) * b < lenN S).
    { intros k H1 H2. apply (layout_buckets d b S HL Hb k); lia. }
    pose proof (locate_boundary_buckets_spec_gen d b S p HL Hb Hne Hnf Hsort Hnp) as Hlbb.
    destruct Hlbb as (L & R & Elbb & [(fE & lE & Hf1 & Hf2 & Hf3 & HcLt & HcEq & HcGt & -> & ->)|(-> & HRm & HcLt & HcGt)]).
    - (* some header has the prefix *)
      destruct (N.eqb_spec fE 1) as [->|Hf].
      + destruct (N.eq_dec lE 1) as [->|Hl].
        * apply (same_bucket_case 1); [lia|exact Hm1|exact Elbb|intros j Hj; lia|].
          intros Hn. rewrite N.mul_1_l in *.
          assert (H2 : 2 <= p_buckets d)
            by (apply (layout_buckets d b S HL Hb 2); [lia|]; replace ((2 - 1) * b) with b by lia; exact Hn).
          pose proof (HcGt 2 ltac:(lia) H2) as Hc. unfold hcls in Hc.
          replace ((2 - 1) * b) with b in Hc by lia. exact Hc.
        * apply (two_bucket_case 1 lE);
            [lia|lia|lia|exact Elbb|left; reflexivity|apply HcEq; lia|apply HcEq; lia|intros H; apply HcGt; lia].
      + apply (two_bucket_case (fE - 1) lE);
          [lia|lia|lia|exact Elbb|right; apply HcLt; lia| |apply HcEq; lia|intros H; apply HcGt; lia].
        replace (fE - 1 + 1) with fE by lia. apply HcEq; lia.
    - (* no header has the prefix: single candidate bucket R *)
      destruct (N.eq_dec R 0) as [->|HR0].
      + unfold pfc_locate_prefix. rewrite Elbb. cbn [N.ltb N.compare]. f_equal. symmetry.
        apply none_cert. intros j Hj.
        pose proof (HcGt 1 ltac:(lia) Hm1) as Hc. unfold hcls in Hc.
        replace ((1 - 1) * b) with 0 in Hc by lia.
        apply (nomatch_after S p 0 j Hsort); auto. lia.
      + apply (same_bucket_case R); auto; try lia.
        * intros j Hj. pose proof (HcLt R ltac:(lia) ltac:(lia)) as Hc. unfold hcls in Hc.
          apply (nomatch_before S p ((R - 1) * b) j Hsort); auto; [lia|]. apply Hidx; lia.
        * intros Hn.
          assert (H2 : R + 1 <= p_buckets d) by (apply (layout_buckets d b S HL Hb (R + 1)); [lia|]; rewrite N.add_sub; exact Hn).
          pose proof (HcGt (R + 1) ltac:(lia) H2) as Hc. unfold hcls in Hc.
          rewrite N.add_sub in Hc. exact Hc.
  Qed.
End Glue.

(* ====================================================================== *)
(* 10. the exported theorems                                               *)
(* ====================================================================== *)
(* slightly more general than required: bucket size >= 1, any NUL-free pattern (also the
   empty one), no bound on the pattern length *)
Theorem pfc_locate_prefix_spec_gen d b S p :
  layout_ok d b S -> 1 <= b -> pfc_input S -> nul_free p ->
  pfc_locate_prefix d p = Some (range_of (spec_prefix_ids S p)).
Proof.
  intros HL Hb (Hne & Hnf & Hsort & Hlen & _) Hnp.
  apply (pfc_locate_prefix_core d b S p); assumption.
Qed.

(* 1. the limits handed to IteratorDictIDContiguous are (first matching ID, last matching ID),
      (0,0) when no member starts with p; the memory-error outcome is unreachable *)
Theorem pfc_locate_prefix_spec d b S p :
  layout_ok d b S -> 2 <= b -> pfc_input S -> p <> [] -> nul_free p -> lenN p < 2 ^ 32 ->
  pfc_locate_prefix d p = Some (range_of (spec_prefix_ids S p)).
Proof. intros HL Hb HS _ Hnp _. apply (pfc_locate_prefix_spec_gen d b S p); auto. lia. Qed.

Corollary pfc_locate_prefix_safe d b S p :
  layout_ok d b S -> 2 <= b -> pfc_input S -> p <> [] -> nul_free p -> lenN p < 2 ^ 32 ->
  pfc_locate_prefix d p <> None.
Proof. intros HL Hb HS Hp Hnp Hl. rewrite (pfc_locate_prefix_spec d b S p); auto. discriminate. Qed.

(* the specification's answer in closed form: S = A ++ M ++ B with M the matching block *)
Lemma prefix_answer S p : sorted_lt S ->
  exists A M B, S = A ++ M ++ B /\
    spec_prefix_ids S p = nrange (1 + lenN A) (length M) /\
    spec_prefix_strs S p = M /\
    range_of (spec_prefix_ids S p) =
      match M with [] => (0, 0) | _ :: M' => (1 + lenN A, 1 + lenN A + lenN M') end.
Proof.
  intros Hs. destruct (sorted_prefix_decomp p S Hs) as (A & M & B & E & HA & HM & HB).
  exists A, M, B. split; [exact E|].
  assert (Ei : spec_prefix_ids S p = nrange (1 + lenN A) (length M))
    by (unfold spec_prefix_ids; rewrite E; apply ids_where_decomp; assumption).
  split; [exact Ei|]. split.
  - unfold spec_prefix_strs. rewrite E. apply filter_decomp; assumption.
  - rewrite Ei. destruct M as [|m0 M']; [reflexivity|]. cbn [length]. apply range_of_nrange.
Qed.

(* 3. the contiguous iterator built from the limits enumerates exactly the matching IDs *)
Theorem range_ids_spec S p : sorted_lt S -> lenN S < 2 ^ 64 ->
  contig_ids (fst (range_of (spec_prefix_ids S p))) (snd (range_of (spec_prefix_ids S p))) =
  spec_prefix_ids S p.
Proof.
  intros Hs Hn. destruct (prefix_answer S p Hs) as (A & M & B & E & Ei & _ & Er).
  rewrite Er, Ei. destruct M as [|m0 M']; [reflexivity|].
  cbn [fst snd length].
  assert (Hl : lenN S = lenN A + (1 + lenN M') + lenN B) by (rewrite E, !lenN_app, lenN_cons; lia).
  rewrite contig_ids_spec by lia. f_equal. unfold lenN. lia.
Qed.

Theorem pfc_locate_prefix_ids d b S p :
  layout_ok d b S -> 2 <= b -> pfc_input S -> p <> [] -> nul_free p -> lenN p < 2 ^ 32 ->
  exists r, pfc_locate_prefix d p = Some r /\ contig_ids (fst r) (snd r) = spec_prefix_ids S p.
Proof.
  intros HL Hb HS Hp Hnp Hl. exists (range_of (spec_prefix_ids S p)).
  split; [apply (pfc_locate_prefix_spec d b S p); assumption|].
  destruct HS as (_ & _ & Hsort & _ & Hn). apply range_ids_spec; [exact Hsort|].
  assert (2 ^ 32 < 2 ^ 64) by (apply N.pow_lt_mono_r; lia). lia.
Qed.

(* the matching IDs form one contiguous ascending range (restated from the specification) *)
Corollary pfc_locate_prefix_contiguous d b S p :
  layout_ok d b S -> 2 <= b -> pfc_input S -> p <> [] -> nul_free p -> lenN p < 2 ^ 32 ->
  exists r, pfc_locate_prefix d p = Some r /\ contiguous (contig_ids (fst r) (snd r)).
Proof.
  intros HL Hb HS Hp Hnp Hl.
  destruct (pfc_locate_prefix_ids d b S p HL Hb HS Hp Hnp Hl) as (r & E1 & E2).
  exists r. split; [exact E1|]. rewrite E2. apply spec_prefix_ids_contiguous.
  destruct HS as (_ & _ & Hsort & _). exact Hsort.
Qed.

(* 4. extractPrefix: NULL when nobody has the prefix, otherwise an iterator that yields
      exactly the members that have it, in order *)
Theorem pfc_extract_prefix_spec d b S p :
  layout_ok d b S -> 2 <= b -> pfc_input S -> p <> [] -> nul_free p -> lenN p < 2 ^ 32 ->
  pfc_extract_prefix d p =
  Some (match spec_prefix_strs S p with [] => None | l => Some l end).
Proof.
  intros HL Hb HS Hp Hnp Hl. unfold pfc_extract_prefix.
  rewrite (pfc_locate_prefix_spec d b S p HL Hb HS Hp Hnp Hl).
  pose proof HS as (_ & _ & Hsort & _ & _).
  destruct (prefix_answer S p Hsort) as (A & M & B & E & _ & Es & Er).
  rewrite Er, Es. destruct M as [|m0 M']; [reflexivity|].
  destruct (N.eqb_spec (1 + lenN A) 0); [lia|].
  assert (Hlen : lenN S = lenN A + (1 + lenN M') + lenN B) by (rewrite E, !lenN_app, lenN_cons; lia).
  rewrite (iter_range_spec d b S HL Hb HS (1 + lenN A) (1 + lenN A + lenN M')) by lia.
  do 2 f_equal.
  replace (1 + lenN A - 1) with (lenN A) by lia.
  replace (1 + lenN A + lenN M' - (1 + lenN A) + 1) with (lenN (m0 :: M')) by (rewrite lenN_cons; lia).
  rewrite E, skipN_app_exact, firstN_app_exact. reflexivity.
Qed.

(* "nobody has the prefix" in the three equivalent forms *)
Lemma prefix_none_iff S p :
  (spec_prefix_strs S p = [] <-> spec_prefix_ids S p = []) /\
  (spec_prefix_strs S p = [] <-> forall s, In s S -> is_prefix p s = false).
Proof.
  unfold spec_prefix_strs, spec_prefix_ids. split.
  - generalize 1. induction S as [|s S IH]; intros i; cbn [filter ids_where]; [tauto|].
    destruct (is_prefix p s); [split; discriminate|apply IH].
  - induction S as [|s S IH]; cbn [filter].
    + split; [intros _ s []|reflexivity].
    + destruct (is_prefix p s) eqn:E.
      * split; [discriminate|]. intros H. rewrite (H s (or_introl eq_refl)) in E. discriminate.
      * rewrite IH. split.
        -- intros H u [<-|Hu]; [exact E|apply H; exact Hu].
        -- intros H u Hu. apply H. right. exact Hu.
Qed.

Corollary pfc_extract_prefix_none d b S p :
  layout_ok d b S -> 2 <= b -> pfc_input S -> p <> [] -> nul_free p -> lenN p < 2 ^ 32 ->
  (forall s, In s S -> is_prefix p s = false) -> pfc_extract_prefix d p = Some None.
Proof.
  intros HL Hb HS Hp Hnp Hl Hno. rewrite (pfc_extract_prefix_spec d b S p); auto.
  rewrite (proj2 (proj2 (prefix_none_iff S p)) Hno). reflexivity.
Qed.

Corollary pfc_extract_prefix_some d b S p s :
  layout_ok d b S -> 2 <= b -> pfc_input S -> p <> [] -> nul_free p -> lenN p < 2 ^ 32 ->
  In s S -> is_prefix p s = true -> pfc_extract_prefix d p = Some (Some (spec_prefix_strs S p)).
Proof.
  intros HL Hb HS Hp Hnp Hl Hin Hm. rewrite (pfc_extract_prefix_spec d b S p); auto.
  destruct (spec_prefix_strs S p) eqn:E; [|reflexivity].
  rewrite (proj1 (proj2 (prefix_none_iff S p)) E s Hin) in Hm. discriminate.
Qed.

(* ====================================================================== *)
(* 11. the dictionary the constructor builds                               *)
(* ====================================================================== *)
Theorem pfc_locate_prefix_built S b0 p :
  pfc_input S -> p <> [] -> nul_free p -> lenN p < 2 ^ 32 ->
  pfc_locate_prefix (pfc_build b0 S) p = Some (range_of (spec_prefix_ids S p)).
Proof.
  intros HS Hp Hnp Hl. apply (pfc_locate_prefix_spec _ (clamp_bsize b0) S); auto.
  - apply pfc_build_layout_gen.
  - apply clamp_bsize_ge2.
Qed.

Theorem pfc_locate_prefix_ids_built S b0 p :
  pfc_input S -> p <> [] -> nul_free p -> lenN p < 2 ^ 32 ->
  exists r, pfc_locate_prefix (pfc_build b0 S) p = Some r /\
            contig_ids (fst r) (snd r) = spec_prefix_ids S p.
Proof.
  intros HS Hp Hnp Hl. apply (pfc_locate_prefix_ids _ (clamp_bsize b0) S); auto.
  - apply pfc_build_layout_gen.
  - apply clamp_bsize_ge2.
Qed.

Theorem pfc_extract_prefix_built S b0 p :
  pfc_input S -> p <> [] -> nul_free p -> lenN p < 2 ^ 32 ->
  pfc_extract_prefix (pfc_build b0 S) p =
  Some (match spec_prefix_strs S p with [] => None | l => Some l end).
Proof.
  intros HS Hp Hnp Hl. apply (pfc_extract_prefix_spec _ (clamp_bsize b0) S); auto.
  - apply pfc_build_layout_gen.
  - apply clamp_bsize_ge2.
Qed.

(* the bucket size never changes a prefix answer *)
Corollary pfc_param_indep_prefix S p b0 b1 :
  pfc_input S -> p <> [] -> nul_free p -> lenN p < 2 ^ 32 ->
  pfc_locate_prefix (pfc_build b0 S) p = pfc_locate_prefix (pfc_build b1 S) p /\
  pfc_extract_prefix (pfc_build b0 S) p = pfc_extract_prefix (pfc_build b1 S) p.
Proof. intros HS Hp Hnp Hl. rewrite !pfc_locate_prefix_built, !pfc_extract_prefix_built by auto. split; reflexivity. Qed.

(* ====================================================================== *)
(* 12. a concrete instance                                                 *)
(* ====================================================================== *)
(* "a" "ab" "aba" "abb" "abc" "abd" "b" "ba" "bab" "bb" "c" "ca"   (12 strings)
   b = 2: (a ab)(aba abb)(abc abd)(b ba)(bab bb)(c ca)     b = 3: (a ab aba)(abb abc abd)(b ba bab)(bb c ca) *)
Definition pre_ex_S : list str :=
  [[97]; [97;98]; [97;98;97]; [97;98;98]; [97;98;99]; [97;98;100];
   [98]; [98;97]; [98;97;98]; [98;98]; [99]; [99;97]].

(* members and member prefixes: "a" (ids 1..6: three buckets for b = 2, ends on a bucket
   boundary for b = 2 and b = 3), "ab" (2..6: starts inside a bucket, three buckets for b = 2),
   "aba" "abb" "abc" "abd" (one string; header or internal depending on b), "b" (7..10: two
   buckets, ends on a boundary for b = 2), "ba" (8..9: spans the boundary of buckets 4|5 for
   b = 2, inside one bucket for b = 3), "bab", "bb", "c" (11..12, the last bucket), "ca" (the
   last string);
   absent: "0" (below every member), "d" and byte 200 (above every member), "abe" "ac" "az"
   "baa" "bc" "aa" "cb" (between members), "abab" "caa" (extensions of members) *)
Definition pre_ex_pats : list str :=
  [[97]; [97;98]; [97;98;97]; [97;98;98]; [97;98;99]; [97;98;100]; [98]; [98;97]; [98;97;98];
   [98;98]; [99]; [99;97];
   [48]; [100]; [200]; [97;98;101]; [97;99]; [97;122]; [98;97;97]; [98;99]; [97;97]; [99;98];
   [97;98;97;98]; [99;97;97]].

Example pre_ex_input : pfc_input pre_ex_S.
Proof. apply pfc_input_chk_sound. vm_compute. reflexivity. Qed.

Example pre_ex_pats_ok : Forall (fun p => p <> [] /\ nul_free p /\ lenN p < 2 ^ 32) pre_ex_pats.
Proof.
  apply Forall_forall. intros p Hp.
  repeat (destruct Hp as [<-|Hp]; [split; [discriminate|split; [apply nul_free_chk_sound; reflexivity|reflexivity]]|]).
  destruct Hp.
Qed.

(* the model computes, for b = 2 and b = 3 and every pattern of the list, exactly the
   specification's range ... *)
Example pre_ex_locate_compute :
  map (pfc_locate_prefix (pfc_build 2 pre_ex_S)) pre_ex_pats =
    map (fun p => Some (range_of (spec_prefix_ids pre_ex_S p))) pre_ex_pats /\
  map (pfc_locate_prefix (pfc_build 3 pre_ex_S)) pre_ex_pats =
    map (fun p => Some (range_of (spec_prefix_ids pre_ex_S p))) pre_ex_pats /\
  map (fun p => range_of (spec_prefix_ids pre_ex_S p)) pre_ex_pats =
    [(1,6); (2,6); (3,3); (4,4); (5,5); (6,6); (7,10); (8,9); (9,9); (10,10); (11,12); (12,12);
     (0,0); (0,0); (0,0); (0,0); (0,0); (0,0); (0,0); (0,0); (0,0); (0,0); (0,0); (0,0)].
Proof. vm_compute. repeat split; reflexivity. Qed.

(* ... and the strings / NULL of the specification *)
Example pre_ex_extract_compute :
  map (pfc_extract_prefix (pfc_build 2 pre_ex_S)) pre_ex_pats =
    map (fun p => Some (match spec_prefix_strs pre_ex_S p with [] => None | l => Some l end)) pre_ex_pats /\
  map (pfc_extract_prefix (pfc_build 3 pre_ex_S)) pre_ex_pats =
    map (fun p => Some (match spec_prefix_strs pre_ex_S p with [] => None | l => Some l end)) pre_ex_pats /\
  pfc_extract_prefix (pfc_build 2 pre_ex_S) [98;97] = Some (Some [[98;97]; [98;97;98]]) /\
  pfc_extract_prefix (pfc_build 3 pre_ex_S) [97;99] = Some None.
Proof. vm_compute. repeat split; reflexivity. Qed.

Example pre_ex_contig :
  contig_ids 2 6 = [2; 3; 4; 5; 6] /\ contig_ids 7 7 = [7] /\ contig_ids 0 0 = [] /\
  contig_ids (2 ^ 64 - 2) (2 ^ 64 - 1) = [2 ^ 64 - 2; 2 ^ 64 - 1].
Proof. vm_compute. repeat split; reflexivity. Qed.

(* the theorems instantiated on it: the hypotheses are satisfiable, for both bucket sizes *)
Example pre_ex_theorems : forall b0 p, p <> [] -> nul_free p -> lenN p < 2 ^ 32 ->
  pfc_locate_prefix (pfc_build b0 pre_ex_S) p = Some (range_of (spec_prefix_ids pre_ex_S p)) /\
  (exists r, pfc_locate_prefix (pfc_build b0 pre_ex_S) p = Some r /\
             contig_ids (fst r) (snd r) = spec_prefix_ids pre_ex_S p) /\
  pfc_extract_prefix (pfc_build b0 pre_ex_S) p =
    Some (match spec_prefix_strs pre_ex_S p with [] => None | l => Some l end).
Proof.
  intros b0 p Hp Hnp Hl. split; [|split].
  - apply pfc_locate_prefix_built; auto. apply pre_ex_input.
  - apply pfc_locate_prefix_ids_built; auto. apply pre_ex_input.
  - apply pfc_extract_prefix_built; auto. apply pre_ex_input.
Qed.

Example pre_ex_layout :
  layout_ok (pfc_build 2 pre_ex_S) 2 pre_ex_S /\ layout_ok (pfc_build 3 pre_ex_S) 3 pre_ex_S /\
  p_buckets (pfc_build 2 pre_ex_S) = 6 /\ p_buckets (pfc_build 3 pre_ex_S) = 4.
Proof.
  split; [exact (pfc_build_layout_gen 2 pre_ex_S)|]. split; [exact (pfc_build_layout_gen 3 pre_ex_S)|].
  split; reflexivity.
Qed.
