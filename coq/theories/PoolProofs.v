(* Pool: invariants over arbitrary schedules of the LTS of PoolDefs.v. *)
From Coq Require Import List NArith Bool Arith Lia Permutation.
From LibCSD Require Import Base PoolDefs.
Import ListNotations.

(* ---- lists -------------------------------------------------------------- *)
Lemma upd_length {A} i (x : A) l : length (upd i x l) = length l.
Proof. revert i; induction l; destruct i; simpl; auto. Qed.

Lemma nth_error_upd_eq {A} i (x : A) l : i < length l -> nth_error (upd i x l) i = Some x.
Proof. revert i; induction l; destruct i; simpl; intros; try lia; auto. apply IHl; lia. Qed.

Lemma nth_error_upd_neq {A} i j (x : A) l : j <> i -> nth_error (upd i x l) j = nth_error l j.
Proof.
  revert i j; induction l; destruct i, j; simpl; intros; try congruence; auto.
Qed.

Lemma nth_error_upd_inv {A} i j (x y : A) l :
  nth_error (upd i x l) j = Some y ->
  (j = i /\ y = x) \/ (j <> i /\ nth_error l j = Some y).
Proof.
  intros H. destruct (Nat.eq_dec j i) as [->|Hn].
  - left. split; auto.
    assert (i < length l).
    { rewrite <- (upd_length i x l). apply nth_error_Some. congruence. }
    rewrite nth_error_upd_eq in H by assumption. congruence.
  - right. rewrite nth_error_upd_neq in H by assumption. auto.
Qed.

Lemma nth_error_map_inv {A B} (f : A -> B) l j y :
  nth_error (map f l) j = Some y -> exists x, nth_error l j = Some x /\ y = f x.
Proof.
  rewrite nth_error_map. destruct (nth_error l j); simpl; intros H; inversion H; eauto.
Qed.

Lemma nth_upd_eq {A} i (x d : A) l : i < length l -> nth i (upd i x l) d = x.
Proof. revert i; induction l; destruct i; simpl; intros; try lia; auto. apply IHl; lia. Qed.

Lemma nth_upd_neq {A} i j (x d : A) l : j <> i -> nth j (upd i x l) d = nth j l d.
Proof. revert i j; induction l; destruct i, j; simpl; intros; try congruence; auto. Qed.

Lemma nth_upd_true i j l : nth j l false = true -> nth j (upd i true l) false = true.
Proof.
  intros H. destruct (Nat.eq_dec j i) as [->|Hn].
  - destruct (lt_dec i (length l)).
    + apply nth_upd_eq; auto.
    + rewrite nth_overflow in H by lia. discriminate.
  - rewrite nth_upd_neq; auto.
Qed.

Lemma nth_error_repeat {A} (x y : A) n i : nth_error (repeat x n) i = Some y -> y = x /\ i < n.
Proof.
  revert i; induction n; destruct i; simpl; intros H; try discriminate.
  - inversion H; split; auto; lia.
  - apply IHn in H. destruct H; split; auto; lia.
Qed.

Lemma nth_repeat_false n i : nth i (repeat false n) false = false.
Proof. revert i; induction n; destruct i; simpl; auto. Qed.

(* ---- the invariant ------------------------------------------------------ *)
Definition pending (p : ppc) : bool :=
  match p with PHold | PStopLoop _ | PRelease | PNotify => true | _ => false end.

Definition stopAt (st : list bool) (i : nat) : bool := nth i st false.

(* what worker i knows at program counter pc *)
Definition wok (fixed : bool) (o : option nat) (q : list N) (st : list bool) (p : ppc)
           (i : nat) (pc : wpc) : Prop :=
  (holds_pc pc = true <-> o = Some (S i)) /\
  match pc with
  | WLoopEmpty | WPostEmpty => stopAt st i = true
  | WBreakUnlock | WFinalNotify | WExited => stopAt st i = true /\ q = []
  | WPop => q <> []
  | WPredEmpty => fixed = true -> stopAt st i = false
  | WBlock => fixed = true -> stopAt st i = false /\ q = []
  | WSleep => fixed = true -> (stopAt st i = false /\ q = []) \/ pending p = true
  | _ => True
  end.

Definition head_is_stop (p : list pact) : Prop := exists r, p = StopAll :: r.

Record Inv (fixed : bool) (s : state) : Prop := {
  i_w : forall i pc, nth_error (wpcs s) i = Some pc ->
                     wok fixed (owner s) (queue s) (stops s) (pp s) i pc;
  i_len : length (stops s) = length (wpcs s);
  i_own : forall x, owner s = Some x -> in_cs fixed s x = true;
  i_pown : pholds fixed (pp s) = true -> owner s = Some 0;
  i_wf : wf_script (prog s) = true;
  i_adds : (exists i, stopAt (stops s) i = true) -> no_adds (prog s) = true;
  i_loop : forall k, pp s = PStopLoop k -> head_is_stop (prog s);
  i_err : err s = false
}.

(* frame lemmas: what a step of another thread preserves *)
Lemma wok_wake fixed o q st p p' i pc :
  wok fixed o q st p i pc -> wok fixed o q st p' i (wake pc).
Proof.
  unfold wok; destruct pc; simpl; auto. intros [H _]. split; auto.
Qed.

Lemma wok_owner fixed o o' q st p i pc :
  o <> Some (S i) -> o' <> Some (S i) ->
  wok fixed o q st p i pc -> wok fixed o' q st p i pc.
Proof.
  intros H1 H2 [Hm Hr]. split; auto.
  split; intros H; [apply Hm in H; contradiction | contradiction].
Qed.

Lemma wok_pop fixed o t q st p i pc :
  o <> Some (S i) -> wok fixed o (t :: q) st p i pc -> wok fixed o q st p i pc.
Proof.
  intros Ho [Hm Hr]. split; auto.
  destruct pc; simpl in *; auto;
    try (destruct Hr; discriminate);
    try (exfalso; apply Ho, Hm; reflexivity).
  intros F. destruct (Hr F) as [[? ?]|?]; [discriminate|auto].
Qed.

Lemma wok_pp fixed o q st p p' i pc :
  (pending p = true -> pending p' = true) ->
  wok fixed o q st p i pc -> wok fixed o q st p' i pc.
Proof.
  intros Hp [Hm Hr]. split; auto.
  destruct pc; simpl in *; auto.
  intros F. destruct (Hr F); auto.
Qed.

(* push by the producer: no stop flag is set yet; fixed: the producer owns the mutex *)
Lemma wok_push fixed o t q st p p' i pc :
  (forall j, stopAt st j = false) ->
  (fixed = true -> o = Some 0) -> pending p' = true ->
  wok fixed o q st p i pc -> wok fixed o (q ++ [t]) st p' i pc.
Proof.
  intros Hs Ho Hp [Hm Hr]. split; auto.
  destruct pc; simpl in *; auto;
    try (destruct Hr as [Hr _]; rewrite Hs in Hr; discriminate).
  - intros F. exfalso. specialize (Ho F). destruct Hm as [Hm _]. rewrite Ho in Hm.
    specialize (Hm eq_refl). discriminate.
  - destruct q; discriminate.
Qed.

Lemma wok_setstop fixed o q st p p' k i pc :
  (fixed = true -> o = Some 0) -> pending p' = true ->
  wok fixed o q st p i pc -> wok fixed o q (upd k true st) p' i pc.
Proof.
  intros Ho Hp [Hm Hr]. split; auto.
  assert (Hx : fixed = true -> holds_pc pc = true -> False).
  { intros F H. apply Hm in H. rewrite (Ho F) in H. discriminate. }
  unfold stopAt in *.
  destruct pc; simpl in *; auto; try (apply nth_upd_true; assumption);
    try (destruct Hr; split; auto; apply nth_upd_true; assumption);
    try (intros F; exfalso; apply (Hx F); reflexivity).
Qed.

Lemma holds_wake pc : holds_pc (wake pc) = holds_pc pc.
Proof. destruct pc; reflexivity. Qed.

(* generic shape of a worker step *)
Lemma wstep_frame fixed s i pc pc' o' q' ex' (wk : bool) :
  Inv fixed s -> nth_error (wpcs s) i = Some pc ->
  wok fixed o' q' (stops s) (pp s) i pc' ->
  ((o' = owner s /\ holds_pc pc' = holds_pc pc) \/
   (owner s = None /\ o' = Some (S i)) \/ (owner s = Some (S i) /\ o' = None)) ->
  (q' = queue s \/ (owner s = Some (S i) /\ exists t, queue s = t :: q')) ->
  Inv fixed (mkState (if wk then map wake (upd i pc' (wpcs s)) else upd i pc' (wpcs s))
                     o' q' (stops s) ex' (prog s) (pp s) (added s) (err s)).
Proof.
  intros I Hpc Hnew Ho Hq.
  assert (Hold := i_w _ _ I _ _ Hpc).
  assert (Hothers : forall j pcj, j <> i -> nth_error (wpcs s) j = Some pcj ->
                                  wok fixed o' q' (stops s) (pp s) j pcj).
  { intros j pcj Hj Hnj. assert (Hwj := i_w _ _ I _ _ Hnj).
    assert (Hq1 : wok fixed (owner s) q' (stops s) (pp s) j pcj).
    { destruct Hq as [->|[Hos [t Ht]]]; auto. rewrite Ht in Hwj.
      eapply wok_pop; eauto. rewrite Hos. congruence. }
    destruct Ho as [[-> _]|[[Hn ->]|[Hs ->]]]; auto.
    - eapply wok_owner; [| |exact Hq1]; [rewrite Hn|]; congruence.
    - eapply wok_owner; [| |exact Hq1]; [rewrite Hs|]; congruence. }
  assert (Hall : forall j pcj,
             nth_error (if wk then map wake (upd i pc' (wpcs s)) else upd i pc' (wpcs s)) j = Some pcj ->
             wok fixed o' q' (stops s) (pp s) j pcj /\
             ((j = i /\ holds_pc pcj = holds_pc pc') \/
              (j <> i /\ exists p0, nth_error (wpcs s) j = Some p0 /\ holds_pc pcj = holds_pc p0))).
  { intros j pcj Hj. destruct wk.
    - apply nth_error_map_inv in Hj. destruct Hj as [x [Hx ->]].
      apply nth_error_upd_inv in Hx. destruct Hx as [[-> ->]|[Hn Hx]].
      + split; [apply wok_wake with (p := pp s); auto|]. left; split; auto. apply holds_wake.
      + split; [apply wok_wake with (p := pp s); auto|]. right; split; auto.
        exists x; split; auto. apply holds_wake.
    - apply nth_error_upd_inv in Hj. destruct Hj as [[-> ->]|[Hn Hx]].
      + split; auto.
      + split; auto. right; split; auto. exists pcj; auto. }
  constructor; simpl.
  - intros j pcj Hj. apply Hall in Hj. tauto.
  - rewrite (i_len _ _ I). destruct wk; [rewrite map_length|]; rewrite upd_length; auto.
  - intros x Hx. destruct x as [|j]; simpl.
    + apply (i_own _ _ I 0).
      destruct Ho as [[E _]|[[_ Hc]|[_ Hc]]]; congruence.
    + destruct (nth_error (if wk then map wake (upd i pc' (wpcs s)) else upd i pc' (wpcs s)) j) as [pcj|] eqn:Ej.
      * destruct (Hall _ _ Ej) as [[Hm _] _]. apply Hm. auto.
      * exfalso. assert (Hj : in_cs fixed s (S j) = true \/ j = i).
        { destruct Ho as [[E _]|[[_ Hc]|[_ Hc]]]; [|right; congruence|congruence].
          left. apply (i_own _ _ I). congruence. }
        assert (j < length (wpcs s)).
        { destruct Hj as [Hj | ->].
          - simpl in Hj. apply nth_error_Some. destruct (nth_error (wpcs s) j); congruence.
          - apply nth_error_Some. congruence. }
        apply nth_error_None in Ej.
        destruct wk; [rewrite map_length in Ej|]; rewrite upd_length in Ej; lia.
  - intros Hp. assert (H0 := i_pown _ _ I Hp).
    destruct Ho as [[-> _]|[[Hc _]|[Hc _]]]; congruence.
  - apply (i_wf _ _ I).
  - apply (i_adds _ _ I).
  - apply (i_loop _ _ I).
  - apply (i_err _ _ I).
Qed.

Ltac iff_triv :=
  match goal with
  | |- _ <-> _ => split; intros; try discriminate; try congruence; auto
  end.

Lemma wstep_inv fixed s i s' : Inv fixed s -> wstep s i = Some s' -> Inv fixed s'.
Proof.
  intros I H. unfold wstep in H.
  destruct (nth_error (wpcs s) i) as [pc|] eqn:Hpc; [|discriminate].
  destruct (i_w _ _ I _ _ Hpc) as [Hm Hr].
  unfold stopped, qempty in H. fold (stopAt (stops s) i) in H.
  destruct pc; simpl in Hr, Hm.
  - (* WLoopStop *)
    inversion H; subst s'; clear H.
    apply (wstep_frame fixed s i _ _ (owner s) (queue s) (executed s) false I Hpc); auto.
    + destruct (stopAt (stops s) i) eqn:Es; split; simpl; auto.
    + left; split; auto. destruct (stopAt (stops s) i); reflexivity.
  - (* WLoopEmpty *)
    inversion H; subst s'; clear H.
    apply (wstep_frame fixed s i _ _ (owner s) (queue s) (executed s) false I Hpc); auto.
    + destruct (queue s) eqn:Eq; split; simpl; auto.
    + left; split; auto. destruct (queue s); reflexivity.
  - (* WLock *)
    destruct (owner s) eqn:Eo; [discriminate|].
    inversion H; subst s'; clear H.
    apply (wstep_frame fixed s i _ WPredStop (Some (S i)) (queue s) (executed s) false I Hpc); auto.
    split; simpl; auto. iff_triv.
  - (* WPredStop *)
    inversion H; subst s'; clear H.
    apply (wstep_frame fixed s i _ _ (owner s) (queue s) (executed s) false I Hpc); auto.
    + destruct (stopAt (stops s) i) eqn:Es; split; simpl; auto.
    + left; split; auto. destruct (stopAt (stops s) i); reflexivity.
  - (* WPredEmpty *)
    inversion H; subst s'; clear H.
    apply (wstep_frame fixed s i _ _ (owner s) (queue s) (executed s) false I Hpc); auto.
    + destruct (queue s) eqn:Eq; split; simpl; auto.
    + left; split; auto. destruct (queue s); reflexivity.
  - (* WBlock *)
    inversion H; subst s'; clear H.
    apply (wstep_frame fixed s i _ WSleep None (queue s) (executed s) false I Hpc); auto.
    + split; simpl; auto. iff_triv.
    + right; right; split; auto. apply Hm; auto.
  - discriminate.
  - (* WWoken *)
    destruct (owner s) eqn:Eo; [discriminate|].
    inversion H; subst s'; clear H.
    apply (wstep_frame fixed s i _ WPredStop (Some (S i)) (queue s) (executed s) false I Hpc); auto.
    split; simpl; auto. iff_triv.
  - (* WPostStop *)
    inversion H; subst s'; clear H.
    apply (wstep_frame fixed s i _ _ (owner s) (queue s) (executed s) false I Hpc); auto.
    + destruct (stopAt (stops s) i) eqn:Es; split; simpl; auto.
    + left; split; auto. destruct (stopAt (stops s) i); reflexivity.
  - (* WPostEmpty *)
    inversion H; subst s'; clear H.
    apply (wstep_frame fixed s i _ _ (owner s) (queue s) (executed s) false I Hpc); auto.
    + destruct (queue s) eqn:Eq; split; simpl; auto.
    + left; split; auto. destruct (queue s); reflexivity.
  - (* WContEmpty *)
    inversion H; subst s'; clear H.
    apply (wstep_frame fixed s i _ _ (owner s) (queue s) (executed s) false I Hpc); auto.
    + destruct (queue s) eqn:Eq; split; simpl; auto. discriminate.
    + left; split; auto. destruct (queue s); reflexivity.
  - (* WPop *)
    destruct (queue s) as [|t q] eqn:Eq; [congruence|].
    inversion H; subst s'; clear H.
    apply (wstep_frame fixed s i _ (WUnlock t) (owner s) q (executed s) false I Hpc); auto.
    + split; simpl; auto.
    + right; split; [apply Hm; auto|]. rewrite Eq; eauto.
  - (* WUnlock *)
    inversion H; subst s'; clear H.
    apply (wstep_frame fixed s i _ (WNotify t) None (queue s) (executed s) false I Hpc); auto.
    + split; simpl; auto. iff_triv.
    + right; right; split; auto. apply Hm; auto.
  - (* WNotify *)
    inversion H; subst s'; clear H.
    apply (wstep_frame fixed s i _ (WRun t) (owner s) (queue s) (executed s) true I Hpc); auto.
    split; simpl; auto.
  - (* WRun *)
    inversion H; subst s'; clear H.
    apply (wstep_frame fixed s i _ WLoopStop (owner s) (queue s) ((t, i) :: executed s) false I Hpc); auto.
    split; simpl; auto.
  - (* WBreakUnlock *)
    inversion H; subst s'; clear H.
    apply (wstep_frame fixed s i _ WFinalNotify None (queue s) (executed s) false I Hpc); auto.
    + split; simpl; auto. iff_triv.
    + right; right; split; auto. apply Hm; auto.
  - (* WContUnlock *)
    inversion H; subst s'; clear H.
    apply (wstep_frame fixed s i _ WLoopStop None (queue s) (executed s) false I Hpc); auto.
    + split; simpl; auto. iff_triv.
    + right; right; split; auto. apply Hm; auto.
  - (* WFinalNotify *)
    inversion H; subst s'; clear H.
    apply (wstep_frame fixed s i _ WExited (owner s) (queue s) (executed s) true I Hpc); auto.
    split; simpl; auto.
  - discriminate.
Qed.

Lemma spurious_inv fixed s i s' : Inv fixed s -> spurious s i = Some s' -> Inv fixed s'.
Proof.
  intros I H. unfold spurious in H.
  destruct (nth_error (wpcs s) i) as [pc|] eqn:Hpc; [|discriminate].
  destruct pc; try discriminate.
  destruct (i_w _ _ I _ _ Hpc) as [Hm Hr].
  inversion H; subst s'; clear H.
  apply (wstep_frame fixed s i _ WWoken (owner s) (queue s) (executed s) false I Hpc); auto.
  split; simpl; auto.
Qed.

Lemma wf_script_tl a r : wf_script (a :: r) = true -> wf_script r = true.
Proof.
  destruct a; simpl; auto. revert r. induction r as [|b r IH]; simpl; auto.
  destruct b; auto; discriminate.
Qed.
Lemma no_adds_tl a r : no_adds (a :: r) = true -> no_adds r = true.
Proof. destruct a; simpl; auto; discriminate. Qed.

(* generic shape of a producer step *)
Lemma pstep_frame fixed s (wk : bool) o' q' st' prog' pp' added' :
  Inv fixed s ->
  (forall j pcj, nth_error (wpcs s) j = Some pcj ->
                 wok fixed o' q' st' pp' j (if wk then wake pcj else pcj)) ->
  length st' = length (stops s) ->
  ((o' = owner s /\ pholds fixed pp' = pholds fixed (pp s)) \/
   (owner s = None /\ o' = Some 0 /\ pholds fixed pp' = true) \/
   (owner s = Some 0 /\ o' = None /\ pholds fixed pp' = false)) ->
  wf_script prog' = true ->
  ((exists i, stopAt st' i = true) -> no_adds prog' = true) ->
  (forall k, pp' = PStopLoop k -> head_is_stop prog') ->
  Inv fixed (mkState (if wk then map wake (wpcs s) else wpcs s) o' q' st'
                     (executed s) prog' pp' added' (err s)).
Proof.
  intros I Hw Hl Ho Hwf Had Hlp.
  assert (Hnth : forall j pcj, nth_error (if wk then map wake (wpcs s) else wpcs s) j = Some pcj ->
             exists p0, nth_error (wpcs s) j = Some p0 /\ pcj = (if wk then wake p0 else p0)).
  { intros j pcj Hj. destruct wk; [apply nth_error_map_inv in Hj; auto|eauto]. }
  constructor; simpl; auto.
  - intros j pcj Hj. apply Hnth in Hj. destruct Hj as [p0 [H0 ->]]. auto.
  - rewrite Hl, (i_len _ _ I). destruct wk; [rewrite map_length|]; auto.
  - intros x Hx. destruct x as [|j]; simpl.
    + destruct Ho as [[E Hp]|[[_ [_ Hp]]|[_ [Hc _]]]]; auto; [|congruence].
      rewrite Hp. apply (i_own _ _ I 0). congruence.
    + assert (Hj : in_cs fixed s (S j) = true).
      { apply (i_own _ _ I). destruct Ho as [[E Hp]|[[_ [Hc _]]|[_ [Hc _]]]]; congruence. }
      simpl in Hj. destruct (nth_error (wpcs s) j) as [p0|] eqn:E0; [|discriminate].
      destruct wk.
      * rewrite nth_error_map, E0. simpl. rewrite holds_wake; auto.
      * rewrite E0; auto.
  - intros Hp. destruct Ho as [[E Hq]|[[_ [Hc _]]|[_ [_ Hc]]]]; auto; [|congruence].
    rewrite E. apply (i_pown _ _ I). congruence.
  - apply (i_err _ _ I).
Qed.

Lemma no_stop_of_adds fixed s t r :
  Inv fixed s -> prog s = AddTask t :: r -> forall j, stopAt (stops s) j = false.
Proof.
  intros I Hp j. destruct (stopAt (stops s) j) eqn:E; auto.
  assert (H : no_adds (prog s) = true) by (apply (i_adds _ _ I); eauto).
  rewrite Hp in H. discriminate.
Qed.

Ltac pside :=
  try discriminate;
  try (match goal with |- wf_script _ = true => eauto using wf_script_tl end);
  try (match goal with |- _ -> no_adds _ = true => intros; eauto using no_adds_tl end);
  try (match goal with |- length _ = length _ => auto using upd_length end);
  try (match goal with |- forall k, _ = PStopLoop k -> head_is_stop _ => intros ? _; eexists; reflexivity end);
  try (match goal with
       | |- _ \/ _ => first [ left; split; [reflexivity | reflexivity]
                            | right; left; repeat split; auto; fail
                            | right; right; repeat split; auto; fail ]
       end).

Ltac powner H :=
  left; split; auto; rewrite ?H;
  first [ reflexivity | match goal with |- context [pholds ?f _] => destruct f; reflexivity end ].
Ltac prest H tacw :=
  match goal with
  | |- forall j pcj, _ -> wok _ _ _ _ _ _ _ => intros j pcj Hj; tacw
  | |- _ \/ _ => powner H
  end.

Lemma pstep_inv fixed s s' : Inv fixed s -> pstep fixed s = Some s' -> Inv fixed s'.
Proof.
  intros I H. unfold pstep in H.
  destruct (prog s) as [|a rest] eqn:Hprog; [discriminate|].
  assert (Hwf := i_wf _ _ I). assert (Had := i_adds _ _ I). assert (Hlp := i_loop _ _ I).
  assert (Hw := i_w _ _ I). assert (Hpo := i_pown _ _ I).
  rewrite Hprog in Hwf, Had, Hlp.
  destruct (pp s) eqn:Hpp.
  - (* PStart *)
    assert (Hno : (if fixed then match owner s with None => Some (set_owner (set_pp s PHold) (Some 0)) | Some _ => None end
        else Some (set_pp s PHold)) = Some s' -> Inv fixed s').
    { intros H1. destruct fixed.
      - destruct (owner s) eqn:Eo; [discriminate|]. inversion H1; subst s'; clear H1.
        unfold set_owner, set_pp; simpl. rewrite Hprog.
        apply (pstep_frame true s false); auto; pside;
          prest Hpp ltac:(apply wok_pp with (p := PStart); [auto|];
                          apply wok_owner with (o := None); try congruence; auto).
      - inversion H1; subst s'; clear H1. unfold set_pp; simpl. rewrite Hprog.
        apply (pstep_frame false s false); auto; pside;
          prest Hpp ltac:(apply wok_pp with (p := PStart); [auto|]; auto). }
    destruct a; auto.
    inversion H; subst s'; clear H. unfold set_pp; simpl. rewrite Hprog.
    apply (pstep_frame fixed s false); auto; pside;
      prest Hpp ltac:(apply wok_pp with (p := PStart); [auto|]; auto).
  - (* PHold *)
    destruct a; [| |discriminate].
    + inversion H; subst s'; clear H. unfold push, set_pp; simpl. rewrite Hprog.
      apply (pstep_frame fixed s false); auto; pside;
        prest Hpp ltac:(apply wok_push with (p := PHold); auto;
                        [ eapply no_stop_of_adds; eauto
                        | intros F; apply Hpo; rewrite F; reflexivity ]).
    + inversion H; subst s'; clear H. unfold set_pp; simpl. rewrite Hprog.
      apply (pstep_frame fixed s false); auto; pside;
        prest Hpp ltac:(apply wok_pp with (p := PHold); [auto|]; auto).
  - (* PStopLoop *)
    destruct (Hlp k eq_refl) as [r Hr]. inversion Hr; subst a r; clear Hr.
    destruct (k <? length (wpcs s)) eqn:Ek.
    + inversion H; subst s'; clear H. unfold set_stop, set_pp; simpl. rewrite Hprog.
      apply (pstep_frame fixed s false); auto; pside;
        prest Hpp ltac:(apply wok_setstop with (p := PStopLoop k); auto;
                        intros F; apply Hpo; rewrite F; reflexivity).
    + inversion H; subst s'; clear H. unfold set_pp; simpl. rewrite Hprog.
      apply (pstep_frame fixed s false); auto; pside;
        prest Hpp ltac:(apply wok_pp with (p := PStopLoop k); [auto|]; auto).
  - (* PRelease *)
    destruct fixed.
    + inversion H; subst s'; clear H. unfold set_owner, set_pp; simpl. rewrite Hprog.
      assert (Ho : owner s = Some 0) by (apply Hpo; reflexivity).
      apply (pstep_frame true s false); auto; pside;
        prest Hpp ltac:(apply wok_pp with (p := PRelease); [auto|];
                        apply wok_owner with (o := owner s); try congruence; auto).
    + inversion H; subst s'; clear H. unfold set_pp; simpl. rewrite Hprog.
      apply (pstep_frame false s false); auto; pside;
        prest Hpp ltac:(apply wok_pp with (p := PRelease); [auto|]; auto).
  - (* PNotify *)
    inversion H; subst s'; clear H. unfold wake_all, next_act; simpl.
    apply (pstep_frame fixed s true); auto; pside;
      prest Hpp ltac:(apply wok_wake with (p := PNotify); auto).
  - (* PJoin *)
    destruct (k <? length (wpcs s)) eqn:Ek.
    + destruct (exited s k); [|discriminate].
      inversion H; subst s'; clear H. unfold set_pp; simpl. rewrite Hprog.
      apply (pstep_frame fixed s false); auto; pside;
        prest Hpp ltac:(apply wok_pp with (p := PJoin k); [auto|]; auto).
    + inversion H; subst s'; clear H. unfold next_act; simpl.
      apply (pstep_frame fixed s false); auto; pside;
        prest Hpp ltac:(apply wok_pp with (p := PJoin k); [auto|]; auto).
Qed.

(* ---- reachability -------------------------------------------------------- *)
Lemma exec_inv fixed s p : Inv fixed s -> Inv fixed (exec fixed s p).
Proof.
  intros I. destruct p as [tid|i]; simpl.
  - destruct (step fixed s tid) as [s'|] eqn:E; auto.
    destruct tid; simpl in E; [eapply pstep_inv|eapply wstep_inv]; eauto.
  - destruct (spurious s i) as [s'|] eqn:E; auto. eapply spurious_inv; eauto.
Qed.

Lemma run_invariant (P : state -> Prop) fixed :
  (forall s p, P s -> P (exec fixed s p)) ->
  forall sched s, P s -> P (run fixed sched s).
Proof.
  intros Hstep sched. induction sched as [|p sched IH]; simpl; auto.
Qed.

Lemma init_inv fixed W script : wf_script script = true -> Inv fixed (init W script).
Proof.
  intros Hwf. constructor; simpl; auto.
  - intros i pc H. apply nth_error_repeat in H. destruct H as [-> _].
    split; simpl; auto. split; discriminate.
  - rewrite !repeat_length; auto.
  - discriminate.
  - destruct fixed; discriminate.
  - intros [i Hi]. unfold stopAt in Hi. rewrite nth_repeat_false in Hi. discriminate.
  - discriminate.
Qed.

Lemma reachable_inv fixed W script s :
  wf_script script = true -> reachable fixed W script s -> Inv fixed s.
Proof.
  intros Hwf [sched ->]. apply run_invariant; [apply exec_inv|apply init_inv; auto].
Qed.

(* ---- conservation of tasks ---------------------------------------------- *)
Definition cnt (t : N) (l : list N) : nat := count_occ N.eq_dec l t.
Definition carry (t : N) (pc : wpc) : nat :=
  match pc with
  | WUnlock x | WNotify x | WRun x => if N.eq_dec x t then 1 else 0
  | _ => 0
  end.
Fixpoint sumf {A} (f : A -> nat) (l : list A) : nat :=
  match l with [] => 0 | x :: r => f x + sumf f r end.
Definition inflight (t : N) (pcs : list wpc) : nat := sumf (carry t) pcs.

Lemma sumf_upd {A} (f : A -> nat) l i old x :
  nth_error l i = Some old -> sumf f (upd i x l) + f old = sumf f l + f x.
Proof.
  revert i; induction l as [|y l IH]; destruct i; simpl; intros H; try discriminate.
  - inversion H; subst. lia.
  - specialize (IH _ H). lia.
Qed.

Lemma sumf_map {A} (f : A -> nat) g l : (forall x, f (g x) = f x) -> sumf f (map g l) = sumf f l.
Proof. intros H. induction l; simpl; auto. Qed.

Lemma carry_wake t pc : carry t (wake pc) = carry t pc.
Proof. destruct pc; reflexivity. Qed.

Lemma cnt_app t a b : cnt t (a ++ b) = cnt t a + cnt t b.
Proof. unfold cnt. apply count_occ_app. Qed.

Lemma cnt_rev t a : cnt t (rev a) = cnt t a.
Proof. unfold cnt. induction a; simpl; auto. rewrite count_occ_app, IHa. simpl. destruct (N.eq_dec a t); lia. Qed.

Definition pushed_head (s : state) : bool :=
  match pp s, prog s with
  | (PRelease | PNotify), AddTask _ :: _ => true
  | _, _ => false
  end.
Definition rem_tasks (s : state) : list N :=
  if pushed_head s then tasks_of (tl (prog s)) else tasks_of (prog s).

Record Inv2 (W : nat) (script : list pact) (s : state) : Prop := {
  j_cnt : forall t, cnt t (queue s) + inflight t (wpcs s) + cnt t (map fst (executed s)) = cnt t (added s);
  j_W : length (wpcs s) = W;
  j_loop : forall k, pp s = PStopLoop k -> exists r, prog s = StopAll :: r;
  j_join : forall k, pp s = PJoin k -> exists r, prog s = WaitWorkers :: r;
  j_hold : pp s = PHold -> exists a r, prog s = a :: r /\ a <> WaitWorkers;
  j_script : tasks_of script = rev (added s) ++ rem_tasks s
}.

Lemma init_inv2 W script : Inv2 W script (init W script).
Proof.
  constructor; simpl; auto; try discriminate.
  - intros t. unfold inflight. induction W; simpl; auto.
  - apply repeat_length.
Qed.

Lemma wstep_inv2 W script s i s' : Inv2 W script s -> wstep s i = Some s' -> Inv2 W script s'.
Proof.
  intros J H. unfold wstep in H.
  destruct (nth_error (wpcs s) i) as [pc|] eqn:Hpc; [|discriminate].
  assert (Hc := j_cnt _ _ _ J). assert (HW := j_W _ _ _ J).
  assert (Hup : forall t x, inflight t (upd i x (wpcs s)) + carry t pc = inflight t (wpcs s) + carry t x).
  { intros; apply sumf_upd; auto. }
  assert (Hwk : forall t l, inflight t (map wake l) = inflight t l).
  { intros; apply sumf_map. intros; apply carry_wake. }
  destruct J as [_ _ J3 J4 J5 J6].
  unfold qempty in H.
  destruct (stopped s i); destruct (queue s) as [|t0 q0] eqn:Eq;
  destruct pc;
    try (destruct (owner s); [discriminate|]);
    try discriminate;
    inversion H; subst s'; clear H;
    (constructor; simpl; auto;
     [ intros t1; specialize (Hc t1); rewrite ?Hwk;
       match goal with |- context [upd i ?x (wpcs s)] => specialize (Hup t1 x) end;
       simpl in *; rewrite ?Eq in *; simpl in *; unfold cnt in *; simpl in *;
       repeat match goal with |- context [N.eq_dec ?a ?b] => destruct (N.eq_dec a b) end;
       repeat match goal with H : context [if ?c then _ else _] |- _ => destruct c end;
       try lia
     | rewrite ?map_length, upd_length; auto ]).
Qed.

Lemma spurious_inv2 W script s i s' : Inv2 W script s -> spurious s i = Some s' -> Inv2 W script s'.
Proof.
  intros J H. unfold spurious in H.
  destruct (nth_error (wpcs s) i) as [pc|] eqn:Hpc; [|discriminate].
  destruct pc; try discriminate. inversion H; subst s'; clear H.
  destruct J as [J1 J2 J3 J4 J5 J6]. constructor; simpl; auto.
  - intros t. specialize (J1 t).
    assert (Hup := sumf_upd (carry t) (wpcs s) i WSleep WWoken Hpc). unfold inflight in *. simpl in Hup. lia.
  - rewrite upd_length; auto.
Qed.

Lemma pstep_inv2 fixed W script s s' : Inv2 W script s -> pstep fixed s = Some s' -> Inv2 W script s'.
Proof.
  intros J H. unfold pstep in H.
  destruct (prog s) as [|a rest] eqn:Hprog; [discriminate|].
  assert (Hwk : forall t l, inflight t (map wake l) = inflight t l).
  { intros; apply sumf_map. intros; apply carry_wake. }
  destruct J as [J1 J2 J3 J4 J5 J6]. unfold rem_tasks, pushed_head in J6. rewrite Hprog in *.
  destruct (pp s) eqn:Hpp.
  - (* PStart *)
    destruct a; [| |inversion H; subst s'; clear H];
      try (destruct fixed; [destruct (owner s); [discriminate|]|]; inversion H; subst s'; clear H);
      (constructor; simpl; auto; try discriminate; try (rewrite Hprog; intros _; do 2 eexists; split; [reflexivity|discriminate]);
       try (intros k Hk; inversion Hk; rewrite Hprog; eauto);
       unfold rem_tasks, pushed_head; simpl; rewrite ?Hprog; auto).
  - (* PHold *)
    destruct a; [| |discriminate]; inversion H; subst s'; clear H.
    + constructor; simpl; auto; try discriminate.
      * intros t1. specialize (J1 t1). unfold cnt in *. rewrite count_occ_app. simpl.
        destruct (N.eq_dec t t1); lia.
      * unfold rem_tasks, pushed_head; simpl. rewrite Hprog. simpl.
        rewrite J6. simpl. rewrite <- app_assoc. reflexivity.
    + constructor; simpl; auto; try discriminate.
      * intros k Hk. rewrite Hprog; eauto.
      * unfold rem_tasks, pushed_head; simpl. rewrite Hprog. auto.
  - (* PStopLoop *)
    destruct (J3 k eq_refl) as [r Hr]. inversion Hr; subst a r; clear Hr.
    destruct (k <? length (wpcs s)); inversion H; subst s'; clear H;
      (constructor; simpl; auto; try discriminate;
       try (intros k' _; rewrite Hprog; eauto);
       unfold rem_tasks, pushed_head; simpl; rewrite ?Hprog; auto).
  - (* PRelease *)
    destruct fixed; inversion H; subst s'; clear H;
      (constructor; simpl; auto; try discriminate;
       unfold rem_tasks, pushed_head; simpl; rewrite ?Hprog; auto).
  - (* PNotify *)
    inversion H; subst s'; clear H.
    constructor; simpl; auto; try discriminate.
    + intros t1. rewrite Hwk. auto.
    + rewrite map_length; auto.
    + unfold rem_tasks, pushed_head; simpl. rewrite J6. destruct a; simpl; auto.
  - (* PJoin *)
    destruct (J4 k eq_refl) as [r Hr]. inversion Hr; subst a r; clear Hr.
    destruct (k <? length (wpcs s)); [destruct (exited s k); [|discriminate]|];
      inversion H; subst s'; clear H;
      (constructor; simpl; auto; try discriminate;
       try (intros k' _; rewrite Hprog; eauto);
       unfold rem_tasks, pushed_head; simpl; rewrite ?Hprog; auto).
Qed.

Lemma exec_inv2 fixed W script s p : Inv2 W script s -> Inv2 W script (exec fixed s p).
Proof.
  intros J. destruct p as [tid|i]; simpl.
  - destruct (step fixed s tid) as [s'|] eqn:E; auto.
    destruct tid; simpl in E; [eapply pstep_inv2|eapply wstep_inv2]; eauto.
  - destruct (spurious s i) as [s'|] eqn:E; auto. eapply spurious_inv2; eauto.
Qed.

Lemma reachable_inv2 fixed W script s : reachable fixed W script s -> Inv2 W script s.
Proof.
  intros [sched ->]. apply run_invariant; [intros; apply exec_inv2; auto|apply init_inv2].
Qed.

Lemma tasks_of_script ts : tasks_of (script_of ts) = ts.
Proof. unfold script_of. induction ts; simpl; auto. rewrite IHts; auto. Qed.

Lemma wf_script_of ts : wf_script (script_of ts) = true.
Proof. unfold script_of. induction ts; simpl; auto. Qed.

Lemma inflight_exited t l : forallb is_exited l = true -> inflight t l = 0.
Proof.
  unfold inflight. induction l as [|pc l IH]; simpl; auto.
  intros H. apply andb_true_iff in H. destruct H as [H1 H2].
  destruct pc; try discriminate. simpl. auto.
Qed.

(* ==== Theorem 1: conservation, no duplicate execution, exactly once ======= *)
Theorem pool_conservation fixed W script s :
  reachable fixed W script s ->
  forall t, cnt t (queue s) + inflight t (wpcs s) + cnt t (map fst (executed s)) = cnt t (added s)
            /\ cnt t (added s) <= cnt t (tasks_of script).
Proof.
  intros R t. apply reachable_inv2 in R. split; [apply (j_cnt _ _ _ R)|].
  rewrite (j_script _ _ _ R), cnt_app, cnt_rev. lia.
Qed.

Theorem pool_no_dup_exec fixed W script s :
  reachable fixed W script s ->
  (forall t, cnt t (map fst (executed s)) <= cnt t (tasks_of script)) /\
  (NoDup (tasks_of script) -> NoDup (map fst (executed s))).
Proof.
  intros R.
  assert (H : forall t, cnt t (map fst (executed s)) <= cnt t (tasks_of script)).
  { intros t. destruct (pool_conservation _ _ _ _ R t). lia. }
  split; auto. intros Hnd.
  apply (NoDup_count_occ N.eq_dec). intros t.
  rewrite (NoDup_count_occ N.eq_dec) in Hnd. specialize (Hnd t). specialize (H t).
  unfold cnt in H. lia.
Qed.

Theorem pool_exactly_once_gen fixed W script s :
  W >= 1 -> wf_script script = true ->
  reachable fixed W script s -> final s = true ->
  (forall t, cnt t (map fst (executed s)) = cnt t (tasks_of script)) /\
  Permutation (map fst (executed s)) (tasks_of script) /\
  queue s = [] /\ err s = false.
Proof.
  intros HW Hwf R F.
  assert (I := reachable_inv _ _ _ _ Hwf R). assert (J := reachable_inv2 _ _ _ _ R).
  unfold final in F. apply andb_true_iff in F. destruct F as [Fe Fp].
  destruct (prog s) eqn:Hprog; [|discriminate].
  assert (Hq : queue s = []).
  { assert (Hl := j_W _ _ _ J).
    destruct (wpcs s) as [|pc l] eqn:Ew; [simpl in Hl; lia|].
    assert (H0 : nth_error (wpcs s) 0 = Some pc) by (rewrite Ew; reflexivity).
    simpl in Fe. apply andb_true_iff in Fe. destruct Fe as [Fe _].
    destruct pc; try discriminate.
    destruct (i_w _ _ I _ _ H0) as [_ [_ Hq]]. auto. }
  assert (Hc : forall t, cnt t (map fst (executed s)) = cnt t (tasks_of script)).
  { intros t. assert (H := j_cnt _ _ _ J t). rewrite Hq, inflight_exited in H by auto.
    rewrite (j_script _ _ _ J), cnt_app, cnt_rev.
    unfold rem_tasks, pushed_head. rewrite Hprog. destruct (pp s); simpl in *; unfold cnt in *; simpl; lia. }
  split; auto. split; [|split; auto; apply (i_err _ _ I)].
  apply (Permutation_count_occ N.eq_dec). intros t. apply Hc.
Qed.

Theorem pool_exactly_once_safety fixed W ts s :
  W >= 1 -> reachable fixed W (script_of ts) s -> final s = true ->
  (forall t, cnt t (map fst (executed s)) = cnt t ts) /\
  Permutation (map fst (executed s)) ts /\ queue s = [] /\ err s = false.
Proof.
  intros HW R F.
  destruct (pool_exactly_once_gen fixed W (script_of ts) s HW (wf_script_of ts) R F) as [H1 [H2 H3]].
  rewrite tasks_of_script in *. auto.
Qed.

(* pop() is never called on an empty deque *)
Theorem pool_pop_nonempty fixed W script s :
  wf_script script = true -> reachable fixed W script s -> err s = false.
Proof. intros Hwf R. apply (i_err _ _ (reachable_inv _ _ _ _ Hwf R)). Qed.

(* ==== Theorem 2: mutual exclusion and lock discipline ===================== *)
Lemma in_cs_owner fixed s tid : Inv fixed s -> in_cs fixed s tid = true -> owner s = Some tid.
Proof.
  intros I H. destruct tid as [|i]; simpl in H.
  - apply (i_pown _ _ I); auto.
  - destruct (nth_error (wpcs s) i) as [pc|] eqn:E; [|discriminate].
    destruct (i_w _ _ I _ _ E) as [Hm _]. apply Hm; auto.
Qed.

Theorem pool_mutual_exclusion fixed W script s :
  wf_script script = true -> reachable fixed W script s ->
  (forall t1 t2, in_cs fixed s t1 = true -> in_cs fixed s t2 = true -> t1 = t2) /\
  (forall t, in_cs fixed s t = true <-> owner s = Some t).
Proof.
  intros Hwf R. assert (I := reachable_inv _ _ _ _ Hwf R). split.
  - intros t1 t2 H1 H2. apply (in_cs_owner _ _ _ I) in H1. apply (in_cs_owner _ _ _ I) in H2. congruence.
  - intros t. split; [apply in_cs_owner; auto|apply (i_own _ _ I)].
Qed.

(* lockset: pop holds shared_mutex (both variants); in the fixed variant every
   push and every write of a stop flag holds shared_mutex as well; block
   (cv.wait) and unlock are only executed by the owner *)
Theorem pool_lockset fixed W script s tid a :
  wf_script script = true -> reachable fixed W script s ->
  next_action fixed s tid = Some a ->
  match a with
  | APop | AUnlock | ABlock => owner s = Some tid
  | APush _ | ASetStop _ => fixed = true -> owner s = Some tid
  | ALock => in_cs fixed s tid = false
  | _ => True
  end.
Proof.
  intros Hwf R Ha. assert (I := reachable_inv _ _ _ _ Hwf R). assert (J := reachable_inv2 _ _ _ _ R).
  destruct tid as [|i]; simpl in Ha.
  - destruct (prog s) as [|a0 r] eqn:Hp; [discriminate|].
    assert (Hpo := i_pown _ _ I).
    destruct (pp s) eqn:Hpp.
    + destruct a0; inversion Ha; subst a; auto; destruct fixed; simpl; auto; rewrite Hpp; reflexivity.
    + destruct a0; inversion Ha; subst a; auto. intros ->. apply Hpo. reflexivity.
    + inversion Ha; subst a. destruct (k <? length (wpcs s)); auto. intros ->. apply Hpo; reflexivity.
    + inversion Ha; subst a. destruct fixed; auto.
    + inversion Ha; subst a; auto.
    + inversion Ha; subst a. destruct (k <? length (wpcs s)); auto.
  - destruct (nth_error (wpcs s) i) as [pc|] eqn:E; [|discriminate].
    destruct (i_w _ _ I _ _ E) as [Hm _].
    destruct pc; inversion Ha; subst a; simpl in *; auto; try (apply Hm; reflexivity); rewrite E; reflexivity.
Qed.

(* ==== Theorem 3: the pinned pool loses a wake-up =========================== *)
Definition go (n tid : nat) : list pick := repeat (Go tid) n.

(* worker 0 evaluates its wait predicate to false (4 steps); the producer runs
   stop_all_workers() completely, including notify_all, and starts join (7
   steps); only then the worker blocks: nobody will ever notify again *)
Definition lost_wakeup_sched : list pick := go 4 1 ++ go 7 0 ++ go 1 1.

Theorem pool_lost_wakeup_reachable :
  exists s, reachable false 1 (script_of []) s /\
            final s = false /\ any_enabled false s = false /\ stuck false s = true /\
            nth_error (wpcs s) 0 = Some WSleep /\ pp s = PJoin 0.
Proof.
  exists (run false lost_wakeup_sched (init 1 (script_of []))).
  split; [exists lost_wakeup_sched; reflexivity|]. vm_compute. repeat split; reflexivity.
Qed.

(* the same schedule on the fixed pool cannot even be executed as written (the
   producer's lock is refused while the worker holds shared_mutex); continuing
   it round-robin terminates *)
Example fixed_same_schedule_terminates :
  final (run true (lost_wakeup_sched ++ go 20 0 ++ go 20 1 ++ go 20 0) (init 1 (script_of []))) = true.
Proof. vm_compute. reflexivity. Qed.

(* one task added while the only worker is about to sleep: the task stays
   queued, the worker sleeps, the producer is blocked in join *)
Definition lost_task_sched : list pick := go 4 1 ++ go 4 0 ++ go 1 1 ++ go 1 0.

Theorem pool_lost_task_reachable :
  exists s, reachable false 1 [AddTask 7%N; WaitWorkers] s /\
            stuck false s = true /\ queue s = [7%N] /\ executed s = [] /\
            nth_error (wpcs s) 0 = Some WSleep /\ pp s = PJoin 0.
Proof.
  exists (run false lost_task_sched (init 1 [AddTask 7%N; WaitWorkers])).
  split; [exists lost_task_sched; reflexivity|]. vm_compute. repeat split; reflexivity.
Qed.

(* the real constructor waits for parts_done after add_task instead of joining:
   with script [AddTask 7] the producer is finished and nothing is enabled *)
Theorem pool_lost_task_no_join :
  exists s, reachable false 1 [AddTask 7%N] s /\
            any_enabled false s = false /\ queue s = [7%N] /\ executed s = [].
Proof.
  exists (run false (go 4 1 ++ go 4 0 ++ go 1 1) (init 1 [AddTask 7%N])).
  split; [eexists; reflexivity|]. vm_compute. repeat split; reflexivity.
Qed.

(* ==== Theorem 4: the fixed pool is deadlock free =========================== *)
Definition shape (p : list pact) : Prop :=
  (exists ts, p = map AddTask ts ++ [StopAll; WaitWorkers]) \/ p = [WaitWorkers] \/ p = [].

Lemma shape_tl a r : shape (a :: r) -> shape r.
Proof.
  intros [[ts H]|[H|H]]; [|inversion H; right; right; auto|discriminate].
  destruct ts as [|t ts]; simpl in H; inversion H.
  - right; left; auto.
  - left; exists ts; auto.
Qed.
Lemma shape_wait r : shape (WaitWorkers :: r) -> r = [].
Proof.
  intros [[ts H]|[H|H]]; [|inversion H; auto|discriminate].
  destruct ts; simpl in H; inversion H.
Qed.
Lemma shape_stop r : shape (StopAll :: r) -> r = [WaitWorkers].
Proof.
  intros [[ts H]|[H|H]]; [|inversion H|discriminate].
  destruct ts; simpl in H; inversion H; auto.
Qed.
Lemma shape_add t r : shape (AddTask t :: r) -> r <> [] /\ r <> [WaitWorkers].
Proof.
  intros [[ts H]|[H|H]]; [|inversion H|discriminate].
  destruct ts as [|t' ts]; simpl in H; inversion H.
  destruct ts; simpl; split; discriminate.
Qed.

Record Inv4 (s : state) : Prop := {
  k_shape : shape (prog s);
  k_pc : pending (pp s) = true -> exists a r, prog s = a :: r /\ a <> WaitWorkers;
  k_stops1 : prog s = [WaitWorkers] \/ prog s = [] ->
             forall i, i < length (wpcs s) -> stopAt (stops s) i = true;
  k_stops2 : forall k, pp s = PStopLoop k ->
             forall i, i < k -> i < length (wpcs s) -> stopAt (stops s) i = true;
  k_stops3 : pp s = PRelease \/ pp s = PNotify -> head_is_stop (prog s) ->
             forall i, i < length (wpcs s) -> stopAt (stops s) i = true;
  k_join : forall k, pp s = PJoin k -> forall i, i < k -> exited s i = true;
  k_done : prog s = [] -> forall i, i < length (wpcs s) -> exited s i = true
}.

Lemma init_inv4 W ts : Inv4 (init W (script_of ts)).
Proof.
  constructor; simpl; try discriminate.
  - left; exists ts; reflexivity.
  - intros [H|H]; unfold script_of in H; destruct ts; simpl in H; try discriminate.
  - intros [H|H]; discriminate.
  - unfold script_of; destruct ts; discriminate.
Qed.

Lemma exited_upd s i pc pc' j :
  nth_error (wpcs s) i = Some pc -> is_exited pc = false ->
  exited s j = true ->
  match nth_error (upd i pc' (wpcs s)) j with Some x => is_exited x | None => false end = true.
Proof.
  intros Hpc Hne He. unfold exited in He.
  destruct (Nat.eq_dec j i) as [->|Hn].
  - rewrite Hpc in He. congruence.
  - rewrite nth_error_upd_neq; auto.
Qed.

Lemma exited_wake l j :
  match nth_error l j with Some x => is_exited x | None => false end = true ->
  match nth_error (map wake l) j with Some x => is_exited x | None => false end = true.
Proof.
  rewrite nth_error_map. destruct (nth_error l j) as [x|]; simpl; auto. destruct x; auto.
Qed.

(* worker steps change neither prog, pp, stops nor the number of workers, and
   keep exited workers exited *)
Lemma wstep_stable s i s' :
  wstep s i = Some s' ->
  prog s' = prog s /\ pp s' = pp s /\ stops s' = stops s /\ length (wpcs s') = length (wpcs s) /\
  (forall j, exited s j = true -> exited s' j = true).
Proof.
  intros H. unfold wstep in H.
  destruct (nth_error (wpcs s) i) as [pc|] eqn:Hpc; [|discriminate].
  destruct pc; try discriminate;
    try (destruct (owner s); [discriminate|]);
    try (destruct (queue s) eqn:Eq);
    inversion H; subst s'; clear H; simpl;
    (repeat split; auto;
     [ rewrite ?map_length, upd_length; auto
     | intros j Hj; unfold exited; simpl; try apply exited_wake;
       eapply exited_upd; eauto ]).
Qed.

Lemma spurious_stable s i s' :
  spurious s i = Some s' ->
  prog s' = prog s /\ pp s' = pp s /\ stops s' = stops s /\ length (wpcs s') = length (wpcs s) /\
  (forall j, exited s j = true -> exited s' j = true).
Proof.
  intros H. unfold spurious in H.
  destruct (nth_error (wpcs s) i) as [pc|] eqn:Hpc; [|discriminate].
  destruct pc; try discriminate. inversion H; subst s'; clear H; simpl.
  repeat split; auto; [apply upd_length|].
  intros j Hj; unfold exited; simpl. eapply exited_upd; eauto.
Qed.

Lemma inv4_stable s s' :
  prog s' = prog s -> pp s' = pp s -> stops s' = stops s -> length (wpcs s') = length (wpcs s) ->
  (forall j, exited s j = true -> exited s' j = true) ->
  Inv4 s -> Inv4 s'.
Proof.
  intros E1 E2 E3 E4 E5 [K1 K2 K3 K4 K5 K6 K7].
  constructor; rewrite ?E1, ?E2, ?E3, ?E4; eauto.
Qed.

Lemma exited_set_pp s p j : exited (set_pp s p) j = exited s j.
Proof. reflexivity. Qed.

Lemma pstep_inv4 fixed W script s s' :
  Inv fixed s -> Inv2 W script s -> Inv4 s -> pstep fixed s = Some s' -> Inv4 s'.
Proof.
  intros I J K H. unfold pstep in H.
  destruct (prog s) as [|a rest] eqn:Hprog; [discriminate|].
  destruct K as [K1 K2 K3 K4 K5 K6 K7].
  assert (Hlen := i_len _ _ I). assert (Hlp := i_loop _ _ I). assert (Hjn := j_join _ _ _ J).
  rewrite Hprog in *.
  destruct (pp s) eqn:Hpp.
  - (* PStart *)
    assert (Hno : a <> WaitWorkers -> forall o, Inv4 (set_owner (set_pp s PHold) o)).
    { intros Ha o. constructor; simpl; rewrite ?Hprog; auto; try discriminate.
      - intros _. eauto.
      - intros [Hc|Hc]; discriminate. }
    destruct a.
    + destruct fixed; [destruct (owner s); [discriminate|]|]; inversion H; subst s'; clear H.
      * apply Hno; discriminate.
      * apply (Hno ltac:(discriminate) (owner s)).
    + destruct fixed; [destruct (owner s); [discriminate|]|]; inversion H; subst s'; clear H.
      * apply Hno; discriminate.
      * apply (Hno ltac:(discriminate) (owner s)).
    + inversion H; subst s'; clear H.
      constructor; simpl; rewrite ?Hprog; auto; try discriminate.
      * intros [Hc|Hc]; discriminate.
      * intros k Hk i Hi. inversion Hk; subst k. lia.
  - (* PHold *)
    destruct a; [| |discriminate]; inversion H; subst s'; clear H.
    + constructor; simpl; rewrite ?Hprog; auto; try discriminate.
      intros _ [r Hr]. discriminate.
    + constructor; simpl; rewrite ?Hprog; auto; try discriminate.
      * intros k Hk i Hi. inversion Hk; subst k. lia.
      * intros [Hc|Hc]; discriminate.
  - (* PStopLoop *)
    destruct (Hlp k eq_refl) as [r Hr]. inversion Hr; subst a r; clear Hr.
    destruct (k <? length (wpcs s)) eqn:Ek; inversion H; subst s'; clear H.
    + apply Nat.ltb_lt in Ek.
      constructor; simpl; rewrite ?Hprog; auto; try discriminate.
      * intros [Hc|Hc]; discriminate.
      * intros k' Hk' i Hi Hi2. inversion Hk'; subst k'. unfold stopAt.
        destruct (Nat.eq_dec i k) as [->|Hn].
        -- apply nth_upd_eq. lia.
        -- apply nth_upd_true. apply (K4 k eq_refl); auto. lia.
      * intros [Hc|Hc]; discriminate.
    + apply Nat.ltb_ge in Ek.
      constructor; simpl; rewrite ?Hprog; auto; try discriminate.
      intros _ _ i Hi. apply (K4 k eq_refl); auto. lia.
  - (* PRelease *)
    assert (Hx : forall o, Inv4 (set_pp (set_owner s o) PNotify)).
    { intros o. constructor; simpl; rewrite ?Hprog; auto; try discriminate. }
    destruct fixed; inversion H; subst s'; clear H; [apply Hx|apply (Hx (owner s))].
  - (* PNotify *)
    inversion H; subst s'; clear H.
    destruct (K2 eq_refl) as [a' [r' [Ha' Hne]]]. inversion Ha'; subst a' r'; clear Ha'.
    constructor; simpl; rewrite ?map_length; auto; try discriminate.
    + eapply shape_tl; eauto.
    + intros Hr i Hi. destruct a.
      * apply shape_add in K1. destruct K1 as [N1 N2]. destruct Hr; contradiction.
      * apply K5; auto. exists rest; auto.
      * contradiction.
    + intros [Hc|Hc]; discriminate.
    + intros Hr i Hi. subst rest. destruct a.
      * apply shape_add in K1. destruct K1; contradiction.
      * apply shape_stop in K1. discriminate.
      * contradiction.
  - (* PJoin *)
    destruct (Hjn k eq_refl) as [r Hr]. inversion Hr; subst a r; clear Hr.
    assert (Hrest := shape_wait _ K1). subst rest.
    destruct (k <? length (wpcs s)) eqn:Ek.
    + destruct (exited s k) eqn:Ex; [|discriminate]. inversion H; subst s'; clear H.
      constructor; simpl; rewrite ?Hprog; auto; try discriminate.
      intros k' Hk' i Hi. inversion Hk'; subst k'. rewrite exited_set_pp.
      destruct (Nat.eq_dec i k) as [->|Hn]; auto. apply (K6 k eq_refl). lia.
    + apply Nat.ltb_ge in Ek. inversion H; subst s'; clear H.
      constructor; simpl; auto; try discriminate.
      * right; right; auto.
      * intros _ i Hi. apply (K6 k eq_refl). lia.
Qed.

Record InvAll (fixed : bool) (W : nat) (script : list pact) (s : state) : Prop := {
  a_inv : Inv fixed s; a_inv2 : Inv2 W script s; a_inv4 : Inv4 s }.

Lemma exec_invall fixed W script s p :
  InvAll fixed W script s -> InvAll fixed W script (exec fixed s p).
Proof.
  intros [I J K]. constructor; [apply exec_inv; auto|apply exec_inv2; auto|].
  destruct p as [tid|i]; simpl.
  - destruct (step fixed s tid) as [s'|] eqn:E; auto.
    destruct tid; simpl in E.
    + eapply pstep_inv4; eauto.
    + destruct (wstep_stable _ _ _ E) as [E1 [E2 [E3 [E4 E5]]]]. eapply inv4_stable; eauto.
  - destruct (spurious s i) as [s'|] eqn:E; auto.
    destruct (spurious_stable _ _ _ E) as [E1 [E2 [E3 [E4 E5]]]]. eapply inv4_stable; eauto.
Qed.

Lemma reachable_invall fixed W ts s :
  reachable fixed W (script_of ts) s -> InvAll fixed W (script_of ts) s.
Proof.
  intros [sched ->]. apply run_invariant; [intros; apply exec_invall; auto|].
  constructor; [apply init_inv, wf_script_of|apply init_inv2|apply init_inv4].
Qed.

Definition idle_pc (pc : wpc) : bool := match pc with WSleep | WExited => true | _ => false end.

Lemma find_busy (l : list wpc) :
  (exists i pc, nth_error l i = Some pc /\ idle_pc pc = false) \/
  (forall i pc, nth_error l i = Some pc -> idle_pc pc = true).
Proof.
  induction l as [|x l IH].
  - right. intros i pc H. destruct i; discriminate.
  - destruct (idle_pc x) eqn:Ex.
    + destruct IH as [[i [pc [H1 H2]]]|IH].
      * left. exists (S i), pc. auto.
      * right. intros i pc H. destruct i; simpl in H; [inversion H; subst; auto|eauto].
    + left. exists 0, x. auto.
Qed.

Lemma enabled_in_range fixed s tid :
  enabled fixed s tid = true -> tid <= length (wpcs s) -> any_enabled fixed s = true.
Proof.
  intros H Hl. unfold any_enabled. apply existsb_exists. exists tid. split; auto.
  apply in_seq. lia.
Qed.

Theorem pool_deadlock_free_fixed W ts s :
  reachable true W (script_of ts) s ->
  final s = true \/ exists tid, enabled true s tid = true.
Proof.
  intros R. destruct (reachable_invall _ _ _ _ R) as [I J K].
  destruct (owner s) as [x|] eqn:Eo.
  - (* the owner of shared_mutex can always move *)
    right. exists x. assert (Hcs := i_own _ _ I x Eo). unfold enabled.
    destruct x as [|i]; simpl in *.
    + unfold pstep. destruct (k_pc _ K) as [a [r [Hp Ha]]].
      { destruct (pp s); simpl in Hcs; try discriminate; reflexivity. }
      rewrite Hp. destruct (pp s); simpl in Hcs; try discriminate.
      * destruct a; auto; contradiction.
      * destruct (k <? length (wpcs s)); auto.
      * reflexivity.
    + unfold wstep. destruct (nth_error (wpcs s) i) as [pc|]; [|discriminate].
      destruct pc; simpl in Hcs; try discriminate; auto.
      destruct (queue s); auto.
  - destruct (find_busy (wpcs s)) as [[i [pc [Hi Hb]]]|Hidle].
    + (* a worker outside the critical section that is neither asleep nor gone *)
      right. exists (S i). unfold enabled; simpl. unfold wstep. rewrite Hi, Eo.
      destruct (i_w _ _ I _ _ Hi) as [Hm _]. rewrite Eo in Hm.
      destruct pc; simpl in Hb; try discriminate; auto;
        exfalso; assert (Hc : @None nat = Some (S i)) by (apply Hm; reflexivity); discriminate.
    + (* every worker sleeps or has exited *)
      destruct (prog s) as [|a rest] eqn:Hp.
      * left. unfold final. rewrite Hp. rewrite andb_true_r.
        apply forallb_forall. intros pc Hin. apply In_nth_error in Hin. destruct Hin as [i Hi].
        assert (Hx := k_done _ K Hp i). unfold exited in Hx. rewrite Hi in Hx. apply Hx.
        apply nth_error_Some. congruence.
      * right. exists 0. unfold enabled; simpl. unfold pstep. rewrite Hp, Eo.
        destruct (pp s) eqn:Hpp.
        -- destruct a; auto.
        -- destruct (k_pc _ K) as [a' [r' [Hp' Ha]]]; [rewrite Hpp; reflexivity|].
           rewrite Hp in Hp'. inversion Hp'; subst a' r'. destruct a; auto; contradiction.
        -- destruct (k <? length (wpcs s)); auto.
        -- reflexivity.
        -- reflexivity.
        -- destruct (k <? length (wpcs s)) eqn:Ek; auto.
           apply Nat.ltb_lt in Ek.
           destruct (j_join _ _ _ J k Hpp) as [r Hr]. rewrite Hp in Hr. inversion Hr; subst a r.
           assert (Hrest := shape_wait rest). rewrite <- Hp in Hrest. specialize (Hrest (k_shape _ K)). subst rest.
           unfold exited. destruct (nth_error (wpcs s) k) as [pc|] eqn:Hk.
           ++ assert (Hid := Hidle _ _ Hk).
              destruct pc; simpl in Hid; try discriminate; auto.
              exfalso. destruct (i_w _ _ I _ _ Hk) as [_ Hs]. simpl in Hs.
              destruct (Hs eq_refl) as [[Hf _]|Hpd]; [|rewrite Hpp in Hpd; discriminate].
              rewrite (k_stops1 _ K (or_introl Hp) k Ek) in Hf. discriminate.
           ++ apply nth_error_None in Hk. lia.
Qed.

(* boolean form used by the harness on explored states *)
Corollary pool_never_stuck_fixed W ts s :
  reachable true W (script_of ts) s -> stuck true s = false.
Proof.
  intros R. unfold stuck.
  destruct (pool_deadlock_free_fixed _ _ _ R) as [F|[tid He]].
  - rewrite F. reflexivity.
  - assert (Hl : tid <= length (wpcs s)).
    { destruct tid as [|i]; [lia|]. unfold enabled in He. simpl in He. unfold wstep in He.
      destruct (nth_error (wpcs s) i) eqn:E; [|discriminate].
      assert (i < length (wpcs s)) by (apply nth_error_Some; congruence). lia. }
    rewrite (enabled_in_range _ _ _ He Hl). apply andb_false_r.
Qed.

(* ==== Theorem 5 (C09): the slot protocol is deterministic ================== *)
Arguments BIdle {block part}.
Arguments BHave {block part}.
Arguments BComputed {block part}.
Arguments BLoop {block}.
Arguments BAdd {block}.
Arguments BWait {block}.
Arguments BDone {block}.
Arguments bws {block part}.
Arguments bq {block part}.
Arguments parts {block part}.
Arguments parts_done {block part}.
Arguments bpp {block part}.
Arguments wlog {block part}.
Arguments mkB {block part}.

Section ParBuildProofs.
  Variables (block part : Type) (build_block : block -> part).
  Notation bstate := (bstate block part).
  Notation bwpc := (bwpc block part).
  Variable blocks : list block.

  Definition wc (i : nat) (pc : bwpc) : nat :=
    match pc with
    | BHave j _ | BComputed j _ => if Nat.eq_dec j i then 1 else 0
    | BIdle => 0
    end.
  Definition busy (pc : bwpc) : nat := match pc with BIdle => 0 | _ => 1 end.
  Definition qc (i : nat) (q : list (nat * block)) : nat := count_occ Nat.eq_dec (map fst q) i.
  Definition pcw (i : nat) (p : bppc block) : nat :=
    match p with BAdd j _ _ => if Nat.eq_dec j i then 1 else 0 | _ => 0 end.
  Definition pbusy (p : bppc block) : nat := match p with BAdd _ _ _ => 1 | _ => 0 end.
  Definition pcount (i : nat) (s : bstate) : nat := qc i (bq s) + sumf (wc i) (bws s) + pcw i (bpp s).
  Definition ptotal (s : bstate) : nat := length (bq s) + sumf busy (bws s) + pbusy (bpp s).

  Definition slot_ok (s : bstate) (i : nat) : Prop :=
    (nth_error (parts s) i = Some None /\ pcount i s = 1) \/
    (exists b, nth_error blocks i = Some b /\
               nth_error (parts s) i = Some (Some (build_block b)) /\ pcount i s = 0).

  Definition wpay (pc : bwpc) : Prop :=
    match pc with
    | BIdle => True
    | BHave i b => nth_error blocks i = Some b
    | BComputed i v => exists b, nth_error blocks i = Some b /\ v = build_block b
    end.

  Definition prest (s : bstate) : Prop :=
    match bpp s with
    | BLoop r => skipn (length (parts s)) blocks = r
    | BAdd i b r => skipn (length (parts s)) blocks = r /\ S i = length (parts s) /\ nth_error blocks i = Some b
    | BWait => length (parts s) = length blocks
    | BDone => length (parts s) = length blocks /\ parts_done s = length (parts s)
    end.

  Record BInv (s : bstate) : Prop := {
    b_slot : forall i, i < length (parts s) -> slot_ok s i;
    b_out : forall i, length (parts s) <= i -> pcount i s = 0;
    b_q : forall i b, In (i, b) (bq s) -> nth_error blocks i = Some b;
    b_w : forall w pc, nth_error (bws s) w = Some pc -> wpay pc;
    b_done : parts_done s + ptotal s = length (parts s);
    b_rest : prest s;
    b_le : length (parts s) <= length blocks;
    b_log : NoDup (wlog s) /\
            forall i, In i (wlog s) -> i < length (parts s) /\ nth_error (parts s) i <> Some None
  }.

  Lemma skipn_cons {A} n (l : list A) x r :
    skipn n l = x :: r -> nth_error l n = Some x /\ skipn (S n) l = r.
  Proof.
    revert l; induction n; intros l H.
    - simpl in H. subst l. auto.
    - destruct l; simpl in H; [discriminate|]. apply IHn in H. simpl. auto.
  Qed.

  Lemma skipn_nil_len {A} n (l : list A) : skipn n l = [] -> length l <= n.
  Proof.
    revert l; induction n; intros l H.
    - simpl in H. subst. auto.
    - destruct l; simpl in *; [lia|]. apply IHn in H. lia.
  Qed.

  Lemma binit_inv W : BInv (binit block part W blocks).
  Proof.
    constructor; simpl; try (intros; lia); try tauto.
    - intros i _. unfold pcount; simpl. induction W; simpl; auto.
    - intros w pc H. apply nth_error_repeat in H. destruct H as [-> _]. exact I.
    - unfold ptotal; simpl. induction W; simpl; auto.
    - reflexivity.
    - split; [constructor|intros i []].
  Qed.

  Lemma ptotal0_pcount s i : ptotal s = 0 -> pcount i s = 0.
  Proof.
    unfold ptotal, pcount. intros H.
    assert (H1 : length (bq s) = 0) by lia. assert (H2 : sumf busy (bws s) = 0) by lia.
    assert (H3 : pbusy (bpp s) = 0) by lia.
    destruct (bq s); [|discriminate]. unfold qc; simpl.
    assert (sumf (wc i) (bws s) = 0).
    { clear -H2. induction (bws s) as [|pc l IH]; simpl in *; auto.
      destruct pc; simpl in *; try lia; apply IH; lia. }
    destruct (bpp s); simpl in *; lia.
  Qed.

  Lemma sumf_ge {A} (f : A -> nat) l w x : nth_error l w = Some x -> f x <= sumf f l.
  Proof.
    revert w; induction l; destruct w; simpl; intros H; try discriminate.
    - inversion H; subst. lia.
    - apply IHl in H. lia.
  Qed.

  Lemma qc_app i q x : qc i (q ++ [x]) = qc i q + (if Nat.eq_dec (fst x) i then 1 else 0).
  Proof.
    unfold qc. rewrite map_app, count_occ_app. simpl. destruct (Nat.eq_dec (fst x) i); auto.
  Qed.

  Lemma bpstep_inv s s' : BInv s -> bpstep block part s = Some s' -> BInv s'.
  Proof.
    intros [B1 B2 B3 B4 B5 B6 B7 B8] H. unfold bpstep in H. unfold prest in B6.
    destruct (bpp s) as [r|i b r| |] eqn:Hpp.
    - destruct r as [|b r].
      + (* end of input: wait *)
        inversion H; subst s'; clear H.
        constructor; simpl; auto.
        * intros i Hi. specialize (B1 i Hi). unfold slot_ok, pcount in *. simpl. rewrite Hpp in B1. exact B1.
        * intros i Hi. specialize (B2 i Hi). unfold pcount in *. simpl. rewrite Hpp in B2. exact B2.
        * unfold ptotal in *. simpl. rewrite Hpp in B5. exact B5.
        * unfold prest; simpl. apply skipn_nil_len in B6. lia.
      + (* reserve a slot under m *)
        inversion H; subst s'; clear H.
        apply skipn_cons in B6. destruct B6 as [Hb Hr].
        assert (Hn : length (parts s) < length blocks) by (apply nth_error_Some; congruence).
        constructor; simpl; auto.
        * intros i Hi. rewrite app_length in Hi. simpl in Hi.
          destruct (Nat.eq_dec i (length (parts s))) as [->|Hne].
          -- unfold slot_ok; simpl. left. split.
             ++ rewrite nth_error_app2 by lia. rewrite Nat.sub_diag. reflexivity.
             ++ assert (H0 := B2 (length (parts s)) (le_n _)). unfold pcount in *. simpl.
                rewrite Hpp in H0. simpl in H0.
                destruct (Nat.eq_dec (length (parts s)) (length (parts s))); lia.
          -- assert (Hi' : i < length (parts s)) by lia. specialize (B1 i Hi').
             unfold slot_ok, pcount in *. simpl. rewrite Hpp in B1. simpl in B1.
             rewrite nth_error_app1 by lia.
             destruct (Nat.eq_dec (length (parts s)) i); [lia|]. exact B1.
        * intros i Hi. rewrite app_length in Hi. simpl in Hi.
          assert (H0 := B2 i ltac:(lia)). unfold pcount in *. simpl. rewrite Hpp in H0. simpl in H0.
          destruct (Nat.eq_dec (length (parts s)) i); lia.
        * unfold ptotal in *. simpl. rewrite Hpp in B5. simpl in B5. rewrite app_length. simpl. lia.
        * unfold prest; simpl. rewrite app_length. simpl. rewrite Nat.add_1_r. auto.
        * rewrite app_length; simpl; lia.
        * destruct B8 as [N1 N2]. split; auto. intros i Hi. destruct (N2 i Hi) as [L1 L2].
          rewrite app_length; simpl. split; [lia|]. rewrite nth_error_app1 by lia. auto.
    - (* add_task *)
      inversion H; subst s'; clear H. destruct B6 as [Hr [Hi Hb]].
      constructor; simpl; auto.
      + intros j Hj. specialize (B1 j Hj). unfold slot_ok, pcount in *. simpl.
        rewrite qc_app. simpl. rewrite Hpp in B1. simpl in B1.
        destruct (Nat.eq_dec i j); rewrite ?Nat.add_0_r in *;
          [replace (qc j (bq s) + 1 + sumf (wc j) (bws s)) with (qc j (bq s) + sumf (wc j) (bws s) + 1) by lia|];
          exact B1.
      + intros j Hj. specialize (B2 j Hj). unfold pcount in *. simpl. rewrite qc_app. simpl.
        rewrite Hpp in B2. simpl in B2. destruct (Nat.eq_dec i j); lia.
      + intros j b' Hin. apply in_app_or in Hin. destruct Hin as [Hin|[Hin|[]]]; eauto.
        inversion Hin; subst; auto.
      + unfold ptotal in *. simpl. rewrite Hpp in B5. simpl in B5. rewrite app_length. simpl. lia.
    - (* wait for parts_done == parts.size() *)
      destruct (Nat.eqb (parts_done s) (length (parts s))) eqn:E; [|discriminate].
      apply Nat.eqb_eq in E. inversion H; subst s'; clear H.
      constructor; simpl; auto.
      + intros i Hi. specialize (B1 i Hi). unfold slot_ok, pcount in *. simpl. rewrite Hpp in B1. exact B1.
      + intros i Hi. specialize (B2 i Hi). unfold pcount in *. simpl. rewrite Hpp in B2. exact B2.
      + unfold ptotal in *. simpl. rewrite Hpp in B5. exact B5.
      + unfold prest; simpl. auto.
    - discriminate.
  Qed.

  Lemma b_w_upd (l : list bwpc) w x :
    (forall w' pc, nth_error l w' = Some pc -> wpay pc) -> wpay x ->
    forall w' pc, nth_error (upd w x l) w' = Some pc -> wpay pc.
  Proof.
    intros Hl Hx w' pc H. apply nth_error_upd_inv in H. destruct H as [[_ ->]|[_ H]]; eauto.
  Qed.

  Lemma bwstep_inv s w s' : BInv s -> bwstep block part build_block s w = Some s' -> BInv s'.
  Proof.
    intros [B1 B2 B3 B4 B5 B6 B7 B8] H. unfold bwstep in H.
    destruct (nth_error (bws s) w) as [pc|] eqn:Hw; [|discriminate].
    assert (Hup : forall (f : bwpc -> nat) x, sumf f (upd w x (bws s)) + f pc = sumf f (bws s) + f x).
    { intros; apply sumf_upd; auto. }
    destruct pc as [|i b|i v].
    - (* pop a task *)
      destruct (bq s) as [|[i b] q] eqn:Hq; [discriminate|]. inversion H; subst s'; clear H.
      assert (Hpc : forall j, pcount j (mkB (upd w (BHave i b) (bws s)) q (parts s) (parts_done s) (bpp s) (wlog s))
                              = pcount j s).
      { intros j. unfold pcount; simpl. rewrite Hq. unfold qc; simpl.
        specialize (Hup (wc j) (BHave i b)). simpl in Hup.
        destruct (Nat.eq_dec i j); lia. }
      constructor; simpl; auto.
      + intros j Hj. specialize (B1 j Hj). unfold slot_ok in *. rewrite Hpc. exact B1.
      + intros j Hj. rewrite Hpc. auto.
      + intros j b' Hin. apply B3. right; auto.
      + apply b_w_upd; auto. simpl. apply B3. left; auto.
      + unfold ptotal in *. simpl. rewrite Hq in B5. simpl in B5.
        specialize (Hup busy (BHave i b)). simpl in Hup. lia.
    - (* run the block builder (pure) *)
      inversion H; subst s'; clear H.
      assert (Hpc : forall j, pcount j (mkB (upd w (BComputed i (build_block b)) (bws s)) (bq s) (parts s)
                                            (parts_done s) (bpp s) (wlog s)) = pcount j s).
      { intros j. unfold pcount; simpl.
        specialize (Hup (wc j) (BComputed i (build_block b))). simpl in Hup. lia. }
      constructor; simpl; auto.
      + intros j Hj. specialize (B1 j Hj). unfold slot_ok in *. rewrite Hpc. exact B1.
      + intros j Hj. rewrite Hpc. auto.
      + apply b_w_upd; auto. simpl. exists b. split; auto. apply (B4 _ _ Hw).
      + unfold ptotal in *. simpl.
        specialize (Hup busy (BComputed i (build_block b))). simpl in Hup. lia.
    - (* { lock_guard lg(m); parts[i] = sd; parts_done++; } *)
      inversion H; subst s'; clear H.
      destruct (B4 _ _ Hw) as [b [Hb Hv]].
      assert (Hge : 1 <= pcount i s).
      { unfold pcount. assert (Hs := sumf_ge (wc i) _ _ _ Hw). simpl in Hs.
        destruct (Nat.eq_dec i i); [lia|congruence]. }
      assert (Hi : i < length (parts s)).
      { destruct (lt_dec i (length (parts s))); auto. rewrite B2 in Hge by lia. lia. }
      assert (Hnone : nth_error (parts s) i = Some None /\ pcount i s = 1).
      { destruct (B1 i Hi) as [Hl|[b' [_ [_ Hc]]]]; auto. lia. }
      assert (Hpc : forall j, pcount j (mkB (upd w BIdle (bws s)) (bq s) (upd i (Some v) (parts s))
                                            (S (parts_done s)) (bpp s) (i :: wlog s))
                              + (if Nat.eq_dec i j then 1 else 0) = pcount j s).
      { intros j. unfold pcount; simpl. specialize (Hup (wc j) BIdle). simpl in Hup. lia. }
      assert (Hnotin : ~ In i (wlog s)).
      { intros Hin. destruct B8 as [_ N2]. destruct (N2 i Hin) as [_ N3]. apply N3. tauto. }
      constructor; simpl; auto.
      + intros j Hj. rewrite upd_length in Hj. specialize (Hpc j). unfold slot_ok. simpl.
        destruct (Nat.eq_dec i j) as [<-|Hne].
        * right. exists b. split; auto. split; [rewrite nth_error_upd_eq by auto; congruence|lia].
        * rewrite nth_error_upd_neq by auto. rewrite Nat.add_0_r in Hpc. rewrite Hpc. apply B1; auto.
      + intros j Hj. rewrite upd_length in Hj. specialize (Hpc j). specialize (B2 j Hj). lia.
      + apply b_w_upd; auto. exact I.
      + rewrite upd_length. unfold ptotal in *. simpl.
        specialize (Hup busy BIdle). simpl in Hup. lia.
      + unfold prest in *. simpl. rewrite upd_length. destruct (bpp s) eqn:Hpp; auto.
        exfalso. destruct B6 as [_ B6]. assert (ptotal s = 0) by lia.
        rewrite (ptotal0_pcount s i) in Hge by auto. lia.
      + rewrite upd_length; auto.
      + destruct B8 as [N1 N2]. split; [constructor; auto|].
        intros j [<-|Hin]; rewrite upd_length.
        * split; auto. rewrite nth_error_upd_eq by auto. discriminate.
        * destruct (N2 j Hin) as [L1 L2]. split; auto.
          rewrite nth_error_upd_neq; auto. intros ->. contradiction.
  Qed.

  Lemma brun_inv W sched : BInv (brun block part build_block sched (binit block part W blocks)).
  Proof.
    assert (G : forall sched s, BInv s -> BInv (brun block part build_block sched s)).
    { clear sched. induction sched as [|t sched IH]; simpl; auto.
      intros s B. apply IH. unfold bexec.
      destruct (bstep block part build_block s t) as [s'|] eqn:E; auto.
      destruct t; simpl in E; [eapply bpstep_inv|eapply bwstep_inv]; eauto. }
    apply G, binit_inv.
  Qed.

  Lemma nth_error_ext {A} (l1 l2 : list A) :
    (forall i, nth_error l1 i = nth_error l2 i) -> l1 = l2.
  Proof.
    revert l2; induction l1 as [|x l1 IH]; intros l2 H.
    - destruct l2; auto. specialize (H 0). discriminate.
    - destruct l2 as [|y l2]; [specialize (H 0); discriminate|].
      assert (H0 := H 0). simpl in H0. inversion H0; subst. f_equal. apply IH.
      intros i. apply (H (S i)).
  Qed.

  (* in every final state, for every schedule and every number of workers, the
     parts are exactly the images of the blocks, in input order; every slot
     has been written exactly once *)
  Theorem parbuild_deterministic W sched :
    let s := brun block part build_block sched (binit block part W blocks) in
    (* no two tasks ever write the same slot, and only reserved slots are written *)
    NoDup (wlog s) /\ (forall i, In i (wlog s) -> i < length (parts s) <= length blocks) /\
    (bfinal block part s = true ->
     parts s = map (fun b => Some (build_block b)) blocks /\
     parts_done s = length blocks /\ bq s = []).
  Proof.
    intros s. assert (B := brun_inv W sched). fold s in B.
    split; [apply (b_log _ B)|]. split.
    { intros i Hi. destruct (b_log _ B) as [_ N2]. destruct (N2 i Hi). split; auto. apply (b_le _ B). }
    intros F. unfold bfinal in F.
    destruct (bpp s) eqn:Hpp; try discriminate.
    assert (R := b_rest _ B). unfold prest in R. rewrite Hpp in R. destruct R as [R1 R2].
    assert (Ht : ptotal s = 0) by (assert (H := b_done _ B); lia).
    assert (Hparts : parts s = map (fun b => Some (build_block b)) blocks).
    { apply nth_error_ext. intros i. rewrite nth_error_map.
      destruct (lt_dec i (length (parts s))) as [Hi|Hi].
      - destruct (b_slot _ B i Hi) as [[_ Hc]|[b [Hb [Hp _]]]].
        + rewrite ptotal0_pcount in Hc by auto. discriminate.
        + rewrite Hp, Hb. reflexivity.
      - assert (H1 : nth_error (parts s) i = None) by (apply nth_error_None; lia).
        assert (H2 : nth_error blocks i = None) by (apply nth_error_None; lia).
        rewrite H1, H2. reflexivity. }
    split; auto. split; [lia|].
    unfold ptotal in Ht. destruct (bq s); auto. simpl in Ht. lia.
  Qed.

  (* the constructor's wait can only be passed when every part is complete, and
     it is eventually passable: if nothing is pending the wait is enabled *)
  Theorem parbuild_wait_sound W sched :
    let s := brun block part build_block sched (binit block part W blocks) in
    parts_done s = length (parts s) -> forall i, i < length (parts s) -> nth_error (parts s) i <> Some None.
  Proof.
    intros s Hd i Hi. assert (B := brun_inv W sched). fold s in B.
    assert (Ht : ptotal s = 0) by (assert (H := b_done _ B); lia).
    destruct (b_slot _ B i Hi) as [[_ Hc]|[b [_ [Hp _]]]].
    - rewrite ptotal0_pcount in Hc by auto. discriminate.
    - rewrite Hp. discriminate.
  Qed.
End ParBuildProofs.

(* ==== the cutting loop ===================================================== *)
Section PartitionProofs.
  Variable A : Type.
  Variable len : A -> N.
  Local Open Scope N_scope.

  Definition nonempty (b : list A) : Prop := b <> [].

  Lemma cut_loop_spec cut l : forall acc qty,
    (match cut_loop A len cut l acc qty true with
     | (st, sm, bl) => concat bl = l /\ Forall nonempty bl /\ st = starts A qty bl /\ sm = firsts A bl
     end) /\
    (l <> [] ->
     match cut_loop A len cut l acc qty false with
     | (st, sm, bl) => exists b bl', bl = b :: bl' /\ b <> [] /\ concat bl = l /\ Forall nonempty bl' /\
                                     st = starts A (qty + lenN b) bl' /\ sm = firsts A bl'
     end).
  Proof.
    induction l as [|x r IH]; intros acc qty.
    - simpl. split; [repeat split; constructor|intros H; congruence].
    - cbn [cut_loop].
      set (acc' := (acc + (len x + 1) mod 2 ^ 32) mod 2 ^ 64).
      destruct (is_nil r || (cut <? acc'))%bool eqn:Efl.
      + destruct (IH 0 (qty + 1)) as [IH1 _].
        destruct (cut_loop A len cut r 0 (qty + 1) true) as [[st sm] bl].
        destruct IH1 as [H1 [H2 [H3 H4]]].
        assert (Hq : qty + lenN [x] = qty + 1) by (rewrite lenN_cons, lenN_nil; lia).
        split.
        * split; [simpl; congruence|]. split; [constructor; auto; unfold nonempty; discriminate|].
          split; [simpl; rewrite Hq; congruence|simpl; congruence].
        * intros _. exists [x], bl.
          split; [reflexivity|]. split; [discriminate|]. split; [simpl; congruence|].
          split; [auto|]. split; [rewrite Hq; auto|auto].
      + apply orb_false_iff in Efl. destruct Efl as [Enil _].
        assert (Hr : r <> []) by (destruct r; [discriminate|discriminate]).
        destruct (IH acc' (qty + 1)) as [_ IH2]. specialize (IH2 Hr).
        destruct (cut_loop A len cut r acc' (qty + 1) false) as [[st sm] bl].
        destruct IH2 as [b [bl' [-> [Hb [Hc [Hf [Hs Hm]]]]]]].
        assert (Hq : qty + lenN (x :: b) = qty + 1 + lenN b) by (rewrite lenN_cons; lia).
        split.
        * split; [simpl in *; congruence|]. split; [constructor; auto; unfold nonempty; discriminate|].
          split; [simpl; rewrite Hq; congruence|simpl; congruence].
        * intros _. exists (x :: b), bl'.
          split; [reflexivity|]. split; [discriminate|]. split; [simpl in *; congruence|].
          split; [auto|]. split; [rewrite Hq; auto|auto].
  Qed.

  Lemma starts_length q bl : length (starts A q bl) = length bl.
  Proof. revert q; induction bl; simpl; auto. Qed.

  Lemma starts_spec bl : forall q k, (k < length bl)%nat ->
    nth_error (starts A q bl) k = Some (q + lenN (concat (firstn k bl))).
  Proof.
    induction bl as [|b bl IH]; intros q k Hk; simpl in Hk; [lia|].
    destruct k; simpl.
    - rewrite lenN_nil, N.add_0_r. reflexivity.
    - rewrite IH by lia. rewrite lenN_app. f_equal. lia.
  Qed.

  Lemma firsts_length bl : Forall nonempty bl -> length (firsts A bl) = length bl.
  Proof.
    induction 1 as [|b bl Hb _ IH]; simpl; auto.
    destruct b; [exfalso; apply Hb; auto|]. simpl. congruence.
  Qed.

  (* the blocks cover S exactly, in order; every block is non-empty;
     starting_indexes[k] = number of strings before block k (0-based id of its
     first string); cut_samples[k] = first string of block k *)
  Theorem partition_spec cut (S : list A) :
    let bl := partition A len cut S in
    concat bl = S /\ Forall nonempty bl /\
    starting_indexes A len cut S = starts A 0 bl /\
    cut_samples A len cut S = firsts A bl /\
    length (starting_indexes A len cut S) = length bl /\
    length (cut_samples A len cut S) = length bl /\
    (forall k, (k < length bl)%nat ->
       nth_error (starting_indexes A len cut S) k = Some (lenN (concat (firstn k bl)))).
  Proof.
    unfold partition, starting_indexes, cut_samples.
    destruct (cut_loop_spec cut S 0 0) as [H _].
    destruct (cut_loop A len cut S 0 0 true) as [[st sm] bl]. simpl.
    destruct H as [H1 [H2 [H3 H4]]]. subst st sm.
    repeat split; auto.
    - apply starts_length.
    - apply firsts_length; auto.
    - intros k Hk. rewrite starts_spec by auto. rewrite N.add_0_l. reflexivity.
  Qed.
End PartitionProofs.

(* ==== the constructor's intermediate wait (fixed variant) =================== *)
(* The real constructor does not go from the last add_task straight to
   stop_all_workers: it first blocks on its own cv until parts_done == parts.size().
   That wait can only be left if the workers keep making progress while the
   producer is outside add_task / stop_all_workers.  In the fixed variant: as
   long as a task is queued, no stop flag is set and the producer is not between
   its lock and its notify, no worker sleeps and some worker is enabled. *)
Theorem pool_work_progress_fixed W script s :
  wf_script script = true -> reachable true W script s -> W >= 1 ->
  pending (pp s) = false -> (forall i, stopped s i = false) -> queue s <> [] ->
  (forall i, nth_error (wpcs s) i <> Some WSleep) /\
  exists i, enabled true s (S i) = true.
Proof.
  intros Hwf R HW Hp Hst Hq.
  assert (I := reachable_inv _ _ _ _ Hwf R). assert (J := reachable_inv2 _ _ _ _ R).
  assert (Hns : forall i, nth_error (wpcs s) i <> Some WSleep).
  { intros i Hi. destruct (i_w _ _ I _ _ Hi) as [_ Hs]. simpl in Hs.
    destruct (Hs eq_refl) as [[_ Hc]|Hc]; [contradiction|congruence]. }
  split; auto.
  destruct (owner s) as [x|] eqn:Eo.
  - assert (Hcs := i_own _ _ I x Eo). destruct x as [|i]; simpl in Hcs.
    + exfalso. destruct (pp s); simpl in *; discriminate.
    + exists i. unfold enabled; simpl. unfold wstep.
      destruct (nth_error (wpcs s) i) as [pc|]; [|discriminate].
      destruct pc; simpl in Hcs; try discriminate; auto. destruct (queue s); auto.
  - assert (Hl := j_W _ _ _ J).
    destruct (nth_error (wpcs s) 0) as [pc|] eqn:H0.
    + exists 0. unfold enabled; simpl. unfold wstep. rewrite H0, Eo.
      destruct (i_w _ _ I _ _ H0) as [Hm Hr]. rewrite Eo in Hm.
      destruct pc; auto;
        try (exfalso; assert (Hc : @None nat = Some 1) by (apply Hm; reflexivity); discriminate).
      * exfalso. apply (Hns 0). auto.
      * exfalso. simpl in Hr. destruct Hr as [Hr _]. unfold stopped in Hst. unfold stopAt in Hr.
        rewrite Hst in Hr. discriminate.
    + apply nth_error_None in H0. lia.
Qed.
