(* Execution-friendly variants of specification functions (the plain definitions convert
   IDs to unary nat, which the oracle cannot afford for IDs like 2^64-1), proved equal. *)
From LibCSD Require Import Base Spec SpecProofs.
Local Open Scope N_scope.

Definition spec_extract_x (S : list str) (id : N) : option str :=
  if lenN S <? id then None else spec_extract S id.

Lemma spec_extract_x_eq S id : spec_extract_x S id = spec_extract S id.
Proof.
  unfold spec_extract_x. destruct (N.ltb_spec (lenN S) id) as [H|H]; [|reflexivity].
  symmetry. apply spec_extract_out_of_range. right. exact H.
Qed.
