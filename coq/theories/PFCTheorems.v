(* End-to-end theorems about the PFC dictionary the constructor builds (combining the
   layout, extract, table-scan and locate proofs), and their property-level corollaries. *)
From LibCSD Require Import Base VByteDefs Spec SpecProofs PFCDefs PFCLayout PFCBuildProofs PFCExtractProofs LexLemmas PFCLocateProofs.
Local Open Scope N_scope.

(* the inputs the properties quantify over are PFC inputs *)
Lemma valid_byte_nul_free s : Forall valid_byte s -> nul_free s.
Proof. unfold nul_free, valid_byte. apply Forall_impl. intros b Hb. lia. Qed.

Lemma valid_set_pfc_input S :
  valid_set S -> Forall (fun s => lenN s < 2 ^ 32) S -> lenN S < 2 ^ 32 -> pfc_input S.
Proof.
  intros (Hne & Hv & Hs) Hl Hn. repeat split; auto.
  eapply Forall_impl; [|exact Hv]. intros s (_ & Hb). apply valid_byte_nul_free. exact Hb.
Qed.

Theorem pfc_locate_built S q b0 : pfc_input S -> nul_free q ->
  pfc_locate (pfc_build b0 S) q = Some (spec_locate S q).
Proof.
  intros HS Hq. apply (pfc_locate_spec _ (clamp_bsize b0) S); auto.
  - apply pfc_build_layout_gen.
  - apply clamp_bsize_ge2.
Qed.

(* C01: round trip on the built dictionary, both directions *)
Theorem pfc_round_trip S b0 s : pfc_input S -> In s S ->
  exists id, pfc_locate (pfc_build b0 S) s = Some id /\ 1 <= id <= lenN S /\
             pfc_extract (pfc_build b0 S) id = Some (Some s).
Proof.
  intros HS Hin. pose proof HS as (_ & Hnf & _). rewrite Forall_forall in Hnf.
  exists (spec_locate S s). rewrite pfc_locate_built by auto. split; [reflexivity|].
  split; [apply spec_locate_member; exact Hin|].
  rewrite pfc_extract_built by exact HS. f_equal. apply spec_extract_locate. exact Hin.
Qed.

Theorem pfc_round_trip_id S b0 i : pfc_input S -> 1 <= i <= lenN S ->
  exists s, pfc_extract (pfc_build b0 S) i = Some (Some s) /\ In s S /\
            pfc_locate (pfc_build b0 S) s = Some i.
Proof.
  intros HS Hi. destruct (spec_extract_in_range S i Hi) as (s & Hs & Hin).
  pose proof HS as (_ & Hnf & Hsorted & _). rewrite Forall_forall in Hnf.
  exists s. rewrite pfc_extract_built by exact HS. rewrite Hs. split; [reflexivity|]. split; [exact Hin|].
  rewrite pfc_locate_built by auto. f_equal. apply spec_locate_extract; [apply sorted_NoDup; exact Hsorted|exact Hs].
Qed.

(* C02 *)
Theorem pfc_no_false_positive S b0 q : pfc_input S -> nul_free q -> ~ In q S ->
  pfc_locate (pfc_build b0 S) q = Some 0.
Proof.
  intros HS Hq Hn. rewrite pfc_locate_built by auto. f_equal. apply spec_locate_absent. exact Hn.
Qed.

Theorem pfc_bad_id_null S b0 id : pfc_input S -> id = 0 \/ lenN S < id ->
  pfc_extract (pfc_build b0 S) id = Some None.
Proof.
  intros HS Hid. rewrite pfc_extract_built by exact HS. f_equal. apply spec_extract_out_of_range. exact Hid.
Qed.

(* C03 *)
Theorem pfc_locate_monotone S b0 s t : pfc_input S -> In s S -> In t S -> lex_lt s t ->
  exists i j, pfc_locate (pfc_build b0 S) s = Some i /\ pfc_locate (pfc_build b0 S) t = Some j /\ i < j.
Proof.
  intros HS Hs Ht Hlt. pose proof HS as (_ & Hnf & Hsorted & _). rewrite Forall_forall in Hnf.
  exists (spec_locate S s), (spec_locate S t). rewrite !pfc_locate_built by auto.
  repeat split; auto. apply spec_locate_monotone; auto.
Qed.

(* C12: the bucket size never changes an answer; sizes below 2 are clamped to 2 *)
Theorem pfc_param_indep_locate S q b0 b1 : pfc_input S -> nul_free q ->
  pfc_locate (pfc_build b0 S) q = pfc_locate (pfc_build b1 S) q.
Proof. intros HS Hq. rewrite !pfc_locate_built by auto. reflexivity. Qed.

Theorem pfc_param_indep_extract S id b0 b1 : pfc_input S ->
  pfc_extract (pfc_build b0 S) id = pfc_extract (pfc_build b1 S) id.
Proof. intros HS. rewrite !pfc_extract_built by auto. reflexivity. Qed.

Theorem pfc_param_indep_table S b0 b1 : pfc_input S ->
  pfc_extract_table (pfc_build b0 S) = pfc_extract_table (pfc_build b1 S).
Proof. intros HS. rewrite !pfc_table_built by auto. reflexivity. Qed.

Theorem pfc_bucket_clamp S b0 : b0 < 2 -> pfc_build b0 S = pfc_build 2 S.
Proof.
  intros Hb. unfold pfc_build, clamp_bsize.
  destruct (N.ltb_spec b0 2); [|lia]. destruct (N.ltb_spec 2 2); [lia|]. reflexivity.
Qed.

(* C15 *)
Theorem pfc_metadata S b0 : S <> [] ->
  p_elements (pfc_build b0 S) = lenN S /\ p_maxlength (pfc_build b0 S) = spec_maxlen S + 1 /\
  forall s, In s S -> lenN s < p_maxlength (pfc_build b0 S).
Proof.
  intros HS. split; [apply pfc_build_elements|]. split; [apply pfc_build_maxlength; exact HS|].
  intros s Hs. apply pfc_build_maxlength_bound. exact Hs.
Qed.

(* a concrete input meeting every hypothesis used above *)
Definition thm_ex_S : list str := [[97]; [97; 98]; [97; 98; 99]; [97; 98; 100]; [98]; [98; 97]; [99; 2; 254]].
Example thm_ex_input : pfc_input thm_ex_S.
Proof.
  unfold pfc_input, thm_ex_S. split; [discriminate|]. split.
  - repeat constructor; lia.
  - split; [apply sorted_lt_b_sound; reflexivity|]. split; [repeat constructor; reflexivity|reflexivity].
Qed.
