(* C15 — metadata is truthful: exact element count, maxLength bounds every string. *)
From LibCSD Require Import Base Spec SpecProofs VByteDefs PFCDefs PFCLayout PFCBuildProofs PFCExtractProofs PFCLocateProofs PFCTheorems.
Local Open Scope N_scope.

Theorem C15_spec_maxlen_bounds : forall S s, In s S -> lenN s <= spec_maxlen S.
Proof. exact spec_maxlen_bounds_aux. Qed.
Print Assumptions C15_spec_maxlen_bounds.

Theorem C15_spec_maxlen_attained : forall S, S <> [] -> exists s, In s S /\ lenN s = spec_maxlen S.
Proof. exact spec_maxlen_attained_aux. Qed.
Print Assumptions C15_spec_maxlen_attained.

Theorem C15_spec_elements : forall S, spec_elements S = lenN S.
Proof. reflexivity. Qed.
Print Assumptions C15_spec_elements.

Example C15_example : spec_maxlen [[97]; [97; 98; 99]; [98]] = 3 /\ spec_elements [[97]; [97; 98; 99]; [98]] = 3.
Proof. split; reflexivity. Qed.


(* ---- the byte-exact PFC model --------------------------------------------------------------- *)
Theorem C15_pfc_metadata : forall S b0, S <> [] ->
  p_elements (pfc_build b0 S) = lenN S /\ p_maxlength (pfc_build b0 S) = spec_maxlen S + 1 /\
  forall s, In s S -> lenN s < p_maxlength (pfc_build b0 S).
Proof. exact pfc_metadata. Qed.
Print Assumptions C15_pfc_metadata.
