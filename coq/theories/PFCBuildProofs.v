(* The constructor of StringDictionaryPFC produces the layout of PFCLayout.v.

   Method: the constructor is a single left-to-right pass, so its output is described
   most directly as a FLAT stream ([enc_stream]: string number i is written as a header
   when [i mod b = 0] and front-coded against its predecessor otherwise;
   [stream_starts]: the offsets recorded at the headers).  [fold_step_stream] shows the
   fold computes exactly that (one induction, no bucket arithmetic), and
   [chunks_stream] shows the flat stream equals the bucket-wise description
   [concat (map enc_bucket (chunks b S))] / [starts_from] of PFCLayout.v.
   PFCExtractProofs.v reuses the stream view for the decoder. *)
From LibCSD Require Import Base VByteDefs Spec SpecProofs PFCDefs PFCLayout.
Local Open Scope N_scope.

Ltac Zify.zify_post_hook ::= Z.to_euclidean_division_equations.

(* ---------------------------------------------------------------------- *)
(* N offsets <-> nat list operations (conversion lemmas, used everywhere)  *)
(* ---------------------------------------------------------------------- *)

Lemma skipN_app_exact {A} (l r : list A) : skipN (lenN l) (l ++ r) = r.
Proof.
  unfold skipN, lenN. rewrite Nat2N.id. induction l as [|x l IH]; [reflexivity|exact IH].
Qed.

Lemma firstN_app_exact {A} (l r : list A) : firstN (lenN l) (l ++ r) = l.
Proof.
  unfold firstN, lenN. rewrite Nat2N.id. induction l as [|x l IH]; [reflexivity|].
  cbn [app length firstn]. f_equal. exact IH.
Qed.

Lemma firstN_0 {A} (l : list A) : firstN 0 l = [].
Proof. reflexivity. Qed.

Lemma skipN_0 {A} (l : list A) : skipN 0 l = l.
Proof. reflexivity. Qed.

Lemma firstN_succ_cons {A} n (x : A) l : firstN (1 + n) (x :: l) = x :: firstN n l.
Proof. unfold firstN. replace (N.to_nat (1 + n)) with (S (N.to_nat n)) by lia. reflexivity. Qed.

Lemma skipN_succ_cons {A} n (x : A) l : skipN (1 + n) (x :: l) = skipN n l.
Proof. unfold skipN. replace (N.to_nat (1 + n)) with (S (N.to_nat n)) by lia. reflexivity. Qed.

Lemma firstN_skipN {A} n (l : list A) : firstN n l ++ skipN n l = l.
Proof. apply firstn_skipn. Qed.

Lemma lenN_firstN {A} n (l : list A) : n <= lenN l -> lenN (firstN n l) = n.
Proof. unfold lenN, firstN. intros H. rewrite firstn_length. lia. Qed.

Lemma lenN_skipN {A} n (l : list A) : lenN (skipN n l) = lenN l - n.
Proof. unfold lenN, skipN. rewrite skipn_length. lia. Qed.

Lemma firstN_all {A} n (l : list A) : lenN l <= n -> firstN n l = l.
Proof. unfold lenN, firstN. intros H. apply firstn_all2. lia. Qed.

Lemma last_cons_default {A} (a p : A) l : last (a :: l) p = last l a.
Proof.
  revert a p; induction l as [|x l IH]; intros a p; [reflexivity|].
  change (last (a :: x :: l) p) with (last (x :: l) p). rewrite !IH. reflexivity.
Qed.

(* ---------------------------------------------------------------------- *)
(* mod arithmetic with a variable modulus                                  *)
(* ---------------------------------------------------------------------- *)

Lemma mod_succ_small i b : i mod b + 1 < b -> (i + 1) mod b = i mod b + 1.
Proof.
  intros H. assert (Hb : b <> 0) by lia.
  symmetry. apply (N.mod_unique _ _ (i / b)); [exact H|].
  pose proof (N.div_mod i b Hb). lia.
Qed.

Lemma mod_succ_wrap i b : i mod b + 1 = b -> (i + 1) mod b = 0.
Proof.
  intros H. assert (Hb : b <> 0) by lia.
  symmetry. apply (N.mod_unique _ _ (i / b + 1)); [lia|].
  pose proof (N.div_mod i b Hb). rewrite N.mul_add_distr_l, N.mul_1_r. lia.
Qed.

Lemma mod_add_self i b : b <> 0 -> (i + b) mod b = i mod b.
Proof. intros Hb. rewrite <- (N.mod_add i 1 b Hb). f_equal. lia. Qed.

Lemma mod_of_zero_plus base j b : base mod b = 0 -> j < b -> (base + j) mod b = j.
Proof.
  intros H Hj. assert (Hb : b <> 0) by lia.
  symmetry. apply (N.mod_unique _ _ (base / b)); [exact Hj|].
  pose proof (N.div_mod base b Hb). lia.
Qed.

(* ---------------------------------------------------------------------- *)
(* the flat stream view                                                    *)
(* ---------------------------------------------------------------------- *)

(* how string number i (0-based) is written when its predecessor is prev *)
Definition enc_one (b i : N) (prev s : str) : list N :=
  if i mod b =? 0 then s ++ [0] else enc_internal prev s.

Fixpoint enc_stream (b i : N) (prev : str) (S : list str) : list N :=
  match S with
  | [] => []
  | s :: r => enc_one b i prev s ++ enc_stream b (i + 1) s r
  end.

Fixpoint stream_starts (b i off : N) (prev : str) (S : list str) : list N :=
  match S with
  | [] => []
  | s :: r => (if i mod b =? 0 then [off] else []) ++
              stream_starts b (i + 1) (off + lenN (enc_one b i prev s)) s r
  end.

Lemma enc_stream_app b : forall A B i p,
  enc_stream b i p (A ++ B) = enc_stream b i p A ++ enc_stream b (i + lenN A) (last A p) B.
Proof.
  induction A as [|a A IH]; intros B i p.
  - cbn [app enc_stream last]. rewrite lenN_nil, N.add_0_r. reflexivity.
  - rewrite <- app_comm_cons. cbn [enc_stream]. rewrite IH, last_cons_default, lenN_cons.
    rewrite <- app_assoc. do 3 f_equal. lia.
Qed.

Lemma stream_starts_app b : forall A B i off p,
  stream_starts b i off p (A ++ B) =
  stream_starts b i off p A ++
  stream_starts b (i + lenN A) (off + lenN (enc_stream b i p A)) (last A p) B.
Proof.
  induction A as [|a A IH]; intros B i off p.
  - cbn [app stream_starts enc_stream last]. rewrite !lenN_nil, !N.add_0_r. reflexivity.
  - rewrite <- app_comm_cons. cbn [stream_starts enc_stream].
    rewrite IH, last_cons_default, lenN_cons, lenN_app.
    rewrite <- app_assoc. do 2 f_equal. f_equal; lia.
Qed.

(* ---------------------------------------------------------------------- *)
(* the constructor's fold computes the stream                              *)
(* ---------------------------------------------------------------------- *)

Lemma fold_step_stream bs : forall S st,
  b_elems (fold_left (pfc_step bs) S st) = b_elems st + lenN S /\
  b_text (fold_left (pfc_step bs) S st) = b_text st ++ enc_stream bs (b_elems st) (b_prev st) S /\
  b_xbl (fold_left (pfc_step bs) S st) =
    b_xbl st ++ stream_starts bs (b_elems st) (lenN (b_text st)) (b_prev st) S /\
  b_buckets (fold_left (pfc_step bs) S st) =
    b_buckets st + lenN (stream_starts bs (b_elems st) (lenN (b_text st)) (b_prev st) S).
Proof.
  induction S as [|s r IH]; intros st.
  - cbn [fold_left enc_stream stream_starts]. rewrite !app_nil_r, !lenN_nil, !N.add_0_r. auto.
  - cbn [fold_left enc_stream stream_starts].
    destruct (IH (pfc_step bs st s)) as (E1 & E2 & E3 & E4).
    rewrite E1, E2, E3, E4. clear IH E1 E2 E3 E4.
    unfold pfc_step, enc_one, enc_internal.
    destruct (b_elems st mod bs =? 0);
      cbn [b_elems b_text b_xbl b_buckets b_prev];
      rewrite ?lenN_app, ?lenN_cons, <- ?app_assoc;
      change (@lenN N []) with 0;
      repeat split; try reflexivity; try lia.
Qed.

Lemma fold_step_maxlen bs : forall S st,
  b_maxlen (fold_left (pfc_step bs) S st) =
  fold_left (fun m s => if m <=? lenN s then lenN s + 1 else m) S (b_maxlen st).
Proof.
  induction S as [|s r IH]; intros st; [reflexivity|].
  cbn [fold_left]. rewrite IH. f_equal.
  unfold pfc_step. destruct (b_elems st mod bs =? 0); reflexivity.
Qed.

Lemma fold_maxlen_spec : forall S m,
  fold_left (fun m s => if m <=? lenN s then lenN s + 1 else m) S m =
  match S with
  | [] => m
  | _ => if m <=? spec_maxlen S then spec_maxlen S + 1 else m
  end.
Proof.
  induction S as [|s r IH]; intros m; [reflexivity|].
  cbn [fold_left]. rewrite IH. clear IH.
  unfold spec_maxlen; cbn [fold_right]; fold (spec_maxlen r).
  destruct r as [|t r'].
  - unfold spec_maxlen; cbn [fold_right]. rewrite N.max_0_r. reflexivity.
  - set (M := spec_maxlen (t :: r')).
    destruct (N.leb_spec m (lenN s)); destruct (N.leb_spec m (N.max (lenN s) M));
      try lia.
    + destruct (N.leb_spec (lenN s + 1) M); lia.
    + destruct (N.leb_spec m M); lia.
    + destruct (N.leb_spec m M); lia.
Qed.

(* ---------------------------------------------------------------------- *)
(* chunks: fuel, unfolding, length                                         *)
(* ---------------------------------------------------------------------- *)

Lemma chunks_fuel_nil n b : chunks_fuel n b [] = [].
Proof. destruct n; reflexivity. Qed.

Lemma chunks_fuel_S_ne n b S : S <> [] ->
  chunks_fuel (Datatypes.S n) b S = firstn b S :: chunks_fuel n b (skipn b S).
Proof. destruct S; [congruence|reflexivity]. Qed.

(* the fuel [length S] of [chunks] suffices as soon as b >= 1 *)
Lemma chunks_fuel_enough b : (1 <= b)%nat -> forall n m S,
  (length S <= n)%nat -> (length S <= m)%nat -> chunks_fuel n b S = chunks_fuel m b S.
Proof.
  intros Hb. induction n as [|n IH]; intros m S Hn Hm.
  - destruct S; [|cbn [length] in Hn; lia]. rewrite !chunks_fuel_nil. reflexivity.
  - destruct S as [|s S']; [rewrite !chunks_fuel_nil; reflexivity|].
    destruct m as [|m]; [cbn [length] in Hm; lia|].
    rewrite !chunks_fuel_S_ne by discriminate. f_equal.
    apply IH; rewrite skipn_length; cbn [length] in *; lia.
Qed.

Lemma chunks_nil b : chunks b [] = [].
Proof. reflexivity. Qed.

Lemma chunks_unfold b S : 1 <= b -> S <> [] ->
  chunks b S = firstN b S :: chunks b (skipN b S).
Proof.
  intros Hb HS. unfold chunks, firstN, skipN.
  destruct S as [|s S']; [congruence|].
  cbn [length]. rewrite chunks_fuel_S_ne by discriminate. f_equal.
  apply chunks_fuel_enough; [lia| |lia].
  rewrite skipn_length. cbn [length]. lia.
Qed.

Lemma chunks_fuel_length b : (1 <= b)%nat -> forall n S, (length S <= n)%nat ->
  length (chunks_fuel n b S) = ((length S + b - 1) / b)%nat.
Proof.
  intros Hb. induction n as [|n IH]; intros S Hn.
  - destruct S; [|cbn [length] in Hn; lia]. cbn [chunks_fuel length].
    symmetry. apply Nat.div_small. lia.
  - destruct S as [|s S'].
    + cbn [chunks_fuel length]. symmetry. apply Nat.div_small. lia.
    + rewrite chunks_fuel_S_ne by discriminate. cbn [length].
      rewrite IH by (rewrite skipn_length; cbn [length] in *; lia).
      rewrite skipn_length. cbn [length].
      destruct (Nat.le_gt_cases b (S (length S'))) as [Hle|Hgt].
      * replace (S (length S') - b + b - 1)%nat with (length S')%nat by lia.
        replace (S (length S') + b - 1)%nat with (length S' + 1 * b)%nat by lia.
        rewrite Nat.div_add by lia. lia.
      * replace (S (length S') - b + b - 1)%nat with (b - 1)%nat by lia.
        replace (S (length S') + b - 1)%nat with (length S' + 1 * b)%nat by lia.
        rewrite Nat.div_add by lia. rewrite !Nat.div_small by lia. lia.
Qed.

Lemma chunks_length b S : 1 <= b -> lenN (chunks b S) = (lenN S + b - 1) / b.
Proof.
  intros Hb. unfold chunks, lenN.
  rewrite chunks_fuel_length by lia.
  rewrite Nat2N.inj_div. f_equal; lia.
Qed.

(* firstn j of the chunks = the chunks of the first j*b strings *)
Lemma chunks_fuel_firstn b : (1 <= b)%nat -> forall j n m S,
  (length S <= n)%nat -> (j * b <= m)%nat ->
  firstn j (chunks_fuel n b S) = chunks_fuel m b (firstn (j * b) S).
Proof.
  intros Hb. induction j as [|j IH]; intros n m S Hn Hm.
  - cbn [firstn Nat.mul]. rewrite chunks_fuel_nil. reflexivity.
  - destruct S as [|s S'].
    + rewrite firstn_nil, !chunks_fuel_nil. reflexivity.
    + destruct n as [|n]; [cbn [length] in Hn; lia|].
      destruct m as [|m]; [cbn [Nat.mul] in Hm; lia|].
      rewrite chunks_fuel_S_ne by discriminate. cbn [firstn].
      assert (Hne : firstn (S j * b) (s :: S') <> []).
      { cbn [Nat.mul]. destruct b as [|b']; [lia|]. cbn [Nat.add firstn]. discriminate. }
      rewrite chunks_fuel_S_ne by exact Hne.
      rewrite firstn_firstn. replace (Nat.min b (S j * b)) with b by (cbn [Nat.mul]; lia).
      f_equal.
      replace (S j * b)%nat with (b + j * b)%nat by (cbn [Nat.mul]; lia).
      rewrite <- firstn_skipn_comm.
      apply IH.
      * rewrite skipn_length. cbn [length] in *. lia.
      * cbn [Nat.mul] in Hm. lia.
Qed.

Lemma chunks_firstN b S j : 1 <= b ->
  firstN j (chunks b S) = chunks b (firstN (j * b) S).
Proof.
  intros Hb. unfold chunks, firstN.
  replace (N.to_nat (j * b)) with (N.to_nat j * N.to_nat b)%nat by lia.
  rewrite (chunks_fuel_enough (N.to_nat b) ltac:(lia) _ (N.to_nat j * N.to_nat b)%nat
             (firstn (N.to_nat j * N.to_nat b) S)).
  - apply chunks_fuel_firstn; lia.
  - lia.
  - rewrite firstn_length. lia.
Qed.

(* ---------------------------------------------------------------------- *)
(* bucket-wise description = flat stream                                   *)
(* ---------------------------------------------------------------------- *)

(* inside a bucket (no index is a multiple of b) the stream is [enc_rest] and
   records no offset *)
Lemma enc_rest_stream b : forall r i h off,
  r = [] \/ (0 < i mod b /\ i mod b + lenN r <= b) ->
  enc_stream b i h r = enc_rest h r /\ stream_starts b i off h r = [].
Proof.
  induction r as [|s r IH]; intros i h off H; [split; reflexivity|].
  destruct H as [H|[H1 H2]]; [discriminate|].
  rewrite lenN_cons in H2.
  cbn [enc_stream enc_rest stream_starts]. unfold enc_one.
  destruct (N.eqb_spec (i mod b) 0) as [E|E]; [lia|]. cbn [app].
  assert (Hr : r = [] \/ 0 < (i + 1) mod b /\ (i + 1) mod b + lenN r <= b).
  { destruct r as [|t r']; [left; reflexivity|right].
    rewrite lenN_cons in *. rewrite mod_succ_small by lia. lia. }
  destruct (IH (i + 1) s (off + lenN (enc_internal h s)) Hr) as [E1 E2].
  rewrite E1, E2. split; reflexivity.
Qed.

Lemma starts_from_length off cs : lenN (starts_from off cs) = lenN cs.
Proof.
  revert off; induction cs as [|c r IH]; intros off; [reflexivity|].
  cbn [starts_from]. rewrite !lenN_cons, IH. reflexivity.
Qed.

Lemma chunks_stream_fuel b : 1 <= b -> forall n S i off prev,
  (length S <= n)%nat -> S = [] \/ i mod b = 0 ->
  concat (map enc_bucket (chunks_fuel n (N.to_nat b) S)) = enc_stream b i prev S /\
  starts_from off (map enc_bucket (chunks_fuel n (N.to_nat b) S)) = stream_starts b i off prev S.
Proof.
  intros Hb. induction n as [|n IH]; intros S i off prev Hn Hi.
  - destruct S; [|cbn [length] in Hn; lia]. split; reflexivity.
  - destruct S as [|s S']; [split; reflexivity|].
    destruct Hi as [Hi|Hi]; [discriminate|].
    rewrite chunks_fuel_S_ne by discriminate.
    destruct (N.to_nat b) as [|bn'] eqn:Ebn; [lia|].
    cbn [firstn skipn map concat starts_from enc_bucket].
    rewrite <- (firstn_skipn bn' S') at 3 6.
    cbn [enc_stream stream_starts]. unfold enc_one.
    rewrite Hi. cbn [N.eqb].
    rewrite enc_stream_app, stream_starts_app.
    set (F := firstn bn' S'). set (K := skipn bn' S').
    assert (HF : F = [] \/ 0 < (i + 1) mod b /\ (i + 1) mod b + lenN F <= b).
    { destruct (N.eq_dec b 1) as [->|Hb1].
      - left. assert (bn' = O) by lia. subst F bn'. reflexivity.
      - right. rewrite mod_succ_small by lia. rewrite Hi.
        assert (length F <= bn')%nat by (subst F; rewrite firstn_length; lia).
        unfold lenN. lia. }
    destruct (enc_rest_stream b F (i + 1) s (off + lenN (s ++ [0])) HF) as [E1 E2].
    rewrite E1, E2.
    assert (HK : K = [] \/ (i + 1 + lenN F) mod b = 0).
    { destruct (Nat.le_gt_cases (length S') bn') as [Hle|Hgt].
      - left. subst K. apply skipn_all2. exact Hle.
      - right. assert (length F = bn') by (subst F; rewrite firstn_length; lia).
        replace (i + 1 + lenN F) with (i + b) by (unfold lenN; lia).
        rewrite mod_add_self by lia. exact Hi. }
    assert (HKn : (length K <= n)%nat).
    { subst K. rewrite skipn_length. cbn [length] in Hn. lia. }
    destruct (IH K (i + 1 + lenN F) (off + lenN (s ++ [0]) + lenN (enc_rest s F)) (last F s) HKn HK)
      as [E3 E4].
    split.
    + rewrite E3. rewrite <- !app_assoc. reflexivity.
    + cbn [app]. f_equal. rewrite <- E4. f_equal.
      rewrite !lenN_app, !lenN_cons. change (@lenN N []) with 0. lia.
Qed.

Theorem chunks_stream b S : 1 <= b ->
  concat (map enc_bucket (chunks b S)) = enc_stream b 0 [] S /\
  starts_from 0 (map enc_bucket (chunks b S)) = stream_starts b 0 0 [] S.
Proof.
  intros Hb. unfold chunks. apply chunks_stream_fuel; [exact Hb|lia|].
  right. apply N.mod_0_l. lia.
Qed.

(* ---------------------------------------------------------------------- *)
(* main theorems                                                           *)
(* ---------------------------------------------------------------------- *)

Lemma clamp_bsize_ge2 b0 : 2 <= clamp_bsize b0.
Proof. unfold clamp_bsize. destruct (N.ltb_spec b0 2); lia. Qed.

(* no hypothesis on S is needed for the layout itself *)
Theorem pfc_build_layout_gen b0 S : layout_ok (pfc_build b0 S) (clamp_bsize b0) S.
Proof.
  pose proof (clamp_bsize_ge2 b0) as Hb.
  destruct (chunks_stream (clamp_bsize b0) S ltac:(lia)) as [Et Es].
  destruct (fold_step_stream (clamp_bsize b0) S b_init) as (E1 & E2 & E3 & E4).
  cbn [b_init b_elems b_text b_xbl b_buckets b_prev app] in E1, E2, E3, E4.
  change (@lenN N []) with 0 in E3, E4.
  unfold layout_ok, pfc_build. cbn [p_elements p_bsize p_buckets p_text p_bl].
  rewrite E1, E2, E3, E4, Et, Es.
  repeat split; try reflexivity.
  rewrite <- Es, starts_from_length, N.add_0_l. reflexivity.
Qed.

Theorem pfc_build_layout b0 S :
  Forall nul_free S -> Forall (fun s => lenN s < 2 ^ 32) S ->
  layout_ok (pfc_build b0 S) (clamp_bsize b0) S.
Proof. intros _ _. apply pfc_build_layout_gen. Qed.

Theorem pfc_build_elements b0 S : p_elements (pfc_build b0 S) = lenN S.
Proof. apply (pfc_build_layout_gen b0 S). Qed.

Theorem pfc_build_bsize b0 S : p_bsize (pfc_build b0 S) = clamp_bsize b0.
Proof. reflexivity. Qed.

Theorem pfc_build_bsize_ge2 b0 S : 2 <= p_bsize (pfc_build b0 S).
Proof. apply clamp_bsize_ge2. Qed.

Theorem pfc_build_maxlength b0 S : S <> [] ->
  p_maxlength (pfc_build b0 S) = spec_maxlen S + 1.
Proof.
  intros HS. unfold pfc_build. cbn [p_maxlength].
  rewrite fold_step_maxlen, fold_maxlen_spec. cbn [b_init b_maxlen].
  destruct S as [|s S']; [congruence|].
  destruct (N.leb_spec 0 (spec_maxlen (s :: S'))); [reflexivity|lia].
Qed.

Theorem pfc_build_maxlength_nil b0 : p_maxlength (pfc_build b0 []) = 0.
Proof. reflexivity. Qed.

(* number of buckets = number of chunks = ceil(n / b) *)
Theorem pfc_build_buckets b0 S :
  p_buckets (pfc_build b0 S) = lenN (chunks (clamp_bsize b0) S) /\
  p_buckets (pfc_build b0 S) = (lenN S + clamp_bsize b0 - 1) / clamp_bsize b0.
Proof.
  pose proof (clamp_bsize_ge2 b0) as Hb.
  destruct (pfc_build_layout_gen b0 S) as (_ & _ & E & _).
  unfold lenN in E at 1. rewrite map_length in E. fold (lenN (chunks (clamp_bsize b0) S)) in E.
  split; [exact E|]. rewrite E. apply chunks_length. lia.
Qed.

(* every string is strictly shorter than maxlength (the scratch buffers of
   extract / the iterator are `maxlength + 1` bytes) *)
Lemma spec_maxlen_ge S s : In s S -> lenN s <= spec_maxlen S.
Proof.
  induction S as [|t r IH]; intros Hin; [destruct Hin|].
  unfold spec_maxlen; cbn [fold_right]; fold (spec_maxlen r).
  destruct Hin as [->|Hin]; [lia|]. specialize (IH Hin). lia.
Qed.

Theorem pfc_build_maxlength_bound b0 S s : In s S -> lenN s < p_maxlength (pfc_build b0 S).
Proof.
  intros Hin. rewrite pfc_build_maxlength by (intros ->; destruct Hin).
  pose proof (spec_maxlen_ge S s Hin). lia.
Qed.

(* ---------------------------------------------------------------------- *)
(* the hypotheses are satisfiable: a concrete input                        *)
(* ---------------------------------------------------------------------- *)
Definition ex_S : list str :=
  [[97;98]; [97;98;99]; [97;98;99;100]; [97;99]; [98]; [98;97;97]; [98;97;98]].

Example ex_S_input : pfc_input ex_S.
Proof.
  unfold pfc_input, ex_S. split; [discriminate|].
  split; [repeat constructor; discriminate|].
  split; [apply sorted_lt_b_sound; vm_compute; reflexivity|].
  split; [repeat constructor|vm_compute; reflexivity].
Qed.

Example ex_S_layout : layout_ok (pfc_build 3 ex_S) 3 ex_S.
Proof.
  destruct ex_S_input as (_ & Hn & _ & Hl & _).
  exact (pfc_build_layout 3 ex_S Hn Hl).
Qed.

(* the same fact checked by plain computation on the concrete dictionary *)
Example ex_S_layout_compute :
  p_text (pfc_build 3 ex_S) = concat (map enc_bucket (chunks 3 ex_S)) /\
  p_bl (pfc_build 3 ex_S) = [0; 0; 9; 19; 23] /\
  p_buckets (pfc_build 3 ex_S) = 3 /\ p_maxlength (pfc_build 3 ex_S) = 5.
Proof. vm_compute. repeat split; reflexivity. Qed.
