(* C19 — bundled succinct structures.

   A. the plain specification of access / rank / select on a bit vector
      ([list bool]) and on a symbol sequence ([list N]);
   B. an executable, statement-by-statement model of libcds
      [BitSequenceRG] (32-bit words, superblock counters [Rs], popcount
      table, the three-stage select) incl. the save image and [load];
   C. the pointer wavelet tree ([WaveletTree] / [wt_node_internal] /
      [wt_node_leaf]) over an abstract bitmap implementation.

   Definitions only; the proofs are in BitRGProofs.v. *)
From LibCSD Require Import Base Bytes.
Local Open Scope N_scope.

(* ------------------------------------------------------------------ *)
(* A. plain specification                                              *)
(* ------------------------------------------------------------------ *)

(* number of occurrences of bit [b] *)
Fixpoint countb (b : bool) (l : list bool) : N :=
  match l with
  | [] => 0
  | x :: t => (if Bool.eqb x b then 1 else 0) + countb b t
  end.

(* occurrences of [b] among the first [k] positions *)
Definition prefix_count (b : bool) (l : list bool) (k : N) : N :=
  countb b (firstn (N.to_nat k) l).

Definition bv_access (l : list bool) (i : N) : bool := nth (N.to_nat i) l false.
(* libcds convention: rank(i) counts positions 0..i INCLUSIVE *)
Definition bv_rank1 (l : list bool) (i : N) : N := prefix_count true l (i + 1).
Definition bv_rank0 (l : list bool) (i : N) : N := prefix_count false l (i + 1).
Definition bv_ones (l : list bool) : N := countb true l.
Definition bv_zeros (l : list bool) : N := countb false l.

(* position (0-based) of the j-th (1-based) occurrence of [b]; [None] when
   j = 0 or j exceeds the number of occurrences *)
Fixpoint selb (b : bool) (l : list bool) (j : N) : option N :=
  match l with
  | [] => None
  | x :: t =>
      if Bool.eqb x b then
        if j =? 1 then Some 0 else option_map N.succ (selb b t (j - 1))
      else option_map N.succ (selb b t j)
  end.
Definition bv_select1 := selb true.
Definition bv_select0 := selb false.

(* symbol sequences: reduced to the indicator bit vector of the symbol *)
Definition seq_bits (c : N) (s : list N) : list bool := map (N.eqb c) s.
Definition seq_access (s : list N) (i : N) : option N := nthN s i.
Definition seq_rank (c : N) (s : list N) (i : N) : N := bv_rank1 (seq_bits c s) i.
Definition seq_select (c : N) (s : list N) (j : N) : option N := bv_select1 (seq_bits c s) j.
Definition seq_count (c : N) (s : list N) : N := bv_ones (seq_bits c s).

(* ------------------------------------------------------------------ *)
(* B. BitSequenceRG                                                    *)
(* ------------------------------------------------------------------ *)

(* checked array read = Base.nthN (lemma rdN_eq); the explicit bound test only
   keeps the extracted code from building a huge unary index when the C++ index
   has wrapped around *)
Definition rdN {A} (l : list A) (i : N) : option A := if i <? lenN l then nthN l i else None.

Definition W32 : N := 4294967296.
Definition W64 : N := 18446744073709551616.
Definition u32 (x : N) : N := x mod W32.   (* value kept in a [uint]   *)
Definition u64 (x : N) : N := x mod W64.   (* value kept in a [size_t] *)

(* libcdsBasics.h: const unsigned char __popcount_tab[256] *)
Definition popcount_tab : list N :=
  [ 0; 1; 1; 2; 1; 2; 2; 3; 1; 2; 2; 3; 2; 3; 3; 4; 1; 2; 2; 3; 2; 3; 3; 4;
    2; 3; 3; 4; 3; 4; 4; 5; 1; 2; 2; 3; 2; 3; 3; 4; 2; 3; 3; 4; 3; 4; 4; 5;
    2; 3; 3; 4; 3; 4; 4; 5; 3; 4; 4; 5; 4; 5; 5; 6; 1; 2; 2; 3; 2; 3; 3; 4;
    2; 3; 3; 4; 3; 4; 4; 5; 2; 3; 3; 4; 3; 4; 4; 5; 3; 4; 4; 5; 4; 5; 5; 6;
    2; 3; 3; 4; 3; 4; 4; 5; 3; 4; 4; 5; 4; 5; 5; 6; 3; 4; 4; 5; 4; 5; 5; 6;
    4; 5; 5; 6; 5; 6; 6; 7; 1; 2; 2; 3; 2; 3; 3; 4; 2; 3; 3; 4; 3; 4; 4; 5;
    2; 3; 3; 4; 3; 4; 4; 5; 3; 4; 4; 5; 4; 5; 5; 6; 2; 3; 3; 4; 3; 4; 4; 5;
    3; 4; 4; 5; 4; 5; 5; 6; 3; 4; 4; 5; 4; 5; 5; 6; 4; 5; 5; 6; 5; 6; 6; 7;
    2; 3; 3; 4; 3; 4; 4; 5; 3; 4; 4; 5; 4; 5; 5; 6; 3; 4; 4; 5; 4; 5; 5; 6;
    4; 5; 5; 6; 5; 6; 6; 7; 3; 4; 4; 5; 4; 5; 5; 6; 4; 5; 5; 6; 5; 6; 6; 7;
    4; 5; 5; 6; 5; 6; 6; 7; 5; 6; 6; 7; 6; 7; 7; 8 ].

(* popcount8(x) = __popcount_tab[x & 0xff]; the index is masked, so the read
   is in range by construction *)
Definition popcount8 (x : N) : N := nth (N.to_nat (x mod 256)) popcount_tab 0.
(* popcount(const int x): four table reads of (x >> 8k) & 0xff; the arithmetic
   shift of a negative int only differs above bit 31, which the mask removes *)
Definition popcount (x : N) : N :=
  popcount8 x + popcount8 (x / 256) + popcount8 (x / 65536) + popcount8 (x / 16777216).

(* the caller's side: a bit vector packed LSB-first into 32-bit words, in an
   array of n/W+1 words (what wt_node_internal and the driver allocate) *)
Definition word_of_bits (l : list bool) : N :=
  fold_right (fun (b : bool) acc => (if b then 1 else 0) + 2 * acc) 0 l.
Definition nrange (k : nat) : list N := map N.of_nat (seq 0 k).
Definition words_of_bits (bv : list bool) : list N :=
  map (fun w => word_of_bits (firstn 32 (skipn (N.to_nat (32 * w)) bv)))
      (nrange (N.to_nat (lenN bv / 32 + 1))).

Fixpoint tabulate_opt {A} (f : N -> option A) (start : N) (cnt : nat) : option (list A) :=
  match cnt with
  | O => Some []
  | S c =>
      match f start with
      | None => None
      | Some x =>
          match tabulate_opt f (start + 1) c with
          | None => None
          | Some t => Some (x :: t)
          end
      end
  end.

Record rg := mkRG {
  rg_n : N; rg_factor : N; rg_s : N; rg_integers : N;
  rg_data : list N;      (* uint data[integers]                    *)
  rg_rs : list N;        (* uint Rs[n/s + 5] (n/s + 1 after load)  *)
  rg_ones : N }.

(* BuildRankSub(ini, bloques) *)
Fixpoint build_rank_sub (data : list N) (integers : N) (i : N) (cnt : nat) (rank : N) : option N :=
  match cnt with
  | O => Some rank
  | S c =>
      if i <? integers then
        match rdN data i with
        | None => None
        | Some aux => build_rank_sub data integers (i + 1) c (u32 (rank + popcount aux))
        end
      else build_rank_sub data integers (i + 1) c rank
  end.

(* the loop  for (j = 1; j <= num_sblock; j++) Rs[j] = Rs[j-1] + BuildRankSub((j-1)*factor, factor) *)
Fixpoint build_rs (data : list N) (integers factor : N) (j : N) (cnt : nat) (prev : N) : option (list N) :=
  match cnt with
  | O => Some []
  | S c =>
      match build_rank_sub data integers ((j - 1) * factor) (N.to_nat factor) 0 with
      | None => None
      | Some sub =>
          let cur := u32 (prev + sub) in
          match build_rs data integers factor (j + 1) c cur with
          | None => None
          | Some t => Some (cur :: t)
          end
      end
  end.

(* BuildRank: Rs = new uint[num_sblock + 5], all zero, then the loop *)
Definition build_rank (data : list N) (n factor s integers : N) : option (list N) :=
  match build_rs data integers factor 1 (N.to_nat (n / s)) 0 with
  | None => None
  | Some t => Some (0 :: t ++ [0; 0; 0; 0])
  end.

(* (1 << k) - 1 computed in [int] and converted to [uint] by the [&]:
   for k = 31 the shift gives INT_MIN and the subtraction overflows; the
   compiled code (x86-64, two's complement, no trap) wraps to 0x7fffffff *)
Definition int32_wrap (z : Z) : Z := ((z + 2147483648) mod 4294967296 - 2147483648)%Z.
Definition c_mask (k : N) : N :=
  Z.to_N ((int32_wrap (int32_wrap (Z.shiftl 1 (Z.of_N k)) - 1)) mod 4294967296)%Z.

(* for (uint a = aux; a < i / W; a++) resp += popcount(data[a]); *)
Fixpoint sum_pop (data : list N) (a : N) (cnt : nat) (resp : N) : option N :=
  match cnt with
  | O => Some resp
  | S c =>
      match rdN data a with
      | None => None
      | Some w => sum_pop data (a + 1) c (u32 (resp + popcount w))
      end
  end.

Definition rg_rank1 (d : rg) (i1 : N) : option N :=
  let i := u32 (u32 i1 + 1) in
  match rdN (rg_rs d) (i / rg_s d) with
  | None => None
  | Some resp0 =>
      let aux := u32 ((i / rg_s d) * rg_factor d) in
      match sum_pop (rg_data d) aux (N.to_nat (i / 32 - aux)) resp0 with
      | None => None
      | Some resp1 =>
          match rdN (rg_data d) (i / 32) with
          | None => None
          | Some w => Some (u32 (resp1 + popcount (N.land w (c_mask (N.land i 31)))))
          end
      end
  end.

(* BitSequence::rank0(i) = i + 1 - rank1(i)   (size_t arithmetic) *)
Definition rg_rank0 (d : rg) (i : N) : option N :=
  match rg_rank1 d i with
  | None => None
  | Some r => Some (u64 (i + 1 + W64 - r))
  end.

(* access(i) = (1u << (i % W)) & data[i / W] *)
Definition rg_access (d : rg) (i : N) : option bool :=
  match rdN (rg_data d) (i / 32) with
  | None => None
  | Some w => Some (negb (N.land (N.shiftl 1 (i mod 32)) w =? 0))
  end.

(* the constructor  BitSequenceRG(uint *bitarray, size_t n, uint factor) *)
Definition uint_len (e n : N) : N := u32 ((u32 e * n + 31) / 32).

Definition rg_build (bitarray : list N) (n factor : N) : option rg :=
  if factor =? 0 then None (* exit(-1) *) else
  let ulen := uint_len n 1 in
  match tabulate_opt (fun i => if i <? ulen then rdN bitarray i else Some 0) 0 (N.to_nat (n / 32 + 1)) with
  | None => None
  | Some data =>
      let s := 32 * factor in
      let integers := n / 32 + 1 in
      match build_rank data n factor s integers with
      | None => None
      | Some rs =>
          let d0 := mkRG n factor s integers data rs 0 in
          match rg_rank1 d0 (u64 (n + W64 - 1)) with
          | None => None
          | Some ones => Some (mkRG n factor s integers data rs ones)
          end
      end
  end.

Definition rg_of_bits (bv : list bool) (factor : N) : option rg :=
  rg_build (words_of_bits bv) (lenN bv) factor.

(* ---- select ---- *)

(* the binary search over the first-level structure; [key mid Rs[mid]] is
   Rs[mid] for select1 and mid*factor*W - Rs[mid] for select0.  All variables
   are [uint]: r = mid - 1 wraps when mid = 0 *)
Fixpoint rg_bsearch (key : N -> N -> N) (rs : list N) (x : N) (fuel : nat) (l r mid rankmid : N)
  : option (N * N) :=
  if l <=? r then
    match fuel with
    | O => None
    | S f =>
        let l' := if rankmid <? x then u32 (mid + 1) else l in
        let r' := if rankmid <? x then r else u32 (mid + W32 - 1) in
        let mid' := u32 (l' + r') / 2 in
        match rdN rs mid' with
        | None => None
        | Some v => rg_bsearch key rs x f l' r' mid' (key mid' v)
        end
    end
  else Some (mid, rankmid).

(* sequential search using popcount over a int:
     while (ones < x) { x -= ones; lft++; if (lft > integers) return n; j = data[lft]; ones = cnt(j); } *)
Fixpoint rg_scan (cntf : N -> N) (data : list N) (integers n : N) (fuel : nat) (x lft j ones : N)
  : option (N + N * N * N) :=
  if ones <? x then
    match fuel with
    | O => None
    | S f =>
        let x' := x - ones in
        let lft' := u32 (lft + 1) in
        if integers <? lft' then Some (inl n) else
        match rdN data lft' with
        | None => None
        | Some j' => rg_scan cntf data integers n f x' lft' j' (cntf j')
        end
    end
  else Some (inr (x, lft, j)).

(* sequential search using popcount over a char (three unrolled steps) *)
Definition rg_bytes (cnt8 : N -> N) (x lft j : N) : N * N * N :=
  let rankmid := cnt8 j in
  if rankmid <? x then
    let j := j / 256 in let x := x - rankmid in let lft := u32 (lft + 8) in
    let rankmid := cnt8 j in
    if rankmid <? x then
      let j := j / 256 in let x := x - rankmid in let lft := u32 (lft + 8) in
      let rankmid := cnt8 j in
      if rankmid <? x then
        let j := j / 256 in let x := x - rankmid in let lft := u32 (lft + 8) in
        (x, lft, j)
      else (x, lft, j)
    else (x, lft, j)
  else (x, lft, j).

(* while (x > 0) { if (bit 0 of j is [want]) x--; j >>= 1; lft++; } *)
Fixpoint rg_bitscan (want : bool) (fuel : nat) (x lft j : N) : option N :=
  if 0 <? x then
    match fuel with
    | O => None
    | S f => rg_bitscan want f (if Bool.eqb (N.odd j) want then x - 1 else x) (u32 (lft + 1)) (j / 2)
    end
  else Some lft.

Definition bsearch_fuel (d : rg) : nat := S (N.size_nat (rg_n d / rg_s d + 1)).

(* the code shared (textually duplicated in the C++) by select1 and select0 *)

(* uint l = 0, r = n / s; uint mid = (l + r) / 2; uint rankmid = key(mid); while (l <= r) {...} *)
Definition rg_select_search (key : N -> N -> N) (d : rg) (x : N) : option (N * N) :=
  let r := u32 (rg_n d / rg_s d) in
  let mid := u32 (0 + r) / 2 in
  match rdN (rg_rs d) mid with
  | None => None
  | Some v => rg_bsearch key (rg_rs d) x (bsearch_fuel d) 0 r mid (key mid v)
  end.

(* from "left = mid * factor" to the end of the bit-by-bit loop; [inl ret] is the
   early "return n", [inr left] the value of left after the last loop *)
Definition rg_select_tail (want : bool) (cntf cnt8 : N -> N) (d : rg) (x mid rankmid : N) : option (N + N) :=
  let lft := u32 (mid * rg_factor d) in
  let x := u32 (x + W32 - rankmid) in
  match rdN (rg_data d) lft with
  | None => None
  | Some j =>
      match rg_scan cntf (rg_data d) (rg_integers d) (rg_n d) (S (length (rg_data d))) x lft j (cntf j) with
      | None => None
      | Some (inl ret) => Some (inl ret)
      | Some (inr (x, lft, j)) =>
          let '(x, lft, j) := rg_bytes cnt8 x (u32 (lft * 32)) j in
          match rg_bitscan want 33 x lft j with
          | None => None
          | Some lft => Some (inr lft)
          end
      end
  end.

Definition rg_select1 (d : rg) (x1 : N) : option N :=
  let x := u32 x1 in
  if rg_ones d <? x then Some (W32 - 1) else
  match rg_select_search (fun _ v => v) d x with
  | None => None
  | Some (mid, rankmid) =>
      match rg_select_tail true popcount popcount8 d x mid rankmid with
      | None => None
      | Some (inl ret) => Some ret
      | Some (inr lft) => Some (u32 (lft + W32 - 1))          (* return left - 1 *)
      end
  end.

Definition zcount (j : N) : N := 32 - popcount j.
Definition zcount8 (j : N) : N := 8 - popcount8 j.

Definition rg_select0 (d : rg) (x1 : N) : option N :=
  let x := u32 x1 in
  if u64 (rg_n d + W64 - rg_ones d) <? x then Some (W32 - 1) else
  if x =? 0 then Some 0 else
  let key := fun mid v => u32 (u64 (mid * rg_factor d * 32 + W64 - v)) in
  match rg_select_search key d x with
  | None => None
  | Some (mid, rankmid) =>
      match rg_select_tail false zcount zcount8 d x mid rankmid with
      | None => None
      | Some (inl ret) => Some ret
      | Some (inr lft) =>
          let lft := u32 (lft + W32 - 1) in                     (* left--; *)
          if rg_n d <? lft then Some (rg_n d) else Some lft     (* if (left > n) return n; else return left; *)
      end
  end.

(* ---- save / load ---- *)
Definition BRW32_HDR : N := 3.

Definition take_exact {A} (k : N) (l : list A) : option (list A) :=
  if k <=? lenN l then Some (firstn (N.to_nat k) l) else None.

(* save: uint BRW32_HDR, size_t n, size_t factor, data[integers], Rs[n/s+1] *)
Definition rg_save (d : rg) : option (list N) :=
  match take_exact (rg_integers d) (rg_data d), take_exact (rg_n d / rg_s d + 1) (rg_rs d) with
  | Some dw, Some rw =>
      Some (le_bytes 4 BRW32_HDR ++ le_bytes 8 (rg_n d) ++ le_bytes 8 (rg_factor d) ++
            flat_map (le_bytes 4) dw ++ flat_map (le_bytes 4) rw)
  | _, _ => None
  end.

Definition take_bytes (k : N) (bs : list N) : option (list N * list N) :=
  if k <=? lenN bs then Some (firstn (N.to_nat k) bs, skipn (N.to_nat k) bs) else None.

Fixpoint words32_of_bytes (k : nat) (bs : list N) : list N :=
  match k with
  | O => []
  | S k' => le_value (firstn 4 bs) :: words32_of_bytes k' (skipn 4 bs)
  end.

Definition rg_load (bs : list N) : option (rg * list N) :=
  match take_bytes 4 bs with None => None | Some (t, bs1) =>
  if negb (le_value t =? BRW32_HDR) then None (* abort() *) else
  match take_bytes 8 bs1 with None => None | Some (nb, bs2) =>
  match take_bytes 8 bs2 with None => None | Some (fb, bs3) =>
    let n := le_value nb in
    let factor := le_value fb in
    let s := u64 (32 * factor) in
    if s =? 0 then None (* division by zero below *) else
    let integers := u64 (n + 1) / 32 + (if u64 (n + 1) mod 32 =? 0 then 0 else 1) in
    match take_bytes (4 * integers) bs3 with None => None | Some (db, bs4) =>
    match take_bytes (4 * (n / s + 1)) bs4 with None => None | Some (rb, bs5) =>
      let data := words32_of_bytes (N.to_nat integers) db in
      let rs := words32_of_bytes (N.to_nat (n / s + 1)) rb in
      let d0 := mkRG n factor s integers data rs 0 in
      match rg_rank1 d0 (u64 (n + W64 - 1)) with
      | None => None
      | Some ones => Some (mkRG n factor s integers data rs ones, bs5)
      end
    end end
  end end end.

(* ------------------------------------------------------------------ *)
(* C. pointer wavelet tree over an abstract bitmap                     *)
(* ------------------------------------------------------------------ *)

Inductive wt (B : Type) : Type :=
| WNull : wt B                                   (* child == NULL            *)
| WLeaf : N -> N -> wt B                         (* wt_node_leaf(symbol, count) *)
| WNode : B -> wt B -> wt B -> wt B              (* bitmap, lft, rgt      *)
| WBad : wt B.                                   (* builder ran out of fuel (unbounded recursion) *)
Arguments WNull {B}. Arguments WLeaf {B}. Arguments WNode {B}. Arguments WBad {B}.

Section WaveletTree.
  Variable B : Type.
  Variable bbuild : list bool -> B.              (* bmb->build(ibitmap, n)   *)
  Variable baccess : B -> N -> bool.
  Variable brank1 : B -> N -> N.
  Variable bselect1 : B -> N -> N.
  Variable bselect0 : B -> N -> N.
  Variable is_set : N -> nat -> bool.            (* c->is_set(symbol, l)     *)

  (* BitSequence::rank0 *)
  Definition brank0 (b : B) (i : N) : N := u64 (i + 1 + W64 - brank1 b i).

  Definition all_same (s : list N) : bool :=
    match s with [] => true | x :: t => forallb (N.eqb x) t end.

  (* wt_node_internal(symbols, n, l, c, bmb): the bitmap of bit l of the codes,
     stable partition, a side whose symbols are all equal becomes a leaf *)
  Fixpoint wt_build (fuel : nat) (l : nat) (s : list N) : wt B :=
    match fuel with
    | O => WBad
    | S f =>
        let bits := map (fun x => is_set x l) s in
        let lft := filter (fun x => negb (is_set x l)) s in
        let rgt := filter (fun x => is_set x l) s in
        let child := fun (c : list N) =>
          match c with
          | [] => WNull
          | x :: _ => if all_same c then WLeaf x (lenN c) else wt_build f (S l) c
          end in
        WNode (bbuild bits) (child lft) (child rgt)
    end.

  Definition dec64 (x : N) : N := u64 (x + W64 - 1).

  (* wt_node_internal::access / wt_node_leaf::access *)
  Fixpoint wtn_access (t : wt B) (pos : N) : option N :=
    match t with
    | WNull => None                               (* assert(child != NULL) *)
    | WBad => None
    | WLeaf sym _ => Some sym
    | WNode bm lc rc =>
        if baccess bm pos then wtn_access rc (dec64 (brank1 bm pos))
        else wtn_access lc (dec64 (brank0 bm pos))
    end.

  (* wt_node_internal::rank / wt_node_leaf::rank *)
  Fixpoint wtn_rank (t : wt B) (c : N) (pos : N) (l : nat) : N :=
    match t with
    | WNull => 0                                  (* prints "symbol1=" and returns 0 *)
    | WBad => 0
    | WLeaf sym _ => if c =? sym then u64 (pos + 1) else 0
    | WNode bm lc rc =>
        if is_set c l then wtn_rank rc c (dec64 (brank1 bm pos)) (S l)
        else wtn_rank lc c (dec64 (brank0 bm pos)) (S l)
    end.

  (* wt_node_internal::select / wt_node_leaf::select; the result is a size_t.
     Note the two different "not found" values: (size_t)-1 and (uint)-1 *)
  Fixpoint wtn_select (t : wt B) (c : N) (pos : N) (l : nat) : N :=
    match t with
    | WNull => W64 - 1
    | WBad => W64 - 1
    | WLeaf sym count =>
        if negb (c =? sym) then W64 - 1
        else if (pos =? 0) || (count <? pos) then W64 - 1 else pos
    | WNode bm lc rc =>
        let ch := if is_set c l then rc else lc in
        match ch with
        | WNull => W64 - 1
        | _ =>
            let new_pos := wtn_select ch c pos (S l) in
            if u64 (new_pos + 1) =? 0 then W32 - 1
            else
              let ret := u64 ((if is_set c l then bselect1 bm new_pos else bselect0 bm new_pos) + 1) in
              if ret =? 0 then W64 - 1 else ret
        end
    end.

  (* WaveletTree with MapperNone *)
  Definition wt_new (depth : nat) (s : list N) : wt B := wt_build (S depth) 0 s.
  Definition wt_access (t : wt B) (pos : N) : option N := wtn_access t pos.
  Definition wt_rank (t : wt B) (c pos : N) : N := wtn_rank t c pos 0.
  Definition wt_select (t : wt B) (c j : N) : N :=
    let ret := u32 (wtn_select t c j 0) in        (* uint ret = root->select(...) *)
    if ret =? W32 - 1 then W32 - 1 else u32 (ret + W32 - 1).
End WaveletTree.

(* the RG instance used by the dictionaries (BitSequenceBuilderRG(factor)) *)
Definition rg_empty : rg := mkRG 0 1 32 1 [0] [0] 0.
Definition rgt_build (factor : N) (bits : list bool) : rg :=
  match rg_of_bits bits factor with Some d => d | None => rg_empty end.
Definition rgt_access (d : rg) (i : N) : bool := match rg_access d i with Some b => b | None => false end.
Definition rgt_rank1 (d : rg) (i : N) : N := match rg_rank1 d i with Some v => v | None => 0 end.
Definition rgt_select1 (d : rg) (j : N) : N := match rg_select1 d j with Some v => v | None => 0 end.
Definition rgt_select0 (d : rg) (j : N) : N := match rg_select0 d j with Some v => v | None => 0 end.

(* checker: the code bits tell any two different symbols of s apart within [depth] levels
   (true for every prefix-free code whose longest codeword has [depth] bits) *)
Definition differ_at (is_set : N -> nat -> bool) (depth : nat) (a b : N) : bool :=
  existsb (fun k => xorb (is_set a k) (is_set b k)) (seq 0 depth).
Definition separable_b (is_set : N -> nat -> bool) (depth : nat) (s : list N) : bool :=
  forallb (fun a => forallb (fun b => (a =? b) || differ_at is_set depth a b) s) s.
(* is_set of a code table: bit l of the codeword of the symbol, false beyond its end *)
Definition code_bit (table : list (N * list bool)) (x : N) (l : nat) : bool :=
  match find (fun e => fst e =? x) table with
  | Some e => nth l (snd e) false
  | None => false
  end.
