(* C20 — Re-Pair is lossless and never merges across terminators.
   Only statements + `exact lemma`; the proofs are in RePairProofs.v. *)
From LibCSD Require Import Base Bytes LogSeqDefs LogSeqProofs RePairDefs RePairProofs.
Local Open Scope N_scope.

(* ---- A. abstract nondeterministic compressor -------------------------------------------- *)

Theorem C20_rp_step_lossless : forall t a b mask st l,
  expand_state t st = Some l -> expand_state t (apply_step t a b mask st) = Some l.
Proof. exact rp_step_lossless. Qed.
Print Assumptions C20_rp_step_lossless.

Theorem C20_rp_step_lossless_eq : forall t a b mask st,
  wf_state t st -> expand_state t (apply_step t a b mask st) = expand_state t st.
Proof. exact rp_step_lossless_eq. Qed.
Print Assumptions C20_rp_step_lossless_eq.

Theorem C20_rp_run_lossless : forall t input st,
  Forall (fun s => s < t) input -> rp_run t (init_state input) st -> expand_state t st = Some input.
Proof. exact rp_run_lossless. Qed.
Print Assumptions C20_rp_run_lossless.

Theorem C20_rp_no_zero_in_rules : forall t input st,
  Forall (fun s => s < t) input -> rp_run t (init_state input) st ->
  forall a b, In (a, b) (rp_rules st) -> a <> 0 /\ b <> 0.
Proof. exact rp_no_zero_in_rules. Qed.
Print Assumptions C20_rp_no_zero_in_rules.

Theorem C20_rp_rules_backwards : forall t input st,
  Forall (fun s => s < t) input -> rp_run t (init_state input) st ->
  forall i a b, nthN (rp_rules st) i = Some (a, b) -> a < t + i /\ b < t + i.
Proof. exact rp_rules_backwards. Qed.
Print Assumptions C20_rp_rules_backwards.

Theorem C20_expand_fuel_enough : forall t rules s,
  rules_wf t rules -> s < t + lenN rules -> exists l, expand_sym rules t (length rules) s = Some l.
Proof. exact expand_fuel_enough. Qed.
Print Assumptions C20_expand_fuel_enough.

Theorem C20_rp_bits_suffice : forall t input st,
  Forall (fun s => s < t) input -> rp_run t (init_state input) st ->
  t + lenN (rp_rules st) < 2 ^ 32 ->
  forall s, In s (rp_seq st ++ flat_rules (rp_rules st)) -> s < 2 ^ rp_bits t (rp_rules st).
Proof. exact rp_bits_suffice. Qed.
Print Assumptions C20_rp_bits_suffice.

Theorem C20_strings_addressable : forall t rules, rules_wf t rules -> 1 <= t -> forall cseq l,
  expand_seq rules t cseq = Some l ->
  Forall2 (fun piece str => expand_seq rules t piece = Some str) (split0 cseq) (split0 l).
Proof. exact strings_addressable. Qed.
Print Assumptions C20_strings_addressable.

(* C20 for the abstract algorithm: every input, every sequence of legal choices *)
Theorem C20_rp_run_valid : forall t input st,
  1 <= t -> Forall (fun s => s < t) input -> rp_run t (init_state input) st ->
  t + lenN (rp_rules st) < 2 ^ 32 ->
  grammar_valid input t (rp_rules st) (rp_seq st).
Proof. exact rp_run_valid. Qed.
Print Assumptions C20_rp_run_valid.

(* ---- B. verified checker ------------------------------------------------------------------ *)

Theorem C20_check_grammar_sound : forall input t rules cseq,
  check_grammar input t rules cseq = true -> grammar_valid input t rules cseq.
Proof. exact check_grammar_sound. Qed.
Print Assumptions C20_check_grammar_sound.

Theorem C20_check_grammar_complete : forall input t rules cseq,
  grammar_valid input t rules cseq -> check_grammar input t rules cseq = true.
Proof. exact check_grammar_complete. Qed.
Print Assumptions C20_check_grammar_complete.

(* ---- C. exact decoder and compaction loop ------------------------------------------------- *)

Theorem C20_rp_pack_spec : forall t rules,
  1 <= t -> rules_wf t rules -> t + lenN rules < 2 ^ 32 ->
  exists G, rp_pack t rules = Some G /\ ls_wf G /\ ls_bits G = rp_bits t rules /\ ls_n G = 2 * lenN rules /\
    forall i a b, nthN rules i = Some (a, b) -> ls_get G (2 * i) = Some a /\ ls_get G (2 * i + 1) = Some b.
Proof. exact rp_pack_spec. Qed.
Print Assumptions C20_rp_pack_spec.

Theorem C20_expandRule_spec : forall t rules G,
  1 <= t <= 256 -> rules_wf t rules -> t + lenN rules < 2 ^ 31 ->
  (forall i a b, nthN rules i = Some (a, b) -> ls_get G (2 * i) = Some a /\ ls_get G (2 * i + 1) = Some b) ->
  forall f i, i < lenN rules -> expandRule G t f i = expand_sym rules t f (t + i).
Proof. exact expandRule_spec. Qed.
Print Assumptions C20_expandRule_spec.

Theorem C20_decode_correct : forall input t rules cseq,
  grammar_valid input t rules cseq -> t <= 256 -> t + lenN rules < 2 ^ 31 ->
  exists G, rp_pack t rules = Some G /\ decode_seq G t (length rules) cseq = Some input.
Proof. exact decode_correct. Qed.
Print Assumptions C20_decode_correct.

Theorem C20_compact_spec : forall arr out,
  gapped 0 arr out -> lenN arr < 2 ^ 32 -> compact arr = Some out.
Proof. exact compact_spec. Qed.
Print Assumptions C20_compact_spec.

Theorem C20_gaps_wf_sound : forall arr, gaps_wf arr = true -> exists out, gapped 0 arr out.
Proof. exact gaps_wf_sound. Qed.
Print Assumptions C20_gaps_wf_sound.

Theorem C20_gapped_sublist : forall off arr out,
  gapped off arr out -> sublist out (map Z.to_N (filter (fun v => (0 <=? v)%Z) arr)).
Proof. exact gapped_sublist. Qed.
Print Assumptions C20_gapped_sublist.

(* ---- D. save / load ----------------------------------------------------------------------- *)

Theorem C20_rp_load_save : forall o rest,
  rp_obj_wf o -> rp_loadNoSeq (rp_save o ++ rest) = Some (o, rest).
Proof. exact rp_load_save. Qed.
Print Assumptions C20_rp_load_save.

Theorem C20_rp_load_save_seq : forall o enc cls rest,
  rp_obj_wf o -> enc < 2 ^ 32 -> enc_is_dac enc = false -> ls_wf cls -> ls_n cls < 2 ^ 64 ->
  rp_load_seq (rp_save_seq o enc cls ++ rest) = Some (o, enc, cls, rest).
Proof. exact rp_load_save_seq. Qed.
Print Assumptions C20_rp_load_save_seq.

Theorem C20_rp_grammar_load_save : forall input maxchar t rules cseq rest,
  grammar_valid input t rules cseq -> maxchar < 256 -> t <= 256 -> t + lenN rules < 2 ^ 31 ->
  exists o, rp_build_obj maxchar t rules = Some o /\
            rp_getBits o = rp_bits t rules /\
            rp_loadNoSeq (rp_save o ++ rest) = Some (o, rest) /\
            decode_seq (ro_G o) (ro_terminals o) (length rules) cseq = Some input.
Proof. exact rp_grammar_load_save. Qed.
Print Assumptions C20_rp_grammar_load_save.

(* ---- the hypotheses are satisfiable: concrete, non-trivial instances ------------------------ *)

(* the input a^9 0 (symbol 9) and the grammar the REAL compressor produced for it
   (rp_build 9 9 9 9 9 9 9 9 9 0: rules 9:9,10:10; array 9,11,-6,10,-2,11,-10,10,-6,0) *)
Definition ex_input : list N := [9;9;9;9;9;9;9;9;9;0].
Definition ex_rules : list rule := [(9, 9); (10, 10)].
Definition ex_cseq : list N := [9;11;11;0].
Definition ex_raw : list Z := [9;11;-6;10;-2;11;-10;10;-6;0]%Z.
(* the real compressor did NOT take the leftmost occurrences: the mask generality is needed *)
Definition ex_steps : list (N * N * list bool) :=
  [(9, 9, [false;true;false;true;false;true;false;true]); (10, 10, [false;true;false;true])].
Definition ex_final : rp_state := {| rp_rules := ex_rules; rp_seq := ex_cseq |}.

Example ex_terminals : terminals_of ex_input = 10.
Proof. vm_compute. reflexivity. Qed.

Example ex_run_steps : run_steps 10 ex_steps (init_state ex_input) = Some ex_final.
Proof. vm_compute. reflexivity. Qed.

Example ex_input_ok : Forall (fun s => s < 10) ex_input.
Proof. repeat constructor. Qed.

Example ex_rp_run : rp_run 10 (init_state ex_input) ex_final.
Proof. exact (run_steps_sound 10 ex_steps _ _ ex_run_steps). Qed.

(* rp_step_lossless / rp_run_lossless *)
Example ex_step_lossless :
  expand_state 10 (apply_step 10 9 9 [false;true;false;true;false;true;false;true] (init_state ex_input)) = Some ex_input.
Proof. apply C20_rp_step_lossless. vm_compute. reflexivity. Qed.

Example ex_step_lossless_eq :
  expand_state 10 (apply_step 10 9 9 [false;true] (init_state ex_input)) = expand_state 10 (init_state ex_input).
Proof. apply C20_rp_step_lossless_eq. apply init_wf. exact ex_input_ok. Qed.

Example ex_run_lossless : expand_state 10 ex_final = Some ex_input.
Proof. exact (C20_rp_run_lossless 10 ex_input ex_final ex_input_ok ex_rp_run). Qed.

Example ex_no_zero : forall a b, In (a, b) (rp_rules ex_final) -> a <> 0 /\ b <> 0.
Proof. exact (C20_rp_no_zero_in_rules 10 ex_input ex_final ex_input_ok ex_rp_run). Qed.

Example ex_backwards : forall i a b, nthN (rp_rules ex_final) i = Some (a, b) -> a < 10 + i /\ b < 10 + i.
Proof. exact (C20_rp_rules_backwards 10 ex_input ex_final ex_input_ok ex_rp_run). Qed.

Example ex_bits : forall s, In s (rp_seq ex_final ++ flat_rules (rp_rules ex_final)) -> s < 2 ^ 4.
Proof. exact (C20_rp_bits_suffice 10 ex_input ex_final ex_input_ok ex_rp_run ltac:(vm_compute; reflexivity)). Qed.

Example ex_run_valid : grammar_valid ex_input 10 ex_rules ex_cseq.
Proof.
  exact (C20_rp_run_valid 10 ex_input ex_final ltac:(vm_compute; discriminate) ex_input_ok ex_rp_run
           ltac:(vm_compute; reflexivity)).
Qed.

(* checker *)
Example ex_check : check_grammar ex_input 10 ex_rules ex_cseq = true.
Proof. vm_compute. reflexivity. Qed.

Example ex_check_sound : grammar_valid ex_input 10 ex_rules ex_cseq.
Proof. exact (C20_check_grammar_sound _ _ _ _ ex_check). Qed.

Example ex_check_complete : check_grammar ex_input 10 ex_rules ex_cseq = true.
Proof. exact (C20_check_grammar_complete _ _ _ _ ex_run_valid). Qed.

Example ex_check_rejects_zero_rule : check_grammar [7;0;7;0] 8 [(7, 0)] [8;8] = false.
Proof. vm_compute. reflexivity. Qed.

Example ex_fuel : exists l, expand_sym ex_rules 10 (length ex_rules) 11 = Some l.
Proof.
  destruct ex_check_sound as (_ & Hw & _).
  exact (C20_expand_fuel_enough 10 ex_rules 11 Hw ltac:(vm_compute; reflexivity)).
Qed.

Example ex_addressable :
  Forall2 (fun piece str => expand_seq ex_rules 10 piece = Some str) (split0 ex_cseq) (split0 ex_input).
Proof.
  destruct ex_check_sound as (H1 & Hw & _ & Hex & _).
  exact (C20_strings_addressable 10 ex_rules Hw H1 ex_cseq ex_input Hex).
Qed.

(* two strings: ab ab ab ab 0 ab 0 with the real grammar 97:98, 99:99 and sequence 100 100 0 99 0 *)
Example ex_two_strings :
  check_grammar [97;98;97;98;97;98;97;98;0;97;98;0] 99 [(97, 98); (99, 99)] [100;100;0;99;0] = true /\
  split0 [100;100;0;99;0] = [[100;100]; [99]; []].
Proof. vm_compute. split; reflexivity. Qed.

(* packed table and decoder *)
Example ex_pack : rp_pack 10 ex_rules = Some {| ls_bits := 4; ls_n := 4; ls_data := [43673] |}.
Proof. vm_compute. reflexivity. Qed.

Example ex_pack_spec : exists G, rp_pack 10 ex_rules = Some G /\ ls_wf G.
Proof.
  destruct ex_check_sound as (H1 & Hw & _).
  destruct (C20_rp_pack_spec 10 ex_rules H1 Hw ltac:(vm_compute; reflexivity)) as (G & HG & Hwf & _).
  exists G. split; assumption.
Qed.

Example ex_expandRule : forall G, rp_pack 10 ex_rules = Some G ->
  expandRule G 10 2 1 = Some [9;9;9;9].
Proof.
  intros G HG.
  destruct ex_check_sound as (H1 & Hw & _).
  destruct (C20_rp_pack_spec 10 ex_rules H1 Hw ltac:(vm_compute; reflexivity)) as (G' & HG' & _ & _ & _ & Hget).
  rewrite HG in HG'. inversion HG'; subst G'.
  rewrite (C20_expandRule_spec 10 ex_rules G ltac:(vm_compute; split; discriminate) Hw ltac:(vm_compute; reflexivity) Hget 2%nat 1
             ltac:(vm_compute; reflexivity)).
  vm_compute. reflexivity.
Qed.

Example ex_decode : exists G, rp_pack 10 ex_rules = Some G /\ decode_seq G 10 (length ex_rules) ex_cseq = Some ex_input.
Proof.
  exact (C20_decode_correct ex_input 10 ex_rules ex_cseq ex_check_sound ltac:(vm_compute; discriminate)
           ltac:(vm_compute; reflexivity)).
Qed.

(* compaction of the real array *)
Example ex_gaps_wf : gaps_wf ex_raw = true.
Proof. vm_compute. reflexivity. Qed.

Example ex_gapped : exists out, gapped 0 ex_raw out.
Proof. exact (C20_gaps_wf_sound ex_raw ex_gaps_wf). Qed.

Example ex_gapped_explicit : gapped 0 ex_raw ex_cseq.
Proof.
  unfold ex_raw, ex_cseq.
  apply (gapped_sym 0 9%Z); [discriminate|].
  apply (gapped_sym 1 11%Z); [discriminate|].
  apply (gapped_gap 2 (-6)%Z [10; -2]%Z [11; -10; 10; -6; 0]%Z); [reflexivity | reflexivity |].
  apply (gapped_sym 5 11%Z); [discriminate|].
  apply (gapped_gap 6 (-10)%Z [10; -6]%Z [0]%Z); [reflexivity | reflexivity |].
  apply (gapped_sym 9 0%Z); [discriminate|].
  apply gapped_nil.
Qed.

Example ex_compact : compact ex_raw = Some ex_cseq.
Proof. exact (C20_compact_spec ex_raw ex_cseq ex_gapped_explicit ltac:(vm_compute; reflexivity)). Qed.

Example ex_sublist : sublist ex_cseq (map Z.to_N (filter (fun v => (0 <=? v)%Z) ex_raw)).
Proof. exact (C20_gapped_sublist 0 ex_raw ex_cseq ex_gapped_explicit). Qed.

(* save / load *)
Example ex_save : exists o, rp_build_obj 0 10 ex_rules = Some o /\
  rp_save o = [0; 10;0;0;0;0;0;0;0; 2;0;0;0;0;0;0;0; 4; 4;0;0;0;0;0;0;0; 153;170;0;0;0;0;0;0].
Proof. eexists. vm_compute. split; reflexivity. Qed.

Example ex_load_save : exists o, rp_build_obj 0 10 ex_rules = Some o /\
  rp_loadNoSeq (rp_save o ++ [90;90;90]) = Some (o, [90;90;90]) /\
  decode_seq (ro_G o) (ro_terminals o) (length ex_rules) ex_cseq = Some ex_input.
Proof.
  destruct (C20_rp_grammar_load_save ex_input 0 10 ex_rules ex_cseq [90;90;90] ex_check_sound
              ltac:(vm_compute; reflexivity) ltac:(vm_compute; discriminate) ltac:(vm_compute; reflexivity))
    as (o & Ho & _ & Hl & Hd).
  exists o. repeat split; assumption.
Qed.

Example ex_load_save_obj : forall o, rp_build_obj 0 10 ex_rules = Some o ->
  rp_obj_wf o /\ rp_loadNoSeq (rp_save o ++ []) = Some (o, []).
Proof.
  intros o Ho.
  destruct (C20_rp_grammar_load_save ex_input 0 10 ex_rules ex_cseq [] ex_check_sound
              ltac:(vm_compute; reflexivity) ltac:(vm_compute; discriminate) ltac:(vm_compute; reflexivity))
    as (o' & Ho' & _ & Hl & _).
  rewrite Ho in Ho'. inversion Ho'; subst o'. split; [|exact Hl].
  destruct ex_check_sound as (H1 & Hw & _).
  destruct (C20_rp_pack_spec 10 ex_rules H1 Hw ltac:(vm_compute; reflexivity)) as (G & HG & Hwf & _ & Hn & _).
  unfold rp_build_obj in Ho. rewrite HG in Ho. inversion Ho; subst o.
  unfold rp_obj_wf; cbn [ro_maxchar ro_terminals ro_rules ro_G].
  split; [vm_compute; reflexivity|]. split; [vm_compute; reflexivity|]. split; [vm_compute; reflexivity|].
  split; [exact Hwf | rewrite Hn; vm_compute; reflexivity].
Qed.

Example ex_load_save_seq : forall o cls, rp_build_obj 0 10 ex_rules = Some o ->
  ls_of_list [9;11;11] 4 = Some cls ->
  rp_load_seq (rp_save_seq o 12 cls ++ [90]) = Some (o, 12, cls, [90]).
Proof.
  intros o cls Ho Hc.
  destruct (ex_load_save_obj o Ho) as [Hwf _].
  destruct (ls_of_list_get [9;11;11] 4 ltac:(lia) ltac:(repeat constructor)) as (s & Hs & Hswf & Hsn & _).
  rewrite Hc in Hs. inversion Hs; subst s.
  apply C20_rp_load_save_seq; [exact Hwf | vm_compute; reflexivity | reflexivity | exact Hswf |].
  rewrite Hsn. vm_compute. reflexivity.
Qed.
