(* cds32: the 32-bit word primitives of libcds (libcdsBasics.h) and their composition into the
   DAC_VLS / BitSequenceRG models.  Only statements, [exact], Print Assumptions, Examples. *)
From LibCSD Require Import Base Bytes LogSeqDefs DACDefs DACProofs BitRGDefs BitRGProofs Cds32Defs Cds32Proofs.
Local Open Scope N_scope.

(* ---- Part 1: get_field / set_field, every len in 0..32 ---------------------------------- *)
Theorem C17_cds32_get_set : forall A len index v,
  arr32 A -> len <= 32 -> in_range32 A len index -> v < 2 ^ len ->
  exists A', set_field32 A len index v = Some A' /\ get_field32 A' len index = Some v.
Proof. exact cds32_get_set. Qed.
Print Assumptions C17_cds32_get_set.

Theorem C17_cds32_set_frame : forall A len index index' v,
  arr32 A -> len <= 32 -> in_range32 A len index -> in_range32 A len index' -> v < 2 ^ len ->
  index' <> index ->
  exists A', set_field32 A len index v = Some A' /\ get_field32 A' len index' = get_field32 A len index'.
Proof. exact cds32_set_frame. Qed.
Print Assumptions C17_cds32_set_frame.

Theorem C17_cds32_word_frame : forall A len index v A' k,
  index * len < c32_W64 ->
  set_field32 A len index v = Some A' ->
  k <> index * len / 32 -> k <> index * len / 32 + 1 -> nthN A' k = nthN A k.
Proof. exact cds32_word_frame. Qed.
Print Assumptions C17_cds32_word_frame.

Theorem C17_cds32_get_bits : forall A len index,
  arr32 A -> len <= 32 -> in_range32 A len index ->
  get_field32 A len index = Some ((le_concat32 A / 2 ^ (index * len)) mod 2 ^ len).
Proof. exact cds32_get_bits. Qed.
Print Assumptions C17_cds32_get_bits.

Theorem C17_cds32_set_bits : forall A len index v,
  arr32 A -> len <= 32 -> in_range32 A len index -> v < 2 ^ len ->
  exists A', set_field32 A len index v = Some A' /\ arr32 A' /\ lenN A' = lenN A /\
    forall k, wbit32 A' k =
      if (index * len <=? k) && (k <? index * len + len) then N.testbit v (k - index * len)
      else wbit32 A k.
Proof. exact set_field32_bits. Qed.
Print Assumptions C17_cds32_set_bits.

Theorem C17_cds32_get_len0 : forall A index, get_field32 A 0 index = Some 0.
Proof. exact cds32_get_len0. Qed.
Print Assumptions C17_cds32_get_len0.

(* no shift count >= 32 is ever evaluated: the result is independent of what such a shift does *)
Theorem C17_cds32_no_shift32 : forall sl sr : N -> N -> N,
  (forall x c, c < 32 -> sl x c = shl32 x c) -> (forall x c, c < 32 -> sr x c = shr32 x c) ->
  forall A len index v, len <= 32 ->
  get_field32_gen sl sr c32_u64 A len index = get_field32 A len index /\
  set_field32_gen sl sr c32_u64 A len index v = set_field32 A len index v.
Proof. exact cds32_no_shift32. Qed.
Print Assumptions C17_cds32_no_shift32.

Theorem C17_cds32_var_get_set : forall A ini fin v,
  arr32 A -> ini <= fin + 1 -> fin + 1 - ini <= 32 -> fin + 1 <= 32 * lenN A -> fin < c32_W ->
  v < 2 ^ (fin + 1 - ini) ->
  exists A', set_var_field32 A ini fin v = Some A' /\ get_var_field32 A' ini fin = Some v.
Proof. exact cds32_var_get_set. Qed.
Print Assumptions C17_cds32_var_get_set.

Theorem C17_cds32_var_set_bits : forall A ini fin v,
  arr32 A -> ini <= fin + 1 -> fin + 1 - ini <= 32 -> fin + 1 <= 32 * lenN A -> fin < c32_W ->
  v < 2 ^ (fin + 1 - ini) ->
  exists A', set_var_field32 A ini fin v = Some A' /\ arr32 A' /\ lenN A' = lenN A /\
    forall k, wbit32 A' k =
      if (ini <=? k) && (k <? fin + 1) then N.testbit v (k - ini) else wbit32 A k.
Proof. exact set_var_field32_bits. Qed.
Print Assumptions C17_cds32_var_set_bits.

Theorem C17_cds32_var_get_bits : forall A ini fin,
  arr32 A -> ini <= fin + 1 -> fin + 1 - ini <= 32 -> fin + 1 <= 32 * lenN A ->
  exists v, get_var_field32 A ini fin = Some v /\
    forall t, N.testbit v t = (t <? fin + 1 - ini) && wbit32 A (ini + t).
Proof. exact get_var_field32_bits. Qed.
Print Assumptions C17_cds32_var_get_bits.

Theorem C19_cds32_bitget_bitset : forall e p, words32 e -> p < 32 * lenN e ->
  exists e', bitset32 e p = Some e' /\ bitget32 e' p = Some 1 /\
    forall q, q < 32 * lenN e -> q <> p -> bitget32 e' q = bitget32 e q.
Proof. exact bitget_bitset. Qed.
Print Assumptions C19_cds32_bitget_bitset.

Theorem C19_cds32_bitget_bitclean : forall e p, words32 e -> p < 32 * lenN e ->
  exists e', bitclean32 e p = Some e' /\ bitget32 e' p = Some 0 /\
    forall q, q < 32 * lenN e -> q <> p -> bitget32 e' q = bitget32 e q.
Proof. exact bitget_bitclean. Qed.
Print Assumptions C19_cds32_bitget_bitclean.

Theorem C19_cds32_bitset_words : forall bv, bitset_words bv = Some (words_of_bits bv).
Proof. exact bitset_words_spec. Qed.
Print Assumptions C19_cds32_bitset_words.

Theorem C17_cds32_bits32_spec : forall n, n < c32_W ->
  n < 2 ^ bits32 n /\ (0 < n -> 2 ^ (bits32 n - 1) <= n).
Proof. exact bits32_spec. Qed.
Print Assumptions C17_cds32_bits32_spec.

Theorem C17_cds32_uint_len : forall e n, e <= 32 -> n < c32_W -> uint_len32 e n = (e * n + 31) / 32.
Proof. exact uint_len32_spec. Qed.
Print Assumptions C17_cds32_uint_len.

(* ---- the array-of-fields view ------------------------------------------------------------- *)
Theorem C17_cds32_pack32_get : forall len vs,
  len <= 32 -> lenN vs < c32_W -> Forall (fun v => v < 2 ^ len) vs ->
  forall i, i < lenN vs -> get_field32 (pack32 len vs) len i = nthN vs i.
Proof. exact pack32_get. Qed.
Print Assumptions C17_cds32_pack32_get.

Theorem C17_cds32_pack32_length : forall len vs,
  len <= 32 -> lenN vs < c32_W -> Forall (fun v => v < 2 ^ len) vs ->
  lenN (pack32 len vs) = uint_len32 len (lenN vs) /\ uint_len32 len (lenN vs) = (len * lenN vs + 31) / 32.
Proof. exact pack32_length. Qed.
Print Assumptions C17_cds32_pack32_length.

Theorem C17_cds32_fields_of_pack32 : forall len vs,
  len <= 32 -> lenN vs < c32_W -> Forall (fun v => v < 2 ^ len) vs ->
  fields_of32 (pack32 len vs) len (lenN vs) = Some vs.
Proof. exact fields_of_pack32. Qed.
Print Assumptions C17_cds32_fields_of_pack32.

Theorem C17_cds32_pack32_bits : forall len vs,
  len <= 32 -> lenN vs < c32_W -> Forall (fun v => v < 2 ^ len) vs ->
  (forall q t, q < lenN vs -> t < len ->
     N.testbit (le_concat32 (pack32 len vs)) (q * len + t) = N.testbit (nth (N.to_nat q) vs 0) t) /\
  (forall k, lenN vs * len <= k -> N.testbit (le_concat32 (pack32 len vs)) k = false).
Proof. exact pack32_bits. Qed.
Print Assumptions C17_cds32_pack32_bits.

Theorem C17_cds32_any_order : forall nw len vs ops,
  len <= 32 -> Forall (fun v => v < 2 ^ len) vs -> lenN vs * len <= 32 * nw -> nw < 2 ^ 59 ->
  Permutation.Permutation ops (combine (map N.of_nat (seq 0 (length vs))) vs) ->
  set_fields32 (repeat 0 (N.to_nat nw)) len ops = pack32w nw len vs.
Proof. exact set_fields32_any_order. Qed.
Print Assumptions C17_cds32_any_order.

(* ---- Part 2: composition into the DAC model ---------------------------------------------------- *)
Theorem C17_dac_levels_packed : forall d,
  d_base_bits d <= 32 -> lenN (d_syms d) < c32_W ->
  Forall (fun x => x < 2 ^ d_base_bits d) (d_syms d) ->
  d_tamCode d = d_base_bits d * lenN (d_syms d) -> d_tamCode d < dac_U32 ->
  exists lv, dac_levels_c d = Some lv /\
    lv = pack32 (d_base_bits d) (d_syms d) ++
         repeat 0 (N.to_nat (d_tamCode d / 32 + 1 - uint_len32 (d_base_bits d) (lenN (d_syms d)))) /\
    lenN lv = d_tamCode d / 32 + 1 /\
    forall ini, ini < lenN (d_syms d) -> get_field32 lv (d_base_bits d) ini = nthN (d_syms d) ini.
Proof. exact dac_levels_packed. Qed.
Print Assumptions C17_dac_levels_packed.

Theorem C17_dac_rank_is_rg : forall bits r,
  lenN bits < BitRGDefs.W32 - 64 -> rg_of_bits bits dac_rg_factor = Some r ->
  forall i, i < lenN bits -> rg_rank1 r i = dac_rank1 bits i.
Proof. exact dac_rank_is_rg. Qed.
Print Assumptions C17_dac_rank_is_rg.

Theorem C17_dac_bitget_is_rg : forall bits r,
  lenN bits < BitRGDefs.W32 - 64 -> rg_of_bits bits dac_rg_factor = Some r ->
  forall i, i < lenN bits -> bitget32 (rg_data r) i = Some (if nth (N.to_nat i) bits false then 1 else 0).
Proof. exact dac_bitget_is_rg. Qed.
Print Assumptions C17_dac_bitget_is_rg.

Theorem C17_dac_access_refines : forall d c pos s, conc_ok d c ->
  dac_access d pos = Some s -> dac_access_c c pos = Some s.
Proof. exact dac_access_refines. Qed.
Print Assumptions C17_dac_access_refines.

Theorem C17_dac_build_c_ok : forall seqs logr maxseq, dac_wf_c seqs logr maxseq = true ->
  let d := the_dac seqs logr (N.to_nat maxseq) in
  exists c, dac_build_c (dac_flatten seqs) (dac_llen seqs) logr maxseq = Some c /\ conc_ok d c /\
    c_levels c = pack32 logr (d_syms d) ++
                 repeat 0 (N.to_nat (d_tamCode d / 32 + 1 - uint_len32 logr (lenN (d_syms d)))) /\
    rg_of_bits (d_bits d) dac_rg_factor = Some (c_bS c) /\
    rg_data (c_bS c) = words_of_bits (d_bits d).
Proof. exact dac_build_c_ok. Qed.
Print Assumptions C17_dac_build_c_ok.

Theorem C17_dac_access_spec_concrete : forall seqs logr maxseq c i,
  dac_wf_c seqs logr maxseq = true ->
  dac_build_c (dac_flatten seqs) (dac_llen seqs) logr maxseq = Some c ->
  1 <= i <= lenN seqs ->
  dac_access_c c i = Some (nth (N.to_nat (i - 1)) seqs []).
Proof. exact dac_access_spec_concrete. Qed.
Print Assumptions C17_dac_access_spec_concrete.

Theorem C17_dac_chain_spec_concrete : forall seqs logr maxseq c i fuel,
  dac_wf_c seqs logr maxseq = true ->
  dac_build_c (dac_flatten seqs) (dac_llen seqs) logr maxseq = Some c ->
  1 <= i <= lenN seqs -> (N.to_nat maxseq <= fuel)%nat ->
  dac_chain_c c fuel 0 i = Some (nth (N.to_nat (i - 1)) seqs []) /\
  dac_chain_bounded_c c fuel 0 i = Some (nth (N.to_nat (i - 1)) seqs []).
Proof. exact dac_chain_spec_concrete. Qed.
Print Assumptions C17_dac_chain_spec_concrete.

Theorem C17_dac_no_oob_concrete : forall seqs logr maxseq i,
  dac_wf_c seqs logr maxseq = true -> 1 <= i <= lenN seqs ->
  exists c, dac_build_c (dac_flatten seqs) (dac_llen seqs) logr maxseq = Some c /\
            dac_access_c c i <> None /\ dac_chain_c c (N.to_nat maxseq) 0 i <> None.
Proof. exact dac_no_oob_concrete. Qed.
Print Assumptions C17_dac_no_oob_concrete.

(* ---- the hypotheses are satisfiable on concrete non-trivial inputs -------------------------------- *)
Lemma ex_arr : arr32 [4294967295; 305419896; 0].
Proof. split; [repeat constructor|vm_compute; reflexivity]. Qed.

(* a 13-bit field straddling words 0 and 1 of an array with non-zero contents *)
Example ex_get_set : exists A', set_field32 [4294967295; 305419896; 0] 13 2 5461 = Some A' /\
  get_field32 A' 13 2 = Some 5461 /\ A' = [1476395007; 305419861; 0].
Proof.
  destruct (C17_cds32_get_set [4294967295; 305419896; 0] 13 2 5461 ex_arr) as (A' & Hs & Hg);
    [vm_compute; discriminate | vm_compute; discriminate | reflexivity |].
  exists A'. split; [exact Hs|]. split; [exact Hg|]. vm_compute in Hs. injection Hs as <-. reflexivity.
Qed.

Example ex_set_frame : exists A', set_field32 [4294967295; 305419896; 0] 13 2 5461 = Some A' /\
  get_field32 A' 13 3 = get_field32 [4294967295; 305419896; 0] 13 3.
Proof.
  apply (C17_cds32_set_frame _ 13 2 3 5461 ex_arr); try (vm_compute; discriminate); reflexivity.
Qed.

Example ex_get_bits : get_field32 [4294967295; 305419896; 0] 13 2 = Some 7743 /\
  (le_concat32 [4294967295; 305419896; 0] / 2 ^ 26) mod 2 ^ 13 = 7743.
Proof. split; vm_compute; reflexivity. Qed.

Example ex_len32_len0 : get_field32 [7; 9] 32 1 = Some 9 /\ get_field32 [] 0 5 = Some 0 /\
  set_field32 [7; 9] 32 1 4294967295 = Some [7; 4294967295].
Proof. repeat split; reflexivity. Qed.

Example ex_var : exists A', set_var_field32 [4294967295; 305419896; 0] 20 51 2863311530 = Some A' /\
  get_var_field32 A' 20 51 = Some 2863311530.
Proof.
  apply (C17_cds32_var_get_set _ 20 51 2863311530 ex_arr); try (vm_compute; discriminate); reflexivity.
Qed.

Example ex_bitset : exists e', bitset32 [0; 1] 31 = Some e' /\ bitget32 e' 31 = Some 1 /\ e' = [2147483648; 1].
Proof. eexists. split; [reflexivity|]. split; reflexivity. Qed.

Example ex_bits32 : bits32 0 = 0 /\ bits32 1 = 1 /\ bits32 255 = 8 /\ bits32 256 = 9 /\ bits32 4294967295 = 32.
Proof. repeat split; reflexivity. Qed.

Example ex_pack32 : pack32 5 [1; 2; 3; 31; 17; 0; 9; 30] = [1092586561; 242] /\
  fields_of32 (pack32 5 [1; 2; 3; 31; 17; 0; 9; 30]) 5 8 = Some [1; 2; 3; 31; 17; 0; 9; 30] /\
  Forall (fun v => v < 2 ^ 5) [1; 2; 3; 31; 17; 0; 9; 30].
Proof. split; [vm_compute; reflexivity|]. split; [vm_compute; reflexivity|]. repeat constructor. Qed.

Example ex_any_order :
  set_fields32 [0; 0] 5 [(3, 31); (0, 1); (7, 30); (1, 2); (6, 9); (2, 3); (5, 0); (4, 17)] =
  pack32w 2 5 [1; 2; 3; 31; 17; 0; 9; 30].
Proof. vm_compute. reflexivity. Qed.

(* a DAC with straddling 11-bit symbols, three levels, sequences of length 1, 2 and 3 *)
Definition ex_seqs : list (list N) := [[1000; 2000; 7]; [5]; [2047; 0]; [1; 2; 3]; [9]].
Example ex_dac_inclass : dac_wf_c ex_seqs 11 3 = true.
Proof. vm_compute. reflexivity. Qed.
Example ex_dac_concrete : exists c,
  dac_build_c (dac_flatten ex_seqs) (dac_llen ex_seqs) 11 3 = Some c /\
  c_levels c = [4290784232; 3892350979; 117456899; 24] /\ rg_data (c_bS c) = [429] /\
  dac_access_c c 1 = Some [1000; 2000; 7] /\ dac_access_c c 2 = Some [5] /\ dac_access_c c 3 = Some [2047; 0] /\
  dac_access_c c 5 = Some [9] /\ dac_chain_c c 3 0 4 = Some [1; 2; 3].
Proof. eexists. split; [vm_compute; reflexivity|]. repeat split; vm_compute; reflexivity. Qed.
