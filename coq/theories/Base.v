(* Prelude: shared vocabulary and bit-level lemmas (stdlib only). *)
From Coq Require Export List NArith ZArith Lia Bool Arith.
Export ListNotations.
Local Open Scope N_scope.

(* Checked reads: every array access of a Tier-A model goes through [nthN];
   [None] is the model's rendering of an out-of-bounds access. *)
Definition nthN {A} (l : list A) (i : N) : option A := nth_error l (N.to_nat i).

Definition lenN {A} (l : list A) : N := N.of_nat (length l).

Lemma nthN_app_l {A} (l r : list A) i : i < lenN l -> nthN (l ++ r) i = nthN l i.
Proof. unfold nthN, lenN; intros H; apply nth_error_app1; lia. Qed.

Lemma nthN_app_r {A} (l r : list A) i : lenN l <= i -> nthN (l ++ r) i = nthN r (i - lenN l).
Proof.
  unfold nthN, lenN; intros H. rewrite nth_error_app2 by lia.
  f_equal; lia.
Qed.

Lemma nthN_Some_lt {A} (l : list A) i x : nthN l i = Some x -> i < lenN l.
Proof.
  unfold nthN, lenN; intros H.
  assert (N.to_nat i < length l)%nat by (apply nth_error_Some; congruence). lia.
Qed.

Lemma nthN_lt_Some {A} (l : list A) i : i < lenN l -> exists x, nthN l i = Some x.
Proof.
  unfold nthN, lenN; intros H.
  destruct (nth_error l (N.to_nat i)) eqn:E; eauto.
  apply nth_error_None in E; lia.
Qed.

Lemma lenN_app {A} (l r : list A) : lenN (l ++ r) = lenN l + lenN r.
Proof. unfold lenN; rewrite app_length; lia. Qed.

Lemma lenN_cons {A} (x : A) l : lenN (x :: l) = 1 + lenN l.
Proof. unfold lenN; simpl length; lia. Qed.

Lemma lenN_nil {A} : lenN (@nil A) = 0.
Proof. reflexivity. Qed.

(* ---- bit-level toolkit ------------------------------------------------- *)

Lemma lor_disjoint_add a b : N.land a b = 0 -> N.lor a b = a + b.
Proof. intros H; rewrite N.add_nocarry_lxor, N.lxor_lor; auto. Qed.

Lemma land_low_shiftl a x s : a < 2 ^ s -> N.land a (N.shiftl x s) = 0.
Proof.
  intros H; apply N.bits_inj; intro k.
  rewrite N.land_spec, N.bits_0.
  destruct (N.ltb_spec k s).
  - rewrite N.shiftl_spec_low by assumption. apply andb_false_r.
  - destruct (N.eq_dec a 0) as [->|Ha]; [now rewrite N.bits_0|].
    rewrite (N.bits_above_log2 a k); [reflexivity|].
    apply N.log2_lt_pow2 in H; lia.
Qed.

Lemma testbit_lt_pow2_false a k n : a < 2 ^ n -> n <= k -> N.testbit a k = false.
Proof.
  intros H Hk. destruct (N.eq_dec a 0) as [->|Ha]; [apply N.bits_0|].
  apply N.bits_above_log2. apply N.log2_lt_pow2 in H; lia.
Qed.

Lemma lt_pow2_of_bits a n : (forall k, n <= k -> N.testbit a k = false) -> a < 2 ^ n.
Proof.
  intros H. destruct (N.eq_dec a 0) as [->|Ha].
  - apply N.neq_0_lt_0, N.pow_nonzero; lia.
  - apply N.log2_lt_pow2; [lia|].
    destruct (N.lt_ge_cases (N.log2 a) n) as [|Hge]; [assumption|].
    specialize (H _ Hge). rewrite N.bit_log2 in H by assumption. discriminate.
Qed.

Lemma pow2_pos n : 0 < 2 ^ n.
Proof. apply N.neq_0_lt_0, N.pow_nonzero; lia. Qed.

Global Hint Resolve pow2_pos : core.
