(* C04 / C13 — the byte-exact PFC model: locateBoundaryBuckets + searchPrefix +
   searchDistinctPrefix + IteratorDictIDContiguous + extractPrefix equal the specification
   for EVERY valid set, bucket size and non-empty NUL-free pattern. *)
From LibCSD Require Import Base VByteDefs Spec SpecProofs PFCDefs PFCLayout PFCBuildProofs PFCExtractProofs LexLemmas PFCLocateProofs PFCTheorems PFCPrefixProofs.
Local Open Scope N_scope.

Theorem C04_pfc_locate_prefix : forall d b S p, layout_ok d b S -> 2 <= b -> pfc_input S ->
  p <> [] -> nul_free p -> lenN p < 2 ^ 32 ->
  pfc_locate_prefix d p = Some (range_of (spec_prefix_ids S p)).
Proof. exact pfc_locate_prefix_spec. Qed.
Print Assumptions C04_pfc_locate_prefix.

Theorem C04_pfc_locate_prefix_ids : forall d b S p, layout_ok d b S -> 2 <= b -> pfc_input S ->
  p <> [] -> nul_free p -> lenN p < 2 ^ 32 ->
  exists r, pfc_locate_prefix d p = Some r /\ contig_ids (fst r) (snd r) = spec_prefix_ids S p.
Proof. exact pfc_locate_prefix_ids. Qed.
Print Assumptions C04_pfc_locate_prefix_ids.

Theorem C04_pfc_extract_prefix : forall d b S p, layout_ok d b S -> 2 <= b -> pfc_input S ->
  p <> [] -> nul_free p -> lenN p < 2 ^ 32 ->
  pfc_extract_prefix d p = Some (match spec_prefix_strs S p with [] => None | l => Some l end).
Proof. exact pfc_extract_prefix_spec. Qed.
Print Assumptions C04_pfc_extract_prefix.

Theorem C04_pfc_locate_prefix_built : forall S b0 p, pfc_input S -> p <> [] -> nul_free p -> lenN p < 2 ^ 32 ->
  pfc_locate_prefix (pfc_build b0 S) p = Some (range_of (spec_prefix_ids S p)).
Proof. exact pfc_locate_prefix_built. Qed.
Print Assumptions C04_pfc_locate_prefix_built.

Theorem C04_pfc_extract_prefix_built : forall S b0 p, pfc_input S -> p <> [] -> nul_free p -> lenN p < 2 ^ 32 ->
  pfc_extract_prefix (pfc_build b0 S) p = Some (match spec_prefix_strs S p with [] => None | l => Some l end).
Proof. exact pfc_extract_prefix_built. Qed.
Print Assumptions C04_pfc_extract_prefix_built.

(* the contiguous ID iterator: exactly l..r, nothing for the NORESULT limits (0,0) *)
Theorem C13_contig_ids : forall l r, 1 <= l <= r -> r < 2 ^ 64 -> contig_ids l r = nrange l (N.to_nat (r - l + 1)).
Proof. exact contig_ids_spec. Qed.
Print Assumptions C13_contig_ids.

Theorem C13_contig_ids_noresult : contig_ids 0 0 = [].
Proof. exact contig_ids_00. Qed.
Print Assumptions C13_contig_ids_noresult.

Theorem C12_pfc_param_indep_prefix : forall S b0 b1 p, pfc_input S -> p <> [] -> nul_free p -> lenN p < 2 ^ 32 ->
  pfc_locate_prefix (pfc_build b0 S) p = pfc_locate_prefix (pfc_build b1 S) p.
Proof. intros. rewrite !pfc_locate_prefix_built by assumption. reflexivity. Qed.
Print Assumptions C12_pfc_param_indep_prefix.
