(* Executable model of StringDictionaryPFC.cpp (Plain Front-Coding dictionary),
   statement by statement: constructor, getHeader, decodeNextString, locateBucket,
   locate, extract, locateBoundaryBuckets, searchPrefix, searchDistinctPrefix,
   locatePrefix, extractPrefix, extractTable + IteratorDictStringPFC, save/load.

   Memory is modelled explicitly: [p_text] is textStrings[0 .. bytesStrings) and every
   read of it goes through list destructuring that yields [None] when it would
   leave the array ([None] = "touches memory outside the dictionary").  The
   caller's pattern is the byte list [q] followed by its NUL; reading past that
   NUL is [None] as well.  The offset array blStrings is the list [p_bl]
   (its bit packing is LogSeqDefs, property C17). *)
From LibCSD Require Import Base VByteDefs Spec.
Local Open Scope N_scope.

Record pfc := { p_elements : N; p_maxlength : N; p_buckets : N; p_bsize : N;
                p_text : list N; p_bl : list N }.

Definition skipN {A} (n : N) (l : list A) : list A := skipn (N.to_nat n) l.
Definition firstN {A} (n : N) (l : list A) : list A := firstn (N.to_nat n) l.

(* longest common prefix of two NUL-free strings (what longestCommonPrefix computes in the
   constructor: it compares up to lenPrev positions of strPrev against strCurrent, whose
   terminating NUL stops the scan when it is shorter) *)
Fixpoint lcp (a b : str) : N :=
  match a, b with
  | x :: a', y :: b' => if x =? y then 1 + lcp a' b' else 0
  | _, _ => 0
  end.

(* ---------------------------------------------------------------------- *)
(* constructor                                                            *)
(* ---------------------------------------------------------------------- *)
Record bstate := { b_elems : N; b_maxlen : N; b_buckets : N;
                   b_text : list N; b_xbl : list N; b_prev : str }.

Definition b_init : bstate :=
  {| b_elems := 0; b_maxlen := 0; b_buckets := 0; b_text := []; b_xbl := [0]; b_prev := [] |}.

(* one iteration of `while (it->hasNext())` *)
Definition pfc_step (bs : N) (st : bstate) (s : str) : bstate :=
  let len := lenN s in
  let maxlen := if b_maxlen st <=? len then len + 1 else b_maxlen st in
  if (b_elems st) mod bs =? 0 then
    {| b_elems := b_elems st + 1; b_maxlen := maxlen; b_buckets := b_buckets st + 1;
       b_text := b_text st ++ s ++ [0];
       b_xbl := b_xbl st ++ [lenN (b_text st)]; b_prev := s |}
  else
    let l := lcp (b_prev st) s in
    {| b_elems := b_elems st + 1; b_maxlen := maxlen; b_buckets := b_buckets st;
       b_text := b_text st ++ vb_encode l ++ skipN l s ++ [0];
       b_xbl := b_xbl st; b_prev := s |}.

Definition clamp_bsize (b0 : N) : N := if b0 <? 2 then 2 else b0.

Definition pfc_build (b0 : N) (S : list str) : pfc :=
  let bs := clamp_bsize b0 in
  let st := fold_left (pfc_step bs) S b_init in
  {| p_elements := b_elems st; p_maxlength := b_maxlen st; p_buckets := b_buckets st; p_bsize := bs;
     p_text := b_text st; p_bl := b_xbl st ++ [lenN (b_text st)] |}.

(* ---------------------------------------------------------------------- *)
(* reads of the text array                                                *)
(* ---------------------------------------------------------------------- *)
(* strlen + copy: bytes up to (not including) the first 0; None = ran off the array *)
Fixpoint take0 (t : list N) : option str :=
  match t with
  | [] => None
  | b :: r => if b =? 0 then Some [] else option_map (cons b) (take0 r)
  end.

Definition cstr_at (text : list N) (off : N) : option str :=
  if off <=? lenN text then take0 (skipN off text) else None.

(* VByte::decode(&v, text + ptr) : (value, bytes consumed) *)
Definition vb_at (text : list N) (ptr : N) : option (N * N) :=
  if ptr <=? lenN text then vb_decode (skipN ptr text) else None.

(* getHeader(idbucket, &str, &strLen): (pointer after the header's NUL, decoded header) *)
Definition get_header (d : pfc) (idbucket : N) : option (N * str) :=
  match nthN (p_bl d) idbucket with
  | None => None
  | Some off =>
      match cstr_at (p_text d) off with
      | None => None
      | Some h => Some (off + lenN h + 1, h)
      end
  end.

(* decodeNextString(&ptr, lenPrefix, str, &strLen): the suffix is copied over
   str[lenPrefix ..]; if lenPrefix exceeded the current length the gap would hold
   stale bytes of the scratch buffer: the model flags that as an error (None). *)
Definition decode_next (text : list N) (ptr lenPrefix : N) (decoded : str) : option (N * str) :=
  if lenPrefix <=? lenN decoded then
    match cstr_at text ptr with
    | None => None
    | Some suf => Some (ptr + lenN suf + 1, firstN lenPrefix decoded ++ suf)
    end
  else None.

(* ptr += VByte::decode(&lenPrefix, ptr); decodeNextString(&ptr, lenPrefix, decoded, &decLen) *)
Definition decode_step (text : list N) (st : N * str) : option (N * str) :=
  let '(ptr, decoded) := st in
  match vb_at text ptr with
  | None => None
  | Some (lp, k) => decode_next text (ptr + k) lp decoded
  end.

Definition opt_bind {A B} (o : option A) (f : A -> option B) : option B :=
  match o with Some a => f a | None => None end.

(* ---------------------------------------------------------------------- *)
(* extract                                                                *)
(* ---------------------------------------------------------------------- *)
Definition W32m (x : N) : N := x mod 2 ^ 32.   (* assignment to a `uint` *)

(* outer None: memory error; Some None: NULL with *strLen = 0 *)
Definition pfc_extract (d : pfc) (id : N) : option (option str) :=
  if (0 <? id) && (id <=? p_elements d) then
    let idbucket := W32m (1 + (id - 1) / p_bsize d) in
    let pos := W32m ((id - 1) mod p_bsize d) in
    match get_header d idbucket with
    | None => None
    | Some st0 =>
        match N.iter pos (fun o => opt_bind o (decode_step (p_text d))) (Some st0) with
        | None => None
        | Some (_, decoded) => Some (Some decoded)
        end
    end
  else Some None.

(* ---------------------------------------------------------------------- *)
(* comparisons against the caller's pattern                               *)
(* ---------------------------------------------------------------------- *)
(* strcmp(text + off, q): q is followed by its NUL *)
Fixpoint c_strcmp (t : list N) (q : str) : option comparison :=
  match t with
  | [] => None
  | b :: t' =>
      match q with
      | [] => Some (if b =? 0 then Eq else Gt)
      | c :: q' => if b =? c then (if b =? 0 then Some Eq else c_strcmp t' q')
                   else Some (N.compare b c)
      end
  end.

(* strncmp(text + off, q, n) *)
Fixpoint c_strncmp (t : list N) (q : str) (n : nat) : option comparison :=
  match n with
  | O => Some Eq
  | S n' =>
      match t with
      | [] => None
      | b :: t' =>
          match q with
          | [] => Some (if b =? 0 then Eq else Gt)
          | c :: q' => if b =? c then (if b =? 0 then Some Eq else c_strncmp t' q' n')
                       else Some (N.compare b c)
          end
      end
  end.

Definition strcmp_at (d : pfc) (idbucket : N) (q : str) : option comparison :=
  match nthN (p_bl d) idbucket with
  | None => None
  | Some off => if off <=? lenN (p_text d) then c_strcmp (skipN off (p_text d)) q else None
  end.

Definition strncmp_at (d : pfc) (idbucket : N) (q : str) : option comparison :=
  match nthN (p_bl d) idbucket with
  | None => None
  | Some off => if off <=? lenN (p_text d) then c_strncmp (skipN off (p_text d)) q (length q) else None
  end.

(* longestCommonPrefix(str1, str2, length, &lcp) on two buffers: (cmp, lcp + matched);
   None = a read outside either buffer *)
Fixpoint lcp_cmp (a b : list N) (len acc : N) : option (Z * N) :=
  match a with
  | [] => if len =? 0 then Some (0%Z, acc) else None
  | x :: a' =>
      if len =? 0 then Some (0%Z, acc) else
      match b with
      | [] => None
      | y :: b' => if x =? y then lcp_cmp a' b' (len - 1) (acc + 1)
                   else Some ((Z.of_N x - Z.of_N y)%Z, acc)
      end
  end.

(* longestCommonPrefix(decoded + shared, str + shared, decLen - shared + extra, &shared):
   the decoded buffer is [decoded ++ [0]], the pattern buffer [q ++ [0]] *)
Definition cmp_from (decoded q : str) (shared extra : N) : option (Z * N) :=
  if (shared <=? lenN decoded) && (shared <=? lenN q) then
    lcp_cmp (skipN shared (decoded ++ [0])) (skipN shared (q ++ [0])) (lenN decoded - shared + extra) shared
  else None.

(* ---------------------------------------------------------------------- *)
(* locateBucket                                                           *)
(* ---------------------------------------------------------------------- *)
(* the while loop; returns (found, idbucket) incl. the epilogue *)
Fixpoint locate_bucket_loop (fuel : nat) (d : pfc) (q : str) (lft rgt center : N) (cmp : comparison)
  : option (bool * N) :=
  match fuel with
  | O => None
  | S f =>
      if lft <=? rgt then
        let center := (lft + rgt) / 2 in
        match strcmp_at d center q with
        | None => None
        | Some Gt => locate_bucket_loop f d q lft (center - 1) center Gt
        | Some Lt => locate_bucket_loop f d q (center + 1) rgt center Lt
        | Some Eq => Some (true, center)
        end
      else
        Some (false, match cmp with Lt => center | _ => center - 1 end)
  end.

Definition locate_bucket (d : pfc) (q : str) : option (bool * N) :=
  locate_bucket_loop (S (S (N.to_nat (p_buckets d)))) d q 1 (p_buckets d) 0 Eq.

Definition scanneable_of (d : pfc) (idbucket : N) : N :=
  if (idbucket =? p_buckets d) && negb (p_elements d mod p_bsize d =? 0)
  then p_elements d mod p_bsize d else p_bsize d.

(* ---------------------------------------------------------------------- *)
(* locate                                                                 *)
(* ---------------------------------------------------------------------- *)
(* the for-loop `for (uint i = 2; i < scanneable; i++)`; state: ptr, decoded, sharedCurr, cmp *)
Fixpoint scan_loop (fuel : nat) (d : pfc) (q : str) (idbucket scanneable i : N)
         (ptr : N) (decoded : str) (sharedCurr : N) (cmp : Z) : option N :=
  match fuel with
  | O => None
  | S f =>
      if i <? scanneable then
        match vb_at (p_text d) ptr with
        | None => None
        | Some (sharedPrev, k) =>
            if sharedPrev <? sharedCurr then Some 0
            else
              match decode_next (p_text d) (ptr + k) sharedPrev decoded with
              | None => None
              | Some (ptr', decoded') =>
                  let r := if sharedPrev =? sharedCurr then cmp_from decoded' q sharedCurr 1
                           else Some (cmp, sharedCurr) in
                  match r with
                  | None => None
                  | Some (cmp', sharedCurr') =>
                      if (cmp' =? 0)%Z then Some ((idbucket - 1) * p_bsize d + i + 1)
                      else if (0 <? cmp')%Z then Some 0
                      else scan_loop f d q idbucket scanneable (i + 1) ptr' decoded' sharedCurr' cmp'
                  end
              end
        end
      else Some 0
  end.

Definition pfc_locate (d : pfc) (q : str) : option N :=
  match locate_bucket d q with
  | None => None
  | Some (true, idbucket) => Some ((idbucket - 1) * p_bsize d + 1)
  | Some (false, idbucket) =>
      if idbucket =? 0 then Some 0
      else
        match get_header d idbucket with
        | None => None
        | Some (ptr, decoded) =>
            let scanneable := scanneable_of d idbucket in
            if 1 <? scanneable then
              match decode_step (p_text d) (ptr, decoded) with
              | None => None
              | Some (ptr1, decoded1) =>
                  match cmp_from decoded1 q 0 1 with
                  | None => None
                  | Some (cmp, sharedCurr) =>
                      if (cmp =? 0)%Z then Some ((idbucket - 1) * p_bsize d + 2)
                      else scan_loop (N.to_nat scanneable) d q idbucket scanneable 2 ptr1 decoded1 sharedCurr cmp
                  end
              end
            else Some 0
        end
  end.

(* ---------------------------------------------------------------------- *)
(* prefix search                                                          *)
(* ---------------------------------------------------------------------- *)
(* first loop of locateBoundaryBuckets: (left, right, center, cmp) on exit *)
Fixpoint lbb_main (fuel : nat) (d : pfc) (p : str) (lft rgt center : N) (cmp : comparison)
  : option (N * N * N * comparison) :=
  match fuel with
  | O => None
  | S f =>
      if lft <=? rgt then
        let center := (lft + rgt) / 2 in
        match strncmp_at d center p with
        | None => None
        | Some Gt => lbb_main f d p lft (center - 1) center Gt
        | Some Lt => lbb_main f d p (center + 1) rgt center Lt
        | Some Eq => Some (lft, rgt, center, Eq)
        end
      else Some (lft, rgt, center, cmp)
  end.

(* `while (ll <= lr)`; ll, lr, lc are `uint` *)
Fixpoint lbb_left (fuel : nat) (d : pfc) (p : str) (ll lr : N) : option N :=
  match fuel with
  | O => None
  | S f =>
      if ll <=? lr then
        let lc := (ll + lr) / 2 in
        match strncmp_at d lc p with
        | None => None
        | Some Eq => lbb_left f d p ll (lc - 1)
        | Some _ => lbb_left f d p (lc + 1) lr
        end
      else Some lr
  end.

(* `while (rl < (rr - 1))` *)
Fixpoint lbb_right (fuel : nat) (d : pfc) (p : str) (rl rr : N) : option N :=
  match fuel with
  | O => None
  | S f =>
      if rl <? rr - 1 then
        let rc := (rl + rr) / 2 in
        match strncmp_at d rc p with
        | None => None
        | Some Eq => lbb_right f d p rc rr
        | Some _ => lbb_right f d p rl rc
        end
      else Some rl
  end.

Definition locate_boundary_buckets (d : pfc) (p : str) : option (N * N) :=
  let fuel := S (S (N.to_nat (p_buckets d))) in
  match lbb_main fuel d p 1 (p_buckets d) 0 Eq with
  | None => None
  | Some (lft, rgt, center, cmp) =>
      match cmp with
      | Lt => Some (center, center)
      | Gt => Some (center - 1, center - 1)
      | Eq =>
          let left' :=
            if 1 <? center then
              match lbb_left fuel d p lft (center - 1) with
              | None => None
              | Some lr => Some (if 0 <? lr then lr else 1)
              end
            else Some lft in
          let right' :=
            if center <? p_buckets d then lbb_right fuel d p center (rgt + 1)
            else Some rgt in
          match left', right' with
          | Some lb, Some rb => Some (lb, rb)
          | _, _ => None
          end
      end
  end.

(* searchPrefix(&ptr, scanneable, decoded, &decLen, str, strLen): (id, ptr, decoded); id = 0: none *)
Fixpoint search_prefix (fuel : nat) (d : pfc) (p : str) (scanneable : N)
         (ptr : N) (decoded : str) (sharedCurr id : N) : option (N * N * str) :=
  match fuel with
  | O => None
  | S f =>
      if sharedCurr <=? lenN decoded then
        match cmp_from decoded p sharedCurr 0 with
        | None => None
        | Some (cmp, sharedCurr') =>
            if sharedCurr' =? lenN p then Some (id, ptr, decoded)
            else
              let id' := id + 1 in
              if (0 <? cmp)%Z || (scanneable <? id') then Some (0, ptr, decoded)
              else
                match vb_at (p_text d) ptr with
                | None => None
                | Some (sharedPrev, k) =>
                    if sharedPrev <? sharedCurr' then Some (0, ptr + k, decoded)
                    else
                      match decode_next (p_text d) (ptr + k) sharedPrev decoded with
                      | None => None
                      | Some (ptr', decoded') => search_prefix f d p scanneable ptr' decoded' sharedCurr' id'
                      end
                end
        end
      else None
  end.

(* searchDistinctPrefix(ptr, scanneable, decoded, &decLen, str, strLen) *)
Fixpoint search_distinct (fuel : nat) (d : pfc) (plen : N) (scanneable : N)
         (ptr : N) (decoded : str) (id : N) : option N :=
  match fuel with
  | O => None
  | S f =>
      if id <=? scanneable then
        match vb_at (p_text d) ptr with
        | None => None
        | Some (lenPrefix, k) =>
            if lenPrefix <? plen then Some id
            else
              match decode_next (p_text d) (ptr + k) lenPrefix decoded with
              | None => None
              | Some (ptr', decoded') => search_distinct f d plen scanneable ptr' decoded' (id + 1)
              end
        end
      else Some id
  end.

(* locatePrefix: the (left, right) limits handed to IteratorDictIDContiguous *)
Definition pfc_locate_prefix (d : pfc) (p : str) : option (N * N) :=
  match locate_boundary_buckets d p with
  | None => None
  | Some (leftBucket, rightBucket) =>
      if 0 <? leftBucket then
        match get_header d leftBucket with
        | None => None
        | Some (ptr, decoded) =>
            let scanneable := scanneable_of d leftBucket in
            let fuel := S (S (N.to_nat scanneable)) in
            match search_prefix fuel d p scanneable ptr decoded 0 1 with
            | None => None
            | Some (leftID, ptr', decoded') =>
                if leftBucket =? rightBucket then
                  if leftID =? 0 then Some (0, 0)
                  else
                    match search_distinct fuel d (lenN p) (scanneable - leftID) ptr' decoded' 1 with
                    | None => None
                    | Some k =>
                        Some (leftID + (leftBucket - 1) * p_bsize d,
                              leftID + k - 1 + (rightBucket - 1) * p_bsize d)
                    end
                else
                  let leftID' := if leftID =? 0 then leftBucket * p_bsize d + 1
                                 else leftID + (leftBucket - 1) * p_bsize d in
                  match get_header d rightBucket with
                  | None => None
                  | Some (ptrR, decodedR) =>
                      let scanR := scanneable_of d rightBucket in
                      match search_distinct (S (S (N.to_nat scanR))) d (lenN p) (scanR - 1) ptrR decodedR 1 with
                      | None => None
                      | Some k => Some (leftID', k + (rightBucket - 1) * p_bsize d)
                      end
                  end
            end
        end
      else Some (0, 0)
  end.

(* ---------------------------------------------------------------------- *)
(* IteratorDictStringPFC                                                  *)
(* ---------------------------------------------------------------------- *)
Record pfc_iter := { i_ptr : N; i_pos : N; i_cur : str; i_processed : N; i_scanneable : N; i_bsize : N }.

(* constructor(ptrS, offset, bucketsize, scanneable, maxlength) *)
Definition iter_init (text : list N) (ptrS offset bsize scanneable : N) : option pfc_iter :=
  if 0 <? offset then
    match cstr_at text ptrS with
    | None => None
    | Some h =>
        match N.iter (offset - 1) (fun o => opt_bind o (decode_step text)) (Some (ptrS + lenN h + 1, h)) with
        | None => None
        | Some (ptr, cur) =>
            Some {| i_ptr := ptr; i_pos := offset; i_cur := cur; i_processed := 0;
                    i_scanneable := scanneable; i_bsize := bsize |}
        end
    end
  else Some {| i_ptr := ptrS; i_pos := 0; i_cur := []; i_processed := 0;
               i_scanneable := scanneable; i_bsize := bsize |}.

Definition iter_has_next (it : pfc_iter) : bool := i_processed it <? i_scanneable it.

(* next(&strLen): (string handed out, new iterator state) *)
Definition iter_next (text : list N) (it : pfc_iter) : option (str * pfc_iter) :=
  let r :=
    if i_pos it mod i_bsize it =? 0 then
      match cstr_at text (i_ptr it) with
      | None => None
      | Some h => Some (i_ptr it + lenN h + 1, h, 0)
      end
    else
      match decode_step text (i_ptr it, i_cur it) with
      | None => None
      | Some (ptr, cur) => Some (ptr, cur, i_pos it)
      end in
  match r with
  | None => None
  | Some (ptr, cur, pos) =>
      Some (cur, {| i_ptr := ptr; i_pos := pos + 1; i_cur := cur; i_processed := i_processed it + 1;
                    i_scanneable := i_scanneable it; i_bsize := i_bsize it |})
  end.

(* drain `while (hasNext()) next()` *)
Fixpoint iter_drain (fuel : nat) (text : list N) (it : pfc_iter) : option (list str) :=
  match fuel with
  | O => if iter_has_next it then None else Some []
  | S f =>
      if iter_has_next it then
        match iter_next text it with
        | None => None
        | Some (s, it') => option_map (cons s) (iter_drain f text it')
        end
      else Some []
  end.

Definition pfc_extract_table (d : pfc) : option (list str) :=
  match nthN (p_bl d) 1 with
  | None => None
  | Some ptrS =>
      match iter_init (p_text d) ptrS 0 (p_bsize d) (p_elements d) with
      | None => None
      | Some it => iter_drain (N.to_nat (p_elements d)) (p_text d) it
      end
  end.

(* extractPrefix: None = memory error; Some None = NULL iterator *)
Definition pfc_extract_prefix (d : pfc) (p : str) : option (option (list str)) :=
  match pfc_locate_prefix d p with
  | None => None
  | Some (lft, rgt) =>
      if lft =? 0 then Some None
      else
        let leftbucket := W32m (1 + (lft - 1) / p_bsize d) in
        let leftpos := W32m ((lft - 1) mod p_bsize d) in
        match nthN (p_bl d) leftbucket with
        | None => None
        | Some ptrS =>
            match iter_init (p_text d) ptrS leftpos (p_bsize d) (rgt - lft + 1) with
            | None => None
            | Some it => option_map Some (iter_drain (N.to_nat (rgt - lft + 1)) (p_text d) it)
            end
        end
  end.

(* ---------------------------------------------------------------------- *)
(* contiguous ID iterator as used by locatePrefix                         *)
(* ---------------------------------------------------------------------- *)
(* IteratorDictIDContiguous(left, right): processed = left - 1 (size_t, wraps for 0);
   hasNext: processed < scanneable (IteratorDictID); next: ++processed *)
Definition W64m (x : N) : N := x mod 2 ^ 64.
Fixpoint contig_drain (fuel : nat) (processed scanneable : N) : list N :=
  match fuel with
  | O => []
  | S f => if processed <? scanneable then
             let p' := W64m (processed + 1) in p' :: contig_drain f p' scanneable
           else []
  end.
Definition contig_ids (lft rgt : N) : list N :=
  contig_drain (N.to_nat (rgt - lft + 2)) (W64m (lft + 2 ^ 64 - 1)) rgt.

(* ---------------------------------------------------------------------- *)
(* save / load (byte image)                                               *)
(* ---------------------------------------------------------------------- *)
From LibCSD Require Import Bytes LogSeqDefs.

Definition PFC_TAG : N := 211.

Definition pfc_save (d : pfc) : option (list N) :=
  match ls_of_list (p_bl d) (bitsN (lenN (p_text d))) with
  | None => None
  | Some bl =>
      Some (le_bytes 4 PFC_TAG ++ le_bytes 8 (p_elements d) ++ le_bytes 4 (p_maxlength d) ++
            le_bytes 4 (p_buckets d) ++ le_bytes 4 (p_bsize d) ++ le_bytes 8 (lenN (p_text d)) ++
            p_text d ++ ls_save bl)
  end.

Fixpoint ls_to_list (fuel : nat) (s : logseq) (i : N) : option (list N) :=
  match fuel with
  | O => Some []
  | S f => match ls_get s i with
           | None => None
           | Some v => option_map (cons v) (ls_to_list f s (i + 1))
           end
  end.

Definition pfc_load (bs : list N) : option (pfc * list N) :=
  let tag := le_value (firstn 4 bs) in
  if (length bs <? 32)%nat then None else
  if negb (tag =? PFC_TAG) then None else
  let r1 := skipn 4 bs in
  let elements := le_value (firstn 8 r1) in
  let r2 := skipn 8 r1 in
  let maxlength := le_value (firstn 4 r2) in
  let r3 := skipn 4 r2 in
  let buckets := le_value (firstn 4 r3) in
  let r4 := skipn 4 r3 in
  let bsize := le_value (firstn 4 r4) in
  let r5 := skipn 4 r4 in
  let nbytes := le_value (firstn 8 r5) in
  let r6 := skipn 8 r5 in
  if (length r6 <? N.to_nat nbytes)%nat then None else
  let text := firstn (N.to_nat nbytes) r6 in
  let r7 := skipn (N.to_nat nbytes) r6 in
  match ls_load r7 with
  | None => None
  | Some (bl, rest) =>
      match ls_to_list (N.to_nat (ls_n bl)) bl 0 with
      | None => None
      | Some l =>
          Some ({| p_elements := elements; p_maxlength := maxlength; p_buckets := buckets; p_bsize := bsize;
                   p_text := text; p_bl := l |}, rest)
      end
  end.
