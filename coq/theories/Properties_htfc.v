(* HTFC (StringDictionaryHTFC, the LOADED object): exported theorems.  Only `exact`, Print Assumptions and Examples. *)
From LibCSD Require Import Base Spec SpecProofs PFCDefs PFCLayout PFCExtractProofs CodesDefs HTFCDefs HTFCProofs.
Local Open Scope N_scope.

(* the two boolean checkers run by the harness on every real (dumped) object are sound: a certified object has the
   flat stream structure [htfc_ok] (headers laid out as encodeString produces them, decodeHeader / decodeString walk S) *)
Theorem C01_htfc_check_sound : forall S d, htfc_check S d = true -> htfc_ok d (h_bsize d) S.
Proof. exact htfc_check_sound. Qed.
Print Assumptions C01_htfc_check_sound.

Theorem C01_htfc_check2_sound : forall S d, htfc_check2 S d = true -> htfc_ok d (h_bsize d) S.
Proof. exact htfc_check2_sound. Qed.
Print Assumptions C01_htfc_check2_sound.

(* 1. StatCoder::decodeString (the advanced / extracted protocol over the chunked DecodingTable) on one front-coded
      item VByte(l) ++ suf ++ NUL with l < 128: whatever way the table entries cut the symbol stream *)
Theorem C01_htfc_decode_string_item : forall d cap prev l suf bs a A bs' Afull A',
  cap < 2 ^ 32 -> nul_free prev -> l <= lenN prev -> l < 128 -> nul_free suf -> suf <> [] ->
  holds_adv a prev A ->
  reads d bs A (lenN (((l + 128) :: suf) ++ [0])) bs' Afull -> Afull = (((l + 128) :: suf) ++ [0]) ++ A' ->
  lenN prev + 1 + lenN Afull < cap ->
  exists a', decode_string d cap bs a = Some (bs', a', l) /\ holds_adv a' (firstN l prev ++ suf) A'.
Proof. exact decode_string_item. Qed.
Print Assumptions C01_htfc_decode_string_item.

(* 2. extract / locate of every certified object = the specification *)
Theorem C01_htfc_extract_spec : forall S d, valid_set S -> htfc_check S d = true ->
  forall id, htfc_extract d id = Some (spec_extract S id).
Proof. exact htfc_extract_spec. Qed.
Print Assumptions C01_htfc_extract_spec.

Theorem C02_htfc_locate_spec : forall S d, valid_set S -> htfc_check S d = true ->
  forall q, nul_free q -> Forall (fun c => c < 256) q -> htfc_locate d q = Some (spec_locate S q).
Proof. exact htfc_locate_spec. Qed.
Print Assumptions C02_htfc_locate_spec.

Theorem C01_htfc_extract_spec2 : forall S d, valid_set S -> htfc_check2 S d = true ->
  forall id, htfc_extract d id = Some (spec_extract S id).
Proof. exact htfc_extract_spec2. Qed.
Print Assumptions C01_htfc_extract_spec2.

Theorem C02_htfc_locate_spec2 : forall S d, valid_set S -> htfc_check2 S d = true ->
  forall q, nul_free q -> Forall (fun c => c < 256) q -> htfc_locate d q = Some (spec_locate S q).
Proof. exact htfc_locate_spec2. Qed.
Print Assumptions C02_htfc_locate_spec2.

(* 3. round trips and memory safety *)
Theorem C01_htfc_roundtrip : forall S d, valid_set S -> htfc_check S d = true \/ htfc_check2 S d = true ->
  (forall id, 1 <= id <= lenN S -> exists s, htfc_extract d id = Some (Some s) /\ htfc_locate d s = Some id) /\
  (forall s, In s S -> exists id, htfc_locate d s = Some id /\ htfc_extract d id = Some (Some s)).
Proof. exact htfc_roundtrip. Qed.
Print Assumptions C01_htfc_roundtrip.

Theorem C07_htfc_no_oob : forall S d, valid_set S -> htfc_check S d = true \/ htfc_check2 S d = true ->
  (forall id, htfc_extract d id <> None) /\
  (forall q, nul_free q -> Forall (fun c => c < 256) q -> htfc_locate d q <> None).
Proof. exact htfc_no_oob. Qed.
Print Assumptions C07_htfc_no_oob.

(* 4. prefix search (locateBoundaryBuckets' masked memcmp on the encoded headers, searchPrefix, searchDistinctPrefix) *)
Theorem C04_htfc_locate_prefix_spec : forall S d, valid_set S -> htfc_check S d = true \/ htfc_check2 S d = true ->
  forall p, nul_free p -> Forall (fun c => c < 256) p ->
  htfc_locate_prefix d p = Some (range_of (spec_prefix_ids S p)).
Proof. exact htfc_locate_prefix_spec. Qed.
Print Assumptions C04_htfc_locate_prefix_spec.

Theorem C04_htfc_locate_prefix_ids : forall S d, valid_set S -> htfc_check S d = true \/ htfc_check2 S d = true ->
  forall p, nul_free p -> Forall (fun c => c < 256) p ->
  exists r, htfc_locate_prefix d p = Some r /\ contig_ids (fst r) (snd r) = spec_prefix_ids S p.
Proof. exact htfc_locate_prefix_ids. Qed.
Print Assumptions C04_htfc_locate_prefix_ids.

(* 5. the defect the faithful model reproduces: in-bucket shared prefix 128 (VByte 00 81) *)
Theorem C01_htfc_lcp128_refuted :
  valid_set_b hx_r128c_S = true /\
  spec_extract hx_r128c_S 2 = Some (repeat 97 129) /\ htfc_extract hx_r128c_d 2 = None /\
  htfc_check hx_r128c_S hx_r128c_d = false /\ htfc_check2 hx_r128c_S hx_r128c_d = false.
Proof. exact htfc_lcp128_refuted. Qed.
Print Assumptions C01_htfc_lcp128_refuted.

(* ---- Examples: the hypotheses are satisfiable on the object the REAL constructor + save + load produced for
   S = {alabama, alaska, arizona, arkansas, california, colorado, connecticut, delaware}, bucketsize 3 *)
Example hx_checked :
  htfc_check hx_usa_S hx_usa_d = true /\ htfc_check2 hx_usa_S hx_usa_d = true /\ valid_set_b hx_usa_S = true.
Proof. exact hx_usa_checked. Qed.

Example hx_check_sound : htfc_ok hx_usa_d 3 hx_usa_S.
Proof. exact (C01_htfc_check_sound hx_usa_S hx_usa_d (proj1 hx_usa_checked)). Qed.

Example hx_check2_sound : htfc_ok hx_usa_d 3 hx_usa_S.
Proof. exact (C01_htfc_check2_sound hx_usa_S hx_usa_d (proj1 (proj2 hx_usa_checked))). Qed.

Example hx_extract : forall id, htfc_extract hx_usa_d id = Some (spec_extract hx_usa_S id).
Proof. exact (C01_htfc_extract_spec hx_usa_S hx_usa_d hx_usa_valid (proj1 hx_usa_checked)). Qed.

Example hx_extract2 : forall id, htfc_extract hx_usa_d id = Some (spec_extract hx_usa_S id).
Proof. exact (C01_htfc_extract_spec2 hx_usa_S hx_usa_d hx_usa_valid (proj1 (proj2 hx_usa_checked))). Qed.

Example hx_locate : htfc_locate hx_usa_d [97; 114; 107; 97; 110; 115; 97; 115] = Some 4 /\
                    htfc_locate hx_usa_d [97; 114; 107] = Some 0.
Proof.
  assert (N1 : nul_free [97; 114; 107; 97; 110; 115; 97; 115]) by (repeat constructor; discriminate).
  assert (B1 : Forall (fun c => c < 256) [97; 114; 107; 97; 110; 115; 97; 115]) by (repeat constructor).
  assert (N2 : nul_free [97; 114; 107]) by (repeat constructor; discriminate).
  assert (B2 : Forall (fun c => c < 256) [97; 114; 107]) by (repeat constructor).
  split.
  - rewrite (C02_htfc_locate_spec hx_usa_S hx_usa_d hx_usa_valid (proj1 hx_usa_checked) _ N1 B1). reflexivity.
  - rewrite (C02_htfc_locate_spec2 hx_usa_S hx_usa_d hx_usa_valid (proj1 (proj2 hx_usa_checked)) _ N2 B2). reflexivity.
Qed.

Example hx_roundtrip : exists s, htfc_extract hx_usa_d 5 = Some (Some s) /\ htfc_locate hx_usa_d s = Some 5.
Proof.
  apply (proj1 (C01_htfc_roundtrip hx_usa_S hx_usa_d hx_usa_valid (or_introl (proj1 hx_usa_checked)))).
  vm_compute. split; discriminate.
Qed.

Example hx_no_oob : forall id, htfc_extract hx_usa_d id <> None.
Proof. exact (proj1 (C07_htfc_no_oob hx_usa_S hx_usa_d hx_usa_valid (or_intror (proj1 (proj2 hx_usa_checked))))). Qed.

Example hx_prefix : htfc_locate_prefix hx_usa_d [97] = Some (1, 4) /\ htfc_locate_prefix hx_usa_d [98] = Some (0, 0) /\
                    htfc_locate_prefix hx_usa_d [] = Some (1, 8).
Proof.
  assert (N1 : nul_free [97]) by (repeat constructor; discriminate).
  assert (B1 : Forall (fun c => c < 256) [97]) by (repeat constructor).
  assert (N2 : nul_free [98]) by (repeat constructor; discriminate).
  assert (B2 : Forall (fun c => c < 256) [98]) by (repeat constructor).
  split; [|split].
  - rewrite (C04_htfc_locate_prefix_spec hx_usa_S hx_usa_d hx_usa_valid (or_introl (proj1 hx_usa_checked)) _ N1 B1). reflexivity.
  - rewrite (C04_htfc_locate_prefix_spec hx_usa_S hx_usa_d hx_usa_valid (or_intror (proj1 (proj2 hx_usa_checked))) _ N2 B2). reflexivity.
  - rewrite (C04_htfc_locate_prefix_spec hx_usa_S hx_usa_d hx_usa_valid (or_introl (proj1 hx_usa_checked)) [] (Forall_nil _) (Forall_nil _)).
    reflexivity.
Qed.

Example hx_prefix_ids : exists r, htfc_locate_prefix hx_usa_d [99; 111] = Some r /\ contig_ids (fst r) (snd r) = [6; 7].
Proof.
  assert (N1 : nul_free [99; 111]) by (repeat constructor; discriminate).
  assert (B1 : Forall (fun c => c < 256) [99; 111]) by (repeat constructor).
  exact (C04_htfc_locate_prefix_ids hx_usa_S hx_usa_d hx_usa_valid (or_introl (proj1 hx_usa_checked)) _ N1 B1).
Qed.

(* the model computes: answers by vm_compute on the dumped object *)
Example hx_compute :
  htfc_extract hx_usa_d 7 = Some (Some [99; 111; 110; 110; 101; 99; 116; 105; 99; 117; 116]) /\
  htfc_locate hx_usa_d [99; 111; 108; 111; 114; 97; 100; 111] = Some 6 /\
  htfc_locate_prefix hx_usa_d [97; 114] = Some (3, 4) /\ htfc_extract hx_usa_d 9 = Some None.
Proof. vm_compute. auto. Qed.

(* C01_htfc_decode_string_item: its hypotheses hold on the object - the second string of bucket 1 (alaska after
   alabama, lcp 3), read from the state decodeHeader(1) + resetScan(1) leave *)
Example hx_item : exists a',
  decode_string hx_usa_d (str_cap hx_usa_d) (fst hx_st1) (snd hx_st1) = Some (fst hx_walk, a', 3) /\
  holds_adv a' (firstN 3 [97; 108; 97; 98; 97; 109; 97] ++ [115; 107; 97]) (skipN 5 (snd hx_walk)).
Proof.
  destruct hx_item_hyps as (H1 & H2 & H3 & H4).
  apply (C01_htfc_decode_string_item hx_usa_d (str_cap hx_usa_d) [97; 108; 97; 98; 97; 109; 97] 3 [115; 107; 97]
           (fst hx_st1) (snd hx_st1) [] (fst hx_walk) (snd hx_walk) (skipN 5 (snd hx_walk))); try assumption.
  all: try (repeat constructor; discriminate).
  all: try (vm_compute; reflexivity).
  all: try (vm_compute; discriminate).
Qed.

(* the executable specification of the CONSTRUCTOR's layout (HTFCDefs.htfc_layout: headers and internal strings encoded
   with StatCoder from S, the bucket size and the code table) reproduces textStrings / blStrings of the dumped objects *)
Example hx_layout_reproduced : htfc_layout_chk hx_usa_S hx_usa_d = true /\ htfc_layout_chk hx_r128c_S hx_r128c_d = true.
Proof. exact hx_layout. Qed.
