(* XBW dictionary: exported theorems (statements in full), assumptions, and satisfiability examples. *)
From LibCSD Require Import Base Bytes BitRGDefs Spec SpecProofs XBWDefs XBWProofs XBWApiProofs.
Require Import Sorted Permutation.
Local Open Scope N_scope.

Theorem C01_xbw_check_sound : forall S d, xbw_check S d = true -> xinv S (trie_blocks S) d.
Proof. exact xbw_check_sound. Qed.
Print Assumptions C01_xbw_check_sound.

Theorem C01_xbw_ids_permutation : forall S d, valid_set S -> xbw_check S d = true -> Permutation S (xbw_order S).
Proof. first [exact XBW_order_perm | intros S d _; exact (XBW_order_perm S d)]. Qed.
Print Assumptions C01_xbw_ids_permutation.

Theorem C01_xbw_ids_order : forall S d, valid_set S -> xbw_check S d = true ->
  StronglySorted (fun a b => lex_lt (mkkey a) (mkkey b)) (xbw_order S).
Proof. first [exact XBW_order_sorted | intros S d _; exact (XBW_order_sorted S d)]. Qed.
Print Assumptions C01_xbw_ids_order.

Theorem C04_xbw_subPathSearch : forall S d, valid_set S -> xbw_check S d = true ->
  forall c0 c1 rest, c0 = 0 \/ qchar c0 -> Forall qchar (c1 :: rest) ->
  exists l r, xbw_subPathSearch d (c0 :: c1 :: rest) = Some (l, r) /\
    forall i k c, nthN (rows_of (trie_blocks S)) i = Some (k, c) ->
      (l <= i <= r <-> is_prefix (rev (c0 :: c1 :: rest)) k = true).
Proof. first [exact XBW_subPathSearch_spec | intros S d _; exact (XBW_subPathSearch_spec S d)]. Qed.
Print Assumptions C04_xbw_subPathSearch.

Theorem C02_xbw_locate_search : forall S d, valid_set S -> xbw_check S d = true ->
  forall q, q <> [] -> Forall qchar q -> xbw_locate d q = Some (spec_locate (xbw_order S) q).
Proof. first [exact XBW_locate_spec | intros S d _; exact (XBW_locate_spec S d)]. Qed.
Print Assumptions C02_xbw_locate_search.

Theorem C01_xbw_extract : forall S d, valid_set S -> xbw_check S d = true ->
  forall id, xbw_extract d id = Some (spec_extract (xbw_order S) id).
Proof. first [exact XBW_extract_spec | intros S d _; exact (XBW_extract_spec S d)]. Qed.
Print Assumptions C01_xbw_extract.

Theorem C01_xbw_member_round_trip_search : forall S d, valid_set S -> xbw_check S d = true ->
  forall s, In s S -> exists id, 1 <= id <= lenN S /\ xbw_locate d s = Some id /\ xbw_extract d id = Some (Some s).
Proof. first [exact XBW_locate_member | intros S d _; exact (XBW_locate_member S d)]. Qed.
Print Assumptions C01_xbw_member_round_trip_search.

Theorem C02_xbw_absent_search : forall S d, valid_set S -> xbw_check S d = true ->
  forall q, q <> [] -> Forall qchar q -> ~ In q S -> xbw_locate d q = Some 0.
Proof. first [exact XBW_locate_absent | intros S d _; exact (XBW_locate_absent S d)]. Qed.
Print Assumptions C02_xbw_absent_search.

Theorem C01_xbw_id_round_trip : forall S d, valid_set S -> xbw_check S d = true ->
  forall id, 1 <= id <= lenN S -> exists s, In s S /\ xbw_extract d id = Some (Some s) /\ xbw_locate d s = Some id.
Proof. first [exact XBW_extract_range | intros S d _; exact (XBW_extract_range S d)]. Qed.
Print Assumptions C01_xbw_id_round_trip.

Theorem C02_xbw_bad_id : forall S d, valid_set S -> xbw_check S d = true ->
  forall id, id = 0 \/ lenN S < id -> xbw_extract d id = Some None.
Proof. first [exact XBW_extract_out_of_range | intros S d _; exact (XBW_extract_out_of_range S d)]. Qed.
Print Assumptions C02_xbw_bad_id.

Theorem C01_xbw_getParent : forall S d, valid_set S -> xbw_check S d = true ->
  forall n c' k' c, vbyte c' -> nthN (rows_of (trie_blocks S)) n = Some (c' :: k', c) ->
  exists p, xbw_getParent d n = Some p /\ nthN (rows_of (trie_blocks S)) p = Some (k', c').
Proof. first [exact XBW_getParent_spec | intros S d _; exact (XBW_getParent_spec S d)]. Qed.
Print Assumptions C01_xbw_getParent.

Theorem C04_xbw_prefix_iterator_range : forall S d, valid_set S -> xbw_check S d = true ->
  forall p, p <> [] -> Forall qchar p ->
  exists l r, xbw_subPathSearch d (0 :: p) = Some (l, r) /\
    forall i k c, nthN (rows_of (trie_blocks S)) i = Some (k, c) -> (l <= i <= r <-> k = mkkey p).
Proof. first [exact XBW_prefix_range | intros S d _; exact (XBW_prefix_range S d)]. Qed.
Print Assumptions C04_xbw_prefix_iterator_range.

Theorem C02_xbw_locate_search_body_alone_wrong_on_empty :
  exists S d, valid_set S /\ xbw_check S d = true /\ ~ In [] S /\ xbw_locate d [] = Some 1.
Proof. exact xbw_locate_empty_refuted. Qed.
Print Assumptions C02_xbw_locate_search_body_alone_wrong_on_empty.

Theorem C04_xbw_extractPrefix_iterator_alone_overflows :
  exists S d p, valid_set S /\ xbw_check S d = true /\ Forall qchar p /\ xbw_extractPrefix d p 4 = None.
Proof. exact xbw_extractPrefix_long_refuted. Qed.
Print Assumptions C04_xbw_extractPrefix_iterator_alone_overflows.

(* ---- the public methods of the current tree (guards of commits 9d5d76b / 0064a33 in the model) ---- *)
Theorem C02_xbw_locate : forall S d, valid_set S -> xbw_check S d = true ->
  forall q, Forall qchar q -> xbw_locate_api d q = Some (spec_locate (xbw_order S) q).
Proof. exact XBW_locate_api_spec. Qed.
Print Assumptions C02_xbw_locate.

Theorem C01_xbw_member_round_trip : forall S d, valid_set S -> xbw_check S d = true ->
  forall s, In s S -> exists id, 1 <= id <= lenN S /\ xbw_locate_api d s = Some id /\ xbw_extract d id = Some (Some s).
Proof. exact XBW_locate_api_member. Qed.
Print Assumptions C01_xbw_member_round_trip.

Theorem C02_xbw_absent : forall S d, valid_set S -> xbw_check S d = true ->
  forall q, Forall qchar q -> ~ In q S -> xbw_locate_api d q = Some 0.
Proof. exact XBW_locate_api_absent. Qed.
Print Assumptions C02_xbw_absent.

(* ---- the hypotheses are satisfiable: the object the real code builds for S = {"ab","b"} (dump of
   `xbw_build 6162 62`): IDs follow the reversed strings ("b" = 1, "ab" = 2), not the lexicographic order *)
Definition ex2_S : list str := [[97; 98]; [98]].
Definition ex2_d : xbw :=
  match xbw_load 7 (ex_mapping [(0, 1); (97, 2); (98, 3); (255, 4); (256, 5)]) [1; 1; 2; 3; 3; 4; 4]
          [false; true; false; true; true; true; true] [true; false; false; false; true; true; false; true] 2 3 with
  | Some d => d
  | None => mk_xbw 0 0 [] [] [] [] [] [] 0 0
  end.

Example ex2_valid : valid_set_b ex2_S = true. Proof. vm_compute. reflexivity. Qed.
Example ex2_check : xbw_check ex2_S ex2_d = true. Proof. vm_compute. reflexivity. Qed.
Example ex2_order : xbw_order ex2_S = [[98]; [97; 98]]. Proof. vm_compute. reflexivity. Qed.
Example ex2_locate : xbw_locate ex2_d [97; 98] = Some 2 /\ xbw_locate ex2_d [98] = Some 1 /\ xbw_locate ex2_d [97] = Some 0.
Proof. vm_compute. auto. Qed.
Example ex2_extract : xbw_extract ex2_d 1 = Some (Some [98]) /\ xbw_extract ex2_d 2 = Some (Some [97; 98]) /\
                      xbw_extract ex2_d 3 = Some None /\ xbw_extract ex2_d 0 = Some None.
Proof. vm_compute. auto. Qed.
Example ex2_search : xbw_subPathSearch ex2_d [0; 97] = Some (4, 4) /\ xbw_subPathSearch ex2_d [97; 98] = Some (6, 6).
Proof. vm_compute. auto. Qed.
Example ex2_nav : xbw_getParent ex2_d 6 = Some 4 /\ xbw_getParent ex2_d 4 = Some 2 /\ xbw_getParent ex2_d 2 = Some 1 /\
                  xbw_getChildren ex2_d 1 = Some (2, 3) /\ xbw_getChildren ex2_d 2 = Some (4, 4).
Proof. vm_compute. auto. Qed.
Example ex2_prefix : xbw_locatePrefix ex2_d [97] 5 = Some ([2], false) /\
                     xbw_extractPrefix ex2_d [97] 5 = Some ([([97; 98], 2)], false).
Proof. vm_compute. auto. Qed.
(* a pattern containing the terminator label 255: the search range becomes (7, 2^32-1) and locate reads alpha
   outside the node array (the real code dies with SIGSEGV in get_field) *)
Example ex2_ff_defect : xbw_subPathSearch ex2_d [0; 98; 255] = Some (7, 4294967295) /\ xbw_locate ex2_d [98; 255] = None.
Proof. vm_compute. auto. Qed.
