(* XBW dictionary: exported theorems (statements in full), assumptions, and satisfiability examples. *)
From LibCSD Require Import Base Bytes BitRGDefs Spec SpecProofs XBWDefs XBWProofs XBWApiProofs XBWFullProofs.
Require Import Sorted Permutation.
Local Open Scope N_scope.

Theorem C01_xbw_check_sound : forall S d, xbw_check S d = true -> xinv S (trie_blocks S) d.
Proof. exact xbw_check_sound. Qed.
Print Assumptions C01_xbw_check_sound.

Theorem C01_xbw_ids_permutation : forall S d, valid_set S -> xbw_check S d = true -> Permutation S (xbw_order S).
Proof. first [exact XBW_order_perm | intros S d _; exact (XBW_order_perm S d)]. Qed.
Print Assumptions C01_xbw_ids_permutation.

Theorem C01_xbw_ids_order : forall S d, valid_set S -> xbw_check S d = true ->
  StronglySorted (fun a b => lex_lt (mkkey a) (mkkey b)) (xbw_order S).
Proof. first [exact XBW_order_sorted | intros S d _; exact (XBW_order_sorted S d)]. Qed.
Print Assumptions C01_xbw_ids_order.

Theorem C04_xbw_subPathSearch : forall S d, valid_set S -> xbw_check S d = true ->
  forall c0 c1 rest, c0 = 0 \/ qchar c0 -> Forall qchar (c1 :: rest) ->
  exists l r, xbw_subPathSearch d (c0 :: c1 :: rest) = Some (l, r) /\
    forall i k c, nthN (rows_of (trie_blocks S)) i = Some (k, c) ->
      (l <= i <= r <-> is_prefix (rev (c0 :: c1 :: rest)) k = true).
Proof. first [exact XBW_subPathSearch_spec | intros S d _; exact (XBW_subPathSearch_spec S d)]. Qed.
Print Assumptions C04_xbw_subPathSearch.

Theorem C02_xbw_locate_search : forall S d, valid_set S -> xbw_check S d = true ->
  forall q, q <> [] -> Forall qchar q -> xbw_locate d q = Some (spec_locate (xbw_order S) q).
Proof. first [exact XBW_locate_spec | intros S d _; exact (XBW_locate_spec S d)]. Qed.
Print Assumptions C02_xbw_locate_search.

Theorem C01_xbw_extract : forall S d, valid_set S -> xbw_check S d = true ->
  forall id, xbw_extract d id = Some (spec_extract (xbw_order S) id).
Proof. first [exact XBW_extract_spec | intros S d _; exact (XBW_extract_spec S d)]. Qed.
Print Assumptions C01_xbw_extract.

Theorem C01_xbw_member_round_trip_search : forall S d, valid_set S -> xbw_check S d = true ->
  forall s, In s S -> exists id, 1 <= id <= lenN S /\ xbw_locate d s = Some id /\ xbw_extract d id = Some (Some s).
Proof. first [exact XBW_locate_member | intros S d _; exact (XBW_locate_member S d)]. Qed.
Print Assumptions C01_xbw_member_round_trip_search.

Theorem C02_xbw_absent_search : forall S d, valid_set S -> xbw_check S d = true ->
  forall q, q <> [] -> Forall qchar q -> ~ In q S -> xbw_locate d q = Some 0.
Proof. first [exact XBW_locate_absent | intros S d _; exact (XBW_locate_absent S d)]. Qed.
Print Assumptions C02_xbw_absent_search.

Theorem C01_xbw_id_round_trip : forall S d, valid_set S -> xbw_check S d = true ->
  forall id, 1 <= id <= lenN S -> exists s, In s S /\ xbw_extract d id = Some (Some s) /\ xbw_locate d s = Some id.
Proof. first [exact XBW_extract_range | intros S d _; exact (XBW_extract_range S d)]. Qed.
Print Assumptions C01_xbw_id_round_trip.

Theorem C02_xbw_bad_id : forall S d, valid_set S -> xbw_check S d = true ->
  forall id, id = 0 \/ lenN S < id -> xbw_extract d id = Some None.
Proof. first [exact XBW_extract_out_of_range | intros S d _; exact (XBW_extract_out_of_range S d)]. Qed.
Print Assumptions C02_xbw_bad_id.

Theorem C01_xbw_getParent : forall S d, valid_set S -> xbw_check S d = true ->
  forall n c' k' c, vbyte c' -> nthN (rows_of (trie_blocks S)) n = Some (c' :: k', c) ->
  exists p, xbw_getParent d n = Some p /\ nthN (rows_of (trie_blocks S)) p = Some (k', c').
Proof. first [exact XBW_getParent_spec | intros S d _; exact (XBW_getParent_spec S d)]. Qed.
Print Assumptions C01_xbw_getParent.

Theorem C04_xbw_prefix_iterator_range : forall S d, valid_set S -> xbw_check S d = true ->
  forall p, p <> [] -> Forall qchar p ->
  exists l r, xbw_subPathSearch d (0 :: p) = Some (l, r) /\
    forall i k c, nthN (rows_of (trie_blocks S)) i = Some (k, c) -> (l <= i <= r <-> k = mkkey p).
Proof. first [exact XBW_prefix_range | intros S d _; exact (XBW_prefix_range S d)]. Qed.
Print Assumptions C04_xbw_prefix_iterator_range.

Theorem C02_xbw_locate_search_body_alone_wrong_on_empty :
  exists S d, valid_set S /\ xbw_check S d = true /\ ~ In [] S /\ xbw_locate d [] = Some 1.
Proof. exact xbw_locate_empty_refuted. Qed.
Print Assumptions C02_xbw_locate_search_body_alone_wrong_on_empty.

Theorem C04_xbw_extractPrefix_iterator_alone_overflows :
  exists S d p, valid_set S /\ xbw_check S d = true /\ Forall qchar p /\ xbw_extractPrefix d p 4 = None.
Proof. exact xbw_extractPrefix_long_refuted. Qed.
Print Assumptions C04_xbw_extractPrefix_iterator_alone_overflows.

(* ---- the public methods of the current tree (guards of commits 9d5d76b / 0064a33 in the model) ---- *)
Theorem C02_xbw_locate : forall S d, valid_set S -> xbw_check S d = true ->
  forall q, Forall qchar q -> xbw_locate_api d q = Some (spec_locate (xbw_order S) q).
Proof. exact XBW_locate_api_spec. Qed.
Print Assumptions C02_xbw_locate.

Theorem C01_xbw_member_round_trip : forall S d, valid_set S -> xbw_check S d = true ->
  forall s, In s S -> exists id, 1 <= id <= lenN S /\ xbw_locate_api d s = Some id /\ xbw_extract d id = Some (Some s).
Proof. exact XBW_locate_api_member. Qed.
Print Assumptions C01_xbw_member_round_trip.

Theorem C02_xbw_absent : forall S d, valid_set S -> xbw_check S d = true ->
  forall q, Forall qchar q -> ~ In q S -> xbw_locate_api d q = Some 0.
Proof. exact XBW_locate_api_absent. Qed.
Print Assumptions C02_xbw_absent.

(* ---- the hypotheses are satisfiable: the object the real code builds for S = {"ab","b"} (dump of
   `xbw_build 6162 62`): IDs follow the reversed strings ("b" = 1, "ab" = 2), not the lexicographic order *)
Definition ex2_S : list str := [[97; 98]; [98]].
Definition ex2_d : xbw :=
  match xbw_load 7 (ex_mapping [(0, 1); (97, 2); (98, 3); (255, 4); (256, 5)]) [1; 1; 2; 3; 3; 4; 4]
          [false; true; false; true; true; true; true] [true; false; false; false; true; true; false; true] 2 3 with
  | Some d => d
  | None => mk_xbw 0 0 [] [] [] [] [] [] 0 0
  end.

Example ex2_valid : valid_set_b ex2_S = true. Proof. vm_compute. reflexivity. Qed.
Example ex2_check : xbw_check ex2_S ex2_d = true. Proof. vm_compute. reflexivity. Qed.
Example ex2_order : xbw_order ex2_S = [[98]; [97; 98]]. Proof. vm_compute. reflexivity. Qed.
Example ex2_locate : xbw_locate ex2_d [97; 98] = Some 2 /\ xbw_locate ex2_d [98] = Some 1 /\ xbw_locate ex2_d [97] = Some 0.
Proof. vm_compute. auto. Qed.
Example ex2_extract : xbw_extract ex2_d 1 = Some (Some [98]) /\ xbw_extract ex2_d 2 = Some (Some [97; 98]) /\
                      xbw_extract ex2_d 3 = Some None /\ xbw_extract ex2_d 0 = Some None.
Proof. vm_compute. auto. Qed.
Example ex2_search : xbw_subPathSearch ex2_d [0; 97] = Some (4, 4) /\ xbw_subPathSearch ex2_d [97; 98] = Some (6, 6).
Proof. vm_compute. auto. Qed.
Example ex2_nav : xbw_getParent ex2_d 6 = Some 4 /\ xbw_getParent ex2_d 4 = Some 2 /\ xbw_getParent ex2_d 2 = Some 1 /\
                  xbw_getChildren ex2_d 1 = Some (2, 3) /\ xbw_getChildren ex2_d 2 = Some (4, 4).
Proof. vm_compute. auto. Qed.
Example ex2_prefix : xbw_locatePrefix ex2_d [97] 5 = Some ([2], false) /\
                     xbw_extractPrefix ex2_d [97] 5 = Some ([([97; 98], 2)], false).
Proof. vm_compute. auto. Qed.
(* a pattern containing the terminator label 255: the search range becomes (7, 2^32-1) and locate reads alpha
   outside the node array (the real code dies with SIGSEGV in get_field) *)
Example ex2_ff_defect : xbw_subPathSearch ex2_d [0; 98; 255] = Some (7, 4294967295) /\ xbw_locate ex2_d [98; 255] = None.
Proof. vm_compute. auto. Qed.

(* XBW dictionary, second part: navigation downward and the prefix iterators (XBWFullProofs.v).
   To be appended to Properties_xbw.v (needs: From LibCSD Require Import XBWFullProofs. and Permutation). *)

(* 1. navigation downward: getChildren of every node other than root2 whose label is not the terminator is
      exactly the interval of its children rows (non-empty) *)
Theorem C01_xbw_getChildren : forall S d, valid_set S -> xbw_check S d = true ->
  forall n k c, nthN (rows_of (trie_blocks S)) n = Some (k, c) -> 1 <= n -> c <> 255 ->
  exists ini fin, xbw_getChildren d n = Some (ini, fin) /\ ini <= fin /\
    forall i k' c', nthN (rows_of (trie_blocks S)) i = Some (k', c') -> (ini <= i <= fin <-> k' = c :: k).
Proof. first [exact XBW_getChildren_spec | intros S d _; exact (XBW_getChildren_spec S d)]. Qed.
Print Assumptions C01_xbw_getChildren.

(* 3a. locatePrefix: the ID stream is exactly the IDs of the members with the prefix, each once; the client
       loop with cap = 3 + |S| ends without MORE; no fuel exhaustion, no read outside the arrays *)
Theorem C04_xbw_locatePrefix : forall S d, valid_set S -> xbw_check S d = true ->
  forall p, p <> [] -> Forall qchar p ->
  exists ids, xbw_locatePrefix d p (3 + length S) = Some (ids, false) /\ NoDup ids /\
    forall id, In id ids <-> exists s, In s S /\ is_prefix p s = true /\ id = spec_locate (xbw_order S) s.
Proof. first [exact XBW_locatePrefix_spec | intros S d _; exact (XBW_locatePrefix_spec S d)]. Qed.
Print Assumptions C04_xbw_locatePrefix.

(* 2. extractPrefix of the current tree: NULL exactly when no member has the prefix ... *)
Theorem C04_xbw_extractPrefix_null_iff : forall S d, valid_set S -> xbw_check S d = true ->
  forall p cap, p <> [] -> Forall qchar p ->
  (xbw_extractPrefix_api d p cap = Some None <-> forall s, In s S -> is_prefix p s = false).
Proof. first [exact XBW_extractPrefix_api_null_iff | intros S d _; exact (XBW_extractPrefix_api_null_iff S d)]. Qed.
Print Assumptions C04_xbw_extractPrefix_null_iff.

(* ... and otherwise the pattern is at most as long as the longest member, so the constructor's
   strncpy(str, prefix, prefixLen) into maxlength+1 bytes is within bounds: for a pattern of ANY length the
   overflow guard of the model never fires *)
Theorem C04_xbw_extractPrefix_no_overflow : forall S d, valid_set S -> xbw_check S d = true ->
  forall p cap, p <> [] -> Forall qchar p ->
  exists l r, xbw_subPathSearch d (0 :: p) = Some (l, r) /\
    ((r < l /\ (forall s, In s S -> is_prefix p s = false) /\ xbw_extractPrefix_api d p cap = Some None) \/
     (l <= r /\ (exists s, In s S /\ is_prefix p s = true) /\ lenN p <= spec_maxlen S /\
      (x_maxlength d + 1 <? lenN p) = false /\
      xbw_extractPrefix_api d p cap = option_map Some (sit_drain d p cap (xit_new l r)))).
Proof. first [exact XBW_extractPrefix_api_no_overflow | intros S d _; exact (XBW_extractPrefix_api_no_overflow S d)]. Qed.
Print Assumptions C04_xbw_extractPrefix_no_overflow.

(* 3b. extractPrefix of the current tree, every pattern length: exactly the members with the prefix (each
       once, with its length), NULL when there is none *)
Theorem C04_xbw_extractPrefix : forall S d, valid_set S -> xbw_check S d = true ->
  forall p, p <> [] -> Forall qchar p ->
  ((exists s, In s S /\ is_prefix p s = true) ->
     exists L, xbw_extractPrefix_api d p (3 + length S) = Some (Some (L, false)) /\
       Permutation (map fst L) (filter (is_prefix p) S) /\ forall s n, In (s, n) L -> n = lenN s) /\
  ((forall s, In s S -> is_prefix p s = false) -> xbw_extractPrefix_api d p (3 + length S) = Some None).
Proof. first [exact XBW_extractPrefix_api_spec | intros S d _; exact (XBW_extractPrefix_api_spec S d)]. Qed.
Print Assumptions C04_xbw_extractPrefix.

(* the iterator without the NULL guard (the statement XBWProofs.v kept as a definition) *)
Theorem C04_xbw_extractPrefix_iterator : forall S d p, valid_set S -> xbw_check S d = true ->
  p <> [] -> Forall qchar p -> lenN p <= spec_maxlen S + 2 ->
  exists l, xbw_extractPrefix d p (3 + length S) = Some (l, false) /\
    Permutation (map fst l) (filter (is_prefix p) S) /\ forall s n, In (s, n) l -> n = lenN s.
Proof. exact xbw_extractPrefix_spec_full_proved. Qed.
Print Assumptions C04_xbw_extractPrefix_iterator.

(* every cap of the client loop: the first [cap] items of ONE duplicate-free enumeration of exactly the members
   with the prefix, and MORE iff some are left (so: never a fuel exhaustion / wild read, whatever the cap) *)
Theorem C04_xbw_locatePrefix_any_cap : forall S d, valid_set S -> xbw_check S d = true ->
  forall p, p <> [] -> Forall qchar p ->
  exists ids, NoDup ids /\ (length ids <= length S)%nat /\
    (forall id, In id ids <-> exists s, In s S /\ is_prefix p s = true /\ id = spec_locate (xbw_order S) s) /\
    forall cap, xbw_locatePrefix d p cap = Some (firstn cap ids, (cap <? length ids)%nat).
Proof. first [exact XBW_locatePrefix_cap | intros S d _; exact (XBW_locatePrefix_cap S d)]. Qed.
Print Assumptions C04_xbw_locatePrefix_any_cap.

Theorem C04_xbw_extractPrefix_any_cap : forall S d, valid_set S -> xbw_check S d = true ->
  forall p, p <> [] -> Forall qchar p -> (exists s, In s S /\ is_prefix p s = true) ->
  exists L, Permutation (map fst L) (filter (is_prefix p) S) /\ (forall s n, In (s, n) L -> n = lenN s) /\
    forall cap, xbw_extractPrefix_api d p cap = Some (Some (firstn cap L, (cap <? length L)%nat)).
Proof. first [exact XBW_extractPrefix_api_cap | intros S d _; exact (XBW_extractPrefix_api_cap S d)]. Qed.
Print Assumptions C04_xbw_extractPrefix_any_cap.

(* ---- the hypotheses are satisfiable, the conclusions non-trivial: the real dump of {"ab","b"} ---- *)
Example ex2_rows : rows_of (trie_blocks ex2_S) =
  [([0], 0); ([0], 0); ([0; 0], 97); ([0; 0], 98); ([97; 0; 0], 98); ([98; 0; 0], 255); ([98; 97; 0; 0], 255)].
Proof. vm_compute. reflexivity. Qed.
(* root -> {a, b}; a -> {ab}; ab -> {its terminator leaf}; b -> {its terminator leaf} *)
Example ex2_children : xbw_getChildren ex2_d 1 = Some (2, 3) /\ xbw_getChildren ex2_d 2 = Some (4, 4) /\
                       xbw_getChildren ex2_d 4 = Some (6, 6) /\ xbw_getChildren ex2_d 3 = Some (5, 5).
Proof. vm_compute. auto. Qed.
Example ex2_locatePrefix : xbw_locatePrefix ex2_d [97] (3 + length ex2_S) = Some ([2], false) /\
                           xbw_locatePrefix ex2_d [98] (3 + length ex2_S) = Some ([1], false) /\
                           xbw_locatePrefix ex2_d [97; 98] (3 + length ex2_S) = Some ([2], false) /\
                           xbw_locatePrefix ex2_d [99] (3 + length ex2_S) = Some ([], false) /\
                           spec_locate (xbw_order ex2_S) [97; 98] = 2 /\ spec_locate (xbw_order ex2_S) [98] = 1.
Proof. vm_compute. repeat split. Qed.
Example ex2_extractPrefix_api :
  xbw_extractPrefix_api ex2_d [97] (3 + length ex2_S) = Some (Some ([([97; 98], 2)], false)) /\
  xbw_extractPrefix_api ex2_d [98] (3 + length ex2_S) = Some (Some ([([98], 1)], false)) /\
  xbw_extractPrefix_api ex2_d [98; 98] (3 + length ex2_S) = Some None /\
  (* a pattern longer than maxlength + 1 = 4 bytes: NULL, the iterator (and its strncpy) is not reached *)
  xbw_extractPrefix_api ex2_d [97; 98; 97; 98; 97; 98] (3 + length ex2_S) = Some None /\
  xbw_extractPrefix ex2_d [97; 98; 97; 98; 97; 98] (3 + length ex2_S) = None.
Proof. vm_compute. repeat split. Qed.

(* ---- a set with shared prefixes: the real dump of {"a","ab","abc","abd","b"} (`xbw_build 61 6162 616263 616264 62`);
   the BFS order of the streams is the one the real code prints:
     q xbw locatePrefix 61 = ids 3 4 5 1        q xbw extractPrefix 61 = strs 6162/2/2 616263/3/3 616264/3/3 61/1/1
     q xbw locatePrefix 6162 = ids 4 5 3        q xbw extractPrefix 63 = NULL      q xbw extractPrefix 61^9 = NULL *)
Definition ex3_S : list str := [[97]; [97; 98]; [97; 98; 99]; [97; 98; 100]; [98]].
Definition ex3_d : xbw :=
  match xbw_load 12 (ex_mapping [(0, 1); (97, 2); (98, 3); (99, 4); (100, 5); (255, 6); (256, 7)])
          [1; 1; 2; 3; 3; 6; 6; 4; 5; 6; 6; 6]
          [false; true; false; true; false; true; true; false; false; true; true; true]
          [true; false; false; false; true; false; true; false; false; false; true; true; true] 5 4 with
  | Some d => d
  | None => mk_xbw 0 0 [] [] [] [] [] [] 0 0
  end.
Example ex3_valid : valid_set_b ex3_S = true. Proof. vm_compute. reflexivity. Qed.
Example ex3_check : xbw_check ex3_S ex3_d = true. Proof. vm_compute. reflexivity. Qed.
Example ex3_order : xbw_order ex3_S = [[97]; [98]; [97; 98]; [97; 98; 99]; [97; 98; 100]]. Proof. vm_compute. reflexivity. Qed.
Example ex3_children : xbw_getChildren ex3_d 1 = Some (2, 3) /\ xbw_getChildren ex3_d 2 = Some (4, 5) /\
                       xbw_getChildren ex3_d 4 = Some (7, 9) /\ xbw_getChildren ex3_d 7 = Some (10, 10).
Proof. vm_compute. auto. Qed.
Example ex3_locatePrefix :
  xbw_locatePrefix ex3_d [97] (3 + length ex3_S) = Some ([3; 4; 5; 1], false) /\
  xbw_locatePrefix ex3_d [97; 98] (3 + length ex3_S) = Some ([4; 5; 3], false) /\
  xbw_locatePrefix ex3_d [98] (3 + length ex3_S) = Some ([2], false) /\
  xbw_locatePrefix ex3_d [99] (3 + length ex3_S) = Some ([], false) /\
  xbw_locatePrefix ex3_d [97] 2 = Some ([3; 4], true).
Proof. vm_compute. repeat split. Qed.
Example ex3_extractPrefix :
  xbw_extractPrefix_api ex3_d [97] (3 + length ex3_S) =
    Some (Some ([([97; 98], 2); ([97; 98; 99], 3); ([97; 98; 100], 3); ([97], 1)], false)) /\
  xbw_extractPrefix_api ex3_d [99] (3 + length ex3_S) = Some None /\
  xbw_extractPrefix_api ex3_d [97; 97; 97; 97; 97; 97; 97; 97; 97] (3 + length ex3_S) = Some None.
Proof. vm_compute. repeat split. Qed.
