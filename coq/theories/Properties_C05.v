(* C05 — substring search is exact.  Part 1: the specification's substring stream. *)
From LibCSD Require Import Base Spec SpecProofs.
Local Open Scope N_scope.

Theorem C05_spec_substr_ids_exact : forall S p id, In id (spec_substr_ids S p) <->
  exists s, spec_extract S id = Some s /\ is_infix p s = true.
Proof. exact spec_substr_ids_spec. Qed.
Print Assumptions C05_spec_substr_ids_exact.

Theorem C05_spec_substr_ids_once : forall S p, NoDup (spec_substr_ids S p).
Proof. intros S p. exact (spec_ids_NoDup (is_infix p) S). Qed.
Print Assumptions C05_spec_substr_ids_once.

Example C05_example : let S := [[97; 97; 97; 97]; [97; 98]; [98; 97; 97]] in
  spec_substr_ids S [97; 97] = [1; 3] /\ spec_substr_ids S [99] = [] /\ spec_substr_strs S [98] = [[97; 98]; [98; 97; 97]].
Proof. cbv zeta. repeat split; reflexivity. Qed.
