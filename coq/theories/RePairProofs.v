(* Proofs about the Re-Pair model (RePairDefs.v): property C20. *)
From LibCSD Require Import Base Bytes LogSeqDefs LogSeqProofs RePairDefs.
Require Import Lia ZifyBool ZifyNat ZifyN.
Ltac Zify.zify_post_hook ::= Z.to_euclidean_division_equations.
Local Open Scope N_scope.

(* ---------------------------------------------------------------------------------------- *)
(* generic helpers *)

Ltac split_andb :=
  repeat match goal with
         | H : andb _ _ = true |- _ => apply andb_true_iff in H; destruct H
         end.

Lemma list_ind2 {A} (P : list A -> Prop) :
  P [] -> (forall x, P [x]) -> (forall x y r, P r -> P (y :: r) -> P (x :: y :: r)) -> forall l, P l.
Proof.
  intros H0 H1 H2 l.
  assert (H : P l /\ forall x, P (x :: l)).
  { induction l as [|a l [IHa IHb]].
    - split; [exact H0 | exact H1].
    - split; [apply IHb|]. intros x. apply H2; [exact IHa | apply IHb]. }
  apply H.
Qed.

Lemma nthN_snoc {A} (l : list A) x : nthN (l ++ [x]) (lenN l) = Some x.
Proof. rewrite nthN_app_r by lia. rewrite N.sub_diag. reflexivity. Qed.

Lemma lenN_snoc {A} (l : list A) x : lenN (l ++ [x]) = lenN l + 1.
Proof. rewrite lenN_app, lenN_cons, lenN_nil. lia. Qed.

Lemma nthN_None_ge {A} (l : list A) i : nthN l i = None -> lenN l <= i.
Proof. unfold nthN, lenN. intros H. apply nth_error_None in H. lia. Qed.

(* ---------------------------------------------------------------------------------------- *)
(* A. expansion                                                                              *)

Lemma expand_sym_eq rules t f s :
  expand_sym rules t f s =
  if s <? t then Some [s] else
  match f with
  | O => None
  | S f' =>
      match nthN rules (s - t) with
      | None => None
      | Some (a, b) =>
          match expand_sym rules t f' a, expand_sym rules t f' b with
          | Some x, Some y => Some (x ++ y)
          | _, _ => None
          end
      end
  end.
Proof. destruct f; reflexivity. Qed.

(* more fuel and more (later) rules never change a successful expansion *)
Lemma expand_sym_mono rules more t : forall f f' s l, (f <= f')%nat ->
  expand_sym rules t f s = Some l -> expand_sym (rules ++ more) t f' s = Some l.
Proof.
  induction f as [|f IH]; intros f' s l Hle H; rewrite expand_sym_eq in H; rewrite expand_sym_eq.
  - destruct (s <? t); [exact H | discriminate].
  - destruct (s <? t); [exact H |].
    destruct f' as [|f']; [lia|].
    destruct (nthN rules (s - t)) as [[a b]|] eqn:E; [|discriminate].
    rewrite nthN_app_l by (eapply nthN_Some_lt; exact E). rewrite E.
    destruct (expand_sym rules t f a) as [x|] eqn:Ea; [|discriminate].
    destruct (expand_sym rules t f b) as [y|] eqn:Eb; [|discriminate].
    rewrite (IH f' a x) by (lia || assumption).
    rewrite (IH f' b y) by (lia || assumption). exact H.
Qed.

Lemma expand_list_mono rules more t f f' : (f <= f')%nat -> forall seq l,
  expand_list rules t f seq = Some l -> expand_list (rules ++ more) t f' seq = Some l.
Proof.
  intros Hle. induction seq as [|s r IH]; intros l H; cbn [expand_list] in *; [exact H|].
  destruct (expand_sym rules t f s) as [x|] eqn:Es; [|discriminate].
  destruct (expand_list rules t f r) as [y|] eqn:Er; [|discriminate].
  rewrite (expand_sym_mono rules more t f f' s x Hle Es), (IH y eq_refl). exact H.
Qed.

Lemma expand_list_cons rules t f s r :
  expand_list rules t f (s :: r) =
  match expand_sym rules t f s, expand_list rules t f r with
  | Some x, Some y => Some (x ++ y)
  | _, _ => None
  end.
Proof. reflexivity. Qed.

Lemma expand_list_app rules t f u v :
  expand_list rules t f (u ++ v) =
  match expand_list rules t f u, expand_list rules t f v with
  | Some x, Some y => Some (x ++ y)
  | _, _ => None
  end.
Proof.
  induction u as [|s u IH]; cbn [app expand_list].
  - destruct (expand_list rules t f v); reflexivity.
  - rewrite IH. destruct (expand_sym rules t f s); [|reflexivity].
    destruct (expand_list rules t f u); [|reflexivity].
    destruct (expand_list rules t f v); [|reflexivity]. rewrite app_assoc. reflexivity.
Qed.

(* the fresh symbol expands to the concatenation of the two halves *)
Lemma expand_new_sym rules t a b xa xb :
  expand_sym rules t (length rules) a = Some xa ->
  expand_sym rules t (length rules) b = Some xb ->
  expand_sym (rules ++ [(a, b)]) t (S (length rules)) (t + lenN rules) = Some (xa ++ xb).
Proof.
  intros Ha Hb. rewrite expand_sym_eq.
  destruct (N.ltb_spec (t + lenN rules) t); [lia|].
  replace (t + lenN rules - t) with (lenN rules) by lia. rewrite nthN_snoc.
  rewrite (expand_sym_mono rules [(a, b)] t _ (length rules) a xa (le_n _) Ha).
  rewrite (expand_sym_mono rules [(a, b)] t _ (length rules) b xb (le_n _) Hb). reflexivity.
Qed.

Lemma replace_pairs_eq a b n mask x y rest :
  replace_pairs a b n mask (x :: y :: rest) =
  if hd false mask && (x =? a) && (y =? b)
  then n :: replace_pairs a b n (tl (tl mask)) rest
  else x :: replace_pairs a b n (tl mask) (y :: rest).
Proof. reflexivity. Qed.

Lemma replace_pairs_lossless rules t a b : forall seq mask l,
  expand_list rules t (length rules) seq = Some l ->
  expand_list (rules ++ [(a, b)]) t (S (length rules))
    (replace_pairs a b (t + lenN rules) mask seq) = Some l.
Proof.
  induction seq as [|x|x y rest IH1 IH2] using list_ind2; intros mask l H.
  - exact H.
  - cbn [replace_pairs]. eapply expand_list_mono; [|exact H]. lia.
  - rewrite replace_pairs_eq.
    destruct (hd false mask && (x =? a) && (y =? b)) eqn:Ecase.
    + assert (x = a /\ y = b) as [-> ->] by lia.
      cbn [expand_list] in H.
      destruct (expand_sym rules t (length rules) a) as [xa|] eqn:Ea; [|discriminate].
      destruct (expand_sym rules t (length rules) b) as [xb|] eqn:Eb; [|discriminate].
      destruct (expand_list rules t (length rules) rest) as [lr|] eqn:Er; [|discriminate].
      cbn [expand_list].
      rewrite (expand_new_sym rules t a b xa xb Ea Eb).
      rewrite (IH1 (tl (tl mask)) lr eq_refl).
      inversion H; subst. rewrite app_assoc. reflexivity.
    + rewrite expand_list_cons in H.
      destruct (expand_sym rules t (length rules) x) as [xx|] eqn:Ex; [|discriminate].
      destruct (expand_list rules t (length rules) (y :: rest)) as [lr|] eqn:Er; [|discriminate].
      rewrite expand_list_cons.
      rewrite (expand_sym_mono rules [(a, b)] t (length rules) (S (length rules)) x xx) by (lia || assumption).
      rewrite (IH2 (tl mask) lr eq_refl). exact H.
Qed.

Lemma length_snoc {A} (l : list A) x : length (l ++ [x]) = S (length l).
Proof. rewrite app_length. cbn [length]. lia. Qed.

(* one step of the abstract compressor, for ANY pair and ANY set of non-overlapping occurrences,
   leaves the expansion unchanged *)
Theorem rp_step_lossless t a b mask st l :
  expand_state t st = Some l -> expand_state t (apply_step t a b mask st) = Some l.
Proof.
  unfold expand_state, expand_seq, apply_step; cbn [rp_rules rp_seq]. intros H.
  rewrite length_snoc. apply replace_pairs_lossless. exact H.
Qed.

(* ---------------------------------------------------------------------------------------- *)
(* invariants *)

Definition rules_wf (t : N) (rules : list rule) : Prop :=
  forall i a b, nthN rules i = Some (a, b) -> a <> 0 /\ b <> 0 /\ a < t + i /\ b < t + i.

Definition seq_wf (t : N) (rules : list rule) (seq : list N) : Prop :=
  Forall (fun s => s < t + lenN rules) seq.

Definition wf_state (t : N) (st : rp_state) : Prop :=
  rules_wf t (rp_rules st) /\ seq_wf t (rp_rules st) (rp_seq st).

Lemma replace_pairs_Forall (P : N -> Prop) a b n : P n -> forall seq mask,
  Forall P seq -> Forall P (replace_pairs a b n mask seq).
Proof.
  intros Hn. induction seq as [|x|x y rest IH1 IH2] using list_ind2; intros mask H.
  - constructor.
  - exact H.
  - rewrite replace_pairs_eq. inversion H as [|? ? Hx Hr]; subst. inversion Hr as [|? ? Hy Hr2]; subst.
    destruct (hd false mask && (x =? a) && (y =? b)).
    + constructor; [exact Hn | apply IH1; exact Hr2].
    + constructor; [exact Hx | apply IH2; exact Hr].
Qed.

Lemma rules_wf_snoc t rules a b :
  rules_wf t rules -> a <> 0 -> b <> 0 -> a < t + lenN rules -> b < t + lenN rules ->
  rules_wf t (rules ++ [(a, b)]).
Proof.
  intros Hw Ha Hb Hal Hbl i a' b' Hi.
  destruct (N.lt_ge_cases i (lenN rules)) as [Hlt|Hge].
  - rewrite nthN_app_l in Hi by assumption. exact (Hw _ _ _ Hi).
  - pose proof (nthN_Some_lt _ _ _ Hi) as Hlt. rewrite lenN_snoc in Hlt.
    assert (i = lenN rules) by lia. subst i. rewrite nthN_snoc in Hi. inversion Hi; subst. auto.
Qed.

Lemma rp_step_wf t st st' : wf_state t st -> rp_step t st st' -> wf_state t st'.
Proof.
  intros [Hr Hs] Hstep. destruct Hstep as [a b mask st (Ha & Hb & Hal & Hbl)].
  unfold wf_state, apply_step; cbn [rp_rules rp_seq]. split.
  - apply rules_wf_snoc; assumption.
  - unfold seq_wf. rewrite lenN_snoc. apply replace_pairs_Forall; [lia|].
    eapply Forall_impl; [|exact Hs]. cbn beta. intros; lia.
Qed.

Lemma init_wf t input : Forall (fun s => s < t) input -> wf_state t (init_state input).
Proof.
  intros H. split; cbn [init_state rp_rules rp_seq].
  - intros i a b Hi. unfold nthN in Hi. destruct (N.to_nat i); discriminate.
  - unfold seq_wf. rewrite lenN_nil. eapply Forall_impl; [|exact H]. cbn beta. intros; lia.
Qed.

Lemma rp_run_wf t st st' : wf_state t st -> rp_run t st st' -> wf_state t st'.
Proof.
  intros Hw Hrun. induction Hrun as [|st1 st2 st3 Hrun IH Hstep]; [assumption|].
  exact (rp_step_wf t st2 st3 (IH Hw) Hstep).
Qed.

(* no rule ever contains the terminator *)
Theorem rp_no_zero_in_rules t input st :
  Forall (fun s => s < t) input -> rp_run t (init_state input) st ->
  forall a b, In (a, b) (rp_rules st) -> a <> 0 /\ b <> 0.
Proof.
  intros Hin Hrun a b Hab.
  destruct (rp_run_wf t _ _ (init_wf t input Hin) Hrun) as [Hr _].
  apply In_nth_error in Hab. destruct Hab as [k Hk].
  specialize (Hr (N.of_nat k) a b). unfold nthN in Hr. rewrite Nat2N.id in Hr.
  destruct (Hr Hk) as (H1 & H2 & _). auto.
Qed.

(* rule i only mentions symbols smaller than its own symbol t + i *)
Theorem rp_rules_backwards t input st :
  Forall (fun s => s < t) input -> rp_run t (init_state input) st ->
  forall i a b, nthN (rp_rules st) i = Some (a, b) -> a < t + i /\ b < t + i.
Proof.
  intros Hin Hrun i a b Hi.
  destruct (rp_run_wf t _ _ (init_wf t input Hin) Hrun) as [Hr _].
  destruct (Hr i a b Hi) as (_ & _ & H1 & H2). auto.
Qed.

(* hence the expansion terminates within fuel = number of rules *)
Lemma expand_fuel_enough_gen t rules : rules_wf t rules -> forall f s,
  N.of_nat f <= lenN rules -> s < t + N.of_nat f ->
  exists l, expand_sym rules t f s = Some l.
Proof.
  intros Hw. induction f as [|f IH]; intros s Hf Hs; rewrite expand_sym_eq.
  - destruct (N.ltb_spec s t); [eauto | lia].
  - destruct (N.ltb_spec s t); [eauto|].
    destruct (nthN_lt_Some rules (s - t)) as [[a b] Hab]; [lia|]. rewrite Hab.
    destruct (Hw _ _ _ Hab) as (_ & _ & Ha & Hb).
    destruct (IH a) as [xa Hxa]; [lia|lia|]. destruct (IH b) as [xb Hxb]; [lia|lia|].
    rewrite Hxa, Hxb. eauto.
Qed.

Theorem expand_fuel_enough t rules s :
  rules_wf t rules -> s < t + lenN rules -> exists l, expand_sym rules t (length rules) s = Some l.
Proof. intros Hw Hs. apply expand_fuel_enough_gen; [assumption | unfold lenN; lia | unfold lenN in *; lia]. Qed.

Lemma expand_seq_total t rules seq :
  rules_wf t rules -> seq_wf t rules seq -> exists l, expand_seq rules t seq = Some l.
Proof.
  intros Hw Hs. unfold expand_seq. induction Hs as [|s r Hs Hr IH]; cbn [expand_list]; [eauto|].
  destruct (expand_fuel_enough t rules s Hw Hs) as [x Hx]. destruct IH as [y Hy].
  rewrite Hx, Hy. eauto.
Qed.

Lemma expand_init t input : Forall (fun s => s < t) input -> expand_state t (init_state input) = Some input.
Proof.
  unfold expand_state, expand_seq; cbn [init_state rp_rules rp_seq length].
  induction 1 as [|s r Hs Hr IH]; cbn [expand_list]; [reflexivity|].
  rewrite expand_sym_eq. destruct (N.ltb_spec s t); [|lia]. rewrite IH. reflexivity.
Qed.

(* any finite number of steps *)
Theorem rp_run_lossless t input st :
  Forall (fun s => s < t) input -> rp_run t (init_state input) st -> expand_state t st = Some input.
Proof.
  intros Hin Hrun. remember (init_state input) as st0 eqn:E.
  induction Hrun as [|st1 st2 st3 Hrun IH Hstep].
  - subst. apply expand_init. exact Hin.
  - destruct Hstep. apply rp_step_lossless. apply IH. exact E.
Qed.

(* the executable run is an instance of the relation *)
Lemma step_okb_spec t a b st : step_okb t a b st = true <-> step_ok t a b st.
Proof. unfold step_okb, step_ok. split; intros H; lia. Qed.

Lemma run_steps_sound t : forall steps st st', run_steps t steps st = Some st' -> rp_run t st st'.
Proof.
  induction steps as [|[[a b] mask] more IH]; intros st st' H; cbn [run_steps] in H.
  - inversion H; subst. constructor.
  - destruct (step_okb t a b st) eqn:Eok; [|discriminate].
    apply step_okb_spec in Eok. specialize (IH _ _ H).
    clear H. remember (apply_step t a b mask st) as st1 eqn:E1.
    induction IH as [|s1 s2 s3 Hrun IHr Hstep].
    + subst. eapply rp_run_step; [apply rp_run_refl|]. constructor. exact Eok.
    + eapply rp_run_step; [apply IHr; exact E1 | exact Hstep].
Qed.

(* ---------------------------------------------------------------------------------------- *)
(* bits *)

Lemma bits32_gt n : n < 2 ^ 32 -> n < 2 ^ bits32 n.
Proof. intros H. unfold bits32, u32. rewrite N.mod_small by exact H. apply N.size_gt. Qed.

Lemma rules_wf_flat t rules : rules_wf t rules -> forall s, In s (flat_rules rules) -> s <> 0 /\ s < t + lenN rules.
Proof.
  intros Hw s Hs. unfold flat_rules in Hs. apply in_flat_map in Hs. destruct Hs as [[a b] [Hab Hs]].
  apply In_nth_error in Hab. destruct Hab as [k Hk].
  assert (Hlt : (k < length rules)%nat) by (apply (proj1 (nth_error_Some rules k)); intros E; pose proof (eq_trans (eq_sym E) Hk); discriminate).
  specialize (Hw (N.of_nat k) a b). unfold nthN in Hw. rewrite Nat2N.id in Hw.
  destruct (Hw Hk) as (H1 & H2 & H3 & H4). unfold lenN.
  cbn [fst snd In] in Hs. destruct Hs as [<-|[<-|[]]]; split; (assumption || lia).
Qed.

(* the number of bits reported (getBits, and the width of G and of the sequence containers)
   suffices for every terminal and every rule identifier in use *)
Theorem rp_bits_suffice_wf t st :
  wf_state t st -> t + lenN (rp_rules st) < 2 ^ 32 ->
  forall s, In s (rp_seq st ++ flat_rules (rp_rules st)) -> s < 2 ^ rp_bits t (rp_rules st).
Proof.
  intros [Hr Hs] Hlt s Hin. unfold rp_bits.
  assert (Hs' : s < lenN (rp_rules st) + t).
  { apply in_app_or in Hin. destruct Hin as [Hin|Hin].
    - unfold seq_wf in Hs. rewrite Forall_forall in Hs. specialize (Hs _ Hin). cbn beta in Hs. lia.
    - destruct (rules_wf_flat t _ Hr s Hin). lia. }
  eapply N.lt_trans; [exact Hs'|]. apply bits32_gt. lia.
Qed.

Theorem rp_bits_suffice t input st :
  Forall (fun s => s < t) input -> rp_run t (init_state input) st ->
  t + lenN (rp_rules st) < 2 ^ 32 ->
  forall s, In s (rp_seq st ++ flat_rules (rp_rules st)) -> s < 2 ^ rp_bits t (rp_rules st).
Proof.
  intros Hin Hrun. apply rp_bits_suffice_wf. eapply rp_run_wf; [|exact Hrun]. apply init_wf. exact Hin.
Qed.

(* ---------------------------------------------------------------------------------------- *)
(* terminators: no rule expands to a string containing 0, so cutting the compacted sequence
   at its 0 symbols cuts the text at the same places *)

Lemma expand_no_zero t rules : rules_wf t rules -> forall f s l,
  s <> 0 -> expand_sym rules t f s = Some l -> ~ In 0 l.
Proof.
  intros Hw. induction f as [|f IH]; intros s l Hs H; rewrite expand_sym_eq in H.
  - destruct (s <? t); [|discriminate]. inversion H; subst. intros [E|[]]. congruence.
  - destruct (s <? t). { inversion H; subst. intros [E|[]]. congruence. }
    destruct (nthN rules (s - t)) as [[a b]|] eqn:E; [|discriminate].
    destruct (Hw _ _ _ E) as (Ha & Hb & _).
    destruct (expand_sym rules t f a) as [x|] eqn:Ea; [|discriminate].
    destruct (expand_sym rules t f b) as [y|] eqn:Eb; [|discriminate].
    inversion H; subst. intros Hin. apply in_app_or in Hin. destruct Hin as [Hin|Hin].
    + exact (IH a x Ha Ea Hin).
    + exact (IH b y Hb Eb Hin).
Qed.

Lemma split0_nonempty l : exists h tl, split0 l = h :: tl.
Proof.
  induction l as [|x r IH]; cbn [split0]; [eauto|].
  destruct (x =? 0); [eauto|]. destruct IH as (h & tl & ->). eauto.
Qed.

Lemma split0_app_nozero u v h tl : ~ In 0 u -> split0 v = h :: tl -> split0 (u ++ v) = (u ++ h) :: tl.
Proof.
  intros Hu Hv. induction u as [|x u IH]; cbn [app split0]; [exact Hv|].
  destruct (N.eqb_spec x 0) as [->|Hx]; [exfalso; apply Hu; left; reflexivity|].
  rewrite IH; [reflexivity|]. intros Hin. apply Hu. right. exact Hin.
Qed.

Theorem strings_addressable t rules : rules_wf t rules -> 1 <= t -> forall cseq l,
  expand_seq rules t cseq = Some l ->
  Forall2 (fun piece str => expand_seq rules t piece = Some str) (split0 cseq) (split0 l).
Proof.
  intros Hw Ht. unfold expand_seq. induction cseq as [|s r IH]; intros l H; cbn [expand_list] in H.
  - inversion H; subst. cbn [split0]. constructor; [reflexivity | constructor].
  - destruct (expand_sym rules t (length rules) s) as [x|] eqn:Es; [|discriminate].
    destruct (expand_list rules t (length rules) r) as [y|] eqn:Er; [|discriminate].
    inversion H; subst. specialize (IH y eq_refl).
    destruct (N.eqb_spec s 0) as [->|Hs].
    + rewrite expand_sym_eq in Es. destruct (N.ltb_spec 0 t); [|lia]. inversion Es; subst.
      cbn [app split0 N.eqb]. constructor; [reflexivity | exact IH].
    + cbn [split0]. destruct (N.eqb_spec s 0); [contradiction|].
      destruct (split0_nonempty r) as (h & tl & Hr). destruct (split0_nonempty y) as (h' & tl' & Hy).
      rewrite Hr. rewrite Hr, Hy in IH. inversion IH as [|? ? ? ? Hh Htl]; subst.
      rewrite (split0_app_nozero x y h' tl' (expand_no_zero t rules Hw _ _ _ Hs Es) Hy).
      constructor; [|exact Htl]. cbn [expand_list]. rewrite Es, Hh. reflexivity.
Qed.

(* ---------------------------------------------------------------------------------------- *)
(* B. the checker *)

(* C20 for one concrete grammar *)
Definition grammar_valid (input : list N) (t : N) (rules : list rule) (cseq : list N) : Prop :=
  1 <= t /\
  (* no rule contains the terminator; rule i refers only to symbols below t + i *)
  rules_wf t rules /\
  seq_wf t rules cseq /\
  (* expanding the compacted sequence reproduces the input symbol for symbol *)
  expand_seq rules t cseq = Some input /\
  (* the reported width suffices for every symbol stored *)
  (forall s, In s (cseq ++ flat_rules rules) -> s < 2 ^ rp_bits t rules) /\
  (* each string stays individually addressable: cutting the compacted sequence at 0 and expanding
     the pieces gives exactly the input strings *)
  Forall2 (fun piece str => expand_seq rules t piece = Some str) (split0 cseq) (split0 input).

Lemma rules_ok_from_spec t : forall rules i, rules_ok_from t i rules = true ->
  forall k a b, nthN rules k = Some (a, b) -> a <> 0 /\ b <> 0 /\ a < t + (i + k) /\ b < t + (i + k).
Proof.
  induction rules as [|[a0 b0] r IH]; intros i H k a b Hk.
  - unfold nthN in Hk. destruct (N.to_nat k); discriminate.
  - cbn [rules_ok_from] in H. split_andb.
    assert (H' : rules_ok_from t (i + 1) r = true) by assumption.
    destruct (N.eq_dec k 0) as [->|Hk0].
    + unfold nthN in Hk. cbn in Hk. inversion Hk; subst. lia.
    + unfold nthN in Hk. replace (N.to_nat k) with (S (N.to_nat (k - 1))) in Hk by lia. cbn [nth_error] in Hk.
      specialize (IH (i + 1) H' (k - 1) a b Hk). lia.
Qed.

Lemma list_eqb_eq : forall x y, list_eqb x y = true -> x = y.
Proof.
  induction x as [|a x IH]; intros [|b y] H; cbn [list_eqb] in H; try discriminate; [reflexivity|].
  split_andb. assert (a = b) by lia. f_equal; auto.
Qed.

Lemma list_eqb_refl : forall x, list_eqb x x = true.
Proof. induction x as [|a x IH]; cbn [list_eqb]; [reflexivity|]. rewrite IH. lia. Qed.

Theorem check_grammar_sound input t rules cseq :
  check_grammar input t rules cseq = true -> grammar_valid input t rules cseq.
Proof.
  unfold check_grammar. intros H.
  destruct (expand_seq rules t cseq) as [l|] eqn:Ex; [|rewrite andb_false_r in H; discriminate].
  apply andb_true_iff in H; destruct H as [H H5].
  apply andb_true_iff in H; destruct H as [H H4].
  apply andb_true_iff in H; destruct H as [H H3].
  apply andb_true_iff in H; destruct H as [H1' H2].
  assert (H1 : 1 <= t) by lia.
  apply list_eqb_eq in H5. subst l.
  assert (Hw : rules_wf t rules).
  { intros i a b Hi. pose proof (rules_ok_from_spec t rules 0 H2 i a b Hi). lia. }
  unfold grammar_valid. split; [exact H1|]. split; [exact Hw|]. split.
  { unfold seq_wf, seq_ok in *. rewrite forallb_forall in H3. apply Forall_forall. intros s Hs.
    specialize (H3 s Hs). cbn beta in H3. lia. }
  split; [exact Ex|]. split.
  { unfold bits_ok in H4. rewrite forallb_forall in H4. intros s Hs. specialize (H4 s Hs). cbn beta in H4. lia. }
  apply strings_addressable; assumption.
Qed.

(* the abstract compressor always produces a grammar the checker's specification accepts:
   C20 for every input and every sequence of legal choices *)
Theorem rp_run_valid t input st :
  1 <= t -> Forall (fun s => s < t) input -> rp_run t (init_state input) st ->
  t + lenN (rp_rules st) < 2 ^ 32 ->
  grammar_valid input t (rp_rules st) (rp_seq st).
Proof.
  intros Ht Hin Hrun Hlt.
  pose proof (rp_run_wf t _ _ (init_wf t input Hin) Hrun) as Hwf.
  pose proof (rp_run_lossless t input st Hin Hrun) as Hex. unfold expand_state in Hex.
  destruct Hwf as [Hr Hs].
  unfold grammar_valid. split; [exact Ht|]. split; [exact Hr|]. split; [exact Hs|]. split; [exact Hex|]. split.
  - apply rp_bits_suffice_wf; [split; assumption | exact Hlt].
  - apply strings_addressable; assumption.
Qed.

(* the checker is complete for valid grammars: it never rejects what the specification accepts *)
Lemma rules_ok_from_complete t : forall rules i,
  (forall k a b, nthN rules k = Some (a, b) -> a <> 0 /\ b <> 0 /\ a < t + (i + k) /\ b < t + (i + k)) ->
  rules_ok_from t i rules = true.
Proof.
  induction rules as [|[a0 b0] r IH]; intros i H; cbn [rules_ok_from]; [reflexivity|].
  pose proof (H 0 a0 b0 eq_refl) as H0.
  rewrite (IH (i + 1)).
  - rewrite andb_true_r. lia.
  - intros k a b Hk. specialize (H (k + 1) a b).
    unfold nthN in H, Hk. replace (N.to_nat (k + 1)) with (S (N.to_nat k)) in H by lia.
    specialize (H Hk). lia.
Qed.

Theorem check_grammar_complete input t rules cseq :
  grammar_valid input t rules cseq -> check_grammar input t rules cseq = true.
Proof.
  intros (H1 & Hw & Hs & Hex & Hb & _). unfold check_grammar. rewrite Hex, list_eqb_refl.
  assert (rules_ok t rules = true).
  { apply rules_ok_from_complete. intros k a b Hk. specialize (Hw k a b Hk). lia. }
  assert (seq_ok t rules cseq = true).
  { unfold seq_ok. apply forallb_forall. intros s Hin. unfold seq_wf in Hs. rewrite Forall_forall in Hs.
    specialize (Hs s Hin). cbn beta in Hs. lia. }
  assert (bits_ok t rules cseq = true).
  { unfold bits_ok. apply forallb_forall. intros s Hin. specialize (Hb s Hin). lia. }
  repeat (apply andb_true_iff; split); try assumption; try reflexivity. lia.
Qed.

(* ---------------------------------------------------------------------------------------- *)
(* C. the exact decoder on the packed rule table                                             *)

Lemma bits32_range n : 1 <= n < 2 ^ 32 -> 1 <= bits32 n <= 32.
Proof.
  intros [H1 H2]. unfold bits32, u32. rewrite N.mod_small by exact H2.
  rewrite N.size_log2 by lia.
  assert (N.log2 n < 32) by (apply N.log2_lt_pow2; lia). lia.
Qed.

Lemma lenN_flat_rules rules : lenN (flat_rules rules) = 2 * lenN rules.
Proof.
  induction rules as [|[a b] r IH]; [reflexivity|].
  unfold flat_rules in *. cbn [flat_map fst snd app]. rewrite !lenN_cons, IH. lia.
Qed.

Lemma nthN_cons_succ {A} (x : A) l k : nthN (x :: l) (k + 1) = nthN l k.
Proof. unfold nthN. replace (N.to_nat (k + 1)) with (S (N.to_nat k)) by lia. reflexivity. Qed.

Lemma nthN_flat_rules : forall rules i a b, nthN rules i = Some (a, b) ->
  nthN (flat_rules rules) (2 * i) = Some a /\ nthN (flat_rules rules) (2 * i + 1) = Some b.
Proof.
  induction rules as [|[a0 b0] r IH]; intros i a b Hi.
  - unfold nthN in Hi. destruct (N.to_nat i); discriminate.
  - destruct (N.eq_dec i 0) as [->|Hi0].
    + unfold nthN in Hi. cbn in Hi. inversion Hi; subst. split; reflexivity.
    + replace i with ((i - 1) + 1) in Hi by lia. rewrite nthN_cons_succ in Hi.
      destruct (IH _ _ _ Hi) as [Ha Hb].
      unfold flat_rules in *. cbn [flat_map fst snd app].
      replace (2 * i) with ((2 * (i - 1) + 1) + 1) by lia.
      replace (2 * i + 1) with ((2 * (i - 1) + 1 + 1) + 1) by lia.
      rewrite !nthN_cons_succ. split; [exact Ha | exact Hb].
Qed.

(* the constructor's table: it exists, is a well-formed LogSequence of the reported width, and
   field 2i / 2i+1 hold the two sides of rule i *)
Theorem rp_pack_spec t rules :
  1 <= t -> rules_wf t rules -> t + lenN rules < 2 ^ 32 ->
  exists G, rp_pack t rules = Some G /\ ls_wf G /\ ls_bits G = rp_bits t rules /\ ls_n G = 2 * lenN rules /\
    forall i a b, nthN rules i = Some (a, b) -> ls_get G (2 * i) = Some a /\ ls_get G (2 * i + 1) = Some b.
Proof.
  intros Ht Hw Hlt. unfold rp_pack.
  assert (Hb : 1 <= rp_bits t rules <= 32) by (apply bits32_range; lia).
  destruct (ls_fill_spec (flat_rules rules) (ls_new (rp_bits t rules) (2 * lenN rules)) 0)
    as (G & HG & Hwf & Hn & Hbits & Hget & _).
  - apply ls_new_wf. lia.
  - cbn [ls_new ls_n]. rewrite lenN_flat_rules. lia.
  - cbn [ls_new ls_bits]. apply Forall_forall. intros s Hs.
    destruct (rules_wf_flat t rules Hw s Hs) as [_ Hs'].
    eapply N.lt_trans; [|apply bits32_gt; lia]. lia.
  - exists G. split; [exact HG|]. split; [exact Hwf|]. split; [exact Hbits|]. split; [exact Hn|].
    intros i a b Hi. destruct (nthN_flat_rules rules i a b Hi) as [Ha Hb'].
    pose proof (nthN_Some_lt _ _ _ Hi) as Hil.
    rewrite <- Ha, <- Hb'. split.
    + rewrite <- (Hget (2 * i)) by (rewrite lenN_flat_rules; lia). f_equal.
    + rewrite <- (Hget (2 * i + 1)) by (rewrite lenN_flat_rules; lia). f_equal.
Qed.

Lemma expandRule_eq G t f rule :
  expandRule G t (S f) rule =
  match ls_get G (u32 (2 * rule)), ls_get G (u32 (2 * rule + 1)) with
  | Some l0, Some r0 =>
      match (if t <=? u32 l0 then expandRule G t f (u32 (u32 l0 - t)) else Some [u32 l0 mod 256]) with
      | None => None
      | Some x =>
          match (if t <=? u32 r0 then expandRule G t f (u32 (u32 r0 - t)) else Some [u32 r0 mod 256]) with
          | None => None
          | Some y => Some (x ++ y)
          end
      end
  | _, _ => None
  end.
Proof. reflexivity. Qed.

Section PackedDecoder.
  Variables (t : N) (rules : list rule) (G : logseq).
  Hypothesis Ht : 1 <= t <= 256.
  Hypothesis Hw : rules_wf t rules.
  (* 2*rule+1 is computed in 32-bit unsigned arithmetic *)
  Hypothesis Hlt : t + lenN rules < 2 ^ 31.
  Hypothesis HG : forall i a b, nthN rules i = Some (a, b) ->
      ls_get G (2 * i) = Some a /\ ls_get G (2 * i + 1) = Some b.

  Lemma u32_small x : x < 2 ^ 32 -> u32 x = x.
  Proof. intros H. unfold u32. apply N.mod_small. exact H. Qed.

  (* one side of a rule, as expandRule treats it *)
  Lemma expand_side f a :
    a < t + lenN rules ->
    (forall i, i < lenN rules -> expandRule G t f i = expand_sym rules t f (t + i)) ->
    (if t <=? u32 a then expandRule G t f (u32 (u32 a - t)) else Some [u32 a mod 256]) = expand_sym rules t f a.
  Proof.
    intros Ha IH. rewrite (u32_small a) by lia.
    destruct (N.leb_spec t a).
    - rewrite u32_small by lia. rewrite IH by lia. f_equal. lia.
    - rewrite expand_sym_eq. destruct (N.ltb_spec a t); [|lia].
      rewrite N.mod_small by lia. reflexivity.
  Qed.

  (* RePair::expandRule on the packed table computes the abstract expansion of the rule's symbol,
     at every recursion depth *)
  Theorem expandRule_spec : forall f i, i < lenN rules ->
    expandRule G t f i = expand_sym rules t f (t + i).
  Proof.
    induction f as [|f IH]; intros i Hi.
    - rewrite expand_sym_eq. destruct (N.ltb_spec (t + i) t); [lia | reflexivity].
    - rewrite expandRule_eq, expand_sym_eq.
      destruct (N.ltb_spec (t + i) t); [lia|].
      replace (t + i - t) with i by lia.
      destruct (nthN_lt_Some rules i Hi) as [[a b] Hab]. rewrite Hab.
      destruct (HG _ _ _ Hab) as [Ha Hb]. destruct (Hw _ _ _ Hab) as (_ & _ & Hal & Hbl).
      rewrite (u32_small (2 * i)), (u32_small (2 * i + 1)) by lia. rewrite Ha, Hb.
      rewrite (expand_side f a) by (lia || exact IH).
      rewrite (expand_side f b) by (lia || exact IH).
      destruct (expand_sym rules t f a); [|reflexivity].
      destruct (expand_sym rules t f b); reflexivity.
  Qed.

  (* the callers' extract loops over a stored symbol sequence *)
  Theorem decode_seq_spec f : forall seq, seq_wf t rules seq ->
    decode_seq G t f seq = expand_list rules t f seq.
  Proof.
    induction 1 as [|s r Hs Hr IH]; cbn [decode_seq expand_list]; [reflexivity|].
    assert (Hside : (if t <=? s then expandRule G t f (u32 (s - t)) else Some [s mod 256]) = expand_sym rules t f s).
    { destruct (N.leb_spec t s).
      - rewrite u32_small by lia. rewrite expandRule_spec by lia. f_equal. lia.
      - rewrite expand_sym_eq. destruct (N.ltb_spec s t); [|lia]. rewrite N.mod_small by lia. reflexivity. }
    rewrite Hside, IH. destruct (expand_sym rules t f s); [|reflexivity].
    destruct (expand_list rules t f r); reflexivity.
  Qed.
End PackedDecoder.

(* a grammar accepted by the checker is decoded by the exact model of the C++ decoder, run on the
   table the constructor packs, to the original input *)
Theorem decode_correct input t rules cseq :
  grammar_valid input t rules cseq -> t <= 256 -> t + lenN rules < 2 ^ 31 ->
  exists G, rp_pack t rules = Some G /\ decode_seq G t (length rules) cseq = Some input.
Proof.
  intros (H1 & Hw & Hs & Hex & _) Ht Hlt.
  destruct (rp_pack_spec t rules H1 Hw ltac:(lia)) as (G & HG & _ & _ & _ & Hget).
  exists G. split; [exact HG|].
  rewrite (decode_seq_spec t rules G) by (assumption || lia). exact Hex.
Qed.

(* ---------------------------------------------------------------------------------------- *)
(* C. the compaction loop                                                                    *)

(* declarative gap structure of the array left by IRePair: a cell is either a live symbol (>= 0), or the
   first cell of a gap, holding  -(j+1)  where j is the (absolute) index of the next live cell; the other
   cells of the gap are arbitrary.  [gapped off arr out]: [arr] starts at absolute index [off] and its live
   symbols are [out], in order. *)
Inductive gapped : N -> list Z -> list N -> Prop :=
| gapped_nil off : gapped off [] []
| gapped_sym off v rest out :
    (0 <= v)%Z -> gapped (off + 1) rest out -> gapped off (v :: rest) (Z.to_N v :: out)
| gapped_gap off v gap rest out :
    (v < 0)%Z -> Z.to_N (- (v + 1)) = off + 1 + lenN gap ->
    gapped (off + 1 + lenN gap) rest out -> gapped off (v :: gap ++ rest) out.

Lemma compact_walk_eq arr n fuel io :
  compact_walk arr n fuel io =
  if n <=? io then Some [] else
  match fuel with
  | O => None
  | S f =>
      match nthN arr io with
      | None => None
      | Some v =>
          if (0 <=? v)%Z
          then match compact_walk arr n f (io + 1) with
               | Some out => Some (Z.to_N v :: out)
               | None => None
               end
          else compact_walk arr n f (u32 (Z.to_N (- (v + 1))))
      end
  end.
Proof. destruct fuel; reflexivity. Qed.

Lemma nthN_middle {A} (pre : list A) x post : nthN (pre ++ x :: post) (lenN pre) = Some x.
Proof. rewrite nthN_app_r by lia. rewrite N.sub_diag. reflexivity. Qed.

Lemma compact_walk_spec : forall off suffix out, gapped off suffix out ->
  forall pre fuel, lenN pre = off -> lenN (pre ++ suffix) < 2 ^ 32 -> (length suffix <= fuel)%nat ->
  compact_walk (pre ++ suffix) (lenN (pre ++ suffix)) fuel off = Some out.
Proof.
  induction 1 as [off | off v rest out Hv Hg IH | off v gap rest out Hv Hj Hg IH];
    intros pre fuel Hpre Hlen Hfuel; rewrite compact_walk_eq.
  - rewrite app_nil_r. destruct (N.leb_spec (lenN pre) off); [reflexivity | lia].
  - assert (Hn : lenN (pre ++ v :: rest) = lenN pre + 1 + lenN rest) by (rewrite lenN_app, lenN_cons; lia).
    destruct (N.leb_spec (lenN (pre ++ v :: rest)) off); [lia|].
    cbn [length] in Hfuel. destruct fuel as [|f]; [lia|].
    rewrite <- Hpre, nthN_middle.
    destruct (Z.leb_spec 0 v); [|lia].
    assert (E : pre ++ v :: rest = (pre ++ [v]) ++ rest) by (rewrite <- app_assoc; reflexivity).
    rewrite E. rewrite Hpre. rewrite (IH (pre ++ [v]) f); [reflexivity | rewrite lenN_snoc; lia | rewrite <- E; exact Hlen | lia].
  - assert (Hn : lenN (pre ++ v :: gap ++ rest) = lenN pre + 1 + lenN gap + lenN rest)
      by (rewrite lenN_app, lenN_cons, lenN_app; lia).
    destruct (N.leb_spec (lenN (pre ++ v :: gap ++ rest)) off); [lia|].
    cbn [length] in Hfuel. rewrite app_length in Hfuel. destruct fuel as [|f]; [lia|].
    rewrite <- Hpre, nthN_middle.
    destruct (Z.leb_spec 0 v); [lia|].
    rewrite Hj. unfold u32. rewrite N.mod_small by lia.
    assert (E : pre ++ v :: gap ++ rest = (pre ++ v :: gap) ++ rest) by (rewrite <- app_assoc; reflexivity).
    rewrite E. apply IH; [rewrite lenN_app, lenN_cons; lia | rewrite <- E; exact Hlen | lia].
Qed.

(* the loop returns exactly the live symbols, in order *)
Theorem compact_spec arr out :
  gapped 0 arr out -> lenN arr < 2 ^ 32 -> compact arr = Some out.
Proof.
  intros Hg Hlen. unfold compact.
  exact (compact_walk_spec 0 arr out Hg [] (length arr) eq_refl Hlen (le_n _)).
Qed.

(* soundness of the boolean well-formedness check the harness runs on the real array *)
Lemma skipn_skipn' {A} : forall (a b : nat) (l : list A), skipn a (skipn b l) = skipn (b + a) l.
Proof.
  intros a b. revert a. induction b as [|b IH]; intros a l; [reflexivity|].
  destruct l as [|x l]; [rewrite !skipn_nil; reflexivity|]. cbn [skipn Nat.add]. apply IH.
Qed.

Lemma skipn_nth_cons {A} : forall (l : list A) k x, nth_error l k = Some x -> skipn k l = x :: skipn (S k) l.
Proof.
  induction l as [|y l IH]; intros [|k] x H; try discriminate.
  - cbn in H. inversion H; subst. reflexivity.
  - cbn [nth_error] in H. cbn [skipn]. rewrite (IH k x H). reflexivity.
Qed.

Lemma gaps_wf_walk_eq arr n fuel io :
  gaps_wf_walk arr n fuel io =
  if n <=? io then true else
  match fuel with
  | O => false
  | S f =>
      match nthN arr io with
      | None => false
      | Some v =>
          if (0 <=? v)%Z then gaps_wf_walk arr n f (io + 1)
          else let j := Z.to_N (- (v + 1)) in
               (io <? j) && (j <=? n) && gaps_wf_walk arr n f j
      end
  end.
Proof. destruct fuel; reflexivity. Qed.

Lemma gaps_wf_walk_sound arr : forall fuel io, io <= lenN arr ->
  gaps_wf_walk arr (lenN arr) fuel io = true -> exists out, gapped io (skipn (N.to_nat io) arr) out.
Proof.
  induction fuel as [|f IH]; intros io Hio H; rewrite gaps_wf_walk_eq in H.
  - destruct (N.leb_spec (lenN arr) io); [|discriminate].
    rewrite skipn_all2 by (unfold lenN in *; lia). exists []. constructor.
  - destruct (N.leb_spec (lenN arr) io).
    { rewrite skipn_all2 by (unfold lenN in *; lia). exists []. constructor. }
    destruct (nthN arr io) as [v|] eqn:Ev; [|discriminate].
    unfold nthN in Ev. rewrite (skipn_nth_cons arr _ v Ev).
    destruct (Z.leb_spec 0 v).
    + destruct (IH (io + 1) ltac:(lia) H) as [out Hout].
      replace (N.to_nat (io + 1)) with (S (N.to_nat io)) in Hout by lia.
      exists (Z.to_N v :: out). constructor; assumption.
    + cbv zeta in H. split_andb.
      set (j := Z.to_N (- (v + 1))) in *.
      destruct (IH j ltac:(lia) ltac:(assumption)) as [out Hout].
      set (k := (N.to_nat j - S (N.to_nat io))%nat).
      assert (Hsplit : skipn (S (N.to_nat io)) arr
                       = firstn k (skipn (S (N.to_nat io)) arr) ++ skipn (N.to_nat j) arr).
      { rewrite <- (firstn_skipn k (skipn (S (N.to_nat io)) arr)) at 1. f_equal.
        rewrite skipn_skipn'. f_equal. unfold k. lia. }
      rewrite Hsplit. exists out.
      assert (Hlen : lenN (firstn k (skipn (S (N.to_nat io)) arr)) = j - io - 1).
      { unfold lenN. rewrite firstn_length, skipn_length. unfold k, lenN in *. lia. }
      apply gapped_gap; [assumption | rewrite Hlen; fold j; lia |].
      rewrite Hlen. replace (io + 1 + (j - io - 1)) with j by lia. exact Hout.
Qed.

Theorem gaps_wf_sound arr : gaps_wf arr = true -> exists out, gapped 0 arr out.
Proof. intros H. exact (gaps_wf_walk_sound arr (length arr) 0 ltac:(lia) H). Qed.

Corollary compact_total arr :
  gaps_wf arr = true -> lenN arr < 2 ^ 32 -> exists out, compact arr = Some out /\ gapped 0 arr out.
Proof.
  intros H Hlen. destruct (gaps_wf_sound arr H) as [out Hout].
  exists out. split; [apply compact_spec; assumption | exact Hout].
Qed.

(* the live symbols are a subsequence of the non-negative cells *)
Inductive sublist {A} : list A -> list A -> Prop :=
| sub_nil l : sublist [] l
| sub_keep x s l : sublist s l -> sublist (x :: s) (x :: l)
| sub_skip x s l : sublist s l -> sublist s (x :: l).

Lemma sublist_app_skip {A} (g s l : list A) : sublist s l -> sublist s (g ++ l).
Proof. intros H. induction g; [exact H | constructor; assumption]. Qed.

Theorem gapped_sublist off arr out :
  gapped off arr out ->
  sublist out (map Z.to_N (filter (fun v => (0 <=? v)%Z) arr)).
Proof.
  induction 1 as [off | off v rest out Hv Hg IH | off v gap rest out Hv Hj Hg IH].
  - constructor.
  - cbn [filter]. destruct (Z.leb_spec 0 v); [|lia]. cbn [map]. constructor. exact IH.
  - cbn [filter]. destruct (Z.leb_spec 0 v); [lia|]. rewrite filter_app, map_app.
    apply sublist_app_skip. exact IH.
Qed.

(* ---------------------------------------------------------------------------------------- *)
(* D. save / load                                                                            *)

Lemma take_le_bytes k x rest : x < 256 ^ N.of_nat k -> take_le k (le_bytes k x ++ rest) = Some (x, rest).
Proof.
  intros Hx. unfold take_le.
  destruct (Nat.ltb_spec (length (le_bytes k x ++ rest)) k) as [Hlt|_].
  - rewrite app_length, le_bytes_length in Hlt. lia.
  - rewrite firstn_app_exact by apply le_bytes_length.
    rewrite skipn_app_exact by apply le_bytes_length.
    rewrite le_value_le_bytes by exact Hx. reflexivity.
Qed.

Definition rp_obj_wf (o : rp_obj) : Prop :=
  ro_maxchar o < 256 /\ ro_terminals o < 2 ^ 64 /\ ro_rules o < 2 ^ 64 /\
  ls_wf (ro_G o) /\ ls_n (ro_G o) < 2 ^ 64.

(* RePair::save(out) followed by RePair::loadNoSeq gives back the same object and leaves the stream
   exactly behind the image *)
Theorem rp_load_save o rest :
  rp_obj_wf o -> rp_loadNoSeq (rp_save o ++ rest) = Some (o, rest).
Proof.
  intros (Hm & Ht & Hr & Hwf & Hn). destruct o as [mc t r g]; cbn [ro_maxchar ro_terminals ro_rules ro_G] in *.
  unfold rp_save, rp_loadNoSeq; cbn [ro_maxchar ro_terminals ro_rules ro_G].
  rewrite <- !app_assoc.
  rewrite take_le_bytes by (change (256 ^ N.of_nat 1) with 256; exact Hm).
  rewrite take_le_bytes by (change (256 ^ N.of_nat 8) with (2 ^ 64); exact Ht).
  rewrite take_le_bytes by (change (256 ^ N.of_nat 8) with (2 ^ 64); exact Hr).
  rewrite logseq_load_save; [reflexivity | exact Hwf | destruct Hwf as [Hb _ _]; lia | exact Hn].
Qed.

(* RePair::save(out, encoding) / RePair::load with a LogSequence sequence (HASHRPF, RPFC-style encodings) *)
Theorem rp_load_save_seq o enc cls rest :
  rp_obj_wf o -> enc < 2 ^ 32 -> enc_is_dac enc = false -> ls_wf cls -> ls_n cls < 2 ^ 64 ->
  rp_load_seq (rp_save_seq o enc cls ++ rest) = Some (o, enc, cls, rest).
Proof.
  intros Ho He Hd Hc Hn. unfold rp_save_seq, rp_load_seq.
  rewrite <- !app_assoc. rewrite rp_load_save by exact Ho.
  rewrite take_le_bytes by (change (256 ^ N.of_nat 4) with (2 ^ 32); exact He).
  rewrite Hd.
  rewrite logseq_load_save; [reflexivity | exact Hc | destruct Hc as [Hb _ _]; lia | exact Hn].
Qed.

(* the object the constructor builds for a valid grammar is well formed, hence survives save/load unchanged,
   and the reloaded table still decodes the compacted sequence to the input *)
Theorem rp_grammar_load_save input maxchar t rules cseq rest :
  grammar_valid input t rules cseq -> maxchar < 256 -> t <= 256 -> t + lenN rules < 2 ^ 31 ->
  exists o, rp_build_obj maxchar t rules = Some o /\
            rp_getBits o = rp_bits t rules /\
            rp_loadNoSeq (rp_save o ++ rest) = Some (o, rest) /\
            decode_seq (ro_G o) (ro_terminals o) (length rules) cseq = Some input.
Proof.
  intros Hv Hm Ht Hlt. pose proof Hv as (H1 & Hw & _).
  destruct (rp_pack_spec t rules H1 Hw ltac:(lia)) as (G & HG & Hwf & Hbits & Hn & Hget).
  destruct (decode_correct input t rules cseq Hv Ht Hlt) as (G' & HG' & Hdec).
  rewrite HG in HG'. inversion HG'; subst G'.
  unfold rp_build_obj. rewrite HG. eexists. split; [reflexivity|].
  cbn [ro_G ro_terminals]. split; [reflexivity|]. split; [|exact Hdec].
  apply rp_load_save. unfold rp_obj_wf; cbn [ro_maxchar ro_terminals ro_rules ro_G].
  split; [exact Hm|]. split; [lia|]. split; [lia|]. split; [exact Hwf | rewrite Hn; lia].
Qed.

(* ---------------------------------------------------------------------------------------- *)
(* the bit width is tight: it is never larger than needed for the value rules+terminals itself, and
   there is no off-by-one at powers of two (the largest symbol is rules+terminals-1) *)
Lemma rp_bits_pow2_example : rp_bits 3 [(1, 2)] = 3 /\ rp_bits 2 [(1, 1); (2, 2)] = 3 /\ rp_bits 2 [(1, 1)] = 2.
Proof. vm_compute. repeat split. Qed.

(* equational form of step losslessness on well-formed states (every reachable state is well formed) *)
Corollary rp_step_lossless_eq t a b mask st :
  wf_state t st -> expand_state t (apply_step t a b mask st) = expand_state t st.
Proof.
  intros [Hr Hs]. destruct (expand_seq_total t _ _ Hr Hs) as [l Hl].
  unfold expand_state at 2. rewrite Hl. apply rp_step_lossless. exact Hl.
Qed.
