(* Proofs about the Re-Pair model (RePairDefs.v): property C20. *)
From LibCSD Require Import Base Bytes LogSeqDefs LogSeqProofs RePairDefs.
Require Import Lia ZifyBool ZifyNat ZifyN.
Ltac Zify.zify_post_hook ::= Z.to_euclidean_division_equations.
Local Open Scope N_scope.

(* ---------------------------------------------------------------------------------------- *)
(* generic helpers *)

Lemma list_ind2 {A} (P : list A -> Prop) :
  P [] -> (forall x, P [x]) -> (forall x y r, P r -> P (y :: r) -> P (x :: y :: r)) -> forall l, P l.
Proof.
  intros H0 H1 H2 l.
  assert (H : P l /\ forall x, P (x :: l)).
  { induction l as [|a l [IHa IHb]].
    - split; [exact H0 | exact H1].
    - split; [apply IHb|]. intros x. apply H2; [exact IHa | apply IHb]. }
  apply H.
Qed.

Lemma nthN_snoc {A} (l : list A) x : nthN (l ++ [x]) (lenN l) = Some x.
Proof. rewrite nthN_app_r by lia. rewrite N.sub_diag. reflexivity. Qed.

Lemma lenN_snoc {A} (l : list A) x : lenN (l ++ [x]) = lenN l + 1.
Proof. rewrite lenN_app, lenN_cons, lenN_nil. lia. Qed.

Lemma nthN_None_ge {A} (l : list A) i : nthN l i = None -> lenN l <= i.
Proof. unfold nthN, lenN. intros H. apply nth_error_None in H. lia. Qed.

(* ---------------------------------------------------------------------------------------- *)
(* A. expansion                                                                              *)

Lemma expand_sym_eq rules t f s :
  expand_sym rules t f s =
  if s <? t then Some [s] else
  match f with
  | O => None
  | S f' =>
      match nthN rules (s - t) with
      | None => None
      | Some (a, b) =>
          match expand_sym rules t f' a, expand_sym rules t f' b with
          | Some x, Some y => Some (x ++ y)
          | _, _ => None
          end
      end
  end.
Proof. destruct f; reflexivity. Qed.

(* more fuel and more (later) rules never change a successful expansion *)
Lemma expand_sym_mono rules more t : forall f f' s l, (f <= f')%nat ->
  expand_sym rules t f s = Some l -> expand_sym (rules ++ more) t f' s = Some l.
Proof.
  induction f as [|f IH]; intros f' s l Hle H; rewrite expand_sym_eq in H; rewrite expand_sym_eq.
  - destruct (s <? t); [exact H | discriminate].
  - destruct (s <? t); [exact H |].
    destruct f' as [|f']; [lia|].
    destruct (nthN rules (s - t)) as [[a b]|] eqn:E; [|discriminate].
    rewrite nthN_app_l by (eapply nthN_Some_lt; exact E). rewrite E.
    destruct (expand_sym rules t f a) as [x|] eqn:Ea; [|discriminate].
    destruct (expand_sym rules t f b) as [y|] eqn:Eb; [|discriminate].
    rewrite (IH f' a x) by (lia || assumption).
    rewrite (IH f' b y) by (lia || assumption). exact H.
Qed.

Lemma expand_list_mono rules more t f f' : (f <= f')%nat -> forall seq l,
  expand_list rules t f seq = Some l -> expand_list (rules ++ more) t f' seq = Some l.
Proof.
  intros Hle. induction seq as [|s r IH]; intros l H; cbn [expand_list] in *; [exact H|].
  destruct (expand_sym rules t f s) as [x|] eqn:Es; [|discriminate].
  destruct (expand_list rules t f r) as [y|] eqn:Er; [|discriminate].
  rewrite (expand_sym_mono rules more t f f' s x Hle Es), (IH y eq_refl). exact H.
Qed.

Lemma expand_list_cons rules t f s r :
  expand_list rules t f (s :: r) =
  match expand_sym rules t f s, expand_list rules t f r with
  | Some x, Some y => Some (x ++ y)
  | _, _ => None
  end.
Proof. reflexivity. Qed.

Lemma expand_list_app rules t f u v :
  expand_list rules t f (u ++ v) =
  match expand_list rules t f u, expand_list rules t f v with
  | Some x, Some y => Some (x ++ y)
  | _, _ => None
  end.
Proof.
  induction u as [|s u IH]; cbn [app expand_list].
  - destruct (expand_list rules t f v); reflexivity.
  - rewrite IH. destruct (expand_sym rules t f s); [|reflexivity].
    destruct (expand_list rules t f u); [|reflexivity].
    destruct (expand_list rules t f v); [|reflexivity]. rewrite app_assoc. reflexivity.
Qed.

(* the fresh symbol expands to the concatenation of the two halves *)
Lemma expand_new_sym rules t a b xa xb :
  expand_sym rules t (length rules) a = Some xa ->
  expand_sym rules t (length rules) b = Some xb ->
  expand_sym (rules ++ [(a, b)]) t (S (length rules)) (t + lenN rules) = Some (xa ++ xb).
Proof.
  intros Ha Hb. rewrite expand_sym_eq.
  destruct (N.ltb_spec (t + lenN rules) t); [lia|].
  replace (t + lenN rules - t) with (lenN rules) by lia. rewrite nthN_snoc.
  rewrite (expand_sym_mono rules [(a, b)] t _ (length rules) a xa (le_n _) Ha).
  rewrite (expand_sym_mono rules [(a, b)] t _ (length rules) b xb (le_n _) Hb). reflexivity.
Qed.

Lemma replace_pairs_eq a b n mask x y rest :
  replace_pairs a b n mask (x :: y :: rest) =
  if hd false mask && (x =? a) && (y =? b)
  then n :: replace_pairs a b n (tl (tl mask)) rest
  else x :: replace_pairs a b n (tl mask) (y :: rest).
Proof. reflexivity. Qed.

Lemma replace_pairs_lossless rules t a b : forall seq mask l,
  expand_list rules t (length rules) seq = Some l ->
  expand_list (rules ++ [(a, b)]) t (S (length rules))
    (replace_pairs a b (t + lenN rules) mask seq) = Some l.
Proof.
  induction seq as [|x|x y rest IH1 IH2] using list_ind2; intros mask l H.
  - exact H.
  - cbn [replace_pairs]. eapply expand_list_mono; [|exact H]. lia.
  - rewrite replace_pairs_eq.
    destruct (hd false mask && (x =? a) && (y =? b)) eqn:Ecase.
    + assert (x = a /\ y = b) as [-> ->] by lia.
      cbn [expand_list] in H.
      destruct (expand_sym rules t (length rules) a) as [xa|] eqn:Ea; [|discriminate].
      destruct (expand_sym rules t (length rules) b) as [xb|] eqn:Eb; [|discriminate].
      destruct (expand_list rules t (length rules) rest) as [lr|] eqn:Er; [|discriminate].
      cbn [expand_list].
      rewrite (expand_new_sym rules t a b xa xb Ea Eb).
      rewrite (IH1 (tl (tl mask)) lr eq_refl).
      inversion H; subst. rewrite app_assoc. reflexivity.
    + rewrite expand_list_cons in H.
      destruct (expand_sym rules t (length rules) x) as [xx|] eqn:Ex; [|discriminate].
      destruct (expand_list rules t (length rules) (y :: rest)) as [lr|] eqn:Er; [|discriminate].
      rewrite expand_list_cons.
      rewrite (expand_sym_mono rules [(a, b)] t (length rules) (S (length rules)) x xx) by (lia || assumption).
      rewrite (IH2 (tl mask) lr eq_refl). exact H.
Qed.

Lemma length_snoc {A} (l : list A) x : length (l ++ [x]) = S (length l).
Proof. rewrite app_length. cbn [length]. lia. Qed.

(* one step of the abstract compressor, for ANY pair and ANY set of non-overlapping occurrences,
   leaves the expansion unchanged *)
Theorem rp_step_lossless t a b mask st l :
  expand_state t st = Some l -> expand_state t (apply_step t a b mask st) = Some l.
Proof.
  unfold expand_state, expand_seq, apply_step; cbn [rp_rules rp_seq]. intros H.
  rewrite length_snoc. apply replace_pairs_lossless. exact H.
Qed.

(* ---------------------------------------------------------------------------------------- *)
(* invariants *)

Definition rules_wf (t : N) (rules : list rule) : Prop :=
  forall i a b, nthN rules i = Some (a, b) -> a <> 0 /\ b <> 0 /\ a < t + i /\ b < t + i.

Definition seq_wf (t : N) (rules : list rule) (seq : list N) : Prop :=
  Forall (fun s => s < t + lenN rules) seq.

Definition wf_state (t : N) (st : rp_state) : Prop :=
  rules_wf t (rp_rules st) /\ seq_wf t (rp_rules st) (rp_seq st).

Lemma replace_pairs_Forall (P : N -> Prop) a b n : P n -> forall seq mask,
  Forall P seq -> Forall P (replace_pairs a b n mask seq).
Proof.
  intros Hn. induction seq as [|x|x y rest IH1 IH2] using list_ind2; intros mask H.
  - constructor.
  - exact H.
  - rewrite replace_pairs_eq. inversion H as [|? ? Hx Hr]; subst. inversion Hr as [|? ? Hy Hr2]; subst.
    destruct (hd false mask && (x =? a) && (y =? b)).
    + constructor; [exact Hn | apply IH1; exact Hr2].
    + constructor; [exact Hx | apply IH2; exact Hr].
Qed.

Lemma rules_wf_snoc t rules a b :
  rules_wf t rules -> a <> 0 -> b <> 0 -> a < t + lenN rules -> b < t + lenN rules ->
  rules_wf t (rules ++ [(a, b)]).
Proof.
  intros Hw Ha Hb Hal Hbl i a' b' Hi.
  destruct (N.lt_ge_cases i (lenN rules)) as [Hlt|Hge].
  - rewrite nthN_app_l in Hi by assumption. exact (Hw _ _ _ Hi).
  - pose proof (nthN_Some_lt _ _ _ Hi) as Hlt. rewrite lenN_snoc in Hlt.
    assert (i = lenN rules) by lia. subst i. rewrite nthN_snoc in Hi. inversion Hi; subst. auto.
Qed.

Lemma rp_step_wf t st st' : wf_state t st -> rp_step t st st' -> wf_state t st'.
Proof.
  intros [Hr Hs] Hstep. destruct Hstep as [a b mask st (Ha & Hb & Hal & Hbl)].
  unfold wf_state, apply_step; cbn [rp_rules rp_seq]. split.
  - apply rules_wf_snoc; assumption.
  - unfold seq_wf. rewrite lenN_snoc. apply replace_pairs_Forall; [lia|].
    eapply Forall_impl; [|exact Hs]. cbn beta. intros; lia.
Qed.

Lemma init_wf t input : Forall (fun s => s < t) input -> wf_state t (init_state input).
Proof.
  intros H. split; cbn [init_state rp_rules rp_seq].
  - intros i a b Hi. unfold nthN in Hi. destruct (N.to_nat i); discriminate.
  - unfold seq_wf. rewrite lenN_nil. eapply Forall_impl; [|exact H]. cbn beta. intros; lia.
Qed.

Lemma rp_run_wf t st st' : wf_state t st -> rp_run t st st' -> wf_state t st'.
Proof.
  intros Hw Hrun. induction Hrun as [|st1 st2 st3 Hrun IH Hstep]; [assumption|].
  exact (rp_step_wf t st2 st3 (IH Hw) Hstep).
Qed.

(* no rule ever contains the terminator *)
Theorem rp_no_zero_in_rules t input st :
  Forall (fun s => s < t) input -> rp_run t (init_state input) st ->
  forall a b, In (a, b) (rp_rules st) -> a <> 0 /\ b <> 0.
Proof.
  intros Hin Hrun a b Hab.
  destruct (rp_run_wf t _ _ (init_wf t input Hin) Hrun) as [Hr _].
  apply In_nth_error in Hab. destruct Hab as [k Hk].
  specialize (Hr (N.of_nat k) a b). unfold nthN in Hr. rewrite Nat2N.id in Hr.
  destruct (Hr Hk) as (H1 & H2 & _). auto.
Qed.

(* rule i only mentions symbols smaller than its own symbol t + i *)
Theorem rp_rules_backwards t input st :
  Forall (fun s => s < t) input -> rp_run t (init_state input) st ->
  forall i a b, nthN (rp_rules st) i = Some (a, b) -> a < t + i /\ b < t + i.
Proof.
  intros Hin Hrun i a b Hi.
  destruct (rp_run_wf t _ _ (init_wf t input Hin) Hrun) as [Hr _].
  destruct (Hr i a b Hi) as (_ & _ & H1 & H2). auto.
Qed.

(* hence the expansion terminates within fuel = number of rules *)
Lemma expand_fuel_enough_gen t rules : rules_wf t rules -> forall f s,
  N.of_nat f <= lenN rules -> s < t + N.of_nat f ->
  exists l, expand_sym rules t f s = Some l.
Proof.
  intros Hw. induction f as [|f IH]; intros s Hf Hs; rewrite expand_sym_eq.
  - destruct (N.ltb_spec s t); [eauto | lia].
  - destruct (N.ltb_spec s t); [eauto|].
    destruct (nthN_lt_Some rules (s - t)) as [[a b] Hab]; [lia|]. rewrite Hab.
    destruct (Hw _ _ _ Hab) as (_ & _ & Ha & Hb).
    destruct (IH a) as [xa Hxa]; [lia|lia|]. destruct (IH b) as [xb Hxb]; [lia|lia|].
    rewrite Hxa, Hxb. eauto.
Qed.

Theorem expand_fuel_enough t rules s :
  rules_wf t rules -> s < t + lenN rules -> exists l, expand_sym rules t (length rules) s = Some l.
Proof. intros Hw Hs. apply expand_fuel_enough_gen; [assumption | unfold lenN; lia | unfold lenN in *; lia]. Qed.

Lemma expand_seq_total t rules seq :
  rules_wf t rules -> seq_wf t rules seq -> exists l, expand_seq rules t seq = Some l.
Proof.
  intros Hw Hs. unfold expand_seq. induction Hs as [|s r Hs Hr IH]; cbn [expand_list]; [eauto|].
  destruct (expand_fuel_enough t rules s Hw Hs) as [x Hx]. destruct IH as [y Hy].
  rewrite Hx, Hy. eauto.
Qed.

Lemma expand_init t input : Forall (fun s => s < t) input -> expand_state t (init_state input) = Some input.
Proof.
  unfold expand_state, expand_seq; cbn [init_state rp_rules rp_seq length].
  induction 1 as [|s r Hs Hr IH]; cbn [expand_list]; [reflexivity|].
  rewrite expand_sym_eq. destruct (N.ltb_spec s t); [|lia]. rewrite IH. reflexivity.
Qed.

(* any finite number of steps *)
Theorem rp_run_lossless t input st :
  Forall (fun s => s < t) input -> rp_run t (init_state input) st -> expand_state t st = Some input.
Proof.
  intros Hin Hrun. remember (init_state input) as st0 eqn:E.
  induction Hrun as [|st1 st2 st3 Hrun IH Hstep].
  - subst. apply expand_init. exact Hin.
  - destruct Hstep. apply rp_step_lossless. apply IH. exact E.
Qed.

(* the executable run is an instance of the relation *)
Lemma step_okb_spec t a b st : step_okb t a b st = true <-> step_ok t a b st.
Proof. unfold step_okb, step_ok. split; intros H; lia. Qed.

Lemma run_steps_sound t : forall steps st st', run_steps t steps st = Some st' -> rp_run t st st'.
Proof.
  induction steps as [|[[a b] mask] more IH]; intros st st' H; cbn [run_steps] in H.
  - inversion H; subst. constructor.
  - destruct (step_okb t a b st) eqn:Eok; [|discriminate].
    apply step_okb_spec in Eok. specialize (IH _ _ H).
    clear H. remember (apply_step t a b mask st) as st1 eqn:E1.
    induction IH as [|s1 s2 s3 Hrun IHr Hstep].
    + subst. eapply rp_run_step; [apply rp_run_refl|]. constructor. exact Eok.
    + eapply rp_run_step; [apply IHr; exact E1 | exact Hstep].
Qed.

(* ---------------------------------------------------------------------------------------- *)
(* bits *)

Lemma bits32_gt n : n < 2 ^ 32 -> n < 2 ^ bits32 n.
Proof. intros H. unfold bits32, u32. rewrite N.mod_small by exact H. apply N.size_gt. Qed.

Lemma rules_wf_flat t rules : rules_wf t rules -> forall s, In s (flat_rules rules) -> s <> 0 /\ s < t + lenN rules.
Proof.
  intros Hw s Hs. unfold flat_rules in Hs. apply in_flat_map in Hs. destruct Hs as [[a b] [Hab Hs]].
  apply In_nth_error in Hab. destruct Hab as [k Hk].
  assert (Hlt : (k < length rules)%nat) by (apply (proj1 (nth_error_Some rules k)); intros E; pose proof (eq_trans (eq_sym E) Hk); discriminate).
  specialize (Hw (N.of_nat k) a b). unfold nthN in Hw. rewrite Nat2N.id in Hw.
  destruct (Hw Hk) as (H1 & H2 & H3 & H4). unfold lenN.
  cbn [fst snd In] in Hs. destruct Hs as [<-|[<-|[]]]; split; (assumption || lia).
Qed.

(* the number of bits reported (getBits, and the width of G and of the sequence containers)
   suffices for every terminal and every rule identifier in use *)
Theorem rp_bits_suffice_wf t st :
  wf_state t st -> t + lenN (rp_rules st) < 2 ^ 32 ->
  forall s, In s (rp_seq st ++ flat_rules (rp_rules st)) -> s < 2 ^ rp_bits t (rp_rules st).
Proof.
  intros [Hr Hs] Hlt s Hin. unfold rp_bits.
  assert (Hs' : s < lenN (rp_rules st) + t).
  { apply in_app_or in Hin. destruct Hin as [Hin|Hin].
    - unfold seq_wf in Hs. rewrite Forall_forall in Hs. specialize (Hs _ Hin). cbn beta in Hs. lia.
    - destruct (rules_wf_flat t _ Hr s Hin). lia. }
  eapply N.lt_trans; [exact Hs'|]. apply bits32_gt. lia.
Qed.

Theorem rp_bits_suffice t input st :
  Forall (fun s => s < t) input -> rp_run t (init_state input) st ->
  t + lenN (rp_rules st) < 2 ^ 32 ->
  forall s, In s (rp_seq st ++ flat_rules (rp_rules st)) -> s < 2 ^ rp_bits t (rp_rules st).
Proof.
  intros Hin Hrun. apply rp_bits_suffice_wf. eapply rp_run_wf; [|exact Hrun]. apply init_wf. exact Hin.
Qed.

(* ---------------------------------------------------------------------------------------- *)
(* terminators: no rule expands to a string containing 0, so cutting the compacted sequence
   at its 0 symbols cuts the text at the same places *)

Lemma expand_no_zero t rules : rules_wf t rules -> forall f s l,
  s <> 0 -> expand_sym rules t f s = Some l -> ~ In 0 l.
Proof.
  intros Hw. induction f as [|f IH]; intros s l Hs H; rewrite expand_sym_eq in H.
  - destruct (s <? t); [|discriminate]. inversion H; subst. intros [E|[]]. congruence.
  - destruct (s <? t). { inversion H; subst. intros [E|[]]. congruence. }
    destruct (nthN rules (s - t)) as [[a b]|] eqn:E; [|discriminate].
    destruct (Hw _ _ _ E) as (Ha & Hb & _).
    destruct (expand_sym rules t f a) as [x|] eqn:Ea; [|discriminate].
    destruct (expand_sym rules t f b) as [y|] eqn:Eb; [|discriminate].
    inversion H; subst. intros Hin. apply in_app_or in Hin. destruct Hin as [Hin|Hin].
    + exact (IH a x Ha Ea Hin).
    + exact (IH b y Hb Eb Hin).
Qed.

Lemma split0_nonempty l : exists h tl, split0 l = h :: tl.
Proof.
  induction l as [|x r IH]; cbn [split0]; [eauto|].
  destruct (x =? 0); [eauto|]. destruct IH as (h & tl & ->). eauto.
Qed.

Lemma split0_app_nozero u v h tl : ~ In 0 u -> split0 v = h :: tl -> split0 (u ++ v) = (u ++ h) :: tl.
Proof.
  intros Hu Hv. induction u as [|x u IH]; cbn [app split0]; [exact Hv|].
  destruct (N.eqb_spec x 0) as [->|Hx]; [exfalso; apply Hu; left; reflexivity|].
  rewrite IH; [reflexivity|]. intros Hin. apply Hu. right. exact Hin.
Qed.

Theorem strings_addressable t rules : rules_wf t rules -> 1 <= t -> forall cseq l,
  expand_seq rules t cseq = Some l ->
  Forall2 (fun piece str => expand_seq rules t piece = Some str) (split0 cseq) (split0 l).
Proof.
  intros Hw Ht. unfold expand_seq. induction cseq as [|s r IH]; intros l H; cbn [expand_list] in H.
  - inversion H; subst. cbn [split0]. constructor; [reflexivity | constructor].
  - destruct (expand_sym rules t (length rules) s) as [x|] eqn:Es; [|discriminate].
    destruct (expand_list rules t (length rules) r) as [y|] eqn:Er; [|discriminate].
    inversion H; subst. specialize (IH y eq_refl).
    destruct (N.eqb_spec s 0) as [->|Hs].
    + rewrite expand_sym_eq in Es. destruct (N.ltb_spec 0 t); [|lia]. inversion Es; subst.
      cbn [app split0 N.eqb]. constructor; [reflexivity | exact IH].
    + cbn [split0]. destruct (N.eqb_spec s 0); [contradiction|].
      destruct (split0_nonempty r) as (h & tl & Hr). destruct (split0_nonempty y) as (h' & tl' & Hy).
      rewrite Hr. rewrite Hr, Hy in IH. inversion IH as [|? ? ? ? Hh Htl]; subst.
      rewrite (split0_app_nozero x y h' tl' (expand_no_zero t rules Hw _ _ _ Hs Es) Hy).
      constructor; [|exact Htl]. cbn [expand_list]. rewrite Es, Hh. reflexivity.
Qed.

(* ---------------------------------------------------------------------------------------- *)
(* B. the checker *)

(* C20 for one concrete grammar *)
Definition grammar_valid (input : list N) (t : N) (rules : list rule) (cseq : list N) : Prop :=
  1 <= t /\
  (* no rule contains the terminator; rule i refers only to symbols below t + i *)
  rules_wf t rules /\
  seq_wf t rules cseq /\
  (* expanding the compacted sequence reproduces the input symbol for symbol *)
  expand_seq rules t cseq = Some input /\
  (* the reported width suffices for every symbol stored *)
  (forall s, In s (cseq ++ flat_rules rules) -> s < 2 ^ rp_bits t rules) /\
  (* each string stays individually addressable: cutting the compacted sequence at 0 and expanding
     the pieces gives exactly the input strings *)
  Forall2 (fun piece str => expand_seq rules t piece = Some str) (split0 cseq) (split0 input).

Lemma rules_ok_from_spec t : forall rules i, rules_ok_from t i rules = true ->
  forall k a b, nthN rules k = Some (a, b) -> a <> 0 /\ b <> 0 /\ a < t + (i + k) /\ b < t + (i + k).
Proof.
  induction rules as [|[a0 b0] r IH]; intros i H k a b Hk.
  - unfold nthN in Hk. destruct (N.to_nat k); discriminate.
  - cbn [rules_ok_from] in H.
    assert (H' : rules_ok_from t (i + 1) r = true) by lia.
    destruct (N.eq_dec k 0) as [->|Hk0].
    + unfold nthN in Hk. cbn in Hk. inversion Hk; subst. lia.
    + unfold nthN in Hk. replace (N.to_nat k) with (S (N.to_nat (k - 1))) in Hk by lia. cbn [nth_error] in Hk.
      specialize (IH (i + 1) H' (k - 1) a b Hk). lia.
Qed.

Lemma list_eqb_eq : forall x y, list_eqb x y = true -> x = y.
Proof.
  induction x as [|a x IH]; intros [|b y] H; cbn [list_eqb] in H; try discriminate; [reflexivity|].
  assert (a = b) by lia. assert (list_eqb x y = true) by lia. f_equal; auto.
Qed.

Lemma list_eqb_refl : forall x, list_eqb x x = true.
Proof. induction x as [|a x IH]; cbn [list_eqb]; [reflexivity|]. rewrite IH. lia. Qed.

Theorem check_grammar_sound input t rules cseq :
  check_grammar input t rules cseq = true -> grammar_valid input t rules cseq.
Proof.
  unfold check_grammar. intros H.
  destruct (expand_seq rules t cseq) as [l|] eqn:Ex; [|lia].
  assert (H1 : 1 <= t) by lia.
  assert (H2 : rules_ok t rules = true) by lia.
  assert (H3 : seq_ok t rules cseq = true) by lia.
  assert (H4 : bits_ok t rules cseq = true) by lia.
  assert (H5 : list_eqb l input = true) by lia.
  apply list_eqb_eq in H5. subst l.
  assert (Hw : rules_wf t rules).
  { intros i a b Hi. pose proof (rules_ok_from_spec t rules 0 H2 i a b Hi). lia. }
  unfold grammar_valid. split; [exact H1|]. split; [exact Hw|]. split.
  { unfold seq_wf, seq_ok in *. rewrite forallb_forall in H3. apply Forall_forall. intros s Hs.
    specialize (H3 s Hs). cbn beta in H3. lia. }
  split; [reflexivity|]. split.
  { unfold bits_ok in H4. rewrite forallb_forall in H4. intros s Hs. specialize (H4 s Hs). cbn beta in H4. lia. }
  apply strings_addressable; assumption.
Qed.

(* the abstract compressor always produces a grammar the checker's specification accepts:
   C20 for every input and every sequence of legal choices *)
Theorem rp_run_valid t input st :
  1 <= t -> Forall (fun s => s < t) input -> rp_run t (init_state input) st ->
  t + lenN (rp_rules st) < 2 ^ 32 ->
  grammar_valid input t (rp_rules st) (rp_seq st).
Proof.
  intros Ht Hin Hrun Hlt.
  pose proof (rp_run_wf t _ _ (init_wf t input Hin) Hrun) as Hwf.
  pose proof (rp_run_lossless t input st Hin Hrun) as Hex. unfold expand_state in Hex.
  destruct Hwf as [Hr Hs].
  unfold grammar_valid. split; [exact Ht|]. split; [exact Hr|]. split; [exact Hs|]. split; [exact Hex|]. split.
  - apply rp_bits_suffice_wf; [split; assumption | exact Hlt].
  - apply strings_addressable; assumption.
Qed.

(* the checker is complete for valid grammars: it never rejects what the specification accepts *)
Lemma rules_ok_from_complete t : forall rules i,
  (forall k a b, nthN rules k = Some (a, b) -> a <> 0 /\ b <> 0 /\ a < t + (i + k) /\ b < t + (i + k)) ->
  rules_ok_from t i rules = true.
Proof.
  induction rules as [|[a0 b0] r IH]; intros i H; cbn [rules_ok_from]; [reflexivity|].
  pose proof (H 0 a0 b0 eq_refl) as H0.
  rewrite (IH (i + 1)).
  - lia.
  - intros k a b Hk. specialize (H (k + 1) a b).
    unfold nthN in H, Hk. replace (N.to_nat (k + 1)) with (S (N.to_nat k)) in H by lia.
    specialize (H Hk). lia.
Qed.

Theorem check_grammar_complete input t rules cseq :
  grammar_valid input t rules cseq -> check_grammar input t rules cseq = true.
Proof.
  intros (H1 & Hw & Hs & Hex & Hb & _). unfold check_grammar. rewrite Hex, list_eqb_refl.
  assert (rules_ok t rules = true).
  { apply rules_ok_from_complete. intros k a b Hk. specialize (Hw k a b Hk). lia. }
  assert (seq_ok t rules cseq = true).
  { unfold seq_ok. apply forallb_forall. intros s Hin. unfold seq_wf in Hs. rewrite Forall_forall in Hs.
    specialize (Hs s Hin). cbn beta in Hs. lia. }
  assert (bits_ok t rules cseq = true).
  { unfold bits_ok. apply forallb_forall. intros s Hin. specialize (Hb s Hin). lia. }
  lia.
Qed.
