(* Pool: PROGRESS / termination of the worker pool LTS of PoolDefs.v.

   PoolProofs.v proves safety and deadlock freedom of the fixed variant.
   Deadlock freedom alone does not exclude infinite executions.  This file
   gives a natural-number variant [mu] such that

   - every EFFECTIVE step [step fixed s tid = Some s'] strictly decreases [mu]
     (both variants; [pool_nonstutter_decreases]);
   - an effective spurious wake-up raises [mu] by exactly 4 (the four steps
     re-acquire / stopped() / queue.empty() / block of a futile wake-up);
   - a skipped pick (a disabled thread is scheduled, or [Spur i] on a worker
     that is not asleep) leaves the state unchanged.

   So the ONLY sources of unbounded behaviour are spurious wake-ups and
   skipped picks.  In particular "a worker is woken although its predicate is
   false and goes back to sleep" is NOT unbounded: every such futile round is
   paid for by one notify_all, and the number of notify_all calls is bounded
   (one per add_task / stop_all_workers, one per executed task, one per exiting
   worker); the variant budgets 4*W for every notify_all still to come.

   Termination of the fixed variant follows for every schedule with finitely
   many spurious wake-ups whose tail schedules every thread at least once in
   every window of length K ([pool_terminates_fixed]); the pinned variant has a
   reachable state from which no Spur-free schedule moves at all
   ([pool_pinned_fair_nontermination]). *)
From Coq Require Import List NArith Bool Arith Lia Permutation Wf_nat.
From LibCSD Require Import Base PoolDefs PoolProofs.
Import ListNotations.

(* ==== an additional invariant: [continue] with an empty queue is dead code ==== *)
(* Between the wait predicate and pop() the worker holds shared_mutex, the queue
   only shrinks by pop() (owner only) and stop flags are never cleared: after
   the wait returned, [stopped || !empty] still holds at WPostStop, the queue is
   non-empty at WContEmpty, and WContUnlock is never reached.  (Both variants.) *)
Definition ok5 (q : list N) (st : list bool) (i : nat) (pc : wpc) : Prop :=
  match pc with
  | WPostStop => stopAt st i = true \/ q <> []
  | WContEmpty => q <> []
  | WContUnlock => False
  | _ => True
  end.

Definition Inv5 (s : state) : Prop :=
  forall i pc, nth_error (wpcs s) i = Some pc -> ok5 (queue s) (stops s) i pc.

Lemma ok5_nohold q st i pc : holds_pc pc = false -> ok5 q st i pc.
Proof. destruct pc; simpl; auto; discriminate. Qed.

Lemma ok5_wake q st i pc : ok5 q st i pc -> ok5 q st i (wake pc).
Proof. destruct pc; simpl; auto. Qed.

Lemma ok5_mono q q' st st' i pc :
  (q <> [] -> q' <> []) -> (stopAt st i = true -> stopAt st' i = true) ->
  ok5 q st i pc -> ok5 q' st' i pc.
Proof. intros Hq Hs. destruct pc; simpl; auto. intros [H|H]; auto. Qed.

(* generic shape of a worker step for Inv5 *)
Lemma wstep5_frame fixed s i pc pc' (wk : bool) s' :
  Inv fixed s -> Inv5 s -> nth_error (wpcs s) i = Some pc ->
  wpcs s' = (if wk then map wake (upd i pc' (wpcs s)) else upd i pc' (wpcs s)) ->
  stops s' = stops s ->
  ok5 (queue s') (stops s) i pc' ->
  (queue s' = queue s \/ owner s = Some (S i)) ->
  Inv5 s'.
Proof.
  intros I I5 Hpc Hw Hst Hnew Hq j pcj Hj. rewrite Hst. rewrite Hw in Hj.
  assert (Hold : forall pc0, j <> i -> nth_error (wpcs s) j = Some pc0 -> ok5 (queue s') (stops s) j pc0).
  { intros pc0 Hn H0. destruct Hq as [->|Ho]; [apply I5; auto|].
    apply ok5_nohold. destruct (holds_pc pc0) eqn:Eh; auto.
    destruct (i_w _ _ I _ _ H0) as [Hm _]. apply Hm in Eh. congruence. }
  destruct wk.
  - apply nth_error_map_inv in Hj. destruct Hj as [x [Hx ->]]. apply ok5_wake.
    apply nth_error_upd_inv in Hx. destruct Hx as [[-> ->]|[Hn Hx]]; auto.
  - apply nth_error_upd_inv in Hj. destruct Hj as [[-> ->]|[Hn Hx]]; auto.
Qed.

Lemma wstep_inv5 fixed s i s' : Inv fixed s -> Inv5 s -> wstep s i = Some s' -> Inv5 s'.
Proof.
  intros I I5 H. unfold wstep in H.
  destruct (nth_error (wpcs s) i) as [pc|] eqn:Hpc; [|discriminate].
  assert (H5 := I5 _ _ Hpc).
  destruct (i_w _ _ I _ _ Hpc) as [Hm _].
  unfold stopped, qempty in H. fold (stopAt (stops s) i) in H.
  destruct pc; simpl in H5, Hm;
    try discriminate;
    try (destruct (owner s) eqn:Eo; [discriminate|]).
  all: destruct (stopAt (stops s) i) eqn:Es; destruct (queue s) as [|t0 q0] eqn:Eq;
    inversion H; subst s'; clear H.
  all: first [ eapply (wstep5_frame fixed s i _ _ false _ I I5 Hpc); [reflexivity|reflexivity| |]
             | eapply (wstep5_frame fixed s i _ _ true _ I I5 Hpc); [reflexivity|reflexivity| |] ].
  all: simpl; rewrite ?Eq; auto; try (left; reflexivity); try (right; discriminate); try discriminate.
  all: try (destruct H5 as [?|?]; congruence); try congruence.
  all: right; apply Hm; reflexivity.
Qed.

Lemma spurious_inv5 s i s' : Inv5 s -> spurious s i = Some s' -> Inv5 s'.
Proof.
  intros I5 H. unfold spurious in H.
  destruct (nth_error (wpcs s) i) as [pc|] eqn:Hpc; [|discriminate].
  destruct pc; try discriminate. inversion H; subst s'; clear H.
  intros j pcj Hj. simpl in *.
  apply nth_error_upd_inv in Hj. destruct Hj as [[-> ->]|[Hn Hx]]; simpl; auto.
Qed.

(* generic shape of a producer step for Inv5 *)
Lemma pstep5_frame s (wk : bool) s' :
  Inv5 s ->
  wpcs s' = (if wk then map wake (wpcs s) else wpcs s) ->
  (queue s <> [] -> queue s' <> []) ->
  (forall i, stopAt (stops s) i = true -> stopAt (stops s') i = true) ->
  Inv5 s'.
Proof.
  intros I5 Hw Hq Hst j pcj Hj. rewrite Hw in Hj.
  destruct wk.
  - apply nth_error_map_inv in Hj. destruct Hj as [x [Hx ->]]. apply ok5_wake.
    eapply ok5_mono; [exact Hq|apply Hst|]. apply I5; auto.
  - eapply ok5_mono; [exact Hq|apply Hst|]. apply I5; auto.
Qed.

Lemma pstep_inv5 fixed s s' : Inv5 s -> pstep fixed s = Some s' -> Inv5 s'.
Proof.
  intros I5 H. unfold pstep in H.
  destruct (prog s) as [|a rest] eqn:Hprog; [discriminate|].
  destruct (pp s) eqn:Hpp.
  - destruct a; [| |inversion H; subst s'; clear H; apply (pstep5_frame s false); auto];
      (destruct fixed; [destruct (owner s); [discriminate|]|]);
      inversion H; subst s'; clear H; apply (pstep5_frame s false); auto.
  - destruct a; [| |discriminate]; inversion H; subst s'; clear H;
      apply (pstep5_frame s false); simpl; auto.
    intros _. destruct (queue s); discriminate.
  - destruct (k <? length (wpcs s)); inversion H; subst s'; clear H;
      apply (pstep5_frame s false); simpl; auto.
    intros i. unfold stopAt. apply nth_upd_true.
  - destruct fixed; inversion H; subst s'; clear H; apply (pstep5_frame s false); auto.
  - inversion H; subst s'; clear H. apply (pstep5_frame s true); auto.
  - destruct (k <? length (wpcs s)); [destruct (exited s k); [|discriminate]|];
      inversion H; subst s'; clear H; apply (pstep5_frame s false); auto.
Qed.

(* all invariants needed for progress, closed under [exec] *)
Record Good (fixed : bool) (s : state) : Prop := { g_inv : Inv fixed s; g_inv5 : Inv5 s }.

Lemma step_good fixed s tid s' : Good fixed s -> step fixed s tid = Some s' -> Good fixed s'.
Proof.
  intros [I I5] E. destruct tid; simpl in E; constructor.
  - eapply pstep_inv; eauto.
  - eapply pstep_inv5; eauto.
  - eapply wstep_inv; eauto.
  - eapply wstep_inv5; eauto.
Qed.

Lemma exec_good fixed s p : Good fixed s -> Good fixed (exec fixed s p).
Proof.
  intros G. destruct p as [tid|i]; simpl.
  - destruct (step fixed s tid) as [s'|] eqn:E; auto. eapply step_good; eauto.
  - destruct (spurious s i) as [s'|] eqn:E; auto. destruct G as [I I5]. constructor.
    + eapply spurious_inv; eauto.
    + eapply spurious_inv5; eauto.
Qed.

Lemma init_good fixed W script : wf_script script = true -> Good fixed (init W script).
Proof.
  intros Hwf. constructor; [apply init_inv; auto|].
  intros i pc H. simpl in H. apply nth_error_repeat in H. destruct H as [-> _]. exact I.
Qed.

Lemma run_good fixed l s : Good fixed s -> Good fixed (run fixed l s).
Proof. apply run_invariant. intros; apply exec_good; auto. Qed.

Lemma reachable_good fixed W script s :
  wf_script script = true -> reachable fixed W script s -> Good fixed s.
Proof. intros Hwf [sched ->]. apply run_good, init_good; auto. Qed.

(* WContUnlock ("continue" because the queue is empty after the wait) is dead code *)
Theorem pool_continue_unreachable fixed W script s i :
  wf_script script = true -> reachable fixed W script s ->
  nth_error (wpcs s) i <> Some WContUnlock.
Proof.
  intros Hwf R H. apply (g_inv5 _ _ (reachable_good _ _ _ _ Hwf R)) in H. exact H.
Qed.

(* ==== the variant =========================================================== *)
(* [K] = 4 * W is the budget reserved for one notify_all: it can wake at most W
   sleeping workers, and a woken worker whose predicate is false needs exactly 4
   steps (re-acquire, stopped(), queue.empty(), block) to be asleep again. *)
Definition rank (K : nat) (pc : wpc) : nat :=
  match pc with
  | WExited => 0
  | WFinalNotify => K + 1
  | WBreakUnlock => K + 2
  | WPop => K + 1
  | WContEmpty => K + 2
  | WPostEmpty => K + 3
  | WPostStop => K + 4
  | WSleep => K + 3
  | WBlock => K + 4
  | WPredEmpty => K + 5
  | WPredStop => K + 6
  | WLock | WWoken => K + 7
  | WLoopEmpty => K + 8
  | WLoopStop => K + 9
  | WContUnlock => K + 10
  | WRun _ => K + 10
  | WNotify _ => 2 * K + 11
  | WUnlock _ => 2 * K + 12
  end.

(* cost of one queued task: pop .. unlock, notify_all (K), run, back to the loop head *)
Definition qcost (K : nat) : nat := K + 12.

(* cost of a complete producer action / of the rest of the current one *)
Definition act_full (W K : nat) (a : pact) : nat :=
  match a with
  | AddTask _ => 2 * K + 16        (* lock, push (qcost), unlock, notify (K) *)
  | StopAll => W + K + 5           (* lock, W+1 loop steps, unlock, notify (K) *)
  | WaitWorkers => W + 2           (* W+1 join steps *)
  end.
Definition act_cur (W K : nat) (a : pact) (p : ppc) : nat :=
  match p with
  | PStart => act_full W K a
  | PHold => match a with AddTask _ => 2 * K + 15 | StopAll => W + K + 4 | WaitWorkers => 0 end
  | PStopLoop k => (W - k) + K + 3
  | PRelease => K + 2
  | PNotify => K + 1
  | PJoin k => (W - k) + 1
  end.
Definition pmeasure (W K : nat) (p : list pact) (c : ppc) : nat :=
  match p with [] => 0 | a :: r => act_cur W K a c + sumf (act_full W K) r end.

Definition mu (s : state) : nat :=
  let W := length (wpcs s) in
  let K := 4 * W in
  pmeasure W K (prog s) (pp s) + qcost K * length (queue s) + sumf (rank K) (wpcs s).

Lemma rank_wake K pc : rank K (wake pc) <= rank K pc + 4.
Proof. destruct pc; simpl; lia. Qed.

Lemma sumf_wake K l : sumf (rank K) (map wake l) <= sumf (rank K) l + 4 * length l.
Proof.
  induction l as [|x l IH]; simpl; auto. assert (H := rank_wake K x). lia.
Qed.

(* ---- shape of the change of [mu] under a worker step ----------------------- *)
Lemma mu_w_shape s i pc pc' (wk : bool) s' :
  nth_error (wpcs s) i = Some pc ->
  wpcs s' = (if wk then map wake (upd i pc' (wpcs s)) else upd i pc' (wpcs s)) ->
  prog s' = prog s -> pp s' = pp s ->
  mu s' + rank (4 * length (wpcs s)) pc + qcost (4 * length (wpcs s)) * length (queue s)
  <= mu s + rank (4 * length (wpcs s)) pc' + qcost (4 * length (wpcs s)) * length (queue s')
     + (if wk then 4 * length (wpcs s) else 0).
Proof.
  intros Hpc Hw Hp Hc. unfold mu. rewrite Hp, Hc.
  assert (Hl : length (wpcs s') = length (wpcs s)).
  { rewrite Hw. destruct wk; rewrite ?map_length, upd_length; auto. }
  rewrite Hl. set (K := 4 * length (wpcs s)).
  assert (Hu := sumf_upd (rank K) (wpcs s) i pc pc' Hpc).
  assert (Hs : sumf (rank K) (wpcs s') <= sumf (rank K) (upd i pc' (wpcs s)) + (if wk then K else 0)).
  { rewrite Hw. destruct wk; [|lia].
    assert (Hk := sumf_wake K (upd i pc' (wpcs s))). rewrite upd_length in Hk. fold K in Hk. exact Hk. }
  generalize dependent (qcost K * length (queue s)). generalize (qcost K * length (queue s')).
  intros; lia.
Qed.

Lemma wstep_decreases s i s' : Inv5 s -> wstep s i = Some s' -> mu s' < mu s.
Proof.
  intros I5 H. unfold wstep in H.
  destruct (nth_error (wpcs s) i) as [pc|] eqn:Hpc; [|discriminate].
  assert (H5 := I5 _ _ Hpc).
  unfold stopped, qempty in H.
  destruct pc; simpl in H5;
    try discriminate;
    try (destruct (owner s) eqn:Eo; [discriminate|]).
  all: destruct (nth i (stops s) false) eqn:Es; destruct (queue s) as [|t0 q0] eqn:Eq;
    inversion H; subst s'; clear H.
  all: try congruence.
  all: match goal with
       | |- mu ?x < _ =>
         first [ assert (Hm := mu_w_shape s i _ _ false x Hpc eq_refl eq_refl eq_refl)
               | assert (Hm := mu_w_shape s i _ _ true x Hpc eq_refl eq_refl eq_refl) ]
       end.
  all: simpl in Hm; rewrite ?Eq in Hm; simpl in Hm; unfold qcost in Hm; lia.
Qed.

(* an effective spurious wake-up costs exactly one futile round: +4 *)
Lemma spurious_mu s i s' : spurious s i = Some s' -> mu s' = mu s + 4.
Proof.
  intros H. unfold spurious in H.
  destruct (nth_error (wpcs s) i) as [pc|] eqn:Hpc; [|discriminate].
  destruct pc; try discriminate. inversion H; subst s'; clear H.
  unfold mu; simpl. rewrite upd_length.
  assert (Hu := sumf_upd (rank (4 * length (wpcs s))) (wpcs s) i WSleep WWoken Hpc).
  simpl in Hu. simpl. lia.
Qed.

(* ---- shape of the change of [mu] under a producer step --------------------- *)
Lemma mu_p_shape s (wk : bool) s' :
  wpcs s' = (if wk then map wake (wpcs s) else wpcs s) ->
  mu s' + pmeasure (length (wpcs s)) (4 * length (wpcs s)) (prog s) (pp s)
        + qcost (4 * length (wpcs s)) * length (queue s)
  <= mu s + pmeasure (length (wpcs s)) (4 * length (wpcs s)) (prog s') (pp s')
        + qcost (4 * length (wpcs s)) * length (queue s')
        + (if wk then 4 * length (wpcs s) else 0).
Proof.
  intros Hw. unfold mu.
  assert (Hl : length (wpcs s') = length (wpcs s)).
  { rewrite Hw. destruct wk; rewrite ?map_length; auto. }
  rewrite Hl. set (K := 4 * length (wpcs s)).
  assert (Hs : sumf (rank K) (wpcs s') <= sumf (rank K) (wpcs s) + (if wk then K else 0)).
  { rewrite Hw. destruct wk; [|lia]. apply sumf_wake. }
  generalize dependent (qcost K * length (queue s)). generalize (qcost K * length (queue s')).
  intros; lia.
Qed.

Lemma pm_start W K r : pmeasure W K r PStart = sumf (act_full W K) r.
Proof. destruct r; reflexivity. Qed.

Lemma pstep_decreases fixed s s' : pstep fixed s = Some s' -> mu s' < mu s.
Proof.
  intros H. unfold pstep in H.
  destruct (prog s) as [|a rest] eqn:Hprog; [discriminate|].
  destruct (pp s) eqn:Hpp.
  - (* PStart *)
    destruct a; [| |];
      try (destruct fixed; [destruct (owner s); [discriminate|]|]);
      inversion H; subst s'; clear H;
      match goal with |- mu ?x < _ => assert (Hm := mu_p_shape s false x eq_refl) end;
      simpl in Hm; rewrite Hprog, Hpp in Hm; simpl in Hm; lia.
  - (* PHold *)
    destruct a; [| |discriminate]; inversion H; subst s'; clear H;
      match goal with |- mu ?x < _ => assert (Hm := mu_p_shape s false x eq_refl) end;
      simpl in Hm; rewrite Hprog, Hpp in Hm; simpl in Hm; rewrite ?app_length in Hm;
      simpl in Hm; unfold qcost in Hm; lia.
  - (* PStopLoop *)
    destruct (k <? length (wpcs s)) eqn:Ek; inversion H; subst s'; clear H;
      [apply Nat.ltb_lt in Ek|apply Nat.ltb_ge in Ek];
      match goal with |- mu ?x < _ => assert (Hm := mu_p_shape s false x eq_refl) end;
      simpl in Hm; rewrite Hprog, Hpp in Hm; simpl in Hm; lia.
  - (* PRelease *)
    destruct fixed; inversion H; subst s'; clear H;
      match goal with |- mu ?x < _ => assert (Hm := mu_p_shape s false x eq_refl) end;
      simpl in Hm; rewrite Hprog, Hpp in Hm; simpl in Hm; lia.
  - (* PNotify *)
    inversion H; subst s'; clear H.
    match goal with |- mu ?x < _ => assert (Hm := mu_p_shape s true x eq_refl) end.
    cbn [prog pp queue wake_all next_act] in Hm. rewrite pm_start, Hprog, Hpp in Hm.
    simpl in Hm. lia.
  - (* PJoin *)
    destruct (k <? length (wpcs s)) eqn:Ek;
      [destruct (exited s k); [|discriminate]; apply Nat.ltb_lt in Ek|apply Nat.ltb_ge in Ek];
      inversion H; subst s'; clear H;
      match goal with |- mu ?x < _ => assert (Hm := mu_p_shape s false x eq_refl) end;
      rewrite Hprog, Hpp in Hm.
    + simpl in Hm. rewrite Hprog in Hm. simpl in Hm. lia.
    + cbn [prog pp queue next_act] in Hm. rewrite pm_start in Hm. simpl in Hm. lia.
Qed.

(* ==== 1. every non-stutter step strictly decreases the variant ================ *)
(* Both variants; every script without add_task after stop_all_workers; every
   reachable state (schedules with spurious wake-ups included). *)
Theorem pool_nonstutter_decreases fixed W script s tid s' :
  wf_script script = true -> reachable fixed W script s ->
  step fixed s tid = Some s' -> mu s' < mu s.
Proof.
  intros Hwf R E. destruct tid; simpl in E.
  - eapply pstep_decreases; eauto.
  - eapply wstep_decreases; eauto. apply (g_inv5 _ _ (reachable_good _ _ _ _ Hwf R)).
Qed.

Lemma step_decreases fixed s tid s' : Good fixed s -> step fixed s tid = Some s' -> mu s' < mu s.
Proof.
  intros G E. destruct tid; simpl in E.
  - eapply pstep_decreases; eauto.
  - eapply wstep_decreases; eauto. apply (g_inv5 _ _ G).
Qed.

(* well-founded form: the effective-step relation on reachable states *)
Definition eff_step (fixed : bool) (W : nat) (script : list pact) (s' s : state) : Prop :=
  reachable fixed W script s /\ exists tid, step fixed s tid = Some s'.

Theorem pool_progress_wf fixed W script :
  wf_script script = true -> well_founded (eff_step fixed W script).
Proof.
  intros Hwf. apply (well_founded_lt_compat _ mu).
  intros s' s [R [tid E]]. eapply pool_nonstutter_decreases; eauto.
Qed.

(* ==== schedules ============================================================== *)
Definition is_spur (p : pick) : bool := match p with Spur _ => true | Go _ => false end.
Definition nspur (l : list pick) : nat := length (filter is_spur l).
Definition spur_free (l : list pick) : bool := forallb (fun p => negb (is_spur p)) l.

(* a pick is effective iff it is [Go tid] with [tid] enabled; everything else is
   either a skipped pick (state unchanged) or a spurious wake-up *)
Definition effective (fixed : bool) (s : state) (p : pick) : bool :=
  match p with Go tid => enabled fixed s tid | Spur _ => false end.
Fixpoint neff (fixed : bool) (l : list pick) (s : state) : nat :=
  match l with
  | [] => 0
  | p :: r => (if effective fixed s p then 1 else 0) + neff fixed r (exec fixed s p)
  end.

Lemma run_app fixed a b s : run fixed (a ++ b) s = run fixed b (run fixed a s).
Proof. apply fold_left_app. Qed.

Lemma reachable_run fixed W script l s :
  reachable fixed W script s -> reachable fixed W script (run fixed l s).
Proof. intros [sc ->]. exists (sc ++ l). symmetry. apply run_app. Qed.

(* the three kinds of picks *)
Lemma exec_cases fixed s p :
  Good fixed s ->
  (effective fixed s p = true /\ mu (exec fixed s p) < mu s) \/
  (effective fixed s p = false /\ exec fixed s p = s) \/
  (is_spur p = true /\ mu (exec fixed s p) = mu s + 4).
Proof.
  intros G. destruct p as [tid|i]; simpl; unfold enabled.
  - destruct (step fixed s tid) as [s'|] eqn:E; auto.
    left. split; auto. eapply step_decreases; eauto.
  - destruct (spurious s i) as [s'|] eqn:E; auto.
    right; right. split; auto. apply spurious_mu with (i := i); auto.
Qed.

Lemma exec_mu fixed s p :
  Good fixed s ->
  (if effective fixed s p then 1 else 0) + mu (exec fixed s p) <= mu s + (if is_spur p then 4 else 0).
Proof.
  intros G. destruct (exec_cases fixed s p G) as [[E H]|[[E H]|[E H]]].
  - rewrite E. lia.
  - rewrite E, H. lia.
  - rewrite E, H. destruct p; [discriminate|]. simpl. lia.
Qed.

Lemma run_mu fixed l s :
  Good fixed s -> neff fixed l s + mu (run fixed l s) <= mu s + 4 * nspur l.
Proof.
  revert s. induction l as [|p l IH]; intros s G; simpl; [unfold nspur; simpl; lia|].
  assert (H := exec_mu fixed s p G). specialize (IH _ (exec_good fixed s p G)).
  unfold nspur in *. simpl. destruct (is_spur p); simpl; lia.
Qed.

Lemma spur_free_nspur l : spur_free l = true -> nspur l = 0.
Proof.
  unfold spur_free, nspur. induction l as [|p l IH]; simpl; auto.
  intros H. apply andb_true_iff in H. destruct H as [H1 H2].
  destruct (is_spur p); [discriminate|auto].
Qed.

Lemma spur_free_app a b : spur_free (a ++ b) = true <-> spur_free a = true /\ spur_free b = true.
Proof. unfold spur_free. rewrite forallb_app. apply andb_true_iff. Qed.

Lemma spur_free_mu fixed l s : Good fixed s -> spur_free l = true -> mu (run fixed l s) <= mu s.
Proof.
  intros G H. assert (Hm := run_mu fixed l s G). rewrite (spur_free_nspur _ H) in Hm. lia.
Qed.

Lemma spur_free_eq_or_lt fixed l s :
  Good fixed s -> spur_free l = true -> run fixed l s = s \/ mu (run fixed l s) < mu s.
Proof.
  revert s. induction l as [|p l IH]; intros s G H; simpl; auto.
  apply (spur_free_app [p] l) in H. destruct H as [Hp Hl].
  destruct (exec_cases fixed s p G) as [[E Hd]|[[E Hd]|[E Hd]]].
  - right. assert (Hm := spur_free_mu fixed l _ (exec_good fixed s p G) Hl). lia.
  - rewrite Hd. apply IH; auto.
  - unfold spur_free in Hp. simpl in Hp. rewrite E in Hp. discriminate.
Qed.

(* a Spur-free window that schedules some thread that is enabled at its start makes progress *)
Lemma window_progress fixed s l tid :
  Good fixed s -> spur_free l = true -> In (Go tid) l -> enabled fixed s tid = true ->
  mu (run fixed l s) < mu s.
Proof.
  intros G Hsf Hin Hen. apply in_split in Hin. destruct Hin as [l1 [l2 ->]].
  apply spur_free_app in Hsf. destruct Hsf as [H1 H2].
  rewrite run_app.
  assert (G1 := run_good fixed l1 s G).
  assert (Hle := spur_free_mu fixed (Go tid :: l2) _ G1 H2).
  destruct (spur_free_eq_or_lt fixed l1 s G H1) as [E|L]; [|lia].
  rewrite E in *. clear Hle. simpl.
  unfold enabled in Hen. destruct (step fixed s tid) as [s'|] eqn:Es; [|discriminate].
  assert (Hd := step_decreases fixed s tid s' G Es).
  apply (spur_free_app [Go tid] l2) in H2. destruct H2 as [_ H2].
  assert (Hm := spur_free_mu fixed l2 s' (step_good _ _ _ _ G Es) H2). lia.
Qed.

(* ---- final states are absorbing, stuck states are closed under Spur-free runs -- *)
Lemma final_exec fixed s p : final s = true -> exec fixed s p = s.
Proof.
  intros F. unfold final in F. apply andb_true_iff in F. destruct F as [Fe Fp].
  assert (Hex : forall i pc, nth_error (wpcs s) i = Some pc -> pc = WExited).
  { intros i pc H. apply nth_error_In in H.
    rewrite forallb_forall in Fe. specialize (Fe _ H). destruct pc; try discriminate; auto. }
  destruct p as [tid|i]; simpl.
  - destruct tid as [|i]; simpl.
    + unfold pstep. destruct (prog s); [reflexivity|discriminate].
    + unfold wstep. destruct (nth_error (wpcs s) i) as [pc|] eqn:E; auto.
      rewrite (Hex _ _ E). reflexivity.
  - unfold spurious. destruct (nth_error (wpcs s) i) as [pc|] eqn:E; auto.
    rewrite (Hex _ _ E). reflexivity.
Qed.

Lemma final_run fixed l s : final s = true -> run fixed l s = s.
Proof.
  intros F. induction l as [|p l IH]; simpl; auto. rewrite final_exec; auto.
Qed.

Lemma enabled_range fixed s tid : enabled fixed s tid = true -> tid <= length (wpcs s).
Proof.
  destruct tid as [|i]; [lia|]. unfold enabled; simpl. unfold wstep.
  destruct (nth_error (wpcs s) i) eqn:E; [|discriminate].
  intros _. assert (i < length (wpcs s)) by (apply nth_error_Some; congruence). lia.
Qed.

Lemma none_enabled fixed s tid : any_enabled fixed s = false -> step fixed s tid = None.
Proof.
  intros H. destruct (step fixed s tid) as [s'|] eqn:E; auto.
  assert (He : enabled fixed s tid = true) by (unfold enabled; rewrite E; reflexivity).
  rewrite (enabled_in_range _ _ _ He (enabled_range _ _ _ He)) in H. discriminate.
Qed.

Lemma stuck_closed fixed l s :
  any_enabled fixed s = false -> spur_free l = true -> run fixed l s = s.
Proof.
  intros H. induction l as [|p l IH]; simpl; auto. intros Hsf.
  apply (spur_free_app [p] l) in Hsf. destruct Hsf as [Hp Hl].
  destruct p as [tid|i]; [|discriminate]. simpl. rewrite (none_enabled _ _ tid H). auto.
Qed.

(* ==== the bound =============================================================== *)
(* [mu] of the initial state, and 4 more for every spurious wake-up *)
Definition pool_bound0 (W n : nat) : nat := n * (8 * W + 16) + (6 * W + 7) + W * (4 * W + 9).
Definition pool_bound (W n nsp : nat) : nat := pool_bound0 W n + 4 * nsp.

Lemma sumf_app {A} (f : A -> nat) a b : sumf f (a ++ b) = sumf f a + sumf f b.
Proof. induction a; simpl; auto. lia. Qed.

Lemma sumf_repeat {A} (f : A -> nat) x n : sumf f (repeat x n) = n * f x.
Proof. induction n; simpl; auto. Qed.

Lemma sumf_adds W K ts : sumf (act_full W K) (map AddTask ts) = length ts * (2 * K + 16).
Proof. induction ts; simpl; auto. Qed.

Lemma mu_init W ts : mu (init W (script_of ts)) = pool_bound0 W (length ts).
Proof.
  unfold mu, init; cbn [wpcs prog pp queue]. rewrite repeat_length, pm_start.
  unfold script_of. rewrite sumf_app, sumf_adds, sumf_repeat.
  cbn [sumf act_full length rank]. unfold pool_bound0. lia.
Qed.

(* the number of effective steps of ANY schedule (fair or not, both variants) is bounded *)
Theorem pool_effective_steps_bounded fixed W ts sched :
  neff fixed sched (init W (script_of ts)) + mu (run fixed sched (init W (script_of ts)))
  <= pool_bound W (length ts) (nspur sched).
Proof.
  assert (G := init_good fixed W (script_of ts) (wf_script_of ts)).
  assert (H := run_mu fixed sched _ G). rewrite mu_init in H. exact H.
Qed.

(* ==== fairness ================================================================ *)
(* thread ids are 0 (producer) .. W (worker W-1) *)
Definition covers (W : nat) (l : list pick) : Prop := forall tid, tid <= W -> In (Go tid) l.
Definition window (W : nat) (l : list pick) : Prop := spur_free l = true /\ covers W l.
(* every thread is scheduled at least once in every window of length K *)
Definition K_fair (W K : nat) (tail : list pick) : Prop :=
  forall i, i + K <= length tail -> covers W (firstn K (skipn i tail)).

Definition round_robin (W : nat) : list pick := map Go (seq 0 (S W)).
Definition rr_tail (W m : nat) : list pick := concat (repeat (round_robin W) m).

Lemma round_robin_window W : window W (round_robin W).
Proof.
  split.
  - unfold spur_free, round_robin. apply forallb_forall. intros p Hp.
    apply in_map_iff in Hp. destruct Hp as [x [<- _]]. reflexivity.
  - intros tid Ht. unfold round_robin. apply in_map. apply in_seq. lia.
Qed.

(* in a non-final reachable state of the fixed pool a fair window makes progress *)
Lemma fair_window_progress W ts s l :
  reachable true W (script_of ts) s -> window W l -> final s = false ->
  mu (run true l s) < mu s.
Proof.
  intros R [Hsf Hc] F.
  assert (G := reachable_good _ _ _ _ (wf_script_of ts) R).
  destruct (pool_deadlock_free_fixed _ _ _ R) as [F'|[tid He]]; [congruence|].
  apply (window_progress true s l tid); auto. apply Hc.
  rewrite <- (j_W _ _ _ (reachable_inv2 _ _ _ _ R)). eapply enabled_range; eauto.
Qed.

Lemma windows_final W ts ws : forall s,
  reachable true W (script_of ts) s -> Forall (window W) ws -> mu s <= length ws ->
  final (run true (concat ws) s) = true.
Proof.
  induction ws as [|l ws IH]; intros s R Hw Hm; simpl in *.
  - destruct (pool_deadlock_free_fixed _ _ _ R) as [F|[tid He]]; auto.
    exfalso. unfold enabled in He. destruct (step true s tid) as [s'|] eqn:E; [|discriminate].
    assert (Hd := pool_nonstutter_decreases _ _ _ _ _ _ (wf_script_of ts) R E). lia.
  - inversion Hw; subst. rewrite run_app.
    destruct (final s) eqn:F.
    + rewrite (final_run true l s F), (final_run true _ s F). exact F.
    + apply IH; auto; [apply reachable_run; auto|].
      assert (Hp := fair_window_progress W ts s l R H1 F). lia.
Qed.

(* cutting a K-fair tail into consecutive windows *)
Lemma firstn_add {A} a b (l : list A) : firstn (a + b) l = firstn a l ++ firstn b (skipn a l).
Proof.
  revert l. induction a as [|a IH]; intros l; simpl; auto.
  destruct l as [|x l]; simpl; [rewrite firstn_nil; reflexivity|]. rewrite IH. reflexivity.
Qed.

Lemma skipn_add {A} a b (l : list A) : skipn b (skipn a l) = skipn (a + b) l.
Proof.
  revert l. induction a as [|a IH]; intros l; simpl; auto.
  destruct l as [|x l]; simpl; [apply skipn_nil|]. apply IH.
Qed.

Lemma spur_free_firstn n l : spur_free l = true -> spur_free (firstn n l) = true.
Proof. intros H. rewrite <- (firstn_skipn n l) in H. apply spur_free_app in H. tauto. Qed.
Lemma spur_free_skipn n l : spur_free l = true -> spur_free (skipn n l) = true.
Proof. intros H. rewrite <- (firstn_skipn n l) in H. apply spur_free_app in H. tauto. Qed.

Lemma fair_chunks W K m : forall tail,
  spur_free tail = true -> K_fair W K tail -> K * m <= length tail ->
  exists ws, firstn (K * m) tail = concat ws /\ length ws = m /\ Forall (window W) ws.
Proof.
  induction m as [|m IH]; intros tail Hsf Hf Hl.
  - exists []. rewrite Nat.mul_0_r. simpl. auto.
  - rewrite Nat.mul_succ_r, Nat.add_comm in *.
    destruct (IH (skipn K tail)) as [ws [E [L Fw]]].
    + apply spur_free_skipn; auto.
    + intros i Hi. rewrite skipn_add. rewrite skipn_length in Hi. apply Hf. lia.
    + rewrite skipn_length. lia.
    + exists (firstn K tail :: ws). simpl. rewrite firstn_add, E. repeat split; auto.
      constructor; auto. split; [apply spur_free_firstn; auto|].
      apply (Hf 0). lia.
Qed.

Lemma nth_error_firstn_lt {A} n d (l : list A) : d < n -> nth_error (firstn n l) d = nth_error l d.
Proof.
  revert d l. induction n as [|n IH]; intros d l H; [lia|].
  destruct l as [|x l]; simpl; [destruct d; reflexivity|].
  destruct d; simpl; auto. apply IH. lia.
Qed.
Lemma nth_error_skipn_add {A} i d (l : list A) : nth_error (skipn i l) d = nth_error l (i + d).
Proof.
  revert l. induction i as [|i IH]; intros l; simpl; auto.
  destruct l as [|x l]; simpl; auto. destruct d; reflexivity.
Qed.

Lemma rr_tail_K_fair W m : K_fair W (S W) (rr_tail W m) /\ spur_free (rr_tail W m) = true /\
                           length (rr_tail W m) = S W * m.
Proof.
  assert (Hlen : length (round_robin W) = S W).
  { unfold round_robin. rewrite map_length, seq_length. reflexivity. }
  assert (Hsf : spur_free (rr_tail W m) = true).
  { unfold rr_tail. induction m; cbn [repeat concat]; auto. apply spur_free_app. split; auto.
    apply round_robin_window. }
  assert (Hl : length (rr_tail W m) = S W * m).
  { clear Hsf. unfold rr_tail. induction m; cbn [repeat concat]; [simpl; lia|]. rewrite app_length, IHm, Hlen. lia. }
  split; [|split]; auto.
  (* any S W consecutive picks of a round-robin contain every thread *)
  intros i Hi tid Ht. rewrite Hl in Hi.
  (* the element at absolute position j of rr_tail is Go (j mod S W) *)
  assert (Hnth : forall m j, j < S W * m -> nth_error (rr_tail W m) j = Some (Go (j mod S W))).
  { clear. assert (Hlen : length (round_robin W) = S W).
    { unfold round_robin. rewrite map_length, seq_length. reflexivity. }
    induction m as [|m IH]; intros j Hj; [lia|].
    unfold rr_tail in *. cbn [repeat concat].
    destruct (lt_dec j (S W)) as [Hlt|Hge].
    - rewrite nth_error_app1 by (rewrite Hlen; auto).
      unfold round_robin. rewrite nth_error_map.
      rewrite Nat.mod_small by auto.
      assert (Hs : nth_error (seq 0 (S W)) j = Some j).
      { rewrite (nth_error_nth' _ 0) by (rewrite seq_length; auto). rewrite seq_nth; auto. }
      rewrite Hs. reflexivity.
    - rewrite nth_error_app2 by (rewrite Hlen; lia). rewrite Hlen.
      rewrite IH by lia. f_equal. f_equal.
      replace j with ((j - S W) + 1 * S W) at 2 by lia. rewrite Nat.mod_add; auto. }
  (* position of tid inside the window starting at i *)
  set (d := (tid + S W - i mod S W) mod S W).
  assert (Hd : d < S W) by (apply Nat.mod_upper_bound; lia).
  assert (Hmod : (i + d) mod S W = tid).
  { unfold d. assert (Hi' : i mod S W < S W) by (apply Nat.mod_upper_bound; lia).
    rewrite (Nat.div_mod i (S W)) at 1 by lia.
    destruct (le_lt_dec (i mod S W) tid) as [Hle|Hgt].
    - replace (tid + S W - i mod S W) with ((tid - i mod S W) + 1 * S W) by lia.
      rewrite Nat.mod_add by lia. rewrite (Nat.mod_small (tid - i mod S W)) by lia.
      replace (S W * (i / S W) + i mod S W + (tid - i mod S W)) with (tid + (i / S W) * S W) by lia.
      rewrite Nat.mod_add by lia. apply Nat.mod_small. lia.
    - rewrite (Nat.mod_small (tid + S W - i mod S W)) by lia.
      replace (S W * (i / S W) + i mod S W + (tid + S W - i mod S W)) with (tid + (i / S W + 1) * S W) by lia.
      rewrite Nat.mod_add by lia. apply Nat.mod_small. lia. }
  apply (nth_error_In _ d).
  rewrite nth_error_firstn_lt by exact Hd.
  rewrite nth_error_skipn_add. rewrite (Hnth m (i + d)) by lia. rewrite Hmod. reflexivity.
Qed.

(* ==== 2. termination of the fixed variant under fairness ====================== *)
(* [sched] is ARBITRARY (unfair, with any number [nspur sched] of spurious wake-ups);
   [tail] has no spurious wake-up and schedules every thread at least once in every
   window of length K.  Then a final state is reached after at most
   K * pool_bound W |ts| (nspur sched) picks of the tail. *)
Theorem pool_terminates_fixed W ts sched tail K :
  spur_free tail = true -> K_fair W K tail ->
  K * pool_bound W (length ts) (nspur sched) <= length tail ->
  exists n, n <= K * pool_bound W (length ts) (nspur sched) /\
            final (run true (sched ++ firstn n tail) (init W (script_of ts))) = true.
Proof.
  intros Hsf Hf Hl. exists (K * pool_bound W (length ts) (nspur sched)). split; auto.
  destruct (fair_chunks W K _ tail Hsf Hf Hl) as [ws [E [L Fw]]].
  rewrite run_app, E. apply (windows_final W ts); auto.
  - exists sched. reflexivity.
  - rewrite L. assert (H := pool_effective_steps_bounded true W ts sched). lia.
Qed.

(* ... and the pool stays in that final state whatever is scheduled afterwards *)
Theorem pool_terminates_fixed_whole W ts sched tail K rest :
  spur_free tail = true -> K_fair W K tail ->
  K * pool_bound W (length ts) (nspur sched) <= length tail ->
  final (run true (sched ++ tail ++ rest) (init W (script_of ts))) = true.
Proof.
  intros Hsf Hf Hl.
  destruct (pool_terminates_fixed W ts sched tail K Hsf Hf Hl) as [n [_ F]].
  rewrite <- (firstn_skipn n tail), <- !app_assoc, app_assoc, run_app.
  rewrite final_run; auto.
Qed.

(* the instance "fair round-robin over all threads" *)
Theorem pool_terminates_round_robin W ts sched m :
  pool_bound W (length ts) (nspur sched) <= m ->
  final (run true (sched ++ rr_tail W m) (init W (script_of ts))) = true.
Proof.
  intros Hm. destruct (rr_tail_K_fair W m) as [Hf [Hsf Hl]].
  rewrite <- (app_nil_r (rr_tail W m)).
  apply (pool_terminates_fixed_whole W ts sched (rr_tail W m) (S W) []); auto.
  rewrite Hl. apply Nat.mul_le_mono_l. exact Hm.
Qed.

(* weakest form: the tail only has to be cut into Spur-free windows each of which
   schedules SOME thread that is enabled at the start of the window (this is
   implied by every fairness notion; a thread enabled at the start of a window is
   enabled until something effective happens) *)
Definition progressive_window (l : list pick) (s : state) : Prop :=
  spur_free l = true /\ (final s = true \/ exists tid, In (Go tid) l /\ enabled true s tid = true).

Fixpoint progressive (ws : list (list pick)) (s : state) : Prop :=
  match ws with
  | [] => True
  | l :: r => progressive_window l s /\ progressive r (run true l s)
  end.

Theorem pool_terminates_progressive W ts sched ws :
  progressive ws (run true sched (init W (script_of ts))) ->
  pool_bound W (length ts) (nspur sched) <= length ws ->
  final (run true (sched ++ concat ws) (init W (script_of ts))) = true.
Proof.
  intros Hp Hl. rewrite run_app.
  assert (R : reachable true W (script_of ts) (run true sched (init W (script_of ts)))) by (exists sched; reflexivity).
  assert (Hm : mu (run true sched (init W (script_of ts))) <= length ws).
  { assert (H := pool_effective_steps_bounded true W ts sched). lia. }
  clear Hl. revert R Hp Hm. generalize (run true sched (init W (script_of ts))).
  induction ws as [|l ws IH]; intros s R Hp Hm; simpl in *.
  - destruct (pool_deadlock_free_fixed _ _ _ R) as [F|[tid He]]; auto.
    exfalso. unfold enabled in He. destruct (step true s tid) as [s'|] eqn:E; [|discriminate].
    assert (Hd := pool_nonstutter_decreases _ _ _ _ _ _ (wf_script_of ts) R E). lia.
  - destruct Hp as [[Hsf Hw] Hp]. rewrite run_app.
    destruct (final s) eqn:F.
    + rewrite (final_run true l s F), (final_run true _ s F). exact F.
    + destruct Hw as [Hw|[tid [Hin He]]]; [discriminate|].
      apply IH; auto; [apply reachable_run; auto|].
      assert (G := reachable_good _ _ _ _ (wf_script_of ts) R).
      assert (Hd := window_progress true s l tid G Hsf Hin He). lia.
Qed.

(* stutter is bounded: in a non-final reachable state of the fixed pool, K
   consecutive picks of a K-fair Spur-free schedule cannot all be skipped *)
Theorem pool_stutter_bounded W ts s l K :
  reachable true W (script_of ts) s -> final s = false ->
  spur_free l = true -> K_fair W K l -> K <= length l ->
  mu (run true l s) < mu s /\ run true l s <> s.
Proof.
  intros R F Hsf Hf Hl.
  assert (Hlt : mu (run true l s) < mu s).
  { rewrite <- (firstn_skipn K l), run_app.
    assert (Hw : window W (firstn K l)).
    { split; [apply spur_free_firstn; auto|]. apply (Hf 0). lia. }
    assert (H1 := fair_window_progress W ts s _ R Hw F).
    assert (G := reachable_good _ _ _ _ (wf_script_of ts) (reachable_run true W _ (firstn K l) s R)).
    assert (H2 := spur_free_mu true (skipn K l) _ G (spur_free_skipn K l Hsf)). lia. }
  split; auto. intros E. rewrite E in Hlt. lia.
Qed.

(* ==== 3. wait_workers returns and every task was executed exactly once ========= *)
Lemma pool_final_summary W ts s :
  W >= 1 -> reachable true W (script_of ts) s -> final s = true ->
  prog s = [] /\                                          (* wait_workers returned *)
  (forall i, i < W -> exited s i = true) /\               (* every worker left run() *)
  (forall t, cnt t (map fst (executed s)) = cnt t ts) /\  (* exactly once *)
  Permutation (map fst (executed s)) ts /\ queue s = [] /\ err s = false.
Proof.
  intros HW R F.
  destruct (pool_exactly_once_safety true W ts s HW R F) as [H1 [H2 [H3 H4]]].
  destruct (reachable_invall _ _ _ _ R) as [I J Kk].
  assert (Hp : prog s = []).
  { unfold final in F. apply andb_true_iff in F. destruct F as [_ Fp].
    destruct (prog s); [reflexivity|discriminate]. }
  repeat split; auto.
  intros i Hi. apply (k_done _ Kk Hp). rewrite (j_W _ _ _ J). exact Hi.
Qed.

Theorem C10_wait_workers_returns W ts sched tail K :
  W >= 1 ->
  spur_free tail = true -> K_fair W K tail ->
  K * pool_bound W (length ts) (nspur sched) <= length tail ->
  exists n, n <= K * pool_bound W (length ts) (nspur sched) /\
    let s := run true (sched ++ firstn n tail) (init W (script_of ts)) in
    final s = true /\
    prog s = [] /\                                          (* wait_workers returned *)
    (forall i, i < W -> exited s i = true) /\               (* every worker left run() *)
    (forall t, cnt t (map fst (executed s)) = cnt t ts) /\  (* exactly once *)
    Permutation (map fst (executed s)) ts /\ queue s = [] /\ err s = false.
Proof.
  intros HW Hsf Hf Hl.
  destruct (pool_terminates_fixed W ts sched tail K Hsf Hf Hl) as [n [Hn F]].
  exists n. split; auto. cbv zeta. split; auto.
  apply pool_final_summary; auto. eexists; reflexivity.
Qed.

(* round-robin instance, state at the END of the schedule *)
Theorem C10_wait_workers_returns_rr W ts sched m :
  W >= 1 -> pool_bound W (length ts) (nspur sched) <= m ->
  let s := run true (sched ++ rr_tail W m) (init W (script_of ts)) in
  final s = true /\ prog s = [] /\ (forall i, i < W -> exited s i = true) /\
  (forall t, cnt t (map fst (executed s)) = cnt t ts) /\
  Permutation (map fst (executed s)) ts /\ queue s = [] /\ err s = false.
Proof.
  intros HW Hm. cbv zeta.
  assert (F := pool_terminates_round_robin W ts sched m Hm). split; auto.
  apply pool_final_summary; auto. eexists; reflexivity.
Qed.

(* ==== 4. contrast: the pinned variant ========================================= *)
(* the lost-wake-up state: nothing but a spurious wake-up can ever move it *)
Theorem pool_pinned_fair_nontermination :
  exists s, reachable false 1 (script_of []) s /\
            final s = false /\
            forall l, spur_free l = true ->
                      run false l s = s /\ final (run false l s) = false.
Proof.
  exists (run false lost_wakeup_sched (init 1 (script_of []))).
  split; [exists lost_wakeup_sched; reflexivity|].
  assert (Hf : final (run false lost_wakeup_sched (init 1 (script_of []))) = false) by (vm_compute; reflexivity).
  assert (Ha : any_enabled false (run false lost_wakeup_sched (init 1 (script_of []))) = false) by (vm_compute; reflexivity).
  split; auto. intros l Hl. rewrite (stuck_closed false l _ Ha Hl). auto.
Qed.

(* same for the lost task: the queued task is never executed *)
Theorem pool_pinned_lost_task_forever :
  exists s, reachable false 1 [AddTask 7%N; WaitWorkers] s /\
            forall l, spur_free l = true ->
                      final (run false l s) = false /\ queue (run false l s) = [7%N] /\
                      executed (run false l s) = [].
Proof.
  exists (run false lost_task_sched (init 1 [AddTask 7%N; WaitWorkers])).
  split; [exists lost_task_sched; reflexivity|].
  assert (Ha : any_enabled false (run false lost_task_sched (init 1 [AddTask 7%N; WaitWorkers])) = false)
    by (vm_compute; reflexivity).
  intros l Hl. rewrite (stuck_closed false l _ Ha Hl). vm_compute. auto.
Qed.

(* in the pinned variant every effective step still decreases [mu]
   ([pool_nonstutter_decreases] holds for both variants): the pinned pool cannot
   run forever either, it stops too early, in a non-final state.  The fixed
   pool cannot do that by [pool_deadlock_free_fixed]. *)

(* ==== examples ================================================================ *)
(* W = 2, three tasks: bound = 149 windows; a fair round-robin reaches final *)
Example pool_bound_example : pool_bound 2 3 0 = 149.
Proof. reflexivity. Qed.

Example terminates_example_rr :
  final (run true (rr_tail 2 149) (init 2 (script_of [5; 6; 5]%N))) = true.
Proof. vm_compute. reflexivity. Qed.

(* the same through the theorem, after an unfair prefix with two spurious wake-ups *)
Definition ex_prefix : list pick := go 9 1 ++ [Spur 0] ++ go 3 2 ++ go 6 0 ++ [Spur 1; Spur 0] ++ go 5 1.

Example terminates_example_thm :
  nspur ex_prefix = 3 /\
  final (run true (ex_prefix ++ rr_tail 2 (pool_bound 2 3 3)) (init 2 (script_of [5; 6; 5]%N))) = true.
Proof. split; [reflexivity|]. apply pool_terminates_round_robin. vm_compute. lia. Qed.

(* the bound is an upper bound, a round-robin needs fewer rounds: 53 here *)
Example terminates_example_actual :
  final (run true (rr_tail 2 52) (init 2 (script_of [5; 6; 5]%N))) = false /\
  final (run true (rr_tail 2 53) (init 2 (script_of [5; 6; 5]%N))) = true.
Proof. vm_compute. split; reflexivity. Qed.

(* the variant on the way *)
Example mu_example :
  mu (init 2 (script_of [5; 6; 5]%N)) = 149 /\
  mu (run true (rr_tail 2 10) (init 2 (script_of [5; 6; 5]%N))) = 114 /\
  mu (run true (rr_tail 2 53) (init 2 (script_of [5; 6; 5]%N))) = 0.
Proof. vm_compute. repeat split; reflexivity. Qed.

(* the pinned stuck state is left only through a spurious wake-up *)
Example pinned_needs_spurious :
  final (run false (lost_wakeup_sched ++ rr_tail 1 1000) (init 1 (script_of []))) = false /\
  final (run false (lost_wakeup_sched ++ [Spur 0] ++ rr_tail 1 8) (init 1 (script_of []))) = true.
Proof. vm_compute. split; reflexivity. Qed.

(* the hypotheses of [pool_terminates_fixed] / [C10_wait_workers_returns] are satisfiable *)
Example terminates_fixed_hyps :
  let tail := rr_tail 2 (pool_bound 2 3 (nspur ex_prefix)) in
  spur_free tail = true /\ K_fair 2 3 tail /\
  3 * pool_bound 2 3 (nspur ex_prefix) <= length tail.
Proof.
  cbv zeta. destruct (rr_tail_K_fair 2 (pool_bound 2 3 (nspur ex_prefix))) as [H1 [H2 H3]].
  repeat split; auto.
Qed.

(* "a task added while all workers are about to sleep is still picked up":
   worker 0 sleeps, worker 1 has evaluated its predicate to false and is about to
   block (it still holds shared_mutex, so the producer's lock attempts are skipped
   picks); then it blocks, the producer adds the task, and any fair tail finishes *)
Definition about_to_sleep_prefix : list pick := go 5 1 ++ go 4 2 ++ go 3 0.
Example task_added_while_about_to_sleep :
  let s1 := run true about_to_sleep_prefix (init 2 (script_of [9%N])) in
  wpcs s1 = [WSleep; WBlock] /\ pp s1 = PStart /\ queue s1 = [] /\
  let s2 := run true (about_to_sleep_prefix ++ go 1 2 ++ go 3 0) (init 2 (script_of [9%N])) in
  wpcs s2 = [WSleep; WSleep] /\ queue s2 = [9%N] /\ pp s2 = PNotify /\
  let s3 := run true (about_to_sleep_prefix ++ go 1 2 ++ go 3 0 ++ rr_tail 2 (pool_bound 2 1 0))
                (init 2 (script_of [9%N])) in
  final s3 = true /\ map fst (executed s3) = [9%N].
Proof. vm_compute. repeat split; reflexivity. Qed.
