(* C18 -- statistical codes (Huffman / Hu-Tucker) as libCSD stores and uses them.
   Executable model only (no proofs here; see CodesProofs.v).

   A. code trees and their codewords (any binary tree; ordered trees for Hu-Tucker)
   B. codeword tables  Codeword{uint codeword; uint bits}  (utils/Coder/Codeword.h) with
      boolean checkers run on the table the REAL builders produced
   C. StatCoder::encodeSymbol / encodeString bit packing (utils/Coder/StatCoder.cpp)
   D. HuTucker::recombination (HuTucker/HuTucker.cpp), the stack algorithm over the level vector
   E. one step of the chunked decoding table (DecodingTable::processChunk/getSubstring) over an
      abstract table *)
From LibCSD Require Import Base.
Local Open Scope N_scope.

(* ------------------------------------------------------------------ A. trees *)

Inductive tree := Leaf (sym : N) | Node (l r : tree).

Notation code := (list bool) (only parsing). (* MSB (root edge) first; false = left = 0 *)

Fixpoint codes_of_tree (t : tree) : list (N * code) :=
  match t with
  | Leaf s => [(s, [])]
  | Node l r => map (fun p => (fst p, false :: snd p)) (codes_of_tree l) ++
                map (fun p => (fst p, true :: snd p)) (codes_of_tree r)
  end.

Fixpoint leaves (t : tree) : list N :=
  match t with Leaf s => [s] | Node l r => leaves l ++ leaves r end.

Fixpoint height (t : tree) : nat :=
  match t with Leaf _ => O | Node l r => S (Nat.max (height l) (height r)) end.

(* follow the bits from the root down to a leaf *)
Fixpoint tree_walk (t : tree) (bs : list bool) : option (N * list bool) :=
  match t with
  | Leaf s => Some (s, bs)
  | Node l r => match bs with
                | [] => None
                | b :: bs' => if b then tree_walk r bs' else tree_walk l bs'
                end
  end.

Fixpoint tree_decode (t : tree) (fuel : nat) (bs : list bool) : list N :=
  match fuel with
  | O => []
  | S f => match tree_walk t bs with
           | Some (s, rest) => s :: tree_decode t f rest
           | None => []
           end
  end.

Fixpoint lookup_code (cs : list (N * code)) (s : N) : option code :=
  match cs with
  | [] => None
  | (s', c) :: r => if s' =? s then Some c else lookup_code r s
  end.

Fixpoint encode_with (f : N -> option code) (syms : list N) : option (list bool) :=
  match syms with
  | [] => Some []
  | s :: r => match f s, encode_with f r with
              | Some c, Some bs => Some (c ++ bs)
              | _, _ => None
              end
  end.

Definition tree_encode (t : tree) : list N -> option (list bool) :=
  encode_with (lookup_code (codes_of_tree t)).

(* bit-string comparisons *)
Fixpoint prefixb (a b : list bool) : bool :=
  match a, b with
  | [], _ => true
  | _ :: _, [] => false
  | x :: a', y :: b' => Bool.eqb x y && prefixb a' b'
  end.

(* strict lexicographic order, false < true, a proper prefix is smaller *)
Fixpoint bits_ltb (a b : list bool) : bool :=
  match a, b with
  | _, [] => false
  | [], _ :: _ => true
  | x :: a', y :: b' => if Bool.eqb x y then bits_ltb a' b' else negb x
  end.

(* Kraft sum scaled by 2^D :  sum_c 2^(D - |c|)  (no division) *)
Fixpoint kraft_sum (D : nat) (cs : list code) : N :=
  match cs with
  | [] => 0
  | c :: r => 2 ^ N.of_nat (D - length c) + kraft_sum D r
  end.

(* ------------------------------------------------------------------ B. codeword tables *)

Definition cw := (N * N)%type.     (* (codeword, bits): the [bits] low bits of [codeword], MSB first *)

(* the n low bits of v, most significant first *)
Fixpoint bits_of (n : nat) (v : N) : list bool :=
  match n with O => [] | S k => N.testbit v (N.of_nat k) :: bits_of k v end.

(* value of a bit list read MSB first *)
Fixpoint code_val_acc (acc : N) (c : list bool) : N :=
  match c with [] => acc | b :: r => code_val_acc (2 * acc + (if b then 1 else 0)) r end.
Definition code_val (c : list bool) : N := code_val_acc 0 c.

Definition cw_bits (c : cw) : code := bits_of (N.to_nat (snd c)) (fst c).
Definition table_codes (cws : list cw) : list code := map cw_bits cws.

(* 1 <= bits <= 32 (WORD) and the codeword is right-aligned in [bits] bits *)
Definition check_lengths (cws : list cw) : bool :=
  forallb (fun c => (1 <=? snd c) && (snd c <=? 32) && (fst c <? 2 ^ snd c)) cws.

Fixpoint pf_aux (l : list code) : bool :=
  match l with
  | [] => true
  | c :: r => forallb (fun d => negb (prefixb c d) && negb (prefixb d c)) r && pf_aux r
  end.
Definition check_prefix_free (cws : list cw) : bool := pf_aux (table_codes cws).

Definition max_bits (cws : list cw) : N := fold_right (fun c m => N.max (snd c) m) 0 cws.
Definition check_complete (cws : list cw) : bool :=
  kraft_sum (N.to_nat (max_bits cws)) (table_codes cws) =? 2 ^ max_bits cws.

Fixpoint alpha_aux (l : list code) : bool :=
  match l with
  | c :: ((d :: _) as r) => bits_ltb c d && alpha_aux r
  | _ => true
  end.
Definition check_alphabetic (cws : list cw) : bool := alpha_aux (table_codes cws).

(* concatenated codewords of a symbol string; None = a symbol outside the table *)
Definition encode_bits (cws : list cw) : list N -> option (list bool) :=
  encode_with (fun s => option_map cw_bits (nthN cws s)).

(* naive table decoder: first table entry that is a prefix of the remaining bits *)
Fixpoint match_first (codes : list code) (i : N) (bs : list bool) : option (N * list bool) :=
  match codes with
  | [] => None
  | c :: r => if prefixb c bs then Some (i, skipn (length c) bs) else match_first r (i + 1) bs
  end.

Fixpoint decode_bits_aux (codes : list code) (fuel : nat) (bs : list bool) : list N :=
  match fuel with
  | O => []
  | S f => match bs with
           | [] => []
           | _ :: _ => match match_first codes 0 bs with
                       | Some (s, rest) => s :: decode_bits_aux codes f rest
                       | None => []
                       end
           end
  end.
Definition decode_bits (cws : list cw) (bs : list bool) : list N :=
  decode_bits_aux (table_codes cws) (length bs) bs.

(* decode until [nul] NUL symbols have been produced: (symbols incl. the NULs, remaining bits) *)
Fixpoint decode_until0_aux (codes : list code) (fuel : nat) (nul : nat) (bs : list bool)
  : option (list N * list bool) :=
  match nul with
  | O => Some ([], bs)
  | S nul' =>
    match fuel with
    | O => None
    | S f => match match_first codes 0 bs with
             | Some (s, rest) =>
               match decode_until0_aux codes f (if s =? 0 then nul' else nul) rest with
               | Some (l, rest') => Some (s :: l, rest')
               | None => None
               end
             | None => None
             end
    end
  end.

(* ------------------------------------------------------------------ C. StatCoder bit packing *)

Definition shl32 (x s : N) : N := (x * 2 ^ s) mod 2 ^ 32.       (* uint << s, s < 32 *)

(*  uchar code = ((codeword << (W - bits + processed)) >> (W - 8 + offset));  *)
Definition code_byte (codeword bits processed off : N) : N :=
  (shl32 codeword (32 - bits + processed) / 2 ^ (24 + off)) mod 256.

(* state of the output: completed bytes, the byte being filled (text[bytes], already holding
   [off] bits at its top), off = the value of the offset cell *)
Definition pstate := (list N * N * N)%type.

(* the while loop and the trailing if of encodeSymbol; at most 4 iterations for bits <= 32 *)
Fixpoint pack_loop (fuel : nat) (codeword bits processed : N) (st : pstate) : pstate :=
  let '(out, cur, off) := st in
  match fuel with
  | O => st
  | S f =>
    if 8 - off <=? bits - processed then
      pack_loop f codeword bits (processed + (8 - off))
                (out ++ [N.lor cur (code_byte codeword bits processed off)], 0, 0)
    else if processed <? bits then
      (out, N.lor cur (code_byte codeword bits processed off), off + (bits - processed))
    else st
  end.

Definition pack_symbol (c : cw) (st : pstate) : pstate := pack_loop 5 (fst c) (snd c) 0 st.

Fixpoint pack_symbols (cws : list cw) (s : list N) (st : pstate) : option pstate :=
  match s with
  | [] => Some st
  | x :: r => match nthN cws x with
              | Some c => pack_symbols cws r (pack_symbol c st)
              | None => None
              end
  end.

(* bytes [0, encLen) after "if (offset > 0) encLen++" *)
Definition final_bytes (st : pstate) : list N :=
  let '(out, cur, off) := st in if 0 <? off then out ++ [cur] else out.

(* StatCoder::encodeString : (encoded bytes, final offset) *)
Definition pack_string (cws : list cw) (s : list N) : option (list N * N) :=
  match pack_symbols cws s ([], 0, 0) with
  | Some st => Some (final_bytes st, snd st)
  | None => None
  end.

Definition bits_of_bytes (bs : list N) : list bool := flat_map (bits_of 8) bs.

(* decode [nul] NUL-terminated strings from bit position [start] of a packed byte array *)
Definition decode_packed (cws : list cw) (bytes : list N) (start : N) (nul : nat)
  : option (list N * list bool) :=
  let bs := skipn (N.to_nat start) (bits_of_bytes bytes) in
  decode_until0_aux (table_codes cws) (length bs) nul bs.

(* ------------------------------------------------------------------ D. Hu-Tucker recombination *)

(* stack[0..pos] top first; an entry stands for (seq[stack[k]], levels[stack[k]]); levels are C ints *)
Definition rstack := list (tree * Z).

(*  while (pos > 0 && levels[stack[pos]] == levels[stack[pos-1]]) { pos--; merge; levels[stack[pos]]--; } *)
Fixpoint reduce (fuel : nat) (st : rstack) : rstack :=
  match fuel with
  | O => st
  | S f => match st with
           | (t2, l2) :: (t1, l1) :: r =>
             if Z.eqb l2 l1 then reduce f ((Node t1 t2, (l1 - 1)%Z) :: r) else st
           | _ => st
           end
  end.

Fixpoint recombine_loop (lv : list Z) (cont : N) (st : rstack) : rstack :=
  match lv with
  | [] => st
  | l :: r => recombine_loop r (cont + 1) (reduce (S (length st)) ((Leaf cont, l) :: st))
  end.

Definition recombine_stack (levels : list Z) : rstack :=
  match levels with
  | [] => []
  | l0 :: r => recombine_loop r 1 [(Leaf 0, l0)]
  end.

(* root = seq[stack[pos]] : what the C++ takes whatever the stack looks like *)
Definition recombine_root (levels : list Z) : option tree :=
  match recombine_stack levels with (t, _) :: _ => Some t | [] => None end.

(* success = the stack collapsed to one node of level 0 *)
Definition recombine (levels : list Z) : option tree :=
  match recombine_stack levels with [(t, 0%Z)] => Some t | _ => None end.

(* --- the same algorithm statement by statement over the C arrays: seq[] (nodes), levels[] (ints),
   stack[0..pos] (leaf indices, here top first); every read is checked ([None] = out of bounds).
   CodesProofs.recombine_arr_refines shows it computes [recombine_stack]. *)
Fixpoint updN {A} (l : list A) (i : nat) (v : A) : list A :=
  match l, i with
  | [], _ => []
  | _ :: r, O => v :: r
  | x :: r, S k => x :: updN r k v
  end.

Record rarr := { ra_seq : list tree; ra_lev : list Z; ra_stack : list N }.

Fixpoint reduce_arr (fuel : nat) (s : rarr) : option rarr :=
  match fuel with
  | O => Some s
  | S f =>
    match ra_stack s with
    | j :: i :: r =>
      match nthN (ra_lev s) j, nthN (ra_lev s) i, nthN (ra_seq s) i, nthN (ra_seq s) j with
      | Some lj, Some li, Some ti, Some tj =>
        if Z.eqb lj li then
          reduce_arr f {| ra_seq := updN (ra_seq s) (N.to_nat i) (Node ti tj);
                          ra_lev := updN (ra_lev s) (N.to_nat i) (li - 1)%Z;
                          ra_stack := i :: r |}
        else Some s
      | _, _, _, _ => None
      end
    | _ => Some s
    end
  end.

Fixpoint recombine_arr_loop (todo : nat) (cont : N) (s : rarr) : option rarr :=
  match todo with
  | O => Some s
  | S k =>
    match reduce_arr (S (length (ra_stack s)))
                     {| ra_seq := ra_seq s; ra_lev := ra_lev s; ra_stack := cont :: ra_stack s |} with
    | Some s' => recombine_arr_loop k (cont + 1) s'
    | None => None
    end
  end.

Fixpoint leaf_seq (start : N) (n : nat) : list tree :=
  match n with O => [] | S k => Leaf start :: leaf_seq (start + 1) k end.

Definition recombine_arr (levels : list Z) : option rarr :=
  match levels with
  | [] => None
  | _ :: r => recombine_arr_loop (length r) 1
                {| ra_seq := leaf_seq 0 (length levels); ra_lev := levels; ra_stack := [0] |}
  end.

(* root = seq[stack[pos]] *)
Definition recombine_arr_root (levels : list Z) : option tree :=
  match recombine_arr levels with
  | Some s => match ra_stack s with top :: _ => nthN (ra_seq s) top | [] => None end
  | None => None
  end.

(* leaf symbols with their absolute level when the root of [t] is at level [l] *)
Fixpoint leaf_levels (t : tree) (l : Z) : list (N * Z) :=
  match t with
  | Leaf s => [(s, l)]
  | Node a b => leaf_levels a (l + 1)%Z ++ leaf_levels b (l + 1)%Z
  end.

(* encodeNode / obtainCodewords: codewords[position] = (path value, level); entries never
   written keep the default Codeword() = 0/0 *)
Definition table_of_tree (t : tree) (n : nat) : list cw :=
  let cs := codes_of_tree t in
  map (fun i => match lookup_code cs i with
                | Some c => (code_val c, lenN c)
                | None => (0, 0)
                end) (map N.of_nat (seq 0 n)).

(* ------------------------------------------------------------------ E. chunk table step *)

(* A populated entry of the k-bit table (DecodeableSubstr seen through ventry[]):
   either [length] symbols decoded from the first [bits] bits of the chunk, or (length = 0) a
   pointer to the decoding subtree for codewords longer than k. *)
Inductive entry :=
| ESyms (syms : list N) (ebits : N)
| ETree (sub : tree).

(* one processChunk/getSubstring step at the bit level: the chunk is the next k bits (zero padded
   when the bucket is exhausted, as processChunk does); returns decoded symbols and consumed bits *)
Definition chunk_index (k : nat) (bs : list bool) : N :=
  code_val (firstn k (bs ++ repeat false k)).

Definition chunk_step (k : nat) (tab : N -> option entry) (bs : list bool) : option (list N * list bool) :=
  match tab (chunk_index k bs) with
  | Some (ESyms syms eb) => Some (syms, skipn (N.to_nat eb) bs)
  | Some (ETree sub) =>
    match tree_walk sub (skipn k bs) with
    | Some (s, rest) => Some ([s], rest)
    | None => None
    end
  | None => None
  end.

(* the same number of plain bit-level decoding steps *)
Fixpoint bit_steps (codes : list code) (n : nat) (bs : list bool) : option (list N * list bool) :=
  match n with
  | O => Some ([], bs)
  | S m => match match_first codes 0 bs with
           | Some (s, rest) => match bit_steps codes m rest with
                               | Some (l, r) => Some (s :: l, r)
                               | None => None
                               end
           | None => None
           end
  end.
