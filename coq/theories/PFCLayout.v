(* The layout a PFC dictionary built from the string list S has (characterisation of
   the constructor's output used by all PFC proofs): the text is the concatenation of
   the encoded buckets, the offset array holds 0, the start of every bucket and the
   total length.  Definitions only; the theorem [pfc_build_layout] is in PFCBuildProofs.v. *)
From LibCSD Require Import Base VByteDefs Spec PFCDefs.
Local Open Scope N_scope.

(* VByte(lcp) ++ remaining suffix ++ NUL *)
Definition enc_internal (prev cur : str) : list N :=
  vb_encode (lcp prev cur) ++ skipN (lcp prev cur) cur ++ [0].

Fixpoint enc_rest (prev : str) (ss : list str) : list N :=
  match ss with
  | [] => []
  | s :: r => enc_internal prev s ++ enc_rest s r
  end.

Definition enc_bucket (ss : list str) : list N :=
  match ss with
  | [] => []
  | h :: r => h ++ [0] ++ enc_rest h r
  end.

(* S cut into consecutive buckets of b strings (the last one possibly shorter) *)
Fixpoint chunks_fuel (fuel : nat) (b : nat) (S : list str) : list (list str) :=
  match fuel with
  | O => []
  | Datatypes.S f =>
      match S with
      | [] => []
      | _ => firstn b S :: chunks_fuel f b (skipn b S)
      end
  end.
Definition chunks (b : N) (S : list str) : list (list str) := chunks_fuel (length S) (N.to_nat b) S.

Fixpoint starts_from (off : N) (cs : list (list N)) : list N :=
  match cs with
  | [] => []
  | c :: r => off :: starts_from (off + lenN c) r
  end.

Definition layout_ok (d : pfc) (b : N) (S : list str) : Prop :=
  let cs := map enc_bucket (chunks b S) in
  p_elements d = lenN S /\ p_bsize d = b /\ p_buckets d = lenN cs /\
  p_text d = concat cs /\
  p_bl d = 0 :: starts_from 0 cs ++ [lenN (concat cs)].

(* inputs the theorems quantify over: NUL-free strings, strictly sorted, lengths that fit
   the `uint` the iterator reports them in *)
Definition nul_free (s : str) : Prop := Forall (fun b => b <> 0) s.
Definition pfc_input (S : list str) : Prop :=
  S <> [] /\ Forall nul_free S /\ sorted_lt S /\ Forall (fun s => lenN s < 2 ^ 32) S /\ lenN S < 2 ^ 32.
