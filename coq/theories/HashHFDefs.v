(* Executable model of the LOADED StringDictionaryHASHHF object (Huffman coded strings behind a double-hashing
   table) and of the code it runs to answer locate / extract, statement by statement:
     StringDictionaryHASHHF.cpp      locate, extract, load (the three options of Hash::load)
     Hash/Hashdh.cpp, HashBdh.cpp, HashBBdh.cpp   search (multiplicative probe / iterative probe), getValue
     Hash/Hash.cpp                   scmp
     utils/Coder/StatCoder.cpp       encodeString (= CodesDefs.pack_symbols + the `new uchar[4 * strLen + 1]` capacity)
     utils/Coder/DecodingTable.cpp   processChunk, getSubstring (regular entries and decoding subtrees), the
                                     ventry[] descriptors as load() fills them (all 256, since e6f3f34)
   Definitions only; proofs are in HashHFProofs.v.

   The dictionary value is what StringDictionaryHASHHF::load leaves in memory: elements, maxlength, maxcomplength,
   textStrings[0 .. bytesStrings), codewords[256], the DecodingTable (k, stream, the non-zero entries of table[2^k],
   the set bits of `endings`, the decoding subtrees) and the hash table in the representation chosen at load
   ([HashDictDefs.hrepr]: Hashdh = bitmap + full offset array, HashBdh = bitmap + offsets of the occupied cells,
   HashBBdh = bitmap + bitmap of the offsets).  Hash values are DATA, as in HashDefs / HashDictDefs: a query is an
   [hkey] = (pattern bytes, bitwisehash, step_value) where the two hash values are those of the ENCODED pattern
   (locate hashes encodeString(str, strLen + 1)); the driver calls the repo's own inline functions.

   Memory: every read of textStrings / stream / codewords / subtrees / the table arrays goes through [nthN] / [rdN]
   ([None] = the access leaves the array).  The scratch buffer `tmp` of extract is the list of its initialised
   prefix (HTFCDefs.buf_write: a write at an index <= its length extends/overwrites it, a write beyond or at an
   index >= its capacity is [None]).  The bit machine (ChunkScan: [bst], [ast], [load_byte], [fill_chunk],
   [tree_descend]) is the one of HTFCDefs; [hh_chunk_lookup] / [hh_asm_step] repeat HTFCDefs.chunk_lookup / asm_step
   over this record with the descriptor table of the current source. *)
From LibCSD Require Import Base VByteDefs Spec PFCDefs CodesDefs RePairDefs HTFCDefs HashDefs HashDictDefs.
Local Open Scope N_scope.

Record hashhf := mk_hashhf {
  hh_elements : N; hh_maxlength : N; hh_maxcomplength : N;
  hh_text : list N;                  (* textStrings[0 .. bytesStrings) *)
  hh_cw : list cw;                   (* codewords[256] = (codeword, bits) *)
  hh_k : N;                          (* table->k *)
  hh_stream : list N;                (* table->stream[0 .. bytesStream) *)
  hh_tab : list (N * N);             (* non-zero entries (index, position) of table->table[2^k] *)
  hh_endings : list N;               (* set bits of table->endings *)
  hh_trees : list (list (Z * Z * Z));(* table->subtrees[i]->tree[j] = (symbol, children[0], children[1]) *)
  hh_repr : hrepr                    (* hash *)
}.

(* ---------------------------------------------------------------------- *)
(* DecodingTable::processChunk / getSubstring                              *)
(* ---------------------------------------------------------------------- *)
(* load(): for (i = 0; i < 256; i++) { ventry[i].length = (i & 240) >> 4; ventry[i].bits = (i & 15) + 1; } *)
Definition hh_ventry (code : N) : option (N * N) :=
  if code <? 256 then Some (N.shiftr (N.land code 240) 4, N.land code 15 + 1) else None.

(* getSubstring, bit-machine part: index, table[index], ventry[stream[position]], the symbols / the subtree walk *)
Definition hh_chunk_lookup (d : hashhf) (b : bst) : option (centry * bst) :=
  let k := hh_k d in
  if c_valid b <? k then None
  else
    let index := N.land (N.shiftr (c_chunk b) (c_valid b - k)) (hmask k) in
    let position := assoc0 (hh_tab d) index in
    match rdN (hh_stream d) position with
    | None => None
    | Some code =>
        match hh_ventry code with
        | None => None
        | Some (len, bits) =>
            if negb (len =? 0) then
              match take_syms (N.to_nat len) (skipN (position + 1) (hh_stream d)) with
              | None => None
              | Some syms =>
                  Some (CReg (position + 1) syms (memN (hh_endings d) index),
                        {| c_chunk := c_chunk b; c_valid := wsub16 (c_valid b) bits; b_ptr := b_ptr b;
                           b_remain := b_remain b |})
              end
            else
              if position + 1 <=? lenN (hh_stream d) then
                match vb_decode (skipN (position + 1) (hh_stream d)) with
                | None => None
                | Some (idTree, _) =>
                    match rdN (hh_trees d) idTree with
                    | None => None
                    | Some tree =>
                        match rdN tree 0 with
                        | None => None
                        | Some root =>
                            match tree_descend (S (length tree)) (hh_text d) tree root
                                    {| c_chunk := c_chunk b; c_valid := wsub16 (c_valid b) k; b_ptr := b_ptr b;
                                       b_remain := b_remain b |} with
                            | None => None
                            | Some (sym, b') => Some (CTree sym, b')
                            end
                        end
                    end
                end
              else None
        end
    end.

(* getSubstring, assembly part (the `extracted <= 2` rule, `endings`, strlen on the stream, `advanced`) *)
Definition hh_asm_step (d : hashhf) (cap : N) (e : centry) (a : ast) : option (ast * bool) :=
  match e with
  | CReg pos syms ending =>
      let len := lenN syms in
      match buf_write_list (a_buf a) cap (a_len a) syms with
      | None => None
      | Some buf' =>
          let ext' := wu32 (a_ext a + len) in
          if ext' <=? 2 then
            Some ({| a_buf := buf'; a_len := wu32 (a_len a + len); a_adv := wu32 (a_adv a + len); a_ext := ext' |}, false)
          else if ending then
            (* uint substrLen = strlen(&stream[position]) + 1; *)
            match buf_strlen (hh_stream d) pos with
            | None => None
            | Some sl =>
                let substrLen := wu32 (sl + 1) in
                Some ({| a_buf := buf'; a_len := wu32 (a_len a + substrLen); a_adv := wsub32 len substrLen;
                         a_ext := ext' |}, true)
            end
          else Some ({| a_buf := buf'; a_len := wu32 (a_len a + len); a_adv := a_adv a; a_ext := ext' |}, false)
      end
  | CTree sym =>
      match buf_write (a_buf a) cap (a_len a) (Z.to_N (sym mod 256)) with
      | None => None
      | Some buf' =>
          Some ({| a_buf := buf'; a_len := wu32 (a_len a + 1); a_adv := a_adv a; a_ext := wu32 (a_ext a + 1) |},
                (sym =? 0)%Z)
      end
  end.

(* bool DecodingTable::processChunk(ChunkScan* c) *)
Definition hh_process_chunk (d : hashhf) (cap : N) (b : bst) (a : ast) : option (bst * ast * bool) :=
  match fill_chunk (S (S (N.to_nat (hh_k d / 8)))) (hh_text d) (hh_k d) b with
  | None => None
  | Some b1 =>
      match hh_chunk_lookup d b1 with
      | None => None
      | Some (e, b2) =>
          match hh_asm_step d cap e a with
          | None => None
          | Some (a', fin) => Some (b2, a', fin)
          end
      end
  end.

(* ---------------------------------------------------------------------- *)
(* extract                                                                 *)
(* ---------------------------------------------------------------------- *)
(* while (!(table->processChunk(&chunk)));     every call appends at least one byte below cap *)
Fixpoint hh_xloop (fuel : nat) (d : hashhf) (cap : N) (b : bst) (a : ast) : option (bst * ast) :=
  match fuel with
  | O => None
  | S f =>
      match hh_process_chunk d cap b a with
      | None => None
      | Some (b', a', true) => Some (b', a')
      | Some (b', a', false) => hh_xloop f d cap b' a'
      end
  end.

(* uchar *StringDictionaryHASHHF::extract(size_t id, uint *strLen)
     if ((id > 0) && (id <= elements)) {
       uchar *tmp = new uchar[4 * maxlength + table->getK()];
       uint remain = maxcomplength + 4;  uint pos = hash->getValue(id);
       ChunkScan chunk = {0, 0, textStrings + pos, remain, tmp, 0, 0, 1};
       while (!(table->processChunk(&chunk)));
       tmp[chunk.strLen] = '\0';  *strLen = chunk.strLen - 1;  return tmp;
     } else { *strLen = 0; return NULL; }
   outer None = memory error; Some None = NULL; Some (Some (bytes up to the first NUL of tmp, *strLen)) *)
Definition hh_cap (d : hashhf) : N := wu32 (4 * hh_maxlength d + hh_k d).

(* the body of extract once `hash->getValue(id)` has returned [off] *)
Definition hh_extract_at (d : hashhf) (off : N) : option (option (str * N)) :=
  let cap := hh_cap d in
  match hh_xloop (S (N.to_nat cap)) d cap
          {| c_chunk := 0; c_valid := 0; b_ptr := wu32 off; b_remain := wu32 (hh_maxcomplength d + 4) |}
          {| a_buf := []; a_len := 0; a_adv := 0; a_ext := 1 |} with
  | None => None
  | Some (_, a) =>
      match buf_write (a_buf a) cap (a_len a) 0 with
      | None => None
      | Some buf =>
          match take0 buf with
          | None => None
          | Some s => Some (Some (s, wsub32 (a_len a) 1))
          end
      end
  end.

Definition hashhf_extract_raw (d : hashhf) (id : N) : option (option (str * N)) :=
  if (0 <? id) && (id <=? hh_elements d) then
    match hr_getValue (hh_repr d) id with
    | None => None
    | Some off => hh_extract_at d off
    end
  else Some None.

(* the answer as the specification sees it: the string, provided the reported length is its length *)
Definition hh_fin (r : option (option (str * N))) : option (option str) :=
  match r with
  | None => None
  | Some None => Some None
  | Some (Some (s, l)) => if l =? lenN s then Some (Some s) else None
  end.
Definition hashhf_extract (d : hashhf) (id : N) : option (option str) := hh_fin (hashhf_extract_raw d id).

(* IteratorDictString *StringDictionaryHASHHF::extractTable()
     uchar *tmp = new uchar[4 * maxlength + table->getK()];
     for (uint i = 1; i <= elements; i++) {
       uint remain = maxlength;                         (NOT maxcomplength + 4 as in extract)
       uint pos = hash->getValue(i);
       ChunkScan chunk = {0, 0, textStrings + pos, remain, tmp, 0, 0, 1};
       while (!(table->processChunk(&chunk)));
       tabledec[i - 1] = new uchar[chunk.strLen + 1];
       strncpy(tabledec[i - 1], chunk.str, chunk.strLen);  tabledec[i - 1][chunk.strLen] = 0;  }
   The scratch buffer is reused: what an earlier round left above the bytes written in this round is stale but
   initialised; the model starts every round with an empty initialised prefix, so reading such bytes is [None]
   (never happens when every round ends with the NUL it wrote).  strncpy stops at the first NUL. *)
Definition hh_table_entry (d : hashhf) (i : N) : option str :=
  let cap := hh_cap d in
  match hr_getValue (hh_repr d) i with
  | None => None
  | Some off =>
      match hh_xloop (S (N.to_nat cap)) d cap
              {| c_chunk := 0; c_valid := 0; b_ptr := wu32 off; b_remain := wu32 (hh_maxlength d) |}
              {| a_buf := []; a_len := 0; a_adv := 0; a_ext := 1 |} with
      | None => None
      | Some (_, a) =>
          let pre := firstN (a_len a) (a_buf a) in
          match take0 pre with
          | Some s => Some s
          | None => if lenN pre =? a_len a then Some pre else None
          end
      end
  end.

(* the strings the iterator hands out (next() reports strlen); None = a memory error in some round *)
Definition hashhf_table (d : hashhf) : option (list (option str)) :=
  hd_table_loop (fun i => option_map Some (hh_table_entry d i)) (N.to_nat (hh_elements d)) 1 (hh_elements d).

(* ---------------------------------------------------------------------- *)
(* locate                                                                  *)
(* ---------------------------------------------------------------------- *)
(* uchar *StatCoder::encodeString(str, strLen, &encLen, &offset): new uchar[4 * strLen + 1]; the byte being filled
   (index = number of completed bytes; encodeSymbol clears it after every completed byte) must lie inside that
   allocation.  Result = encoded[0 .. encLen) *)
Definition hh_encode (cws : list cw) (s : list N) : option (list N) :=
  match pack_symbols cws s ([], 0, 0) with
  | None => None
  | Some st => if lenN (fst (fst st)) <? 4 * lenN s + 1 then Some (final_bytes st) else None
  end.

(* int Hash::scmp(size_t offset, uchar *w, size_t len)
     for (size_t i = 0; i < len; i++) if (w[i] != data[offset + i]) return 1;   return 0;
   Some true = 0 (equal over len bytes), Some false = 1, None = data[offset + i] lies outside textStrings *)
Fixpoint hh_scmp (text : list N) (pos : N) (w : list N) : option bool :=
  match w with
  | [] => Some true
  | x :: r => match rdN text pos with
              | None => None
              | Some y => if x =? y then hh_scmp text (pos + 1) r else Some false
              end
  end.

(* one probe of the three search functions:
     if (!b_ht->access(c)) return (size_t)-1;
     if (scmp(<offset stored for cell c>, w, len) == 0) return b_ht->rank1(c) - 1;          (locate adds the 1 back)
   <offset stored for cell c> = hash->getField(c) | hash->getField(rank1(c) - 1) | offsets->select1(rank1(c)) *)
Definition hh_probe (d : hashhf) (enc : list N) (cell : N) : hd_pres :=
  match nthN (hr_bits (hh_repr d)) cell with
  | None => HOob
  | Some false => HStop
  | Some true =>
      match hr_getValuePos (hh_repr d) cell with
      | None => HOob
      | Some off =>
          match hh_scmp (hh_text d) off enc with
          | None => HOob
          | Some true => HFound (dh_rank1 (hr_bits (hh_repr d)) cell)
          | Some false => HNext
          end
      end
  end.

(* HashBdh::search / HashBBdh::search: for (i = 1; i < tsize; i++) { hval = (hval + h2) % tsize; <probe hval> } return -1 *)
Fixpoint hh_iter_loop (probe : N -> hd_pres) (fuel : nat) (m h2 hval : N) : option N :=
  match fuel with
  | O => Some 0
  | S f =>
      let hval' := dh_step m h2 hval in
      match probe hval' with
      | HFound id => Some id
      | HStop => Some 0
      | HOob => None
      | HNext => hh_iter_loop probe f m h2 hval'
      end
  end.

Definition hh_search_iter (probe : N -> hd_pres) (bits : list bool) (h1 h2 : N) : option N :=
  match probe h1 with
  | HFound id => Some id
  | HStop => Some 0
  | HOob => None
  | HNext => hh_iter_loop probe (Nat.pred (length bits)) (lenN bits) h2 h1
  end.

(* unsigned long StringDictionaryHASHHF::locate(uchar *str, uint strLen)
     uchar *encoded = coder->encodeString(str, strLen + 1, &encLen, &offset);
     id = hash->search(encoded, encLen) + 1;
   The pattern is the C buffer q ++ [0], of which the first (uint)(strLen + 1) bytes are encoded.  Hashdh::search is the probe loop of HashDictDefs.hd_locate
   (next = (hval + i * h2) % tsize); the other two classes step iteratively.  None = a read out of bounds. *)
Definition hashhf_locate (d : hashhf) (hq : hkey) : option N :=
  match hh_encode (hh_cw d) (firstN (wu32 (lenN (hk_key hq) + 1)) (hk_key hq ++ [0])) with
  | None => None
  | Some enc =>
      let bits := hr_bits (hh_repr d) in
      match hh_repr d with
      | RDh _ => fst (hd_locate (fun (_ : unit) c => (hh_probe d enc c, tt)) bits tt (hk_h1 hq) (hk_h2 hq))
      | _ => hh_search_iter (hh_probe d enc) bits (hk_h1 hq) (hk_h2 hq)
      end
  end.

(* StringDictionaryHASHHF::load(in, technique) after save: everything but the hash class is the same
   (Hash::load reads the element count n of the image: the checker ties it to [hh_elements]) *)
Definition hashhf_load (d : hashhf) (opt : N) : option hashhf :=
  match hh_repr d with
  | RDh f =>
      match hr_load f (hh_elements d) opt with
      | Some r => Some (mk_hashhf (hh_elements d) (hh_maxlength d) (hh_maxcomplength d) (hh_text d) (hh_cw d) (hh_k d)
                                  (hh_stream d) (hh_tab d) (hh_endings d) (hh_trees d) r)
      | None => None
      end
  | _ => None
  end.

(* ---------------------------------------------------------------------- *)
(* verified checker, run by the harness on the dumped real object           *)
(* ---------------------------------------------------------------------- *)
(* 256 codewords, prefix-free, 1 <= bits <= 32, right-aligned *)
Definition hh_code_chk (cws : list cw) : bool :=
  (lenN cws =? 256) && check_prefix_free cws && check_lengths cws.

(* the dictionary's strings: NUL-free bytes, short enough for `strLen + 1` *)
Definition hh_str_ok (s : str) : bool :=
  forallb (fun b => negb (b =? 0) && (b <? 256)) s && (lenN s + 1 <? 2 ^ 32).

(* every occupied cell (in cell order): its offset points at the bytes encodeString(key, |key| + 1) produces *)
Fixpoint hh_cells_chk (cws : list cw) (text : list N) (td : list str) (offs : list N) : bool :=
  match td, offs with
  | [], [] => true
  | k :: td', o :: offs' =>
      match hh_encode cws (k ++ [0]) with
      | Some enc => (o <=? lenN text) && hprefix_eqb enc (skipN o text)
      | None => false
      end && hh_cells_chk cws text td' offs'
  | _, _ => false
  end.

(* the model's own decoder hands out the key of the id-th occupied cell, for id = from, from + 1, ... *)
Fixpoint hh_extract_chk (d : hashhf) (td : list str) (id : N) : bool :=
  match td with
  | [] => true
  | k :: td' =>
      match hashhf_extract d id with
      | Some (Some s) => list_eqb s k
      | _ => false
      end && hh_extract_chk d td' (id + 1)
  end.

Fixpoint hh_sorted_ltb (l : list N) : bool :=
  match l with
  | x :: ((y :: _) as r) => (x <? y) && hh_sorted_ltb r
  | _ => true
  end.

(* [ks] = the strings in input order with the hash values of their encodings (what the constructor inserts);
   [d] = the object loaded with option 1 (Hashdh) *)
Definition hashhf_check (ks : list hkey) (d : hashhf) : bool :=
  match hh_repr d with
  | RDh f =>
      let m := lenN (ft_bits f) in
      dh_build_ok m ks &&
      match dh_build m ks with
      | Some (t, _) =>
          let td := dh_tdict t in
          let ot := hd_ot (ft_bits f) (ft_hash f) in
          let offs := hd_occ ot in
          bools_eqb (ft_bits f) (dh_bits_of t) &&
          bools_eqb (ft_bits (dh_finish ot)) (ft_bits f) && list_eqb (ft_hash (dh_finish ot)) (ft_hash f) &&
          hh_sorted_ltb offs &&
          hh_code_chk (hh_cw d) &&
          forallb (fun b => b <? 256) (hh_text d) &&
          hh_cells_chk (hh_cw d) (hh_text d) td offs &&
          hh_extract_chk d td 1 &&
          forallb hh_str_ok (map hk_key ks) && (1 <=? lenN ks) && (hh_elements d =? lenN ks)
      | None => false
      end
  | _ => false
  end.
