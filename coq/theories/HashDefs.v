(* Executable model of the double-hashing tables of libCSD
     Hash/HashUtils.h   (nearest_prime; bitwisehash / step_value are NOT modelled:
                         the two hash values of every key are DATA, see below)
     Hash/Hash.cpp, Hash/HashDAC.cpp          (insert, finish)
     Hash/Hashdh.cpp, HashBdh.cpp, HashBBdh.cpp, HashDAC.cpp   (search, getValue, getValuePos)
     StringDictionaryHASH{RPDAC,RPF,HF,UFFDAC}.cpp (ID = rank of the occupied cell,
                         Tdict* = strings sorted by cell, locate, extract)

   The model is parametric in the hash values: a key comes with (h1, h2) =
   (bitwisehash(w,len,tsize), step_value(w,len,tsize)) supplied by the caller
   (the C++ driver calls the repo's own inline functions).

   size_t arithmetic is written out: [wrap64].  Every array read goes through
   [nthN]; the result constructors IOob / SOob are the model's rendering of an
   out-of-bounds access.  Definitions only, no proofs. *)
From LibCSD Require Import Base.
Local Open Scope N_scope.

(* ---- keys --------------------------------------------------------------- *)
Definition hbytes := list N.                         (* the byte string that is hashed *)
Record hkey := mkHKey { hk_key : hbytes; hk_h1 : N; hk_h2 : N }.

Fixpoint hbytes_eqb (a b : hbytes) : bool :=
  match a, b with
  | [], [] => true
  | x :: a', y :: b' => (x =? y) && hbytes_eqb a' b'
  | _, _ => false
  end.

(* ---- the construction-time table: hashtable[i] == (size_t)-1  <->  None.
   A cell is abstracted to the key whose offset it stores (the C++ stores an offset
   into the compressed text and compares the text found there: scmp,
   extractStringAndCompareDAC, extractStringAndCompareRP). *)
Definition dh_table := list (option hbytes).

Definition dh_empty_table (m : N) : dh_table := repeat None (N.to_nat m).

Fixpoint dh_set {A} (l : list A) (i : nat) (x : A) : list A :=
  match l, i with
  | [], _ => []
  | _ :: t, O => x :: t
  | h :: t, S i' => h :: dh_set t i' x
  end.
Definition dh_setN {A} (l : list A) (i : N) (x : A) : list A := dh_set l (N.to_nat i) x.

Definition dh_wrap64 (x : N) : N := x mod 2 ^ 64.

(* hval = (hval + h2) % tsize;   (size_t arithmetic) *)
Definition dh_step (m h2 hval : N) : N := dh_wrap64 (hval + h2) mod m.

(* ---- Hash::insert / HashDAC::insert ------------------------------------- *)
Inductive dh_ires :=
| IOk (c : N) (t : dh_table)      (* returns the cell, table updated, n++ *)
| IFull                         (* "Error Hash table full", returns (size_t)-1 *)
| IOob.                         (* a read outside hashtable[0..tsize) *)

(* for (size_t i = 1; i < tsize; i++) { hval = (hval + h2) % tsize; if (hashtable[hval] == -1) {...return hval;} } *)
Fixpoint dh_insert_loop (fuel : nat) (t : dh_table) (k : hbytes) (m h2 hval : N) : dh_ires :=
  match fuel with
  | O => IFull
  | S f =>
      let hval' := dh_step m h2 hval in
      match nthN t hval' with
      | None => IOob
      | Some None => IOk hval' (dh_setN t hval' (Some k))
      | Some (Some _) => dh_insert_loop f t k m h2 hval'
      end
  end.

(* note: no duplicate check and no key comparison at insertion time (as in the C++) *)
Definition dh_insert (t : dh_table) (hk : hkey) : dh_ires :=
  let hval := hk_h1 hk in
  match nthN t hval with
  | None => IOob
  | Some None => IOk hval (dh_setN t hval (Some (hk_key hk)))
  | Some (Some _) => dh_insert_loop (Nat.pred (length t)) t (hk_key hk) (lenN t) (hk_h2 hk) hval
  end.

(* the constructors' insertion loop: sorting[current].hash = hash->insert(...).
   None = some insertion did not return a cell (the C++ then calls
   setOffset((size_t)-1, ..): an out-of-bounds write) *)
Fixpoint dh_insert_all (t : dh_table) (ks : list hkey) : option (dh_table * list N) :=
  match ks with
  | [] => Some (t, [])
  | hk :: r =>
      match dh_insert t hk with
      | IOk c t' =>
          match dh_insert_all t' r with
          | Some (t'', cs) => Some (t'', c :: cs)
          | None => None
          end
      | _ => None
      end
  end.

Definition dh_build (m : N) (ks : list hkey) : option (dh_table * list N) :=
  dh_insert_all (dh_empty_table m) ks.

(* ---- search -------------------------------------------------------------- *)
Inductive dh_sres :=
| SFound (c : N)               (* the cell whose stored key compared equal *)
| SAbsent                      (* (size_t)-1 / NORESULT *)
| SOob.

(* iterative form: HashBdh::search, HashBBdh::search, HashDAC::search
   for (i = 1; i < tsize; i++) { hval = (hval + h2) % tsize; if (!b_ht->access(hval)) return -1;
                                 if (scmp(..) == 0) return ..; }  return -1; *)
Fixpoint dh_search_loop (fuel : nat) (t : dh_table) (q : hbytes) (m h2 hval : N) : dh_sres :=
  match fuel with
  | O => SAbsent
  | S f =>
      let hval' := dh_step m h2 hval in
      match nthN t hval' with
      | None => SOob
      | Some None => SAbsent
      | Some (Some k') => if hbytes_eqb k' q then SFound hval' else dh_search_loop f t q m h2 hval'
      end
  end.

Definition dh_search (t : dh_table) (hq : hkey) : dh_sres :=
  let hval := hk_h1 hq in
  match nthN t hval with
  | None => SOob
  | Some None => SAbsent
  | Some (Some k') =>
      if hbytes_eqb k' (hk_key hq) then SFound hval
      else dh_search_loop (Nat.pred (length t)) t (hk_key hq) (lenN t) (hk_h2 hq) hval
  end.

(* multiplicative form: Hashdh::search, StringDictionaryHASHRPDAC::locate,
   StringDictionaryHASHRPF::locate:   next = (hval + i * h2) % tsize;   (i converted to size_t) *)
Definition dh_probe_mul (m h1 h2 i : N) : N := dh_wrap64 (h1 + dh_wrap64 (i * h2)) mod m.

Fixpoint dh_search_mul_loop (fuel : nat) (t : dh_table) (q : hbytes) (m h1 h2 i : N) : dh_sres :=
  match fuel with
  | O => SAbsent
  | S f =>
      let next := dh_probe_mul m h1 h2 i in
      match nthN t next with
      | None => SOob
      | Some None => SAbsent
      | Some (Some k') => if hbytes_eqb k' q then SFound next else dh_search_mul_loop f t q m h1 h2 (i + 1)
      end
  end.

Definition dh_search_mul (t : dh_table) (hq : hkey) : dh_sres :=
  let hval := hk_h1 hq in
  match nthN t hval with
  | None => SOob
  | Some None => SAbsent
  | Some (Some k') =>
      if hbytes_eqb k' (hk_key hq) then SFound hval
      else dh_search_mul_loop (Nat.pred (length t)) t (hk_key hq) (lenN t) hval (hk_h2 hq) 1
  end.

(* ---- bitmap b_ht, rank / select as list functions ------------------------ *)
Definition dh_is_occ {A} (c : option A) : bool := match c with Some _ => true | None => false end.
Definition dh_bits_of {A} (t : list (option A)) : list bool := map dh_is_occ t.

Fixpoint dh_count1 (l : list bool) : N :=
  match l with
  | [] => 0
  | b :: r => (if b then 1 else 0) + dh_count1 r
  end.

(* BitSequence::rank1(i): number of ones in positions [0..i] *)
Definition dh_rank1 (bs : list bool) (i : N) : N := dh_count1 (firstn (S (N.to_nat i)) bs).

(* BitSequence::select1(k): position of the k-th one, k >= 1 *)
Fixpoint dh_select1_from (bs : list bool) (k pos : N) : option N :=
  match bs with
  | [] => None
  | b :: r =>
      if b then (if k =? 1 then Some pos else dh_select1_from r (k - 1) (pos + 1))
      else dh_select1_from r k (pos + 1)
  end.
Definition dh_select1 (bs : list bool) (k : N) : option N :=
  if k =? 0 then None else dh_select1_from bs k 0.

(* ---- IDs: Tdict* = the strings sorted by their cell (std::sort by .hash);
   the i-th string of Tdict* gets ID i, i.e. ID = b_ht->rank1(cell) ---------- *)
Fixpoint dh_tdict (t : dh_table) : list hbytes :=
  match t with
  | [] => []
  | Some k :: r => k :: dh_tdict r
  | None :: r => dh_tdict r
  end.

Definition dh_id_of_cell (t : dh_table) (c : N) : N := dh_rank1 (dh_bits_of t) c.

(* what the DAC/RP-based variants compare with at cell c: the rank1(c)-th string of Tdict* *)
Definition dh_stored_via_rank (t : dh_table) (c : N) : option hbytes :=
  nthN (dh_tdict t) (dh_id_of_cell t c - 1).

(* locate: None = out-of-bounds read; Some 0 = NORESULT *)
Definition dh_locate (t : dh_table) (hq : hkey) : option N :=
  match dh_search t hq with
  | SFound c => Some (dh_id_of_cell t c)
  | SAbsent => Some 0
  | SOob => None
  end.

Definition dh_locate_mul (t : dh_table) (hq : hkey) : option N :=
  match dh_search_mul t hq with
  | SFound c => Some (dh_id_of_cell t c)
  | SAbsent => Some 0
  | SOob => None
  end.

(* extract: if ((id > 0) && (id <= elements)) the id-th string of Tdict* else NULL *)
Definition dh_extract (t : dh_table) (id : N) : option hbytes :=
  if (0 <? id) && (id <=? lenN (dh_tdict t)) then nthN (dh_tdict t) (id - 1) else None.

(* ---- the three stored representations (load options 1, 2, 3) --------------
   otable: the construction-time array of offsets, None = (size_t)-1.
   finish: b_ht = bitmap of the occupied cells, hash = LogSequence of tsize offsets (0 in empty cells) *)
Definition dh_otable := list (option N).
Record dh_ftable := mkFT { ft_bits : list bool; ft_hash : list N }.

Definition dh_finish (ot : dh_otable) : dh_ftable :=
  mkFT (dh_bits_of ot) (map (fun c => match c with Some o => o | None => 0 end) ot).

(* Hashdh: full array *)
Definition getValuePos_dh (f : dh_ftable) (i : N) : option N := nthN (ft_hash f) i.
Definition getValue_dh (f : dh_ftable) (id : N) : option N :=
  match dh_select1 (ft_bits f) id with Some p => nthN (ft_hash f) p | None => None end.

(* HashBdh::load: for (i = 1; i <= n; i++) hash'[i-1] = seq[b_ht->select1(i)] *)
Fixpoint dh_compact_from (f : dh_ftable) (cnt : nat) (i : N) : option (list N) :=
  match cnt with
  | O => Some []
  | S c =>
      match getValue_dh f i, dh_compact_from f c (i + 1) with
      | Some v, Some r => Some (v :: r)
      | _, _ => None
      end
  end.
Definition dh_compact_B (f : dh_ftable) (n : N) : option (list N) := dh_compact_from f (N.to_nat n) 1.

Definition getValuePos_B (bits : list bool) (comp : list N) (i : N) : option N :=
  nthN comp (dh_rank1 bits i - 1).
Definition getValue_B (comp : list N) (id : N) : option N := nthN comp (id - 1).

(* HashBBdh::load: BitString of hash[select1(n)] + 1 bits, bit hash[select1(i)] set for i = 1..n *)
Definition dh_offbits_BB (f : dh_ftable) (n : N) : option (list bool) :=
  match getValue_dh f n, dh_compact_B f n with
  | Some last, Some offs =>
      Some (fold_left (fun bs o => dh_setN bs o true) offs (repeat false (N.to_nat (last + 1))))
  | _, _ => None
  end.

Definition getValuePos_BB (bits offb : list bool) (i : N) : option N := dh_select1 offb (dh_rank1 bits i).
Definition getValue_BB (offb : list bool) (id : N) : option N := dh_select1 offb id.

(* ---- nearest_prime (HashUtils.h) ------------------------------------------
   inner loop   for (i = 3; i < sqrt_prime; i += 2) if (prime % i == 0) break;
   state (i, stopped); sqrt_prime iterations always suffice *)
Definition np_inner_step (prime sqrt_prime : N) (st : N * bool) : N * bool :=
  let (i, stop) := st in
  if stop then st
  else if i <? sqrt_prime then (if prime mod i =? 0 then (i, true) else (i + 2, false))
  else (i, true).

Definition np_inner (prime sqrt_prime : N) : N :=
  fst (N.iter sqrt_prime (np_inner_step prime sqrt_prime) (3, false)).

(* while (true) { if (prime % 2 != 0) { sqrt_prime = (size_t)(sqrt(prime) + 1); <inner>;
                                         if (i >= sqrt_prime) return prime; }  prime++; }
   The integer square root N.sqrt stands for (size_t)sqrt((double)prime) (exact below 2^52).
   The while(true) gets explicit fuel; None = fuel exhausted. *)
Fixpoint nearest_prime_loop (fuel : nat) (prime : N) : option N :=
  match fuel with
  | O => None
  | S f =>
      if negb (prime mod 2 =? 0) then
        let sqrt_prime := N.sqrt prime + 1 in
        let i := np_inner prime sqrt_prime in
        if sqrt_prime <=? i then Some prime else nearest_prime_loop f (prime + 1)
      else nearest_prime_loop f (prime + 1)
  end.

Definition nearest_prime (fuel : nat) (n : N) : option N := nearest_prime_loop fuel n.

(* ---- boolean checkers for the hypotheses of the theorems ------------------ *)
(* what bitwisehash / step_value + a prime table size guarantee for one key *)
Definition hk_ok (m : N) (hk : hkey) : bool :=
  (hk_h1 hk <? m) && (hk_h2 hk <? m) && (N.gcd (hk_h2 hk) m =? 1).

Fixpoint hbytes_in (k : hbytes) (l : list hbytes) : bool :=
  match l with
  | [] => false
  | x :: r => hbytes_eqb x k || hbytes_in k r
  end.
Fixpoint hbytes_nodup (l : list hbytes) : bool :=
  match l with
  | [] => true
  | x :: r => negb (hbytes_in x r) && hbytes_nodup r
  end.

Definition dh_build_ok (m : N) (ks : list hkey) : bool :=
  (m <? 2 ^ 32) && (lenN ks <=? m) && forallb (hk_ok m) ks && hbytes_nodup (map hk_key ks).
