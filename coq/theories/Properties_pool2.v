(* C10 (progress) — termination of the worker pool (parallel/Worker.hpp) under fairness.
   ONLY exported statements, each closed by [exact] of a lemma of PoolProgress.v, followed by
   Print Assumptions; one Example per theorem. *)
From Coq Require Import List NArith Bool Arith Permutation.
From LibCSD Require Import Base PoolDefs PoolProofs PoolProgress.
Import ListNotations.

(* ---- (1) every effective step strictly decreases the variant [mu] ------------------------ *)
(* both variants, every script without add_task after stop_all_workers, every reachable state *)
Theorem C10_pool_nonstutter_decreases : forall fixed W script s tid s',
  wf_script script = true -> reachable fixed W script s ->
  step fixed s tid = Some s' -> mu s' < mu s.
Proof. exact pool_nonstutter_decreases. Qed.
Print Assumptions C10_pool_nonstutter_decreases.

(* the two other kinds of picks: an effective spurious wake-up costs +4, a skipped pick nothing *)
Theorem C10_pool_exec_cases : forall fixed s p,
  Good fixed s ->
  (effective fixed s p = true /\ mu (exec fixed s p) < mu s) \/
  (effective fixed s p = false /\ exec fixed s p = s) \/
  (is_spur p = true /\ mu (exec fixed s p) = mu s + 4).
Proof. exact exec_cases. Qed.
Print Assumptions C10_pool_exec_cases.

Theorem C10_pool_reachable_good : forall fixed W script s,
  wf_script script = true -> reachable fixed W script s -> Good fixed s.
Proof. exact reachable_good. Qed.
Print Assumptions C10_pool_reachable_good.

(* "continue" with an empty queue after the wait is dead code (both variants) *)
Theorem C10_pool_continue_unreachable : forall fixed W script s i,
  wf_script script = true -> reachable fixed W script s ->
  nth_error (wpcs s) i <> Some WContUnlock.
Proof. exact pool_continue_unreachable. Qed.
Print Assumptions C10_pool_continue_unreachable.

Theorem C10_pool_progress_wf : forall fixed W script,
  wf_script script = true -> well_founded (eff_step fixed W script).
Proof. exact pool_progress_wf. Qed.
Print Assumptions C10_pool_progress_wf.

(* ANY schedule (fair or not, both variants): #effective steps + remaining variant <= bound *)
Theorem C10_pool_effective_steps_bounded : forall fixed W ts sched,
  neff fixed sched (init W (script_of ts)) + mu (run fixed sched (init W (script_of ts)))
  <= pool_bound W (length ts) (nspur sched).
Proof. exact pool_effective_steps_bounded. Qed.
Print Assumptions C10_pool_effective_steps_bounded.

Example C10_nonstutter_example :
  let s := run true (go 5 1 ++ go 2 0) (init 2 (script_of [5; 6]%N)) in
  wf_script (script_of [5; 6]%N) = true /\
  (exists s', step true s 2 = Some s' /\ mu s' < mu s) /\
  neff true (go 5 1 ++ go 2 0) (init 2 (script_of [5; 6]%N)) = 7.
Proof. vm_compute. split; [reflexivity|]. split; [eexists; split; [reflexivity|]|reflexivity]. vm_compute. repeat constructor. Qed.

(* in a non-final state K consecutive picks of a K-fair Spur-free schedule are not all skipped *)
Theorem C10_pool_stutter_bounded : forall W ts s l K,
  reachable true W (script_of ts) s -> final s = false ->
  spur_free l = true -> K_fair W K l -> K <= length l ->
  mu (run true l s) < mu s /\ run true l s <> s.
Proof. exact pool_stutter_bounded. Qed.
Print Assumptions C10_pool_stutter_bounded.

(* ---- (2) termination of the fixed variant ------------------------------------------------ *)
Theorem C10_pool_terminates_fixed : forall W ts sched tail K,
  spur_free tail = true -> K_fair W K tail ->
  K * pool_bound W (length ts) (nspur sched) <= length tail ->
  exists n, n <= K * pool_bound W (length ts) (nspur sched) /\
            final (run true (sched ++ firstn n tail) (init W (script_of ts))) = true.
Proof. exact pool_terminates_fixed. Qed.
Print Assumptions C10_pool_terminates_fixed.

Theorem C10_pool_terminates_fixed_whole : forall W ts sched tail K rest,
  spur_free tail = true -> K_fair W K tail ->
  K * pool_bound W (length ts) (nspur sched) <= length tail ->
  final (run true (sched ++ tail ++ rest) (init W (script_of ts))) = true.
Proof. exact pool_terminates_fixed_whole. Qed.
Print Assumptions C10_pool_terminates_fixed_whole.

Theorem C10_pool_terminates_round_robin : forall W ts sched m,
  pool_bound W (length ts) (nspur sched) <= m ->
  final (run true (sched ++ rr_tail W m) (init W (script_of ts))) = true.
Proof. exact pool_terminates_round_robin. Qed.
Print Assumptions C10_pool_terminates_round_robin.

Theorem C10_pool_terminates_progressive : forall W ts sched ws,
  progressive ws (run true sched (init W (script_of ts))) ->
  pool_bound W (length ts) (nspur sched) <= length ws ->
  final (run true (sched ++ concat ws) (init W (script_of ts))) = true.
Proof. exact pool_terminates_progressive. Qed.
Print Assumptions C10_pool_terminates_progressive.

(* the round-robin is (W+1)-fair, Spur-free, of the expected length: hypotheses satisfiable *)
Theorem C10_pool_rr_tail_K_fair : forall W m,
  K_fair W (S W) (rr_tail W m) /\ spur_free (rr_tail W m) = true /\ length (rr_tail W m) = S W * m.
Proof. exact rr_tail_K_fair. Qed.
Print Assumptions C10_pool_rr_tail_K_fair.

Example C10_terminates_hyps_example :
  let tail := rr_tail 2 (pool_bound 2 3 (nspur ex_prefix)) in
  spur_free tail = true /\ K_fair 2 3 tail /\
  3 * pool_bound 2 3 (nspur ex_prefix) <= length tail.
Proof. exact terminates_fixed_hyps. Qed.

(* W = 2, 3 tasks: bound 149 rounds; the plain round-robin is final after 53 rounds *)
Example C10_terminates_example :
  pool_bound 2 3 0 = 149 /\
  final (run true (rr_tail 2 149) (init 2 (script_of [5; 6; 5]%N))) = true /\
  final (run true (rr_tail 2 52) (init 2 (script_of [5; 6; 5]%N))) = false /\
  final (run true (rr_tail 2 53) (init 2 (script_of [5; 6; 5]%N))) = true.
Proof. vm_compute. repeat split; reflexivity. Qed.

(* unfair prefix with 3 spurious wake-ups, then round-robin: bound 161 *)
Example C10_terminates_spur_example :
  nspur ex_prefix = 3 /\ pool_bound 2 3 3 = 161 /\
  final (run true (ex_prefix ++ rr_tail 2 161) (init 2 (script_of [5; 6; 5]%N))) = true.
Proof. vm_compute. repeat split; reflexivity. Qed.

(* ---- (3) wait_workers returns, every task executed exactly once --------------------------- *)
Theorem C10_pool_wait_workers_returns : forall W ts sched tail K,
  W >= 1 ->
  spur_free tail = true -> K_fair W K tail ->
  K * pool_bound W (length ts) (nspur sched) <= length tail ->
  exists n, n <= K * pool_bound W (length ts) (nspur sched) /\
    let s := run true (sched ++ firstn n tail) (init W (script_of ts)) in
    final s = true /\
    prog s = [] /\
    (forall i, i < W -> exited s i = true) /\
    (forall t, cnt t (map fst (executed s)) = cnt t ts) /\
    Permutation (map fst (executed s)) ts /\ queue s = [] /\ err s = false.
Proof. exact C10_wait_workers_returns. Qed.
Print Assumptions C10_pool_wait_workers_returns.

Theorem C10_pool_wait_workers_returns_rr : forall W ts sched m,
  W >= 1 -> pool_bound W (length ts) (nspur sched) <= m ->
  let s := run true (sched ++ rr_tail W m) (init W (script_of ts)) in
  final s = true /\ prog s = [] /\ (forall i, i < W -> exited s i = true) /\
  (forall t, cnt t (map fst (executed s)) = cnt t ts) /\
  Permutation (map fst (executed s)) ts /\ queue s = [] /\ err s = false.
Proof. exact C10_wait_workers_returns_rr. Qed.
Print Assumptions C10_pool_wait_workers_returns_rr.

Example C10_wait_workers_returns_example :
  let s := run true (ex_prefix ++ rr_tail 2 161) (init 2 (script_of [5; 6; 5]%N)) in
  prog s = [] /\ length (executed s) = 3 /\ cnt 5%N (map fst (executed s)) = 2 /\
  cnt 6%N (map fst (executed s)) = 1 /\ queue s = [].
Proof. vm_compute. repeat split; reflexivity. Qed.

(* ---- (4) contrast: the pinned variant ----------------------------------------------------- *)
Theorem C10_pool_pinned_fair_nontermination :
  exists s, reachable false 1 (script_of []) s /\
            final s = false /\
            forall l, spur_free l = true ->
                      run false l s = s /\ final (run false l s) = false.
Proof. exact pool_pinned_fair_nontermination. Qed.
Print Assumptions C10_pool_pinned_fair_nontermination.

Theorem C10_pool_pinned_lost_task_forever :
  exists s, reachable false 1 [AddTask 7%N; WaitWorkers] s /\
            forall l, spur_free l = true ->
                      final (run false l s) = false /\ queue (run false l s) = [7%N] /\
                      executed (run false l s) = [].
Proof. exact pool_pinned_lost_task_forever. Qed.
Print Assumptions C10_pool_pinned_lost_task_forever.

Theorem C10_pool_stuck_closed : forall fixed l s,
  any_enabled fixed s = false -> spur_free l = true -> run fixed l s = s.
Proof. exact stuck_closed. Qed.
Print Assumptions C10_pool_stuck_closed.

Example C10_pinned_needs_spurious_example :
  final (run false (lost_wakeup_sched ++ rr_tail 1 1000) (init 1 (script_of []))) = false /\
  final (run false (lost_wakeup_sched ++ [Spur 0] ++ rr_tail 1 8) (init 1 (script_of []))) = true.
Proof. exact pinned_needs_spurious. Qed.

(* C10: "a task added while all workers are about to sleep is still picked up" (concrete instance;
   the general statement is C10_pool_wait_workers_returns, which quantifies over all prefixes) *)
Example C10_task_added_while_about_to_sleep_example :
  let s1 := run true about_to_sleep_prefix (init 2 (script_of [9%N])) in
  wpcs s1 = [WSleep; WBlock] /\ pp s1 = PStart /\ queue s1 = [] /\
  let s2 := run true (about_to_sleep_prefix ++ go 1 2 ++ go 3 0) (init 2 (script_of [9%N])) in
  wpcs s2 = [WSleep; WSleep] /\ queue s2 = [9%N] /\ pp s2 = PNotify /\
  let s3 := run true (about_to_sleep_prefix ++ go 1 2 ++ go 3 0 ++ rr_tail 2 (pool_bound 2 1 0))
                (init 2 (script_of [9%N])) in
  final s3 = true /\ map fst (executed s3) = [9%N].
Proof. exact task_added_while_about_to_sleep. Qed.
