(* C09 / C11 — no writable object with static storage duration was added to the library since the
   inventory was reviewed.  Compiled after regenerating gen/Statics_gen.v (tools/translate_statics.py:
   nm / readelf on the plain build of the CURRENT working tree). *)
From Coq Require Import List String.
From LibCSD Require Import StaticsRef.
From LibCSD.gen Require Import Statics_gen.
Import ListNotations.
Local Open Scope string_scope.

Theorem C11_no_unreviewed_shared_static : statics_ok statics_gen = true.
Proof. vm_compute. reflexivity. Qed.

Theorem C09_no_unreviewed_shared_static : statics_ok statics_gen = true.
Proof. exact C11_no_unreviewed_shared_static. Qed.

(* the writable statics reachable from the pool / the block builder: a constant that is never written and the worker-id counter,
   which only the thread constructing the pool increments *)
Theorem C11_statics_on_build_path : map sr_name on_build_path =
  ["NullFreq"; "Worker::Worker(WorkerQueue&, std::mutex&, std::condition_variable&)::workers_count"].
Proof. vm_compute. reflexivity. Qed.

Theorem C11_every_static_is_reviewed : forall o n, In (o, n) statics_gen ->
  exists r, In r reviewed /\ sr_obj r = o /\ sr_name r = n.
Proof. exact (statics_ok_spec statics_gen C11_no_unreviewed_shared_static). Qed.
Print Assumptions C11_every_static_is_reviewed.
