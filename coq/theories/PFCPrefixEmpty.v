(* The prefix search of the byte-exact PFC model on EVERY pattern, the empty one included.

   The theorems of PFCPrefixProofs.v (pfc_locate_prefix_spec, pfc_extract_prefix_spec, ...) carry
   the hypothesis [p <> []].  Their proofs never use it: the core theorem
   [pfc_locate_prefix_spec_gen] is stated for any NUL-free pattern, and the empty list is NUL-free.
   (For p = [] strncmp(header, p, 0) = 0 on every header, i.e. every bucket has class Eq, the
   boundary searches return (1, last bucket), searchPrefix stops on the very first string
   (lcp = 0 = |p|) and searchDistinctPrefix runs to the end of the last bucket.)

   Here:
     spec_prefix_ids_nil / spec_prefix_strs_nil / range_of_prefix_ids_nil :
         the specification's answer for the empty pattern: all IDs 1..n, all strings, limits (1, n)
     pfc_locate_prefix_empty, pfc_extract_prefix_empty (+ _built, + closed forms) : p = []
     pfc_locate_prefix_all, pfc_locate_prefix_ids_all, pfc_extract_prefix_all (+ _built),
     pfc_param_indep_prefix_all : the statements of PFCPrefixProofs.v without [p <> []]. *)
From LibCSD Require Import Base VByteDefs VByteProofs Spec SpecProofs PFCDefs PFCLayout
  PFCBuildProofs PFCExtractProofs LexLemmas PFCLocateProofs PFCTheorems PFCPrefixProofs.
From Coq Require Import Lia ZifyBool ZifyNat ZifyN.
Ltac Zify.zify_post_hook ::= Z.to_euclidean_division_equations.
Local Open Scope N_scope.

(* ====================================================================== *)
(* 1. the specification on the empty pattern                               *)
(* ====================================================================== *)
Lemma nul_free_nil : nul_free [].
Proof. constructor. Qed.

Lemma is_prefix_nil s : is_prefix [] s = true.
Proof. reflexivity. Qed.

(* every member begins with the empty pattern: all IDs 1..n *)
Lemma spec_prefix_ids_nil S : spec_prefix_ids S [] = nrange 1 (length S).
Proof.
  unfold spec_prefix_ids. apply ids_where_all. apply Forall_forall. intros s _. reflexivity.
Qed.

Lemma spec_prefix_strs_nil S : spec_prefix_strs S [] = S.
Proof.
  unfold spec_prefix_strs. apply filter_all. apply Forall_forall. intros s _. reflexivity.
Qed.

Lemma range_of_prefix_ids_nil S : S <> [] -> range_of (spec_prefix_ids S []) = (1, lenN S).
Proof.
  intros Hne. rewrite spec_prefix_ids_nil. destruct S as [|s r]; [congruence|].
  cbn [length]. rewrite range_of_nrange, lenN_cons.
  reflexivity.
Qed.

(* ... as an explicit enumeration *)
Lemma spec_prefix_ids_nil_seq S :
  spec_prefix_ids S [] = map (fun i => 1 + N.of_nat i) (seq 0 (length S)).
Proof. rewrite spec_prefix_ids_nil. apply nrange_seq. Qed.

(* ====================================================================== *)
(* 2. extractPrefix for any NUL-free pattern                               *)
(* ====================================================================== *)
(* the proof of pfc_extract_prefix_spec, on top of pfc_locate_prefix_spec_gen *)
Theorem pfc_extract_prefix_spec_gen d b S p :
  layout_ok d b S -> 2 <= b -> pfc_input S -> nul_free p ->
  pfc_extract_prefix d p =
  Some (match spec_prefix_strs S p with [] => None | l => Some l end).
Proof.
  intros HL Hb HS Hnp. unfold pfc_extract_prefix.
  rewrite (pfc_locate_prefix_spec_gen d b S p HL ltac:(lia) HS Hnp).
  pose proof HS as (_ & _ & Hsort & _ & _).
  destruct (prefix_answer S p Hsort) as (A & M & B & E & _ & Es & Er).
  rewrite Er, Es. destruct M as [|m0 M']; [reflexivity|].
  destruct (N.eqb_spec (1 + lenN A) 0); [lia|].
  assert (Hlen : lenN S = lenN A + (1 + lenN M') + lenN B) by (rewrite E, !lenN_app, lenN_cons; lia).
  rewrite (iter_range_spec d b S HL Hb HS (1 + lenN A) (1 + lenN A + lenN M')) by lia.
  do 2 f_equal.
  replace (1 + lenN A - 1) with (lenN A) by lia.
  replace (1 + lenN A + lenN M' - (1 + lenN A) + 1) with (lenN (m0 :: M')) by (rewrite lenN_cons; lia).
  rewrite E, skipN_app_exact, firstN_app_exact. reflexivity.
Qed.

(* ====================================================================== *)
(* 3. the empty pattern                                                    *)
(* ====================================================================== *)
Theorem pfc_locate_prefix_empty d b S :
  layout_ok d b S -> 2 <= b -> pfc_input S ->
  pfc_locate_prefix d [] = Some (range_of (spec_prefix_ids S [])).
Proof.
  intros HL Hb HS. apply (pfc_locate_prefix_spec_gen d b S []); auto; [lia|apply nul_free_nil].
Qed.

(* closed form: the limits are (1, n) *)
Corollary pfc_locate_prefix_empty_range d b S :
  layout_ok d b S -> 2 <= b -> pfc_input S ->
  pfc_locate_prefix d [] = Some (1, lenN S).
Proof.
  intros HL Hb HS. rewrite (pfc_locate_prefix_empty d b S HL Hb HS).
  rewrite range_of_prefix_ids_nil; [reflexivity|]. destruct HS as (Hne & _). exact Hne.
Qed.

Theorem pfc_extract_prefix_empty d b S :
  layout_ok d b S -> 2 <= b -> pfc_input S ->
  pfc_extract_prefix d [] =
  Some (match spec_prefix_strs S [] with [] => None | l => Some l end).
Proof.
  intros HL Hb HS. apply (pfc_extract_prefix_spec_gen d b S []); auto. apply nul_free_nil.
Qed.

(* closed form: never NULL, the iterator yields the whole set in order *)
Corollary pfc_extract_prefix_empty_all d b S :
  layout_ok d b S -> 2 <= b -> pfc_input S ->
  pfc_extract_prefix d [] = Some (Some S).
Proof.
  intros HL Hb HS. rewrite (pfc_extract_prefix_empty d b S HL Hb HS), spec_prefix_strs_nil.
  destruct HS as (Hne & _). destruct S; [congruence|reflexivity].
Qed.

(* the contiguous iterator built from the limits of the empty pattern enumerates 1..n *)
Corollary pfc_locate_prefix_empty_ids d b S :
  layout_ok d b S -> 2 <= b -> pfc_input S ->
  exists r, pfc_locate_prefix d [] = Some r /\
            contig_ids (fst r) (snd r) = spec_prefix_ids S [] /\
            spec_prefix_ids S [] = nrange 1 (length S).
Proof.
  intros HL Hb HS. exists (range_of (spec_prefix_ids S [])).
  split; [apply (pfc_locate_prefix_empty d b S); assumption|].
  split; [|apply spec_prefix_ids_nil].
  destruct HS as (_ & _ & Hsort & _ & Hn). apply range_ids_spec; [exact Hsort|].
  assert (2 ^ 32 < 2 ^ 64) by (apply N.pow_lt_mono_r; lia). lia.
Qed.

(* ====================================================================== *)
(* 4. every pattern: the statements of PFCPrefixProofs.v without p <> []    *)
(* ====================================================================== *)
Theorem pfc_locate_prefix_all d b S p :
  layout_ok d b S -> 2 <= b -> pfc_input S -> nul_free p -> lenN p < 2 ^ 32 ->
  pfc_locate_prefix d p = Some (range_of (spec_prefix_ids S p)).
Proof. intros HL Hb HS Hnp _. apply (pfc_locate_prefix_spec_gen d b S p); auto. lia. Qed.

Corollary pfc_locate_prefix_safe_all d b S p :
  layout_ok d b S -> 2 <= b -> pfc_input S -> nul_free p -> lenN p < 2 ^ 32 ->
  pfc_locate_prefix d p <> None.
Proof. intros HL Hb HS Hnp Hl. rewrite (pfc_locate_prefix_all d b S p); auto. discriminate. Qed.

Theorem pfc_locate_prefix_ids_all d b S p :
  layout_ok d b S -> 2 <= b -> pfc_input S -> nul_free p -> lenN p < 2 ^ 32 ->
  exists r, pfc_locate_prefix d p = Some r /\ contig_ids (fst r) (snd r) = spec_prefix_ids S p.
Proof.
  intros HL Hb HS Hnp Hl. exists (range_of (spec_prefix_ids S p)).
  split; [apply (pfc_locate_prefix_all d b S p); assumption|].
  destruct HS as (_ & _ & Hsort & _ & Hn). apply range_ids_spec; [exact Hsort|].
  assert (2 ^ 32 < 2 ^ 64) by (apply N.pow_lt_mono_r; lia). lia.
Qed.

Corollary pfc_locate_prefix_contiguous_all d b S p :
  layout_ok d b S -> 2 <= b -> pfc_input S -> nul_free p -> lenN p < 2 ^ 32 ->
  exists r, pfc_locate_prefix d p = Some r /\ contiguous (contig_ids (fst r) (snd r)).
Proof.
  intros HL Hb HS Hnp Hl.
  destruct (pfc_locate_prefix_ids_all d b S p HL Hb HS Hnp Hl) as (r & E1 & E2).
  exists r. split; [exact E1|]. rewrite E2. apply spec_prefix_ids_contiguous.
  destruct HS as (_ & _ & Hsort & _). exact Hsort.
Qed.

Theorem pfc_extract_prefix_all d b S p :
  layout_ok d b S -> 2 <= b -> pfc_input S -> nul_free p -> lenN p < 2 ^ 32 ->
  pfc_extract_prefix d p =
  Some (match spec_prefix_strs S p with [] => None | l => Some l end).
Proof. intros HL Hb HS Hnp _. apply (pfc_extract_prefix_spec_gen d b S p); auto. Qed.

Corollary pfc_extract_prefix_none_all d b S p :
  layout_ok d b S -> 2 <= b -> pfc_input S -> nul_free p -> lenN p < 2 ^ 32 ->
  (forall s, In s S -> is_prefix p s = false) -> pfc_extract_prefix d p = Some None.
Proof.
  intros HL Hb HS Hnp Hl Hno. rewrite (pfc_extract_prefix_all d b S p); auto.
  rewrite (proj2 (proj2 (prefix_none_iff S p)) Hno). reflexivity.
Qed.

Corollary pfc_extract_prefix_some_all d b S p s :
  layout_ok d b S -> 2 <= b -> pfc_input S -> nul_free p -> lenN p < 2 ^ 32 ->
  In s S -> is_prefix p s = true -> pfc_extract_prefix d p = Some (Some (spec_prefix_strs S p)).
Proof.
  intros HL Hb HS Hnp Hl Hin Hm. rewrite (pfc_extract_prefix_all d b S p); auto.
  destruct (spec_prefix_strs S p) eqn:E; [|reflexivity].
  rewrite (proj1 (proj2 (prefix_none_iff S p)) E s Hin) in Hm. discriminate.
Qed.

(* ====================================================================== *)
(* 5. the dictionary the constructor builds                                *)
(* ====================================================================== *)
Theorem pfc_locate_prefix_all_built S b0 p :
  pfc_input S -> nul_free p -> lenN p < 2 ^ 32 ->
  pfc_locate_prefix (pfc_build b0 S) p = Some (range_of (spec_prefix_ids S p)).
Proof.
  intros HS Hnp Hl. apply (pfc_locate_prefix_all _ (clamp_bsize b0) S); auto.
  - apply pfc_build_layout_gen.
  - apply clamp_bsize_ge2.
Qed.

Theorem pfc_locate_prefix_ids_all_built S b0 p :
  pfc_input S -> nul_free p -> lenN p < 2 ^ 32 ->
  exists r, pfc_locate_prefix (pfc_build b0 S) p = Some r /\
            contig_ids (fst r) (snd r) = spec_prefix_ids S p.
Proof.
  intros HS Hnp Hl. apply (pfc_locate_prefix_ids_all _ (clamp_bsize b0) S); auto.
  - apply pfc_build_layout_gen.
  - apply clamp_bsize_ge2.
Qed.

Theorem pfc_extract_prefix_all_built S b0 p :
  pfc_input S -> nul_free p -> lenN p < 2 ^ 32 ->
  pfc_extract_prefix (pfc_build b0 S) p =
  Some (match spec_prefix_strs S p with [] => None | l => Some l end).
Proof.
  intros HS Hnp Hl. apply (pfc_extract_prefix_all _ (clamp_bsize b0) S); auto.
  - apply pfc_build_layout_gen.
  - apply clamp_bsize_ge2.
Qed.

Theorem pfc_locate_prefix_empty_built S b0 :
  pfc_input S -> pfc_locate_prefix (pfc_build b0 S) [] = Some (1, lenN S).
Proof.
  intros HS. apply (pfc_locate_prefix_empty_range _ (clamp_bsize b0) S); auto.
  - apply pfc_build_layout_gen.
  - apply clamp_bsize_ge2.
Qed.

Theorem pfc_extract_prefix_empty_built S b0 :
  pfc_input S -> pfc_extract_prefix (pfc_build b0 S) [] = Some (Some S).
Proof.
  intros HS. apply (pfc_extract_prefix_empty_all _ (clamp_bsize b0) S); auto.
  - apply pfc_build_layout_gen.
  - apply clamp_bsize_ge2.
Qed.

(* the bucket size never changes a prefix answer, for every pattern *)
Corollary pfc_param_indep_prefix_all S p b0 b1 :
  pfc_input S -> nul_free p -> lenN p < 2 ^ 32 ->
  pfc_locate_prefix (pfc_build b0 S) p = pfc_locate_prefix (pfc_build b1 S) p /\
  pfc_extract_prefix (pfc_build b0 S) p = pfc_extract_prefix (pfc_build b1 S) p.
Proof.
  intros HS Hnp Hl. rewrite !pfc_locate_prefix_all_built, !pfc_extract_prefix_all_built by auto.
  split; reflexivity.
Qed.

(* ====================================================================== *)
(* 6. concrete instances                                                   *)
(* ====================================================================== *)
(* "a" "ab" "b", bucket size 2: buckets (a ab)(b) *)
Definition pe_ex_S : list str := [[97]; [97;98]; [98]].

Example pe_ex_input : pfc_input pe_ex_S.
Proof. apply pfc_input_chk_sound. vm_compute. reflexivity. Qed.

Example pe_ex_compute :
  pfc_locate_prefix (pfc_build 2 pe_ex_S) [] = Some (1, 3) /\
  pfc_extract_prefix (pfc_build 2 pe_ex_S) [] = Some (Some [[97]; [97;98]; [98]]) /\
  spec_prefix_ids pe_ex_S [] = [1; 2; 3] /\ spec_prefix_strs pe_ex_S [] = pe_ex_S /\
  contig_ids 1 3 = [1; 2; 3].
Proof. vm_compute. repeat split; reflexivity. Qed.

(* the 12-string set of PFCPrefixProofs.v, bucket sizes 2, 3 (n not a multiple of ... 5) and 16
   (a single bucket): the model itself computes (1, 12) and all strings *)
Example pe_ex12_compute :
  map (fun b0 => pfc_locate_prefix (pfc_build b0 pre_ex_S) []) [2; 3; 5; 16] =
    [Some (1, 12); Some (1, 12); Some (1, 12); Some (1, 12)] /\
  map (fun b0 => pfc_extract_prefix (pfc_build b0 pre_ex_S) []) [2; 3; 5; 16] =
    [Some (Some pre_ex_S); Some (Some pre_ex_S); Some (Some pre_ex_S); Some (Some pre_ex_S)].
Proof. vm_compute. split; reflexivity. Qed.

(* the theorems instantiated: hypotheses satisfiable, for every bucket size *)
Example pe_ex_theorems : forall b0,
  pfc_locate_prefix (pfc_build b0 pe_ex_S) [] = Some (1, 3) /\
  pfc_extract_prefix (pfc_build b0 pe_ex_S) [] = Some (Some pe_ex_S) /\
  (forall p, nul_free p -> lenN p < 2 ^ 32 ->
     pfc_locate_prefix (pfc_build b0 pe_ex_S) p = Some (range_of (spec_prefix_ids pe_ex_S p)) /\
     pfc_extract_prefix (pfc_build b0 pe_ex_S) p =
       Some (match spec_prefix_strs pe_ex_S p with [] => None | l => Some l end)).
Proof.
  intros b0. split; [|split].
  - exact (pfc_locate_prefix_empty_built pe_ex_S b0 pe_ex_input).
  - exact (pfc_extract_prefix_empty_built pe_ex_S b0 pe_ex_input).
  - intros p Hnp Hl. split.
    + apply pfc_locate_prefix_all_built; auto. apply pe_ex_input.
    + apply pfc_extract_prefix_all_built; auto. apply pe_ex_input.
Qed.
