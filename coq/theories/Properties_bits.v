(* C19 — bundled succinct structures agree with their plain definitions.
   ONLY statements + `exact`; every proof is in BitRGProofs.v. *)
From LibCSD Require Import Base Bytes BitRGDefs BitRGProofs.
Local Open Scope N_scope.

(* ---- A. the plain specification is coherent (inverse laws) ---- *)
Theorem C19_rank0_rank1 : forall l i, i < lenN l -> bv_rank0 l i + bv_rank1 l i = i + 1.
Proof. exact bv_rank0_rank1. Qed.
Print Assumptions C19_rank0_rank1.

Theorem C19_rank_select1 : forall l j, 1 <= j <= bv_ones l ->
  exists p, bv_select1 l j = Some p /\ p < lenN l /\ bv_rank1 l p = j /\ bv_access l p = true.
Proof. exact bv_rank_select1. Qed.
Print Assumptions C19_rank_select1.

Theorem C19_rank_select0 : forall l j, 1 <= j <= bv_zeros l ->
  exists p, bv_select0 l j = Some p /\ p < lenN l /\ bv_rank0 l p = j /\ bv_access l p = false.
Proof. exact bv_rank_select0. Qed.
Print Assumptions C19_rank_select0.

Theorem C19_select_rank1 : forall l i, i < lenN l -> bv_access l i = true -> bv_select1 l (bv_rank1 l i) = Some i.
Proof. exact bv_select_rank1. Qed.
Print Assumptions C19_select_rank1.

Theorem C19_select_rank0 : forall l i, i < lenN l -> bv_access l i = false -> bv_select0 l (bv_rank0 l i) = Some i.
Proof. exact bv_select_rank0. Qed.
Print Assumptions C19_select_rank0.

Theorem C19_seq_rank_select : forall c s j, 1 <= j <= seq_count c s ->
  exists p, seq_select c s j = Some p /\ p < lenN s /\ seq_rank c s p = j /\ seq_access s p = Some c.
Proof. exact seq_rank_select. Qed.
Print Assumptions C19_seq_rank_select.

Theorem C19_seq_select_rank : forall c s i, seq_access s i = Some c -> seq_select c s (seq_rank c s i) = Some i.
Proof. exact seq_select_rank. Qed.
Print Assumptions C19_seq_select_rank.

(* ---- B. BitSequenceRG, every bit vector (n < 2^32 - 64), every factor >= 1 ---- *)
Theorem C19_popcount_spec : forall x, popcount x = countb true (bitsn 32 x).
Proof. exact popcount_spec. Qed.
Print Assumptions C19_popcount_spec.

Theorem C19_c_mask_spec : forall k, k <= 31 -> c_mask k = N.ones k.
Proof. exact c_mask_spec. Qed.
Print Assumptions C19_c_mask_spec.

Theorem C19_rg_build_ok : forall bv factor, 1 <= factor -> lenN bv < W32 - 64 ->
  exists d, rg_of_bits bv factor = Some d /\ rg_wf bv d /\ rg_ones d = bv_ones bv /\ rg_factor d = factor /\
            lenN (rg_rs d) = lenN bv / (32 * factor) + 5.
Proof. exact rg_build_wf. Qed.
Print Assumptions C19_rg_build_ok.

Theorem C19_rg_rs_prefix : forall bv d k, rg_wf bv d -> k <= rg_n d / rg_s d ->
  nthN (rg_rs d) k = Some (prefix_count true bv (k * rg_s d)).
Proof. exact rs_prefix_count. Qed.
Print Assumptions C19_rg_rs_prefix.

Theorem C19_rg_rank1_spec : forall bv factor d, 1 <= factor -> lenN bv < W32 - 64 -> rg_of_bits bv factor = Some d ->
  forall i, i < lenN bv -> rg_rank1 d i = Some (bv_rank1 bv i).
Proof. exact rg_rank1_spec. Qed.
Print Assumptions C19_rg_rank1_spec.

Theorem C19_rg_rank0_spec : forall bv factor d, 1 <= factor -> lenN bv < W32 - 64 -> rg_of_bits bv factor = Some d ->
  forall i, i < lenN bv -> rg_rank0 d i = Some (bv_rank0 bv i).
Proof. exact rg_rank0_spec. Qed.
Print Assumptions C19_rg_rank0_spec.

Theorem C19_rg_access_spec : forall bv factor d, 1 <= factor -> lenN bv < W32 - 64 -> rg_of_bits bv factor = Some d ->
  forall i, i < lenN bv -> rg_access d i = Some (bv_access bv i).
Proof. exact rg_access_spec. Qed.
Print Assumptions C19_rg_access_spec.

Theorem C19_rg_select1_spec : forall bv factor d, 1 <= factor -> lenN bv < W32 - 64 -> rg_of_bits bv factor = Some d ->
  forall j, 1 <= j <= bv_ones bv -> rg_select1 d j = bv_select1 bv j.
Proof. exact rg_select1_spec. Qed.
Print Assumptions C19_rg_select1_spec.

Theorem C19_rg_select0_spec : forall bv factor d, 1 <= factor -> lenN bv < W32 - 64 -> rg_of_bits bv factor = Some d ->
  forall j, 1 <= j <= bv_zeros bv -> rg_select0 d j = bv_select0 bv j.
Proof. exact rg_select0_spec. Qed.
Print Assumptions C19_rg_select0_spec.

Theorem C19_rg_select1_out_of_range : forall bv factor d, 1 <= factor -> lenN bv < W32 - 64 -> rg_of_bits bv factor = Some d ->
  forall j, bv_ones bv < j < W32 -> rg_select1 d j = Some (W32 - 1).
Proof. exact rg_select1_out_of_range. Qed.
Print Assumptions C19_rg_select1_out_of_range.

Theorem C19_rg_select0_out_of_range : forall bv factor d, 1 <= factor -> lenN bv < W32 - 64 -> rg_of_bits bv factor = Some d ->
  forall j, bv_zeros bv < j < W32 -> rg_select0 d j = Some (W32 - 1).
Proof. exact rg_select0_out_of_range. Qed.
Print Assumptions C19_rg_select0_out_of_range.

(* the defect of the pinned tree: select1(0) reads Rs[0x7fffffff] (model: out-of-bounds read) *)
Theorem C19_rg_select1_zero_refuted : forall bv factor d, 1 <= factor -> lenN bv < W32 - 64 -> rg_of_bits bv factor = Some d ->
  rg_select1 d 0 = None.
Proof. exact rg_select1_of_zero_oob. Qed.
Print Assumptions C19_rg_select1_zero_refuted.

Theorem C19_rg_no_oob : forall bv factor d, 1 <= factor -> lenN bv < W32 - 64 -> rg_of_bits bv factor = Some d ->
  (forall i, i < lenN bv -> rg_access d i <> None /\ rg_rank1 d i <> None /\ rg_rank0 d i <> None) /\
  (forall j, 1 <= j <= bv_ones bv -> exists p, rg_select1 d j = Some p /\ p < lenN bv) /\
  (forall j, 1 <= j <= bv_zeros bv -> exists p, rg_select0 d j = Some p /\ p < lenN bv).
Proof. exact rg_no_oob. Qed.
Print Assumptions C19_rg_no_oob.

Theorem C19_rg_load_save : forall bv factor d, 1 <= factor -> lenN bv < W32 - 64 -> rg_of_bits bv factor = Some d ->
  forall rest, factor < W32 ->
  exists img, rg_save d = Some img /\ rg_load (img ++ rest) = Some (rg_reloaded d, rest) /\
    (forall i, i < lenN bv ->
       rg_access (rg_reloaded d) i = Some (bv_access bv i) /\
       rg_rank1 (rg_reloaded d) i = Some (bv_rank1 bv i) /\
       rg_rank0 (rg_reloaded d) i = Some (bv_rank0 bv i)) /\
    (forall j, 1 <= j <= bv_ones bv -> rg_select1 (rg_reloaded d) j = bv_select1 bv j) /\
    (forall j, 1 <= j <= bv_zeros bv -> rg_select0 (rg_reloaded d) j = bv_select0 bv j).
Proof. exact rg_load_save. Qed.
Print Assumptions C19_rg_load_save.

(* ---- C. pointer wavelet tree over ANY bitmap implementation meeting the plain laws ---- *)
Theorem C19_wt_access_spec :
  forall (B : Type) (bbuild : list bool -> B) (baccess : B -> N -> bool) (brank1 bselect1 bselect0 : B -> N -> N)
         (is_set : N -> nat -> bool) (maxlen : N),
  maxlen <= W32 - 2 ->
  (forall bits i, lenN bits < maxlen -> i < lenN bits -> baccess (bbuild bits) i = bv_access bits i) ->
  (forall bits i, lenN bits < maxlen -> i < lenN bits -> brank1 (bbuild bits) i = bv_rank1 bits i) ->
  (forall bits, lenN bits < maxlen -> brank1 (bbuild bits) (W64 - 1) = 0) ->
  (forall bits j p, lenN bits < maxlen -> bv_select1 bits j = Some p -> bselect1 (bbuild bits) j = p) ->
  (forall bits j p, lenN bits < maxlen -> bv_select0 bits j = Some p -> bselect0 (bbuild bits) j = p) ->
  forall depth s i, lenN s < maxlen -> separable is_set depth 0 s -> i < lenN s ->
  wt_access B baccess brank1 (wt_new B bbuild is_set depth s) i = seq_access s i.
Proof. exact wt_access_correct. Qed.
Print Assumptions C19_wt_access_spec.

Theorem C19_wt_rank_spec :
  forall (B : Type) (bbuild : list bool -> B) (baccess : B -> N -> bool) (brank1 bselect1 bselect0 : B -> N -> N)
         (is_set : N -> nat -> bool) (maxlen : N),
  maxlen <= W32 - 2 ->
  (forall bits i, lenN bits < maxlen -> i < lenN bits -> baccess (bbuild bits) i = bv_access bits i) ->
  (forall bits i, lenN bits < maxlen -> i < lenN bits -> brank1 (bbuild bits) i = bv_rank1 bits i) ->
  (forall bits, lenN bits < maxlen -> brank1 (bbuild bits) (W64 - 1) = 0) ->
  (forall bits j p, lenN bits < maxlen -> bv_select1 bits j = Some p -> bselect1 (bbuild bits) j = p) ->
  (forall bits j p, lenN bits < maxlen -> bv_select0 bits j = Some p -> bselect0 (bbuild bits) j = p) ->
  forall depth s c i, lenN s < maxlen -> separable is_set depth 0 s -> i < lenN s ->
  wt_rank B brank1 is_set (wt_new B bbuild is_set depth s) c i = seq_rank c s i.
Proof. exact wt_rank_correct. Qed.
Print Assumptions C19_wt_rank_spec.

Theorem C19_wt_select_spec :
  forall (B : Type) (bbuild : list bool -> B) (baccess : B -> N -> bool) (brank1 bselect1 bselect0 : B -> N -> N)
         (is_set : N -> nat -> bool) (maxlen : N),
  maxlen <= W32 - 2 ->
  (forall bits i, lenN bits < maxlen -> i < lenN bits -> baccess (bbuild bits) i = bv_access bits i) ->
  (forall bits i, lenN bits < maxlen -> i < lenN bits -> brank1 (bbuild bits) i = bv_rank1 bits i) ->
  (forall bits, lenN bits < maxlen -> brank1 (bbuild bits) (W64 - 1) = 0) ->
  (forall bits j p, lenN bits < maxlen -> bv_select1 bits j = Some p -> bselect1 (bbuild bits) j = p) ->
  (forall bits j p, lenN bits < maxlen -> bv_select0 bits j = Some p -> bselect0 (bbuild bits) j = p) ->
  forall depth s c j p, lenN s < maxlen -> separable is_set depth 0 s -> seq_select c s j = Some p ->
  wt_select B bselect1 bselect0 is_set (wt_new B bbuild is_set depth s) c j = p.
Proof. exact wt_select_correct. Qed.
Print Assumptions C19_wt_select_spec.

(* ... instantiated by B: WaveletTree over BitSequenceBuilderRG(factor) *)
Theorem C19_wt_rg_access : forall factor, 1 <= factor -> forall is_set depth s,
  lenN s < W32 - 64 -> separable is_set depth 0 s -> forall i, i < lenN s ->
  wt_access rg rgt_access rgt_rank1 (wt_rg factor is_set depth s) i = seq_access s i.
Proof. exact wt_rg_access. Qed.
Print Assumptions C19_wt_rg_access.

Theorem C19_wt_rg_rank : forall factor, 1 <= factor -> forall is_set depth s,
  lenN s < W32 - 64 -> separable is_set depth 0 s -> forall c i, i < lenN s ->
  wt_rank rg rgt_rank1 is_set (wt_rg factor is_set depth s) c i = seq_rank c s i.
Proof. exact wt_rg_rank. Qed.
Print Assumptions C19_wt_rg_rank.

Theorem C19_wt_rg_select : forall factor, 1 <= factor -> forall is_set depth s,
  lenN s < W32 - 64 -> separable is_set depth 0 s -> forall c j p, seq_select c s j = Some p ->
  wt_select rg rgt_select1 rgt_select0 is_set (wt_rg factor is_set depth s) c j = p.
Proof. exact wt_rg_select. Qed.
Print Assumptions C19_wt_rg_select.

Theorem C19_prefix_free_separable : forall (code : N -> list bool) depth s,
  (forall a b, In a s -> In b s -> a <> b -> ~ is_prefix (code a) (code b)) ->
  (forall a, In a s -> (length (code a) <= depth)%nat) ->
  separable (fun x k => nth k (code x) false) depth 0 s.
Proof. exact prefix_free_separable. Qed.
Print Assumptions C19_prefix_free_separable.

Theorem C19_separable_b_sound : forall is_set depth s, separable_b is_set depth s = true -> separable is_set depth 0 s.
Proof. exact separable_b_sound. Qed.
Print Assumptions C19_separable_b_sound.

(* ---- the hypotheses are satisfiable on concrete, non-trivial inputs ---- *)
Definition ex_bv : list bool := map (fun i => orb (i mod 3 =? 0) (i mod 7 =? 1)) (nrange 200).   (* 200 bits, 87 ones *)
Definition ex_d : rg := match rg_of_bits ex_bv 2 with Some d => d | None => rg_empty end.

Example C19_ex_build : 1 <= 2 /\ lenN ex_bv < W32 - 64 /\ rg_of_bits ex_bv 2 = Some ex_d /\ bv_ones ex_bv = 87 /\ bv_zeros ex_bv = 113
                       /\ rg_rs ex_d = [0; 28; 56; 83; 0; 0; 0; 0].
Proof. vm_compute. repeat split; try reflexivity; intro H; discriminate H. Qed.

Example C19_ex_rank_access : 127 < lenN ex_bv /\ rg_rank1 ex_d 127 = Some (bv_rank1 ex_bv 127) /\ rg_rank0 ex_d 127 = Some (bv_rank0 ex_bv 127)
                             /\ rg_access ex_d 127 = Some (bv_access ex_bv 127) /\ bv_rank1 ex_bv 127 = 56.
Proof. vm_compute. repeat split; try reflexivity; intro H; discriminate H. Qed.

Example C19_ex_select : 1 <= 56 <= bv_ones ex_bv /\ rg_select1 ex_d 56 = bv_select1 ex_bv 56 /\ bv_select1 ex_bv 56 = Some 127
                        /\ 1 <= 113 <= bv_zeros ex_bv /\ rg_select0 ex_d 113 = bv_select0 ex_bv 113
                        /\ rg_select1 ex_d 88 = Some (W32 - 1) /\ rg_select0 ex_d 114 = Some (W32 - 1) /\ rg_select1 ex_d 0 = None.
Proof. vm_compute. repeat split; try reflexivity; intro H; discriminate H. Qed.

Example C19_ex_load_save :
  match rg_save ex_d with
  | Some img => rg_load (img ++ [1; 2; 3]) = Some (rg_reloaded ex_d, [1; 2; 3]) /\ lenN img = 4 + 8 + 8 + 4 * 7 + 4 * 4
  | None => False
  end.
Proof. vm_compute. split; reflexivity. Qed.

(* a Huffman-shaped code for the alphabet {5, 9, 200, 1000} and a sequence over it *)
Definition ex_table : list (N * list bool) := [(5, [false]); (9, [true; false]); (200, [true; true; false]); (1000, [true; true; true])].
Definition ex_seq : list N := [5; 9; 5; 200; 5; 1000; 9; 5; 5; 200; 9; 5; 1000; 5; 9; 5].
Example C19_ex_wt :
  separable_b (code_bit ex_table) 3 ex_seq = true /\ lenN ex_seq < W32 - 64 /\ seq_select 9 ex_seq 3 = Some 10 /\
  wt_access rg rgt_access rgt_rank1 (wt_rg 4 (code_bit ex_table) 3 ex_seq) 9 = seq_access ex_seq 9 /\
  wt_rank rg rgt_rank1 (code_bit ex_table) (wt_rg 4 (code_bit ex_table) 3 ex_seq) 5 12 = seq_rank 5 ex_seq 12 /\
  wt_select rg rgt_select1 rgt_select0 (code_bit ex_table) (wt_rg 4 (code_bit ex_table) 3 ex_seq) 9 3 = 10.
Proof. vm_compute. repeat split; try reflexivity; intro H; discriminate H. Qed.
