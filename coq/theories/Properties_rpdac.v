(* RPDAC: exported theorems (statements in full, proofs by reference to RPDACProofs.v) and one concrete
   instance per theorem: the grammar the REAL StringDictionaryRPDAC produced for
   S = {ab, abab, ababab, ababc, abc, c}  (terminals=100, rules 97:98, 100:100, sequences 100 | 101 | 101.100 | 101.99 | 100.99 | 99). *)
From LibCSD Require Import Base Spec SpecProofs PFCLayout RePairDefs RePairProofs RPDACDefs RPDACProofs.
Local Open Scope N_scope.

(* the hypotheses: the dictionary (grammar + DAC sequences) represents the sorted, NUL-free, non-empty set S *)
Theorem C01_rpdac_checkb_sound d S : rpdac_checkb d S = true -> rpdac_repr d S.
Proof. exact (rpdac_checkb_sound d S). Qed.
Print Assumptions C01_rpdac_checkb_sound.

Theorem C01_rpdac_inputb_sound S : rpdac_inputb S = true -> rpdac_input S.
Proof. exact (rpdac_inputb_sound S). Qed.
Print Assumptions C01_rpdac_inputb_sound.

(* 1. compare-while-expanding = sign of the lexicographic comparison *)
Theorem C01_rpdac_compare_expand_spec d S id s q :
  rpdac_repr d S -> lenN S < 2 ^ 31 -> nthN S (id - 1) = Some s -> 1 <= id ->
  nul_free s -> s <> [] -> nul_free q -> lenN q < 2 ^ 32 ->
  exists z, compare_dac d id q = Some z /\ Z.compare z 0 = lex_compare s q.
Proof. intros. eapply compare_expand_spec; eassumption. Qed.
Print Assumptions C01_rpdac_compare_expand_spec.

(* 2. locate / extract (result None = out-of-bounds read or fuel exhausted: unreachable) *)
Theorem C01_rpdac_locate_spec d S q :
  rpdac_repr d S -> rpdac_input S -> nul_free q -> lenN q < 2 ^ 32 ->
  rpdac_locate d q = Some (spec_locate S q).
Proof. intros. apply (rpdac_locate_spec d S); assumption. Qed.
Print Assumptions C01_rpdac_locate_spec.

Theorem C01_rpdac_extract_spec d S id :
  rpdac_repr d S -> rpdac_input S -> rpdac_extract d id = Some (spec_extract S id).
Proof. intros. apply rpdac_extract_spec; assumption. Qed.
Print Assumptions C01_rpdac_extract_spec.

(* 3. prefix comparison and locatePrefix *)
Theorem C04_rpdac_prefix_compare_spec d S id s p :
  rpdac_repr d S -> lenN S < 2 ^ 31 -> nthN S (id - 1) = Some s -> 1 <= id ->
  nul_free s -> s <> [] -> p <> [] -> nul_free p -> lenN p < 2 ^ 32 ->
  exists z, prefix_compare_dac d id p = Some z /\
            Z.compare z 0 = (if is_prefix p s then Eq else lex_compare s p).
Proof. intros. eapply prefix_compare_spec; eassumption. Qed.
Print Assumptions C04_rpdac_prefix_compare_spec.

Theorem C04_rpdac_locate_prefix_spec d S p :
  rpdac_repr d S -> rpdac_input S -> p <> [] -> nul_free p -> lenN p < 2 ^ 32 ->
  rpdac_locate_prefix d p = Some (range_of (spec_prefix_ids S p)).
Proof. intros. apply (rpdac_locate_prefix_spec d S); assumption. Qed.
Print Assumptions C04_rpdac_locate_prefix_spec.

Theorem C04_rpdac_extract_prefix_spec d S p :
  rpdac_repr d S -> rpdac_input S -> p <> [] -> nul_free p -> lenN p < 2 ^ 32 ->
  rpdac_extract_prefix d p = Some (spec_prefix_strs S p).
Proof. intros. apply (rpdac_extract_prefix_spec d S); assumption. Qed.
Print Assumptions C04_rpdac_extract_prefix_spec.

(* 4. extractTable through the string iterator *)
Theorem C13_rpdac_table_spec d S :
  rpdac_repr d S -> rpdac_input S -> rpdac_extract_table d = Some (spec_table S).
Proof. exact (rpdac_table_spec d S). Qed.
Print Assumptions C13_rpdac_table_spec.

(* corollaries in the vocabulary of C01 / C02 / C03 *)
Theorem C01_rpdac_round_trip d S s :
  rpdac_repr d S -> rpdac_input S -> (forall s, In s S -> lenN s < 2 ^ 32) -> In s S ->
  exists id, rpdac_locate d s = Some id /\ 1 <= id <= lenN S /\ rpdac_extract d id = Some (Some s).
Proof. intros. apply (rpdac_round_trip d S); assumption. Qed.
Print Assumptions C01_rpdac_round_trip.

Theorem C01_rpdac_round_trip_id d S i :
  rpdac_repr d S -> rpdac_input S -> (forall s, In s S -> lenN s < 2 ^ 32) -> 1 <= i <= lenN S ->
  exists s, rpdac_extract d i = Some (Some s) /\ In s S /\ rpdac_locate d s = Some i.
Proof. intros. apply (rpdac_round_trip_id d S); assumption. Qed.
Print Assumptions C01_rpdac_round_trip_id.

Theorem C02_rpdac_no_false_positive d S q :
  rpdac_repr d S -> rpdac_input S -> nul_free q -> lenN q < 2 ^ 32 -> ~ In q S -> rpdac_locate d q = Some 0.
Proof. intros. apply (rpdac_no_false_positive d S); assumption. Qed.
Print Assumptions C02_rpdac_no_false_positive.

Theorem C02_rpdac_bad_id_null d S id :
  rpdac_repr d S -> rpdac_input S -> id = 0 \/ lenN S < id -> rpdac_extract d id = Some None.
Proof. intros. apply (rpdac_bad_id_null d S); assumption. Qed.
Print Assumptions C02_rpdac_bad_id_null.

Theorem C03_rpdac_locate_monotone d S s u :
  rpdac_repr d S -> rpdac_input S -> (forall s, In s S -> lenN s < 2 ^ 32) -> In s S -> In u S -> lex_lt s u ->
  exists i j, rpdac_locate d s = Some i /\ rpdac_locate d u = Some j /\ i < j.
Proof. intros. apply (rpdac_locate_monotone d S); assumption. Qed.
Print Assumptions C03_rpdac_locate_monotone.

(* ---- the hypotheses are satisfiable: a real dictionary ------------------------------------ *)
Definition ex_S : list str :=
  [[97; 98]; [97; 98; 97; 98]; [97; 98; 97; 98; 97; 98]; [97; 98; 97; 98; 99]; [97; 98; 99]; [99]].
Definition ex_d : rpdac :=
  {| d_t := 100; d_rules := [(97, 98); (100, 100)];
     d_seqs := [[100]; [101]; [101; 100]; [101; 99]; [100; 99]; [99]];
     d_elements := 6; d_maxlength := 7 |}.

Example ex_hyp : rpdac_checkb ex_d ex_S = true /\ rpdac_inputb ex_S = true.
Proof. vm_compute. split; reflexivity. Qed.
Example ex_repr : rpdac_repr ex_d ex_S. Proof. apply rpdac_checkb_sound. vm_compute. reflexivity. Qed.
Example ex_input : rpdac_input ex_S. Proof. apply rpdac_inputb_sound. vm_compute. reflexivity. Qed.

(* compare: "ababc" (id 4) against "ababab" is positive, against itself 0, against "abac" negative;
   the string "abab" against its extension "ababa" is negative (end of string before end of query) *)
Example ex_compare :
  compare_dac ex_d 4 [97; 98; 97; 98; 97; 98] = Some 2%Z /\ compare_dac ex_d 4 [97; 98; 97; 98; 99] = Some 0%Z /\
  compare_dac ex_d 4 [97; 98; 97; 99] = Some (-1)%Z /\ compare_dac ex_d 2 [97; 98; 97; 98; 97] = Some (-97)%Z /\
  compare_dac ex_d 3 [97; 98; 97] = Some 98%Z.
Proof. vm_compute. repeat split. Qed.

Example ex_locate :
  map (rpdac_locate ex_d) ex_S = map Some [1; 2; 3; 4; 5; 6] /\
  rpdac_locate ex_d [97; 98; 97] = Some 0 /\ rpdac_locate ex_d [100] = Some 0 /\ rpdac_locate ex_d [97] = Some 0 /\
  map (spec_locate ex_S) ex_S = [1; 2; 3; 4; 5; 6].
Proof. vm_compute. repeat split. Qed.

Example ex_extract :
  map (rpdac_extract ex_d) [0; 1; 4; 6; 7; 2 ^ 32 + 1] =
  [Some None; Some (Some [97; 98]); Some (Some [97; 98; 97; 98; 99]); Some (Some [99]); Some None; Some None].
Proof. vm_compute. reflexivity. Qed.

(* prefix comparison: exhausted pattern inside a rule gives 0 *)
Example ex_prefix_compare :
  prefix_compare_dac ex_d 3 [97; 98; 97] = Some 0%Z /\ prefix_compare_dac ex_d 1 [97; 98; 97] = Some (-97)%Z /\
  prefix_compare_dac ex_d 5 [97; 98; 97] = Some 2%Z /\ prefix_compare_dac ex_d 6 [97] = Some 2%Z.
Proof. vm_compute. repeat split. Qed.

Example ex_locate_prefix :
  rpdac_locate_prefix ex_d [97; 98] = Some (1, 5) /\ rpdac_locate_prefix ex_d [97; 98; 97] = Some (2, 4) /\
  rpdac_locate_prefix ex_d [97; 98; 99] = Some (5, 5) /\ rpdac_locate_prefix ex_d [98] = Some (0, 0) /\
  rpdac_locate_prefix ex_d [99] = Some (6, 6) /\
  range_of (spec_prefix_ids ex_S [97; 98; 97]) = (2, 4) /\ range_of (spec_prefix_ids ex_S [98]) = (0, 0).
Proof. vm_compute. repeat split. Qed.

Example ex_extract_prefix :
  rpdac_extract_prefix ex_d [97; 98; 97; 98] = Some [[97; 98; 97; 98]; [97; 98; 97; 98; 97; 98]; [97; 98; 97; 98; 99]] /\
  rpdac_extract_prefix ex_d [98] = Some [] /\
  spec_prefix_strs ex_S [97; 98; 97; 98] = [[97; 98; 97; 98]; [97; 98; 97; 98; 97; 98]; [97; 98; 97; 98; 99]].
Proof. vm_compute. repeat split. Qed.

Example ex_table : rpdac_extract_table ex_d = Some ex_S.
Proof. vm_compute. reflexivity. Qed.

(* the hypothesis p <> [] of the prefix theorems is necessary: the code compares the first symbol with the
   terminating NUL of the empty pattern and reports "no match", the specification lists every id *)
Example ex_empty_pattern :
  rpdac_locate_prefix ex_d [] = Some (0, 0) /\ range_of (spec_prefix_ids ex_S []) = (1, 6).
Proof. vm_compute. split; reflexivity. Qed.

(* ---- the prefix search of the current tree (empty-prefix guard of ad3c59e): EVERY NUL-free pattern ---- *)
From LibCSD Require Import RPDACApiProofs.
Theorem C04_rpdac_locate_prefix_every_pattern d S p :
  rpdac_repr d S -> rpdac_input S -> nul_free p -> lenN p < 2 ^ 32 ->
  rpdac_locate_prefix_api d p = Some (range_of (spec_prefix_ids S p)).
Proof. exact (rpdac_locate_prefix_api_spec d S p). Qed.
Print Assumptions C04_rpdac_locate_prefix_every_pattern.

Theorem C04_rpdac_extract_prefix_every_pattern d S p :
  rpdac_repr d S -> rpdac_input S -> nul_free p -> lenN p < 2 ^ 32 ->
  rpdac_extract_prefix_api d p = Some (spec_prefix_strs S p).
Proof. exact (rpdac_extract_prefix_api_spec d S p). Qed.
Print Assumptions C04_rpdac_extract_prefix_every_pattern.
