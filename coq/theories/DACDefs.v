(* DAC_VLS (utils/DAC_VLS.cpp): "directly addressable" variable-length sequences.
   Executable model, definitions only.

   ABSTRACTION (as decided in DESIGN.md / by the C17 split): the packed level array
   [uint *levels] is viewed through get_field/set_field as an array of symbols
   ([d_syms], one entry per field, global field index exactly as in the C++), and
   the continuation bitmap ([BitSequenceRG]) as a [list bool] with the plain
   prefix-count [dac_rank1].  The 32-bit packing and the RG rank directory are
   covered by other components; they re-appear here only in the byte image of
   save/load, where a packed array is written as the little-endian image of the
   number  sum_i field_i * 2^(w*i)  (which is what set_field into a zeroed array
   followed by saveValue<uint>(array) produces on a little-endian machine).

   Every array read/write goes through [dac_nth] (= [nthN])/[dac_upd] ([None] = out of bounds).
   All names are prefixed dac_ so that the joint extraction has no clashes. *)
From LibCSD Require Import Base Bytes.
Local Open Scope N_scope.

(* ---- option monad --------------------------------------------------------- *)
Definition dac_bind {A B} (o : option A) (f : A -> option B) : option B :=
  match o with Some x => f x | None => None end.
Notation "x <- e ;; k" := (dac_bind e (fun x => k)) (at level 61, e at next level, right associativity).
Notation "' ( x , y ) <- e ;; k" := (dac_bind e (fun p => let '(x, y) := p in k))
  (at level 61, x name, y name, e at next level, right associativity).

(* ---- C unsigned arithmetic ------------------------------------------------- *)
Definition dac_U32 : N := 4294967296.
Definition dac_sub32 (a b : N) : N := (a + dac_U32 - b mod dac_U32) mod dac_U32.
Definition dac_add32 (a b : N) : N := (a + b) mod dac_U32.

(* checked array read: [nthN] behind a bounds test, so that a wrapped index such as
   (uint)0 - 1 is never converted to a unary number when the model is executed *)
Definition dac_nth {A} (l : list A) (i : N) : option A :=
  if i <? lenN l then nthN l i else None.

(* checked array write *)
Fixpoint dac_upd_nat {A} (l : list A) (i : nat) (v : A) : option (list A) :=
  match l, i with
  | [], _ => None
  | _ :: r, O => Some (v :: r)
  | x :: r, S i' => match dac_upd_nat r i' v with Some r' => Some (x :: r') | None => None end
  end.
Definition dac_upd {A} (l : list A) (i : N) (v : A) : option (list A) :=
  if i <? lenN l then dac_upd_nat l (N.to_nat i) v else None.

(* ---- the bitmap: plain rank ------------------------------------------------ *)
Fixpoint dac_count (l : list bool) : N :=
  match l with [] => 0 | b :: r => (if b then 1 else 0) + dac_count r end.
(* BitSequenceRG::rank1(i): number of ones in positions 0..i inclusive; reads data[(i+1)/W],
   which exists iff i+1 <= n, i.e. (n = bitmap length) i < n *)
Definition dac_rank1 (bits : list bool) (i : N) : option N :=
  if i <? lenN bits then Some (dac_count (firstn (S (N.to_nat i)) bits)) else None.

(* ---- the object ------------------------------------------------------------- *)
Record dac := mkDac {
  d_tamCode : N;            (* uint tamCode   : bits used by the level array *)
  d_base_bits : N;          (* ushort base_bits *)
  d_listLength : N;         (* uint listLength *)
  d_nLevels : N;            (* uint nLevels *)
  d_levelsIndex : list N;   (* uint[nLevels+1] : first field index of every level *)
  d_syms : list N;          (* get_field view of uint *levels : levelsIndex[nLevels] fields *)
  d_bits : list bool;       (* the bitmap bS, levelsIndex[nLevels-1]+1 bits *)
  d_rankLevels : list N     (* uint[nLevels] *)
}.

(* ---- the traversal shared by both passes of the constructor ------------------
     for (uint i = 0; i < l_Length; i++) {
       for (uint j = 0; j < nLevels; j++) {
         if (list[i] >= 0) { <onsym j list[i]>; i++; } else break;
       }
       <onseq>
     }                                                                            *)
Section Scan.
  Context {St : Type}.
  Variable onsym : N -> Z -> St -> option St.
  Variable onseq : St -> St.
  Variable list : list Z.
  Variable llen : N.
  Variable nLevels : N.

  (* inner loop; [k] = nLevels - j iterations remain *)
  Fixpoint dac_scan_inner (k : nat) (j i : N) (st : St) : option (N * St) :=
    match k with
    | O => Some (i, st)
    | S k' =>
        v <- dac_nth list i ;;
        if (0 <=? v)%Z then
          st' <- onsym j v st ;;
          dac_scan_inner k' (j + 1) (i + 1) st'
        else Some (i, st)
    end.

  (* outer loop; every iteration advances i by at least one, so l_Length bounds the
     number of iterations *)
  Fixpoint dac_scan_outer (fuel : nat) (i : N) (st : St) : option St :=
    if i <? llen then
      match fuel with
      | O => None
      | S f =>
          '(i', st') <- dac_scan_inner (N.to_nat nLevels) 0 i st ;;
          dac_scan_outer f (i' + 1) (onseq st')
      end
    else Some st.

  Definition dac_scan (st : St) : option St := dac_scan_outer (N.to_nat llen) 0 st.
End Scan.

(* pass 1: levelSizeAux[j]++ ; listLength++ *)
Definition dac_count_sym (j : N) (_ : Z) (st : list N * N) : option (list N * N) :=
  let '(sizes, ll) := st in
  c <- dac_nth sizes j ;;
  sizes' <- dac_upd sizes j (c + 1) ;;
  Some (sizes', ll).
Definition dac_count_seq (st : list N * N) : list N * N := let '(sizes, ll) := st in (sizes, ll + 1).

(* levelsIndex[0] = 0; levelsIndex[j+1] = levelsIndex[j] + levelSizeAux[j] *)
Fixpoint dac_prefix_sums (acc : N) (sizes : list N) : list N :=
  acc :: match sizes with [] => [] | x :: r => dac_prefix_sums (acc + x) r end.

(* tamLevels += base_bits * levelSizeAux[i]   (uint) *)
Fixpoint dac_tam (w : N) (acc : N) (sizes : list N) : N :=
  match sizes with [] => acc | x :: r => dac_tam w ((acc + w * x) mod dac_U32) r end.

(* pass 2: state = (field array, contB, bitmap under construction)
     set_field(levels, base_bits, contB[j], (uint)list[i]); contB[j]++;
     if (j > 0) bitset(bits_BS, contB[j-1] - 1);                                   *)
Definition dac_fill_sym (j : N) (v : Z) (st : list N * list N * list bool) : option (list N * list N * list bool) :=
  let '(syms, contB, bits) := st in
  c <- dac_nth contB j ;;
  syms' <- dac_upd syms c (Z.to_N v mod dac_U32) ;;
  contB' <- dac_upd contB j (c + 1) ;;
  if 0 <? j then
    c1 <- dac_nth contB' (j - 1) ;;
    bits' <- dac_upd bits (dac_sub32 c1 1) true ;;
    Some (syms', contB', bits')
  else Some (syms', contB', bits).

(* rankLevels[0] = 0; for j = 1 .. nLevels-1: rankLevels[j] = bS->rank1(levelsIndex[j] - 1) *)
Fixpoint dac_rank_levels (bits : list bool) (lidx : list N) (k : nat) (j : N) : option (list N) :=
  match k with
  | O => Some []
  | S k' =>
      li <- dac_nth lidx j ;;
      r <- dac_rank1 bits (dac_sub32 li 1) ;;
      rest <- dac_rank_levels bits lidx k' (j + 1) ;;
      Some (r :: rest)
  end.

(* DAC_VLS::DAC_VLS(int *list, uint l_Length, uint log_r, uint max_seq_length) *)
Definition dac_build (list : list Z) (llen logr maxseq : N) : option dac :=
  let nLevels := maxseq in
  let sizes0 := repeat 0 (N.to_nat nLevels) in
  '(sizes, listLength) <- dac_scan dac_count_sym dac_count_seq list llen nLevels (sizes0, 0) ;;
  let tamLevels := dac_tam logr 0 sizes in
  let lidx := dac_prefix_sums 0 sizes in
  let contB := firstn (N.to_nat nLevels) lidx in
  total <- dac_nth lidx nLevels ;;
  lastidx <- dac_nth lidx (dac_sub32 nLevels 1) ;;
  let bits_BS_len := lastidx + 1 in
  let syms0 := repeat 0 (N.to_nat total) in
  let bits0 := repeat false (N.to_nat bits_BS_len) in
  '(sc, bits1) <- dac_scan dac_fill_sym (fun st => st) list llen nLevels (syms0, contB, bits0) ;;
  let '(syms, _) := sc in
  bits <- dac_upd bits1 (bits_BS_len - 1) true ;;
  (* new uint[nLevels]; rankLevels[0] = 0 is a write: needs nLevels >= 1 *)
  if nLevels =? 0 then None else
  rl <- dac_rank_levels bits lidx (N.to_nat nLevels - 1) 1 ;;
  Some {| d_tamCode := tamLevels; d_base_bits := logr mod 65536; d_listLength := listLength;
          d_nLevels := nLevels; d_levelsIndex := lidx; d_syms := syms; d_bits := bits;
          d_rankLevels := 0 :: rl |}.

(* ---- access ------------------------------------------------------------------
     uint *sequence = new uint[nLevels]; ini = pos - 1; j = 0;
     sequence[0] = get_field(levels, base_bits, ini); l_seq = 1;
     while ((j < nLevels - 1) && bitget(bS->data, ini)) {
       rankini = bS->rank1(ini) - rankLevels[j];  j++;
       ini = levelsIndex[j] + rankini - 1;
       sequence[j] = get_field(levels, base_bits, ini);  l_seq++;
       if (j == nLevels - 1) break;
     }
   The result list is sequence[0 .. l_seq).                                        *)
Fixpoint dac_access_loop (d : dac) (fuel : nat) (j ini : N) (acc : list N) : option (list N) :=
  if j <? dac_sub32 (d_nLevels d) 1 then
    b <- dac_nth (d_bits d) ini ;;
    if b : bool then
      match fuel with
      | O => None
      | S f =>
          r <- dac_rank1 (d_bits d) ini ;;
          rl <- dac_nth (d_rankLevels d) j ;;
          let rankini := dac_sub32 r rl in
          let j' := dac_add32 j 1 in
          li <- dac_nth (d_levelsIndex d) j' ;;
          let ini' := dac_sub32 (dac_add32 li rankini) 1 in
          v <- dac_nth (d_syms d) ini' ;;
          if j' <? d_nLevels d then            (* sequence[j] is a write into new uint[nLevels] *)
            if j' =? dac_sub32 (d_nLevels d) 1 then Some (acc ++ [v])
            else dac_access_loop d f j' ini' (acc ++ [v])
          else None
      end
    else Some acc
  else Some acc.

Definition dac_access (d : dac) (pos : N) : option (list N) :=
  let ini := dac_sub32 pos 1 in
  v <- dac_nth (d_syms d) ini ;;
  if 0 <? d_nLevels d then dac_access_loop d (N.to_nat (d_nLevels d)) 0 ini [v] else None.

(* the returned length l_seq *)
Definition dac_access_len (d : dac) (pos : N) : option N :=
  s <- dac_access d pos ;; Some (lenN s).

(* ---- access_next(l, &pos): (symbol, new *pos); (uint)-1 = 2^32-1 is the end mark *)
Definition dac_END : N := dac_U32 - 1.
Definition dac_access_next (d : dac) (l pos : N) : option (N * N) :=
  let ini := dac_sub32 pos 1 in
  v <- dac_nth (d_syms d) ini ;;
  if l =? dac_sub32 (d_nLevels d) 1 then Some (v, dac_END)
  else
    b <- dac_nth (d_bits d) ini ;;
    if b : bool then
      r <- dac_rank1 (d_bits d) ini ;;
      rl <- dac_nth (d_rankLevels d) l ;;
      li <- dac_nth (d_levelsIndex d) (l + 1) ;;
      Some (v, dac_add32 li (dac_sub32 r rl))
    else Some (v, dac_END).

(* the way every caller chains it (HashDAC::scmp, RePair::extractStringAndCompareDAC, ...):
     l = 0; while (id != (uint)-1) { next = access_next(l, &id); ...; l++; }          *)
Fixpoint dac_chain (d : dac) (fuel : nat) (l pos : N) : option (list N) :=
  if pos =? dac_END then Some []
  else match fuel with
       | O => None
       | S f =>
           '(v, pos') <- dac_access_next d l pos ;;
           rest <- dac_chain d f (l + 1) pos' ;;
           Some (v :: rest)
       end.
(* the driver's bounded walk: for (l = 0; l < nLevels + 2 && p != -1; l++) *)
Fixpoint dac_chain_bounded (d : dac) (k : nat) (l pos : N) : option (list N) :=
  match k with
  | O => Some []
  | S k' =>
      if pos =? dac_END then Some []
      else '(v, pos') <- dac_access_next d l pos ;;
           rest <- dac_chain_bounded d k' (l + 1) pos' ;;
           Some (v :: rest)
  end.

(* ---- the access of the tree before commit 6bccc1f (regression target) ---------
     while (bitget(bS->data, ini)) { ...; if (j == nLevels-1) break; }
   The old loop reads the bitmap, levels and writes sequence[] past their logical ends
   (inside the physically allocated, zero-initialised words), so the reads default to
   0/false here; the result is (l_seq, the values stored through sequence[j]).        *)
Fixpoint dac_access_old_loop (d : dac) (fuel : nat) (j ini lseq : N) (acc : list N) : N * list N :=
  match fuel with
  | O => (lseq, acc)
  | S f =>
      if nth (N.to_nat ini) (d_bits d) false then
        let r := dac_count (firstn (S (N.to_nat ini)) (d_bits d)) in
        let rankini := dac_sub32 r (nth (N.to_nat j) (d_rankLevels d) 0) in
        let j' := dac_add32 j 1 in
        let ini' := dac_sub32 (dac_add32 (nth (N.to_nat j') (d_levelsIndex d) 0) rankini) 1 in
        let acc' := acc ++ [nth (N.to_nat ini') (d_syms d) 0] in
        if j' =? dac_sub32 (d_nLevels d) 1 then (lseq + 1, acc')
        else dac_access_old_loop d f j' ini' (lseq + 1) acc'
      else (lseq, acc)
  end.
Definition dac_access_old (d : dac) (pos : N) : N * list N :=
  let ini := dac_sub32 pos 1 in
  dac_access_old_loop d (S (N.to_nat (d_nLevels d))) 0 ini 1 [nth (N.to_nat ini) (d_syms d) 0].

(* ---- what the dictionaries hand to the constructor ---------------------------
   cdict: the symbols of sequence i (0-based) followed by the separator -(i+1);
   l_Length = ic - 1 (everything but the closing separator; ic - 2 before 4305f33) *)
Fixpoint dac_flatten_from (k : N) (seqs : list (list N)) : list Z :=
  match seqs with
  | [] => []
  | s :: r => map Z.of_N s ++ (- Z.of_N (k + 1))%Z :: dac_flatten_from (k + 1) r
  end.
Definition dac_flatten (seqs : list (list N)) : list Z := dac_flatten_from 0 seqs.
Definition dac_llen (seqs : list (list N)) : N := lenN (dac_flatten seqs) - 1.
Definition dac_llen_old (seqs : list (list N)) : N := lenN (dac_flatten seqs) - 2.
Fixpoint dac_maxlen (seqs : list (list N)) : N :=
  match seqs with [] => 0 | s :: r => N.max (lenN s) (dac_maxlen r) end.
Definition dac_of_seqs (seqs : list (list N)) (logr : N) : option dac :=
  dac_build (dac_flatten seqs) (dac_llen seqs) logr (dac_maxlen seqs).

(* well-formed input, as a checker *)
Definition dac_wf_seq (logr maxseq : N) (s : list N) : bool :=
  negb (lenN s =? 0) && (lenN s <=? maxseq) && forallb (fun x => x <? 2 ^ logr) s.
Definition dac_wf (seqs : list (list N)) (logr maxseq : N) : bool :=
  negb (lenN seqs =? 0) && forallb (dac_wf_seq logr maxseq) seqs
  && (lenN (dac_flatten seqs) <? dac_U32) && (logr <=? 32) && (maxseq + 1 <? dac_U32).

(* ---- save / load -------------------------------------------------------------
   save: tamCode, listLength, nLevels (uint), base_bits (ushort), levelsIndex[nLevels+1],
         levels[tamCode/W+1], rankLevels[nLevels], then BitSequenceRG::save:
         uint BRW32_HDR(=3), size_t n, size_t factor(=4), data[n/W+1], Rs[n/s+1] (s = 32*factor)

   A bit-packed uint array (fields written by set_field / bits by bitset into zeroed words)
   saved with saveValue<uint>(array, nwords) on a little-endian machine is the byte string
   whose byte t holds bits 8t .. 8t+7 of the bit stream (field k = bits k*w .. k*w+w-1, least
   significant first); bits past the end of the stream are the zero padding.               *)
Definition dac_u32s (l : list N) : list N := flat_map (le_bytes 4) l.

Definition dac_field_bits (w x : N) : list bool :=
  map (fun k => N.testbit x (N.of_nat k)) (seq 0 (N.to_nat w)).
Fixpoint dac_bits_val (l : list bool) : N :=
  match l with [] => 0 | b :: r => (if b then 1 else 0) + 2 * dac_bits_val r end.
Fixpoint dac_bytes_of_bits (nbytes : nat) (l : list bool) : list N :=
  match nbytes with O => [] | S k => dac_bits_val (firstn 8 l) :: dac_bytes_of_bits k (skipn 8 l) end.
Definition dac_bits_of_bytes (bs : list N) : list bool := flat_map (dac_field_bits 8) bs.
(* get_field view of a bit stream: fields 0 .. k-1 of width w *)
Fixpoint dac_fields_of_bits (w k : nat) (l : list bool) : list N :=
  match k with O => [] | S k' => dac_bits_val (firstn w l) :: dac_fields_of_bits w k' (skipn w l) end.

(* Rs[j] = ones in the first j superblocks of s = 128 bits, j = 0 .. n/128 *)
Definition dac_rg_factor : N := 4.
Definition dac_rg_Rs (bits : list bool) : list N :=
  map (fun j => dac_count (firstn (128 * j) bits)) (seq 0 (S (length bits / 128))).

Definition dac_rg_save (bits : list bool) : list N :=
  let n := lenN bits in
  le_bytes 4 3 ++ le_bytes 8 n ++ le_bytes 8 dac_rg_factor ++
  dac_bytes_of_bits (4 * N.to_nat (n / 32 + 1)) bits ++
  dac_u32s (dac_rg_Rs bits).

Definition dac_save (d : dac) : list N :=
  le_bytes 4 (d_tamCode d) ++ le_bytes 4 (d_listLength d) ++ le_bytes 4 (d_nLevels d) ++
  le_bytes 2 (d_base_bits d) ++
  dac_u32s (d_levelsIndex d) ++
  dac_bytes_of_bits (4 * N.to_nat (d_tamCode d / 32 + 1)) (flat_map (dac_field_bits (d_base_bits d)) (d_syms d)) ++
  dac_u32s (d_rankLevels d) ++
  dac_rg_save (d_bits d).

(* loadValue<T>(fp) / loadValue<T>(fp, n): [None] models a short read.  Counts are compared
   as binary numbers before anything is converted to unary. *)
Definition dac_take (k : N) (bs : list N) : option (list N * list N) :=
  if lenN bs <? k then None else Some (firstn (N.to_nat k) bs, skipn (N.to_nat k) bs).
Definition dac_rd (k : N) (bs : list N) : option (N * list N) :=
  '(a, r) <- dac_take k bs ;; Some (le_value a, r).
Fixpoint dac_u32s_of_bytes (k : nat) (bs : list N) : list N :=
  match k with O => [] | S k' => le_value (firstn 4 bs) :: dac_u32s_of_bytes k' (skipn 4 bs) end.
Definition dac_rd_u32s (k : N) (bs : list N) : option (list N * list N) :=
  '(a, r) <- dac_take (4 * k) bs ;; Some (dac_u32s_of_bytes (N.to_nat k) a, r).

(* BitSequence::load peeks the tag, seeks back, BitSequenceRG::load re-reads it; any other
   tag is a different class / NULL: outside the model *)
Definition dac_rg_load (bs : list N) : option (list bool * list N) :=
  '(tag, r0) <- dac_rd 4 bs ;;
  if negb (tag =? 3) then None else
  '(n, r1) <- dac_rd 8 r0 ;;
  '(factor, r2) <- dac_rd 8 r1 ;;
  if factor =? 0 then None else      (* n / s with s = 32*factor *)
  let integers := (n + 1) / 32 + (if (n + 1) mod 32 =? 0 then 0 else 1) in
  '(data, r3) <- dac_take (4 * integers) r2 ;;
  '(_, r4) <- dac_rd_u32s (n / (32 * factor) + 1) r3 ;;
  Some (firstn (N.to_nat n) (dac_bits_of_bytes data), r4).

Definition dac_load (bs : list N) : option (dac * list N) :=
  '(tam, r0) <- dac_rd 4 bs ;;
  '(ll, r1) <- dac_rd 4 r0 ;;
  '(nl, r2) <- dac_rd 4 r1 ;;
  '(bb, r3) <- dac_rd 2 r2 ;;
  '(lidx, r4) <- dac_rd_u32s (dac_add32 nl 1) r3 ;;
  '(lv, r5) <- dac_take (4 * (tam / 32 + 1)) r4 ;;
  '(rl, r6) <- dac_rd_u32s nl r5 ;;
  '(bits, r7) <- dac_rg_load r6 ;;
  total <- dac_nth lidx nl ;;        (* abstraction function only: how many fields the view has *)
  Some ({| d_tamCode := tam; d_base_bits := bb; d_listLength := ll; d_nLevels := nl;
           d_levelsIndex := lidx;
           d_syms := dac_fields_of_bits (N.to_nat bb) (N.to_nat total) (dac_bits_of_bytes lv);
           d_bits := bits; d_rankLevels := rl |}, r7).

(* objects whose image determines them (what the constructor produces while the level
   array stays below 2^32 bits) *)
Definition dac_obj_wf (d : dac) : bool :=
  (d_tamCode d <? dac_U32) && (d_listLength d <? dac_U32) && (d_nLevels d + 1 <? dac_U32) &&
  (d_base_bits d <? 65536) &&
  (lenN (d_levelsIndex d) =? d_nLevels d + 1) && forallb (fun x => x <? dac_U32) (d_levelsIndex d) &&
  (lenN (d_rankLevels d) =? d_nLevels d) && forallb (fun x => x <? dac_U32) (d_rankLevels d) &&
  (d_tamCode d =? d_base_bits d * lenN (d_syms d)) &&
  forallb (fun x => x <? 2 ^ d_base_bits d) (d_syms d) &&
  (match dac_nth (d_levelsIndex d) (d_nLevels d) with Some t => t =? lenN (d_syms d) | None => false end) &&
  (lenN (d_bits d) <? 2 ^ 64).

(* ============================================================================
   DAC_BVLS (utils/DAC_BVLS.cpp): the byte-oriented sibling used by HASHUFFDAC.
   The level arrangement is produced by the caller (StringDictionaryHASHUFFDAC);
   the class stores it, derives rankLevels, and answers access / access_next
   (HashDAC::scmp chains access_next).  levels is a plain byte array; the bitmap
   covers ALL levels (last level all zero), there is no sentinel.
   ============================================================================ *)
Record bdac := mkBdac {
  b_tamCode : N;            (* uint tamCode : number of bytes of levels *)
  b_nLevels : N;
  b_levelsIndex : list N;   (* uint[nLevels+1] *)
  b_levels : list N;        (* uchar[tamCode] *)
  b_bits : list bool;       (* bS *)
  b_rankLevels : list N     (* uint[nLevels] *)
}.

(* for (i = 0; i < nLevels; i++) this->levelsIndex[i] = levelsIndex->at(i) (unchecked operator[]); *)
Fixpoint bdac_copy (src : list N) (k : nat) (i : N) : option (list N) :=
  match k with
  | O => Some []
  | S k' => x <- dac_nth src i ;; r <- bdac_copy src k' (i + 1) ;; Some (x :: r)
  end.
(* rankLevels[i] = ones[i-1] + rankLevels[i-1], i = 1 .. nLevels-1 (ones = the vector argument); [prev] = rankLevels[i-1] *)
Fixpoint bdac_ranks (ones : list N) (k : nat) (i prev : N) : option (list N) :=
  match k with
  | O => Some []
  | S k' =>
      o <- dac_nth ones (i - 1) ;;
      let cur := dac_add32 o prev in
      r <- bdac_ranks ones k' (i + 1) cur ;; Some (cur :: r)
  end.

(* DAC_BVLS(tamCode, nLevels, &levelsIndex, &rankLevels, levels, bS) *)
Definition bdac_make (tamCode nLevels : N) (lidx ones levels : list N) (bits : list bool) : option bdac :=
  li <- bdac_copy lidx (N.to_nat nLevels) 0 ;;
  if nLevels =? 0 then None else       (* rankLevels[0] = 0 writes into new uint[nLevels] *)
  rl <- bdac_ranks ones (N.to_nat nLevels - 1) 1 0 ;;
  Some {| b_tamCode := tamCode; b_nLevels := nLevels; b_levelsIndex := li ++ [tamCode];
          b_levels := levels; b_bits := bits; b_rankLevels := 0 :: rl |}.

(* access: the loop has no level test (the bitmap says 0 on the whole last level) *)
Fixpoint bdac_access_loop (d : bdac) (fuel : nat) (j ini : N) (acc : list N) : option (list N) :=
  b <- dac_nth (b_bits d) ini ;;
  if b : bool then
    match fuel with
    | O => None
    | S f =>
        r <- dac_rank1 (b_bits d) ini ;;
        rl <- dac_nth (b_rankLevels d) j ;;
        let rankini := dac_sub32 r rl in
        let j' := dac_add32 j 1 in
        li <- dac_nth (b_levelsIndex d) j' ;;
        let ini' := dac_sub32 (dac_add32 li rankini) 1 in
        v <- dac_nth (b_levels d) ini' ;;
        if j' <? b_nLevels d then            (* sequence[j] = ... into new uint[nLevels] *)
          if j' =? dac_sub32 (b_nLevels d) 1 then Some (acc ++ [v])
          else bdac_access_loop d f j' ini' (acc ++ [v])
        else None
    end
  else Some acc.

Definition bdac_access (d : bdac) (pos : N) : option (list N) :=
  let ini := dac_sub32 pos 1 in
  v <- dac_nth (b_levels d) ini ;;
  if 0 <? b_nLevels d then bdac_access_loop d (N.to_nat (b_nLevels d)) 0 ini [v] else None.

Definition bdac_access_next (d : bdac) (l pos : N) : option (N * N) :=
  let ini := dac_sub32 pos 1 in
  v <- dac_nth (b_levels d) ini ;;
  if l =? dac_sub32 (b_nLevels d) 1 then Some (v, dac_END)
  else
    b <- dac_nth (b_bits d) ini ;;
    if b : bool then
      r <- dac_rank1 (b_bits d) ini ;;
      rl <- dac_nth (b_rankLevels d) l ;;
      li <- dac_nth (b_levelsIndex d) (l + 1) ;;
      Some (v, dac_add32 li (dac_sub32 r rl))
    else Some (v, dac_END).

(* HashDAC::scmp: id = pos + 1; level = 0; while (id != -1) { value = access_next(level, &id); ...; level++; } *)
Fixpoint bdac_chain (d : bdac) (fuel : nat) (l pos : N) : option (list N) :=
  if pos =? dac_END then Some []
  else match fuel with
       | O => None
       | S f =>
           '(v, pos') <- bdac_access_next d l pos ;;
           rest <- bdac_chain d f (l + 1) pos' ;;
           Some (v :: rest)
       end.
Fixpoint bdac_chain_bounded (d : bdac) (k : nat) (l pos : N) : option (list N) :=
  match k with
  | O => Some []
  | S k' =>
      if pos =? dac_END then Some []
      else '(v, pos') <- bdac_access_next d l pos ;;
           rest <- bdac_chain_bounded d k' (l + 1) pos' ;;
           Some (v :: rest)
  end.

(* save: tamCode, nLevels, levelsIndex[nLevels+1], levels[tamCode] (bytes), rankLevels[nLevels], bS *)
Definition bdac_save (d : bdac) : list N :=
  le_bytes 4 (b_tamCode d) ++ le_bytes 4 (b_nLevels d) ++ dac_u32s (b_levelsIndex d) ++
  b_levels d ++ dac_u32s (b_rankLevels d) ++ dac_rg_save (b_bits d).

Definition bdac_load (bs : list N) : option (bdac * list N) :=
  '(tam, r0) <- dac_rd 4 bs ;;
  '(nl, r1) <- dac_rd 4 r0 ;;
  '(lidx, r2) <- dac_rd_u32s (dac_add32 nl 1) r1 ;;
  '(lv, r3) <- dac_take tam r2 ;;
  '(rl, r4) <- dac_rd_u32s nl r3 ;;
  '(bits, r5) <- dac_rg_load r4 ;;
  Some ({| b_tamCode := tam; b_nLevels := nl; b_levelsIndex := lidx; b_levels := lv;
           b_bits := bits; b_rankLevels := rl |}, r5).

Definition bdac_obj_wf (d : bdac) : bool :=
  (b_tamCode d <? dac_U32) && (b_nLevels d + 1 <? dac_U32) &&
  (lenN (b_levelsIndex d) =? b_nLevels d + 1) && forallb (fun x => x <? dac_U32) (b_levelsIndex d) &&
  (lenN (b_rankLevels d) =? b_nLevels d) && forallb (fun x => x <? dac_U32) (b_rankLevels d) &&
  (lenN (b_levels d) =? b_tamCode d) && forallb (fun x => x <? 256) (b_levels d) &&
  (lenN (b_bits d) <? 2 ^ 64).

(* what StringDictionaryHASHUFFDAC hands to the constructor for the byte sequences seqs
   (sequence i = the Huffman-coded bytes of string i): levelsIndex (level starts), the number of
   continuation bits set per level, the level-wise byte array and the bitmap *)
Definition bdac_lvl (seqs : list (list N)) (j : nat) : list N :=
  map (fun s => nth j s 0) (filter (fun s => (j <? length s)%nat) seqs).
Definition bdac_cont (seqs : list (list N)) (j : nat) : list bool :=
  map (fun s => (S j <? length s)%nat) (filter (fun s => (j <? length s)%nat) seqs).
Definition bdac_layout (seqs : list (list N)) (nL : nat) : list N * list N * list N * list bool :=
  let sizes := map (fun j => lenN (bdac_lvl seqs j)) (seq 0 nL) in
  (firstn nL (dac_prefix_sums 0 sizes),
   map (fun j => dac_count (bdac_cont seqs j)) (seq 0 nL),
   concat (map (bdac_lvl seqs) (seq 0 nL)),
   concat (map (bdac_cont seqs) (seq 0 nL))).
Definition bdac_of_seqs (seqs : list (list N)) (nL : nat) : option bdac :=
  let '(lidx, ones, levels, bits) := bdac_layout seqs nL in
  bdac_make (lenN levels) (N.of_nat nL) lidx ones levels bits.

Definition bdac_wf (seqs : list (list N)) (nL : nat) : bool :=
  negb (lenN seqs =? 0) &&
  forallb (fun s => negb (lenN s =? 0) && (lenN s <=? N.of_nat nL) && forallb (fun x => x <? 256) s) seqs &&
  (lenN (dac_flatten seqs) <? dac_U32) && (N.of_nat nL + 1 <? dac_U32).
