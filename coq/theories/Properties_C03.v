(* C03 — order-preserving kinds assign IDs in lexicographic (unsigned byte) order. *)
From LibCSD Require Import Base Spec SpecProofs VByteDefs PFCDefs PFCLayout PFCBuildProofs PFCExtractProofs PFCLocateProofs PFCTheorems.
Local Open Scope N_scope.

Theorem C03_spec_locate_monotone : forall S s t, sorted_lt S -> In s S -> In t S -> lex_lt s t ->
  spec_locate S s < spec_locate S t.
Proof. exact spec_locate_monotone. Qed.
Print Assumptions C03_spec_locate_monotone.

Theorem C03_spec_extract_rank : forall S i j s t, sorted_lt S -> i < j ->
  spec_extract S i = Some s -> spec_extract S j = Some t -> lex_lt s t.
Proof. exact spec_extract_rank. Qed.
Print Assumptions C03_spec_extract_rank.

Theorem C03_lex_order_is_strict_total : forall a b, lex_lt a b \/ a = b \/ lex_lt b a.
Proof. exact lex_total. Qed.
Print Assumptions C03_lex_order_is_strict_total.

Theorem C03_lex_lt_trans : forall a b c, lex_lt a b -> lex_lt b c -> lex_lt a c.
Proof. exact lex_lt_trans. Qed.
Print Assumptions C03_lex_lt_trans.

Example C03_example : lex_lt [97] [97; 2] /\ lex_lt [97; 254] [98] /\ lex_lt [127] [128].
Proof. repeat split; reflexivity. Qed.


(* ---- the byte-exact PFC model: ID = rank ------------------------------------------------- *)
Theorem C03_pfc_extract_is_rank : forall S, pfc_input S ->
  forall b0 id, pfc_extract (pfc_build b0 S) id = Some (spec_extract S id).
Proof. exact pfc_extract_built. Qed.
Print Assumptions C03_pfc_extract_is_rank.

Theorem C03_pfc_locate_monotone : forall S b0 s t, pfc_input S -> In s S -> In t S -> lex_lt s t ->
  exists i j, pfc_locate (pfc_build b0 S) s = Some i /\ pfc_locate (pfc_build b0 S) t = Some j /\ i < j.
Proof. exact pfc_locate_monotone. Qed.
Print Assumptions C03_pfc_locate_monotone.

(* the comparison locateBucket relies on: strcmp on the NUL-terminated text = lexicographic order *)
Theorem C03_strcmp_is_lex : forall a b rest, nul_free a -> nul_free b ->
  c_strcmp (a ++ 0 :: rest) b = Some (lex_compare a b).
Proof. exact LexLemmas.c_strcmp_spec. Qed.
Print Assumptions C03_strcmp_is_lex.
