(* C13 — table scan and iterators.  The PFC string iterator (IteratorDictStringPFC): a scan started
   in any bucket at any in-bucket offset yields exactly the requested slice of S, hasNext is false
   exactly after the last element (iter_drain consults hasNext; fuel = requested count). *)
From LibCSD Require Import Base Spec SpecProofs VByteDefs PFCDefs PFCLayout PFCBuildProofs PFCExtractProofs PFCTheorems.
Local Open Scope N_scope.

Theorem C13_pfc_table : forall S, pfc_input S -> forall b0, pfc_extract_table (pfc_build b0 S) = Some S.
Proof. exact pfc_table_built. Qed.
Print Assumptions C13_pfc_table.

Theorem C13_pfc_table_any_object : forall d b S, layout_ok d b S -> 2 <= b -> pfc_input S ->
  pfc_extract_table d = Some S.
Proof. exact pfc_extract_table_spec. Qed.
Print Assumptions C13_pfc_table_any_object.

Theorem C13_pfc_iter_range : forall d b S, layout_ok d b S -> 2 <= b -> pfc_input S ->
  forall lft rgt, 1 <= lft -> lft <= rgt -> rgt <= lenN S ->
  match nthN (p_bl d) (W32m (1 + (lft - 1) / p_bsize d)) with
  | None => None
  | Some ptrS =>
      match iter_init (p_text d) ptrS (W32m ((lft - 1) mod p_bsize d)) (p_bsize d) (rgt - lft + 1) with
      | None => None
      | Some it => option_map Some (iter_drain (N.to_nat (rgt - lft + 1)) (p_text d) it)
      end
  end = Some (Some (firstN (rgt - lft + 1) (skipN (lft - 1) S))).
Proof. exact iter_range_spec. Qed.
Print Assumptions C13_pfc_iter_range.

Theorem C13_table_is_extract_in_order : forall S, pfc_input S -> forall b0 k s,
  nthN S k = Some s -> pfc_extract (pfc_build b0 S) (k + 1) = Some (Some s).
Proof.
  intros S HS b0 k s Hk. rewrite (pfc_extract_built S HS b0 (k + 1)). f_equal.
  unfold spec_extract. destruct (N.eqb_spec (k + 1) 0); [lia|]. replace (k + 1 - 1) with k by lia. exact Hk.
Qed.
Print Assumptions C13_table_is_extract_in_order.

Example C13_example : pfc_extract_table (pfc_build 3 thm_ex_S) = Some thm_ex_S.
Proof. vm_compute. reflexivity. Qed.
