(* Pool: executable labelled transition system of /repo/parallel/Worker.hpp
   (WorkerQueue, Worker::run, WorkerPool::add_task / stop_all_workers /
   wait_workers), of the slot protocol of the parallel constructor of
   StringDictionaryHASHRPDACBlocks, and of its cutting loop.
   Definitions only (proofs: PoolProofs.v).

   Thread ids: 0 = the producer (the thread that owns the WorkerPool),
   S i = worker i.  One LTS step = one atomic action of the C++:
   - stopped(), set_stopped(), queue.empty(), queue.add_task(), queue.pop()
     each take their own private mutex for exactly one access and never block
     inside: one step each;
   - lock / unlock of shared_mutex, notify_all, cv block (atomic release+sleep),
     wake-up (re-acquire) are one step each.
   [fixed = false] is the pinned source (add_task / stop_all_workers change the
   wait predicate's inputs WITHOUT shared_mutex); [fixed = true] is /repo HEAD
   (lock; change; unlock; notify). *)
From Coq Require Import List NArith Bool Arith.
From LibCSD Require Import Base.
Import ListNotations.

(* ---- program counters --------------------------------------------------- *)
Inductive wpc :=
| WLoopStop            (* while (!stopped() ...          : read stopped()        *)
| WLoopEmpty           (*        ... || !queue.empty())  : read queue.empty()    *)
| WLock                (* unique_lock ul(shared_mutex)                           *)
| WPredStop            (* wait predicate: stopped() ...                          *)
| WPredEmpty           (*                 ... || !queue.empty()                  *)
| WBlock               (* predicate false: cv.wait = atomic release + sleep      *)
| WSleep               (* asleep on queue_cv                                     *)
| WWoken               (* notified (or spurious): re-acquire shared_mutex        *)
| WPostStop            (* if (stopped() ...                                      *)
| WPostEmpty           (*     ... && queue.empty()) break;                       *)
| WContEmpty           (* if (queue.empty()) continue;                           *)
| WPop                 (* task = queue.pop()                                     *)
| WUnlock (t : N)      (* ul.unlock()                                            *)
| WNotify (t : N)      (* queue_cv.notify_all()                                  *)
| WRun (t : N)         (* task(); destructor of ul (no-op)                       *)
| WBreakUnlock         (* break: destructor of ul releases shared_mutex          *)
| WContUnlock          (* continue: destructor of ul releases shared_mutex       *)
| WFinalNotify         (* queue_cv.notify_all() after the loop                   *)
| WExited.

Inductive pact := AddTask (t : N) | StopAll | WaitWorkers.

Inductive ppc :=
| PStart               (* before the current action (fixed: lock shared_mutex)   *)
| PHold                (* inside the braces, before the state change             *)
| PStopLoop (k : nat)  (* for (auto &w : workers) w->stop(): next is worker k    *)
| PRelease             (* end of the braces (fixed: unlock shared_mutex)         *)
| PNotify              (* queue_cv.notify_all()                                  *)
| PJoin (k : nat).     (* wait_workers: join worker k                            *)

Record state := mkState {
  wpcs : list wpc;             (* per worker                                      *)
  owner : option nat;          (* owner of shared_mutex (thread id)               *)
  queue : list N;              (* task ids, front first                           *)
  stops : list bool;           (* per worker _stopped                             *)
  executed : list (N * nat);   (* (task, worker) newest first                     *)
  prog : list pact;            (* producer: remaining actions, head = current     *)
  pp : ppc;
  added : list N;              (* ghost: tasks pushed so far, newest first        *)
  err : bool                   (* pop() on an empty deque happened (UB in C++)    *)
}.

Fixpoint upd {A} (i : nat) (x : A) (l : list A) : list A :=
  match l, i with
  | [], _ => []
  | _ :: r, O => x :: r
  | y :: r, S k => y :: upd k x r
  end.

Definition wake (pc : wpc) : wpc := match pc with WSleep => WWoken | _ => pc end.

Definition set_wpc (s : state) (i : nat) (pc : wpc) : state :=
  mkState (upd i pc (wpcs s)) (owner s) (queue s) (stops s) (executed s) (prog s) (pp s) (added s) (err s).
Definition set_owner (s : state) (o : option nat) : state :=
  mkState (wpcs s) o (queue s) (stops s) (executed s) (prog s) (pp s) (added s) (err s).
Definition set_queue (s : state) (q : list N) : state :=
  mkState (wpcs s) (owner s) q (stops s) (executed s) (prog s) (pp s) (added s) (err s).
Definition set_stop (s : state) (k : nat) : state :=
  mkState (wpcs s) (owner s) (queue s) (upd k true (stops s)) (executed s) (prog s) (pp s) (added s) (err s).
Definition add_exec (s : state) (t : N) (i : nat) : state :=
  mkState (wpcs s) (owner s) (queue s) (stops s) ((t, i) :: executed s) (prog s) (pp s) (added s) (err s).
Definition set_pp (s : state) (p : ppc) : state :=
  mkState (wpcs s) (owner s) (queue s) (stops s) (executed s) (prog s) p (added s) (err s).
Definition next_act (s : state) (rest : list pact) : state :=
  mkState (wpcs s) (owner s) (queue s) (stops s) (executed s) rest PStart (added s) (err s).
Definition push (s : state) (t : N) : state :=
  mkState (wpcs s) (owner s) (queue s ++ [t]) (stops s) (executed s) (prog s) (pp s) (t :: added s) (err s).
Definition wake_all (s : state) : state :=
  mkState (map wake (wpcs s)) (owner s) (queue s) (stops s) (executed s) (prog s) (pp s) (added s) (err s).
Definition set_err (s : state) : state :=
  mkState (wpcs s) (owner s) (queue s) (stops s) (executed s) (prog s) (pp s) (added s) true.

Definition stopped (s : state) (i : nat) : bool := nth i (stops s) false.
Definition qempty (s : state) : bool := match queue s with [] => true | _ => false end.
Definition is_exited (pc : wpc) : bool := match pc with WExited => true | _ => false end.
Definition exited (s : state) (i : nat) : bool :=
  match nth_error (wpcs s) i with Some pc => is_exited pc | None => false end.

(* ---- Worker::run -------------------------------------------------------- *)
Definition wstep (s : state) (i : nat) : option state :=
  match nth_error (wpcs s) i with
  | None => None
  | Some pc =>
    match pc with
    | WLoopStop => Some (set_wpc s i (if stopped s i then WLoopEmpty else WLock))
    | WLoopEmpty => Some (set_wpc s i (if qempty s then WFinalNotify else WLock))
    | WLock | WWoken =>
        match owner s with
        | None => Some (set_owner (set_wpc s i WPredStop) (Some (S i)))
        | Some _ => None
        end
    | WPredStop => Some (set_wpc s i (if stopped s i then WPostStop else WPredEmpty))
    | WPredEmpty => Some (set_wpc s i (if qempty s then WBlock else WPostStop))
    | WBlock => Some (set_owner (set_wpc s i WSleep) None)
    | WSleep => None
    | WPostStop => Some (set_wpc s i (if stopped s i then WPostEmpty else WContEmpty))
    | WPostEmpty => Some (set_wpc s i (if qempty s then WBreakUnlock else WContEmpty))
    | WContEmpty => Some (set_wpc s i (if qempty s then WContUnlock else WPop))
    | WPop =>
        match queue s with
        | [] => Some (set_err (set_wpc s i WExited))
        | t :: q => Some (set_queue (set_wpc s i (WUnlock t)) q)
        end
    | WUnlock t => Some (set_owner (set_wpc s i (WNotify t)) None)
    | WNotify t => Some (wake_all (set_wpc s i (WRun t)))
    | WRun t => Some (add_exec (set_wpc s i WLoopStop) t i)
    | WBreakUnlock => Some (set_owner (set_wpc s i WFinalNotify) None)
    | WContUnlock => Some (set_owner (set_wpc s i WLoopStop) None)
    | WFinalNotify => Some (wake_all (set_wpc s i WExited))
    | WExited => None
    end
  end.

(* a sleeping worker may wake up spuriously (not counted as "enabled") *)
Definition spurious (s : state) (i : nat) : option state :=
  match nth_error (wpcs s) i with
  | Some WSleep => Some (set_wpc s i WWoken)
  | _ => None
  end.

(* ---- the producer: add_task / stop_all_workers / wait_workers ----------- *)
Definition pstep (fixed : bool) (s : state) : option state :=
  match prog s with
  | [] => None
  | a :: rest =>
    match pp s with
    | PStart =>
        match a with
        | WaitWorkers => Some (set_pp s (PJoin 0))
        | _ => if fixed
               then match owner s with
                    | None => Some (set_owner (set_pp s PHold) (Some 0))
                    | Some _ => None
                    end
               else Some (set_pp s PHold)
        end
    | PHold =>
        match a with
        | AddTask t => Some (push (set_pp s PRelease) t)
        | StopAll => Some (set_pp s (PStopLoop 0))
        | WaitWorkers => None
        end
    | PStopLoop k =>
        if k <? length (wpcs s)
        then Some (set_stop (set_pp s (PStopLoop (S k))) k)
        else Some (set_pp s PRelease)
    | PRelease => Some (set_pp (if fixed then set_owner s None else s) PNotify)
    | PNotify => Some (wake_all (next_act s rest))
    | PJoin k =>
        if k <? length (wpcs s)
        then (if exited s k then Some (set_pp s (PJoin (S k))) else None)
        else Some (next_act s rest)
    end
  end.

Definition step (fixed : bool) (s : state) (tid : nat) : option state :=
  match tid with O => pstep fixed s | S i => wstep s i end.

Definition enabled (fixed : bool) (s : state) (tid : nat) : bool :=
  match step fixed s tid with Some _ => true | None => false end.

Definition final (s : state) : bool :=
  forallb is_exited (wpcs s) && match prog s with [] => true | _ => false end.

Definition any_enabled (fixed : bool) (s : state) : bool :=
  existsb (enabled fixed s) (seq 0 (S (length (wpcs s)))).

Definition stuck (fixed : bool) (s : state) : bool :=
  negb (final s) && negb (any_enabled fixed s).

(* schedules *)
Inductive pick := Go (tid : nat) | Spur (i : nat).

Definition exec (fixed : bool) (s : state) (p : pick) : state :=
  match p with
  | Go tid => match step fixed s tid with Some s' => s' | None => s end
  | Spur i => match spurious s i with Some s' => s' | None => s end
  end.

Definition run (fixed : bool) (sched : list pick) (s : state) : state :=
  fold_left (exec fixed) sched s.

Definition init (W : nat) (script : list pact) : state :=
  mkState (repeat WLoopStop W) None [] (repeat false W) [] script PStart [] false.

Definition script_of (ts : list N) : list pact := map AddTask ts ++ [StopAll; WaitWorkers].

Definition reachable (fixed : bool) (W : nat) (script : list pact) (s : state) : Prop :=
  exists sched, s = run fixed sched (init W script).

(* tasks of a script, in order *)
Fixpoint tasks_of (p : list pact) : list N :=
  match p with
  | [] => []
  | AddTask t :: r => t :: tasks_of r
  | _ :: r => tasks_of r
  end.
Fixpoint no_adds (p : list pact) : bool :=
  match p with [] => true | AddTask _ :: _ => false | _ :: r => no_adds r end.
(* no add_task after the first stop_all_workers *)
Fixpoint wf_script (p : list pact) : bool :=
  match p with
  | [] => true
  | StopAll :: r => no_adds r
  | _ :: r => wf_script r
  end.

(* ---- critical sections and the access table (C11) ------------------------ *)
Definition holds_pc (pc : wpc) : bool :=
  match pc with
  | WPredStop | WPredEmpty | WBlock | WPostStop | WPostEmpty | WContEmpty | WPop
  | WUnlock _ | WBreakUnlock | WContUnlock => true
  | _ => false
  end.
Definition pholds (fixed : bool) (p : ppc) : bool :=
  fixed && match p with PHold | PStopLoop _ | PRelease => true | _ => false end.
(* thread [tid] is between acquire and release of shared_mutex *)
Definition in_cs (fixed : bool) (s : state) (tid : nat) : bool :=
  match tid with
  | O => pholds fixed (pp s)
  | S i => match nth_error (wpcs s) i with Some pc => holds_pc pc | None => false end
  end.

Inductive action :=
| ALock | AUnlock | ABlock | ANotify | AReadStop (i : nat) | AReadEmpty
| APush (t : N) | APop | ASetStop (k : nat) | ARun (t : N) | AJoin (k : nat) | ATau.

(* the shared-memory action thread [tid] performs with its next step *)
Definition next_action (fixed : bool) (s : state) (tid : nat) : option action :=
  match tid with
  | O =>
    match prog s with
    | [] => None
    | a :: _ =>
      match pp s with
      | PStart => match a with WaitWorkers => Some ATau | _ => Some (if fixed then ALock else ATau) end
      | PHold => match a with AddTask t => Some (APush t) | StopAll => Some ATau | WaitWorkers => None end
      | PStopLoop k => Some (if k <? length (wpcs s) then ASetStop k else ATau)
      | PRelease => Some (if fixed then AUnlock else ATau)
      | PNotify => Some ANotify
      | PJoin k => Some (if k <? length (wpcs s) then AJoin k else ATau)
      end
    end
  | S i =>
    match nth_error (wpcs s) i with
    | None => None
    | Some pc =>
      match pc with
      | WLoopStop | WPredStop | WPostStop => Some (AReadStop i)
      | WLoopEmpty | WPredEmpty | WPostEmpty | WContEmpty => Some AReadEmpty
      | WLock | WWoken => Some ALock
      | WBlock => Some ABlock
      | WSleep | WExited => None
      | WPop => Some APop
      | WUnlock _ | WBreakUnlock | WContUnlock => Some AUnlock
      | WNotify _ | WFinalNotify => Some ANotify
      | WRun t => Some (ARun t)
      end
    end
  end.

(* ---- bounded exhaustive exploration (a SEARCH, not a proof) --------------- *)
Definition wpc_eqb (a b : wpc) : bool :=
  match a, b with
  | WLoopStop, WLoopStop | WLoopEmpty, WLoopEmpty | WLock, WLock | WPredStop, WPredStop
  | WPredEmpty, WPredEmpty | WBlock, WBlock | WSleep, WSleep | WWoken, WWoken
  | WPostStop, WPostStop | WPostEmpty, WPostEmpty | WContEmpty, WContEmpty | WPop, WPop
  | WBreakUnlock, WBreakUnlock | WContUnlock, WContUnlock | WFinalNotify, WFinalNotify
  | WExited, WExited => true
  | WUnlock x, WUnlock y | WNotify x, WNotify y | WRun x, WRun y => N.eqb x y
  | _, _ => false
  end.
Definition ppc_eqb (a b : ppc) : bool :=
  match a, b with
  | PStart, PStart | PHold, PHold | PRelease, PRelease | PNotify, PNotify => true
  | PStopLoop x, PStopLoop y | PJoin x, PJoin y => Nat.eqb x y
  | _, _ => false
  end.
Fixpoint list_eqb {A} (e : A -> A -> bool) (a b : list A) : bool :=
  match a, b with
  | [], [] => true
  | x :: a', y :: b' => e x y && list_eqb e a' b'
  | _, _ => false
  end.
Definition onat_eqb (a b : option nat) : bool :=
  match a, b with None, None => true | Some x, Some y => Nat.eqb x y | _, _ => false end.
(* the executed log and the ghost are compared as well: the whole state *)
Definition state_eqb (a b : state) : bool :=
  list_eqb wpc_eqb (wpcs a) (wpcs b) && onat_eqb (owner a) (owner b) &&
  list_eqb N.eqb (queue a) (queue b) && list_eqb Bool.eqb (stops a) (stops b) &&
  list_eqb (fun x y => N.eqb (fst x) (fst y) && Nat.eqb (snd x) (snd y)) (executed a) (executed b) &&
  Nat.eqb (length (prog a)) (length (prog b)) && ppc_eqb (pp a) (pp b) && Bool.eqb (err a) (err b).

Definition succs (fixed spur : bool) (s : state) : list state :=
  let W := length (wpcs s) in
  flat_map (fun t => match step fixed s t with Some s' => [s'] | None => [] end) (seq 0 (S W)) ++
  (if spur then flat_map (fun i => match spurious s i with Some s' => [s'] | None => [] end) (seq 0 W) else []).

Record result := mkResult { r_states : nat; r_stuck : option state; r_exhausted : bool; r_err : bool }.

(* worklist search with a visited list; [fuel] bounds the number of expansions *)
Fixpoint explore_go (fixed spur : bool) (fuel : nat) (todo visited : list state) : result :=
  match fuel with
  | O => mkResult (length visited) None (match todo with [] => true | _ => false end) false
  | S f =>
    match todo with
    | [] => mkResult (length visited) None true false
    | s :: rest =>
      if existsb (state_eqb s) visited then explore_go fixed spur f rest visited
      else if stuck fixed s then mkResult (S (length visited)) (Some s) false (err s)
      else if err s then mkResult (S (length visited)) (Some s) false true
      else explore_go fixed spur f (succs fixed spur s ++ rest) (s :: visited)
    end
  end.

Definition explore (fixed spur : bool) (W ntasks fuel : nat) : result :=
  explore_go fixed spur fuel [init W (script_of (map N.of_nat (seq 0 ntasks)))] [].

(* what the theorems predict for a run of the real pool: every counter is 1 *)
Definition pool_prediction (W ntasks : nat) : bool * nat := (true, ntasks).

(* ==== C09: the slot protocol of the parallel constructor ================== *)
Section ParBuild.
  Variables (block part : Type) (build_block : block -> part).

  Inductive bwpc :=
  | BIdle                              (* waiting for a task                       *)
  | BHave (i : nat) (b : block)        (* popped task i: about to run the builder  *)
  | BComputed (i : nat) (v : part).    (* about to: lock m; parts[i]=sd; parts_done++ *)
  Inductive bppc :=
  | BLoop (rest : list block)          (* cutting loop, blocks still to cut        *)
  | BAdd (i : nat) (b : block) (rest : list block)  (* slot reserved, add_task next *)
  | BWait                              (* cv.wait(ul, parts_done == parts.size())  *)
  | BDone.
  Record bstate := mkB {
    bws : list bwpc;
    bq : list (nat * block);
    parts : list (option part);        (* nullptr = None                          *)
    parts_done : nat;
    bpp : bppc;
    wlog : list nat                    (* ghost: slots written, newest first      *)
  }.

  Definition bpstep (s : bstate) : option bstate :=
    match bpp s with
    | BLoop [] => Some (mkB (bws s) (bq s) (parts s) (parts_done s) BWait (wlog s))
    | BLoop (b :: r) =>
        (* { lock_guard lg(m); next_part_index = parts.size(); parts.push_back(nullptr); } *)
        Some (mkB (bws s) (bq s) (parts s ++ [None]) (parts_done s) (BAdd (length (parts s)) b r) (wlog s))
    | BAdd i b r => Some (mkB (bws s) (bq s ++ [(i, b)]) (parts s) (parts_done s) (BLoop r) (wlog s))
    | BWait => if Nat.eqb (parts_done s) (length (parts s))
               then Some (mkB (bws s) (bq s) (parts s) (parts_done s) BDone (wlog s)) else None
    | BDone => None
    end.

  Definition bwstep (s : bstate) (w : nat) : option bstate :=
    match nth_error (bws s) w with
    | None => None
    | Some BIdle =>
        match bq s with
        | [] => None
        | (i, b) :: q => Some (mkB (upd w (BHave i b) (bws s)) q (parts s) (parts_done s) (bpp s) (wlog s))
        end
    | Some (BHave i b) =>
        Some (mkB (upd w (BComputed i (build_block b)) (bws s)) (bq s) (parts s) (parts_done s) (bpp s) (wlog s))
    | Some (BComputed i v) =>
        Some (mkB (upd w BIdle (bws s)) (bq s) (upd i (Some v) (parts s)) (S (parts_done s)) (bpp s) (i :: wlog s))
    end.

  Definition bstep (s : bstate) (tid : nat) : option bstate :=
    match tid with O => bpstep s | S w => bwstep s w end.
  Definition bexec (s : bstate) (tid : nat) : bstate :=
    match bstep s tid with Some s' => s' | None => s end.
  Definition brun (sched : list nat) (s : bstate) : bstate := fold_left bexec sched s.
  Definition binit (W : nat) (blocks : list block) : bstate :=
    mkB (repeat BIdle W) [] [] 0 (BLoop blocks) [].
  Definition bfinal (s : bstate) : bool := match bpp s with BDone => true | _ => false end.
End ParBuild.

(* ==== the cutting loop ===================================================== *)
Section Partition.
  Variable A : Type.
  Variable len : A -> N.          (* next_string_length *)

  Definition is_nil {B} (l : list B) : bool := match l with [] => true | _ => false end.
  Definition cons_first (x : A) (bl : list (list A)) : list (list A) :=
    match bl with b :: r => (x :: b) :: r | [] => [[x]] end.

  (* returns (starting_indexes, cut_samples, blocks); [sn] = sample_next.
     acc_size is unsigned long, next_string_length + 1 is unsigned int. *)
  Fixpoint cut_loop (cut : N) (l : list A) (acc qty : N) (sn : bool)
    : list N * list A * list (list A) :=
    match l with
    | [] => ([], [], [])
    | x :: r =>
      let acc' := ((acc + (len x + 1) mod 2 ^ 32) mod 2 ^ 64)%N in
      let qty' := (qty + 1)%N in
      let flush := is_nil r || (cut <? acc')%N in
      let '(st, sm, bl) := if flush then cut_loop cut r 0 qty' true
                           else cut_loop cut r acc' qty' false in
      (if sn then qty :: st else st, if sn then x :: sm else sm,
       if flush then [x] :: bl else cons_first x bl)
    end.

  Definition partition (cut : N) (l : list A) : list (list A) := snd (cut_loop cut l 0 0 true).
  Definition starting_indexes (cut : N) (l : list A) : list N := fst (fst (cut_loop cut l 0 0 true)).
  Definition cut_samples (cut : N) (l : list A) : list A := snd (fst (cut_loop cut l 0 0 true)).

  Fixpoint starts (q : N) (bl : list (list A)) : list N :=
    match bl with [] => [] | b :: r => q :: starts (q + lenN b)%N r end.
  Definition firsts (bl : list (list A)) : list A :=
    flat_map (fun b => match b with x :: _ => [x] | [] => [] end) bl.
End Partition.

Definition partition_lens (cut : N) (lens : list N) : list N * list N :=
  (starting_indexes N (fun x => x) cut lens, map (@lenN N) (partition N (fun x => x) cut lens)).
