(* Properties_C18 snippet -- prefix-free codes, Hu-Tucker order, decoding inverts encoding.
   Only restatements: every proof is [exact lemma]. *)
From LibCSD Require Import Base CodesDefs CodesProofs.
From Coq Require Import Sorted.
Local Open Scope N_scope.

(* ---- A. code trees (Huffman = any binary tree, Hu-Tucker = any ordered binary tree) *)

Theorem C18_tree_code_prefix_free : forall t s1 c1 s2 c2,
  In (s1, c1) (codes_of_tree t) -> In (s2, c2) (codes_of_tree t) -> is_prefix c1 c2 -> s1 = s2 /\ c1 = c2.
Proof. exact tree_code_prefix_free. Qed.
Print Assumptions C18_tree_code_prefix_free.

Theorem C18_tree_code_complete : forall t D,
  (height t <= D)%nat -> kraft_sum D (map snd (codes_of_tree t)) = 2 ^ N.of_nat D.
Proof. exact tree_code_complete. Qed.
Print Assumptions C18_tree_code_complete.

Theorem C18_ordered_tree_alphabetic : forall t,
  StronglySorted N.lt (leaves t) ->
  forall s1 c1 s2 c2, In (s1, c1) (codes_of_tree t) -> In (s2, c2) (codes_of_tree t) -> s1 < s2 -> bits_lt c1 c2.
Proof. exact ordered_tree_alphabetic. Qed.
Print Assumptions C18_ordered_tree_alphabetic.

Theorem C18_tree_decode_encode : forall t syms rest,
  Forall (fun s => In s (leaves t)) syms ->
  exists bs, tree_encode t syms = Some bs /\ tree_decode t (length syms) (bs ++ rest) = syms.
Proof. exact tree_decode_encode. Qed.
Print Assumptions C18_tree_decode_encode.

Definition ex_tree := Node (Node (Leaf 0) (Node (Leaf 1) (Leaf 2))) (Node (Leaf 3) (Leaf 4)).
Example C18_ex_tree_sorted : StronglySorted N.lt (leaves ex_tree).
Proof. repeat constructor. Qed.
Example C18_ex_tree_height : (height ex_tree <= 3)%nat /\ kraft_sum 3 (map snd (codes_of_tree ex_tree)) = 8.
Proof. split; [cbn; lia | reflexivity]. Qed.
Example C18_ex_tree_roundtrip :
  tree_encode ex_tree [3; 1; 4; 1; 0] = Some [true; false; false; true; false; true; true; false; true; false; false; false]
  /\ tree_decode ex_tree 5 [true; false; false; true; false; true; true; false; true; false; false; false; true] = [3; 1; 4; 1; 0].
Proof. split; reflexivity. Qed.

(* ---- B. verified checkers over the table the implementation produced *)

Theorem C18_check_prefix_free_sound : forall cws, check_prefix_free cws = true -> prefix_free (table_codes cws).
Proof. exact check_prefix_free_sound. Qed.
Print Assumptions C18_check_prefix_free_sound.

Theorem C18_check_complete_sound : forall cws, check_complete cws = true -> complete (table_codes cws).
Proof. exact check_complete_sound. Qed.
Print Assumptions C18_check_complete_sound.

Theorem C18_check_lengths_sound : forall cws, check_lengths cws = true -> lengths_ok cws.
Proof. exact check_lengths_sound. Qed.
Print Assumptions C18_check_lengths_sound.

Theorem C18_check_alphabetic_sound : forall cws, check_alphabetic cws = true -> alphabetic (table_codes cws).
Proof. exact check_alphabetic_sound. Qed.
Print Assumptions C18_check_alphabetic_sound.

Theorem C18_table_decode_encode : forall cws s,
  check_prefix_free cws = true -> Forall (sym_ok cws) s ->
  exists bs, encode_bits cws s = Some bs /\ decode_bits cws bs = s.
Proof. exact table_decode_encode. Qed.
Print Assumptions C18_table_decode_encode.

Theorem C18_alphabetic_encode_monotone : forall codes p a b u v encu encv,
  prefix_free codes -> alphabetic codes -> a < b ->
  encode_with (code_at codes) (p ++ a :: u) = Some encu ->
  encode_with (code_at codes) (p ++ b :: v) = Some encv ->
  bits_lt encu encv.
Proof. exact alphabetic_encode_monotone. Qed.
Print Assumptions C18_alphabetic_encode_monotone.

(* the REAL tables: new HuTucker(freqs)->obtainCodewords() / new Huffman(freqs)->obtainCodewords() for the
   counts (initialised to 1) of "alabama\0alaska\0arizona\0arkansas\0california\0colorado\0connecticut\0delaware\0" *)
Definition real_ht : list cw :=
  [(0,5); (16,9); (17,9); (18,9); (19,9); (20,9); (21,9); (22,9); (23,9); (24,9); (25,9); (26,9); (27,9); 
   (28,9); (29,9); (30,9); (31,9); (32,9); (33,9); (34,9); (35,9); (36,9); (37,9); (38,9); (39,9); (40,9); 
   (41,9); (42,9); (43,9); (44,9); (45,9); (46,9); (47,9); (48,9); (49,9); (50,9); (51,9); (52,9); (53,9); 
   (54,9); (55,9); (56,9); (57,9); (58,9); (59,9); (60,9); (61,9); (62,9); (63,9); (64,9); (65,9); (66,9); 
   (67,9); (68,9); (69,9); (70,9); (71,9); (72,9); (73,9); (74,9); (75,9); (76,9); (77,9); (78,9); (79,9); 
   (80,9); (81,9); (82,9); (83,9); (84,9); (85,9); (86,9); (87,9); (88,9); (89,9); (90,9); (91,9); (92,9); 
   (93,9); (94,9); (95,9); (48,8); (49,8); (50,8); (51,8); (52,8); (53,8); (54,8); (55,8); (56,8); (57,8); 
   (58,8); (59,8); (60,8); (61,8); (62,8); (63,8); (4,4); (40,7); (41,7); (42,7); (43,7); (44,7); (90,8); 
   (91,8); (23,6); (48,7); (49,7); (50,7); (51,7); (26,6); (27,6); (112,8); (113,8); (57,7); (58,7); (59,7); 
   (120,8); (121,8); (122,8); (246,9); (247,9); (124,8); (250,9); (251,9); (252,9); (253,9); (127,8); (128,8); 
   (129,8); (130,8); (131,8); (132,8); (133,8); (134,8); (135,8); (136,8); (137,8); (138,8); (139,8); (140,8); 
   (141,8); (142,8); (143,8); (144,8); (145,8); (146,8); (147,8); (148,8); (149,8); (150,8); (151,8); (152,8); 
   (153,8); (154,8); (155,8); (156,8); (157,8); (158,8); (159,8); (160,8); (161,8); (162,8); (163,8); (164,8); 
   (165,8); (166,8); (167,8); (168,8); (169,8); (170,8); (171,8); (172,8); (173,8); (174,8); (175,8); (176,8); 
   (177,8); (178,8); (179,8); (180,8); (181,8); (182,8); (183,8); (184,8); (185,8); (186,8); (187,8); (188,8); 
   (189,8); (190,8); (191,8); (192,8); (193,8); (194,8); (195,8); (196,8); (197,8); (198,8); (199,8); (200,8); 
   (201,8); (202,8); (203,8); (204,8); (205,8); (206,8); (207,8); (208,8); (209,8); (210,8); (211,8); (212,8); 
   (213,8); (214,8); (215,8); (216,8); (217,8); (218,8); (219,8); (220,8); (221,8); (222,8); (223,8); (224,8); 
   (225,8); (226,8); (227,8); (228,8); (229,8); (230,8); (231,8); (232,8); (233,8); (234,8); (235,8); (236,8); 
   (237,8); (238,8); (239,8); (240,8); (241,8); (242,8); (243,8); (244,8); (245,8); (246,8); (247,8); (248,8); 
   (249,8); (250,8); (251,8); (252,8); (253,8); (254,8); (255,8)].
Definition real_huff : list cw :=
  [(29,5); (0,9); (1,9); (2,9); (3,9); (4,9); (5,9); (6,9); (7,9); (8,9); (9,9); (10,9); (11,9); (12,9); (13,9); 
   (14,9); (15,9); (16,9); (17,9); (18,9); (19,9); (20,9); (21,9); (22,9); (23,9); (24,9); (25,9); (26,9); 
   (27,9); (28,9); (29,9); (30,9); (31,9); (32,9); (33,9); (34,9); (35,9); (36,9); (37,9); (38,9); (39,9); 
   (40,9); (41,9); (42,9); (43,9); (44,9); (45,9); (46,9); (47,9); (48,9); (49,9); (50,9); (51,9); (52,9); 
   (53,9); (54,9); (55,9); (56,9); (57,9); (58,9); (59,9); (60,9); (61,9); (62,9); (63,9); (64,9); (65,9); 
   (66,9); (67,9); (68,9); (69,9); (70,9); (71,9); (72,9); (73,9); (74,9); (75,9); (76,9); (77,9); (78,9); 
   (79,9); (80,9); (81,9); (82,9); (83,9); (84,9); (85,9); (86,9); (87,9); (88,9); (89,9); (45,8); (46,8); 
   (47,8); (48,8); (49,8); (50,8); (15,4); (196,8); (55,6); (100,7); (103,7); (194,8); (57,8); (58,8); (52,6); 
   (60,8); (99,7); (56,6); (195,8); (54,6); (57,6); (66,8); (67,8); (53,6); (102,7); (101,7); (193,8); (72,8); 
   (192,8); (74,8); (75,8); (197,8); (77,8); (78,8); (79,8); (80,8); (81,8); (82,8); (83,8); (84,8); (85,8); 
   (86,8); (87,8); (88,8); (89,8); (90,8); (91,8); (92,8); (93,8); (94,8); (95,8); (96,8); (97,8); (98,8); 
   (99,8); (100,8); (101,8); (102,8); (103,8); (104,8); (105,8); (106,8); (107,8); (108,8); (109,8); (110,8); 
   (111,8); (112,8); (113,8); (114,8); (115,8); (116,8); (117,8); (118,8); (119,8); (120,8); (121,8); (122,8); 
   (123,8); (124,8); (125,8); (126,8); (127,8); (128,8); (129,8); (130,8); (131,8); (132,8); (133,8); (134,8); 
   (135,8); (136,8); (137,8); (138,8); (139,8); (140,8); (141,8); (142,8); (143,8); (144,8); (145,8); (146,8); 
   (147,8); (148,8); (149,8); (150,8); (151,8); (152,8); (153,8); (154,8); (155,8); (156,8); (157,8); (158,8); 
   (159,8); (160,8); (161,8); (162,8); (163,8); (164,8); (165,8); (166,8); (167,8); (168,8); (169,8); (170,8); 
   (171,8); (172,8); (173,8); (174,8); (175,8); (176,8); (177,8); (178,8); (179,8); (180,8); (181,8); (182,8); 
   (183,8); (184,8); (185,8); (186,8); (187,8); (188,8); (189,8); (76,8); (73,8); (71,8); (70,8); (69,8); 
   (68,8); (65,8); (64,8); (63,8); (62,8); (61,8); (59,8); (56,8); (55,8); (54,8); (53,8); (52,8); (190,8); 
   (51,8); (191,8)].
Definition real_levels : list Z :=
  [5; 9; 9; 9; 9; 9; 9; 9; 9; 9; 9; 9; 9; 9; 9; 9; 9; 9; 9; 9; 9; 9; 9; 9; 9; 9; 9; 9; 9; 9; 9; 9; 9; 9; 9; 9; 
   9; 9; 9; 9; 9; 9; 9; 9; 9; 9; 9; 9; 9; 9; 9; 9; 9; 9; 9; 9; 9; 9; 9; 9; 9; 9; 9; 9; 9; 9; 9; 9; 9; 9; 9; 9; 
   9; 9; 9; 9; 9; 9; 9; 9; 9; 8; 8; 8; 8; 8; 8; 8; 8; 8; 8; 8; 8; 8; 8; 8; 8; 4; 7; 7; 7; 7; 7; 8; 8; 6; 7; 7; 
   7; 7; 6; 6; 8; 8; 7; 7; 7; 8; 8; 8; 9; 9; 8; 9; 9; 9; 9; 8; 8; 8; 8; 8; 8; 8; 8; 8; 8; 8; 8; 8; 8; 8; 8; 8; 
   8; 8; 8; 8; 8; 8; 8; 8; 8; 8; 8; 8; 8; 8; 8; 8; 8; 8; 8; 8; 8; 8; 8; 8; 8; 8; 8; 8; 8; 8; 8; 8; 8; 8; 8; 8; 
   8; 8; 8; 8; 8; 8; 8; 8; 8; 8; 8; 8; 8; 8; 8; 8; 8; 8; 8; 8; 8; 8; 8; 8; 8; 8; 8; 8; 8; 8; 8; 8; 8; 8; 8; 8; 
   8; 8; 8; 8; 8; 8; 8; 8; 8; 8; 8; 8; 8; 8; 8; 8; 8; 8; 8; 8; 8; 8; 8; 8; 8; 8; 8; 8; 8; 8; 8; 8; 8; 8; 8; 8; 
   8; 8; 8; 8]%Z.

Example C18_real_ht_checks :
  lenN real_ht = 256 /\ check_prefix_free real_ht = true /\ check_complete real_ht = true /\
  check_lengths real_ht = true /\ check_alphabetic real_ht = true.
Proof. vm_compute. repeat split. Qed.
Example C18_real_huff_checks :
  lenN real_huff = 256 /\ check_prefix_free real_huff = true /\ check_complete real_huff = true /\
  check_lengths real_huff = true /\ check_alphabetic real_huff = false.
Proof. vm_compute. repeat split. Qed.
Example C18_real_table_roundtrip :
  Forall (sym_ok real_ht) [97; 108; 97; 115; 107; 97; 0] /\
  option_map (decode_bits real_ht) (encode_bits real_ht [97; 108; 97; 115; 107; 97; 0]) = Some [97; 108; 97; 115; 107; 97; 0].
Proof. split; [repeat constructor; eexists; split; try reflexivity; reflexivity | vm_compute; reflexivity]. Qed.

(* what the pinned Huffman::obtainCodewords returns for symbols 25 and 26 on the depth-33 frequency vector
   of NOTES.md (24/33 twice): outside the envelope, and rejected by the checkers *)
Example C18_huffman_depth33_rejected :
  check_lengths [(24, 33); (24, 33)] = false /\ check_prefix_free [(24, 33); (24, 33)] = false.
Proof. split; vm_compute; reflexivity. Qed.

(* ---- C. StatCoder::encodeSymbol / encodeString bit packing *)

Theorem C18_pack_bits : forall cws s, lengths_ok cws -> forall st st' pre,
  pinv st pre -> pack_symbols cws s st = Some st' ->
  exists enc, encode_bits cws s = Some enc /\ pinv st' (pre ++ enc).
Proof. exact pack_bits. Qed.
Print Assumptions C18_pack_bits.

Theorem C18_pack_bits_bytes : forall cws s st st' pre,
  lengths_ok cws -> pinv st pre -> pack_symbols cws s st = Some st' ->
  exists enc, encode_bits cws s = Some enc /\
              bits_of_bytes (final_bytes st') = pre ++ enc ++ padding st' /\
              8 * lenN (fst (fst st')) + snd st' = N.of_nat (length pre + length enc).
Proof. exact pack_bits_bytes. Qed.
Print Assumptions C18_pack_bits_bytes.

Theorem C18_pack_string_bits : forall cws s bytes off,
  lengths_ok cws -> pack_string cws s = Some (bytes, off) ->
  exists enc, encode_bits cws s = Some enc /\
              bits_of_bytes bytes = enc ++ repeat false (N.to_nat ((8 - off) mod 8)) /\
              off = N.of_nat (length enc) mod 8.
Proof. exact pack_string_bits. Qed.
Print Assumptions C18_pack_string_bits.

Theorem C18_bit_roundtrip : forall cws s nul st st' pre,
  check_prefix_free cws = true -> check_lengths cws = true ->
  Forall (fun x => x < lenN cws) s -> terminated s nul ->
  pinv st pre -> pack_symbols cws s st = Some st' ->
  decode_packed cws (final_bytes st') (N.of_nat (length pre)) nul = Some (s, padding st').
Proof. exact CodesProofs.C18_bit_roundtrip. Qed.
Print Assumptions C18_bit_roundtrip.

Theorem C18_string_roundtrip : forall cws s,
  check_prefix_free cws = true -> check_lengths cws = true ->
  Forall (fun x => x < lenN cws) (s ++ [0]) -> ~ In 0 s ->
  exists bytes off pad, pack_string cws (s ++ [0]) = Some (bytes, off) /\
                        decode_packed cws bytes 0 1 = Some (s ++ [0], pad).
Proof. exact CodesProofs.C18_string_roundtrip. Qed.
Print Assumptions C18_string_roundtrip.

(* "alaska\0" packed after "alabama\0" in the same bit stream (mid-byte start), then decoded from there *)
Example C18_ex_midbyte :
  exists st pre st',
    pack_symbols real_ht [97; 108; 97; 98; 97; 109; 97; 0] ([], 0, 0) = Some st /\ pinv st pre /\
    (length pre mod 8 <> 0)%nat /\ terminated [97; 108; 97; 115; 107; 97; 0] 1 /\
    pack_symbols real_ht [97; 108; 97; 115; 107; 97; 0] st = Some st' /\
    option_map fst (decode_packed real_ht (final_bytes st') (N.of_nat (length pre)) 1) = Some [97; 108; 97; 115; 107; 97; 0].
Proof.
  destruct (pack_symbols real_ht [97; 108; 97; 98; 97; 109; 97; 0] ([], 0, 0)) as [st|] eqn:E; [|vm_compute in E; discriminate].
  destruct (pack_bits real_ht _ (check_lengths_sound _ (proj1 (proj2 (proj2 (proj2 C18_real_ht_checks))))) _ _ [] pinv_init E)
    as [enc [Ee Hinv]].
  vm_compute in Ee. injection Ee as <-. vm_compute in E. injection E as <-.
  eexists; eexists; eexists. split; [reflexivity|]. split; [exact Hinv|].
  split; [vm_compute; discriminate|]. split; [apply (terminated_string [97; 108; 97; 115; 107; 97]); vm_compute; intuition discriminate|].
  split; vm_compute; reflexivity.
Qed.

(* ---- D. Hu-Tucker recombination *)

Theorem C18_recombination_sound : forall levels t,
  recombine levels = Some t -> leaf_levels t 0 = combine (seqN 0 (length levels)) levels.
Proof. exact recombination_sound. Qed.
Print Assumptions C18_recombination_sound.

Theorem C18_recombination_leaves : forall levels t,
  recombine levels = Some t -> leaves t = seqN 0 (length levels).
Proof. exact recombination_leaves. Qed.
Print Assumptions C18_recombination_leaves.

Theorem C18_recombination_depths : forall levels t,
  recombine levels = Some t -> map (fun p => Z.of_nat (length (snd p))) (codes_of_tree t) = levels.
Proof. exact recombination_depths. Qed.
Print Assumptions C18_recombination_depths.

Theorem C18_recombination_table_ok : forall levels t,
  recombine levels = Some t ->
  let cs := table_codes (table_of_tree t (length levels)) in
  prefix_free cs /\ complete cs /\ alphabetic cs /\ map (fun c => Z.of_nat (length c)) cs = levels.
Proof. exact recombination_table_ok. Qed.
Print Assumptions C18_recombination_table_ok.

Theorem C18_recombine_arr_refines : forall levels, levels <> [] ->
  exists s, recombine_arr levels = Some s /\ rwf s /\ alpha s = recombine_stack levels.
Proof. exact recombine_arr_refines. Qed.
Print Assumptions C18_recombine_arr_refines.

Theorem C18_recombine_arr_root_eq : forall levels, levels <> [] -> recombine_arr_root levels = recombine_root levels.
Proof. exact recombine_arr_root_eq. Qed.
Print Assumptions C18_recombine_arr_root_eq.

Example C18_real_recombination_arr :
  exists t, recombine_arr_root real_levels = Some t /\ recombine real_levels = Some t.
Proof. eexists. split; vm_compute; reflexivity. Qed.

(* the level vector the real combination/levelAssignment phases produced for the text above; the model's
   recombination rebuilds exactly the table of the real constructor *)
Example C18_real_recombination :
  exists t, recombine real_levels = Some t /\ table_of_tree t 256 = real_ht.
Proof. eexists. split; vm_compute; reflexivity. Qed.
Example C18_recombination_can_fail : recombine [1; 2; 2; 2]%Z = None /\ recombine [0; 0]%Z = None.
Proof. split; reflexivity. Qed.

(* ---- E. one step of the chunked decoding table *)

Theorem C18_chunk_step_sound : forall codes k tab bs e r,
  prefix_free codes -> (k <= length bs)%nat ->
  tab (chunk_index k bs) = Some e -> entry_ok codes k (chunk_index k bs) e ->
  chunk_step k tab bs = Some r -> bit_steps codes (entry_count e) bs = Some r.
Proof. exact chunk_step_sound. Qed.
Print Assumptions C18_chunk_step_sound.

(* k = 3 table over the code 0, 10, 110, 1110, 1111: entry 010 = "0","10"; entry 111 = subtree {3,4} *)
Definition ex_codes : list (list bool) :=
  [[false]; [true; false]; [true; true; false]; [true; true; true; false]; [true; true; true; true]].
Definition ex_tab (i : N) : option entry :=
  if i =? 2 then Some (ESyms [0; 1] 3) else if i =? 7 then Some (ETree (Node (Leaf 3) (Leaf 4))) else None.
Example C18_ex_chunk :
  entry_ok ex_codes 3 2 (ESyms [0; 1] 3) /\ entry_ok ex_codes 3 7 (ETree (Node (Leaf 3) (Leaf 4))) /\
  chunk_step 3 ex_tab [false; true; false; true] = Some ([0; 1], [true]) /\
  chunk_step 3 ex_tab [true; true; true; true; false] = Some ([4], [false]) /\
  bit_steps ex_codes 1 [true; true; true; true; false] = Some ([4], [false]).
Proof.
  split; [exists [false; true; false]; repeat split; exists []; reflexivity|].
  split; [|repeat split].
  intros s c [H|[H|[]]]; injection H as <- <-; reflexivity.
Qed.
