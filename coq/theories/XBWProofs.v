(* Proofs about XBWDefs.v: the verified checker is sound for the invariant [xinv]; under it the model of
   subPathSearch / locate / extract / getChildren / getParent answers the specification. *)
From LibCSD Require Import Base Bytes BitRGDefs BitRGProofs Spec SpecProofs XBWDefs.
Require Import Lia ZifyBool ZifyNat ZifyN Sorted Permutation.
Ltac Zify.zify_post_hook ::= Z.to_euclidean_division_equations.
Local Open Scope N_scope.

(* ================================================================== *)
(* 0. generic list facts                                               *)
(* ================================================================== *)
Lemma filter_none {T} (f : T -> bool) l : (forall x, In x l -> f x = false) -> filter f l = [].
Proof.
  induction l as [|a l IH]; intros H; cbn [filter]; [reflexivity|].
  rewrite (H a) by (left; reflexivity). apply IH. intros x Hx. apply H. right; exact Hx.
Qed.

Lemma filter_all {T} (f : T -> bool) l : (forall x, In x l -> f x = true) -> filter f l = l.
Proof.
  induction l as [|a l IH]; intros H; cbn [filter]; [reflexivity|].
  rewrite (H a) by (left; reflexivity). f_equal. apply IH. intros x Hx. apply H. right; exact Hx.
Qed.

Lemma filter_comm {T} (f g : T -> bool) l : filter f (filter g l) = filter g (filter f l).
Proof.
  induction l as [|a l IH]; cbn [filter]; [reflexivity|].
  destruct (g a) eqn:G, (f a) eqn:F; cbn [filter]; rewrite ?G, ?F, IH; reflexivity.
Qed.

Lemma filter_map_comm {T U} (g : T -> U) (f : U -> bool) l : filter f (map g l) = map g (filter (fun x => f (g x)) l).
Proof.
  induction l as [|a l IH]; cbn [filter map]; [reflexivity|].
  destruct (f (g a)); cbn [map]; rewrite IH; reflexivity.
Qed.

Lemma lenN_map {T U} (g : T -> U) l : lenN (map g l) = lenN l.
Proof. unfold lenN. now rewrite map_length. Qed.

(* exclusive disjunction splits a filter count *)
Lemma filter_or_len {T} (f g : T -> bool) l :
  (forall x, In x l -> f x = true -> g x = false) ->
  lenN (filter (fun x => f x || g x) l) = lenN (filter f l) + lenN (filter g l).
Proof.
  induction l as [|a l IH]; intros H; cbn [filter]; [reflexivity|].
  assert (IH' := IH (fun x Hx => H x (or_intror Hx))).
  destruct (f a) eqn:F.
  - rewrite (H a (or_introl eq_refl) F). cbn [orb]. rewrite !lenN_cons, IH'. lia.
  - cbn [orb]. destruct (g a); rewrite ?lenN_cons, IH'; lia.
Qed.

Lemma nth_filter_split {T} (f : T -> bool) l j b :
  nth_error (filter f l) j = Some b ->
  exists l1 l2, l = l1 ++ b :: l2 /\ length (filter f l1) = j /\ f b = true.
Proof.
  revert j. induction l as [|a l IH]; intros j H; cbn [filter] in H.
  - destruct j; discriminate.
  - destruct (f a) eqn:F.
    + destruct j as [|j]; cbn [nth_error] in H.
      * injection H as <-. exists [], l. repeat split; auto.
      * destruct (IH _ H) as (l1 & l2 & E & L & Fb). exists (a :: l1), l2. subst l.
        repeat split; auto. cbn [filter]. rewrite F. cbn [length]. lia.
    + destruct (IH _ H) as (l1 & l2 & E & L & Fb). exists (a :: l1), l2. subst l.
      repeat split; auto. cbn [filter]. rewrite F. exact L.
Qed.

Lemma list_eqb_N a : forall b, list_eqb N.eqb a b = true -> a = b.
Proof.
  induction a as [|x a IH]; intros [|y b] H; cbn [list_eqb] in H; try discriminate; [reflexivity|].
  apply andb_prop in H as [H1 H2]. apply N.eqb_eq in H1. subst. f_equal. auto.
Qed.

Lemma list_eqb_bool a : forall b, list_eqb beqb a b = true -> a = b.
Proof.
  induction a as [|x a IH]; intros [|y b] H; cbn [list_eqb] in H; try discriminate; [reflexivity|].
  apply andb_prop in H as [H1 H2]. apply eqb_prop in H1. subst. f_equal. auto.
Qed.

Lemma keyeqb_eq a b : keyeqb a b = true <-> a = b.
Proof. apply str_eqb_eq. Qed.

Lemma existsb_In c l : existsb (N.eqb c) l = true <-> In c l.
Proof.
  rewrite existsb_exists. split.
  - intros (x & Hx & E). apply N.eqb_eq in E. subst. exact Hx.
  - intros H. exists c. split; [exact H|apply N.eqb_refl].
Qed.

(* ---- strict lexicographic sortedness --------------------------------------------------- *)
Notation SS := (StronglySorted lex_lt).

Lemma sorted_lt_SS l : sorted_lt l -> SS l.
Proof.
  induction l as [|a l IH]; intros H; constructor.
  - apply IH. eapply sorted_tail; eauto.
  - apply sorted_head_lt. exact H.
Qed.

Lemma SS_filter f l : SS l -> SS (filter f l).
Proof.
  induction 1 as [|a l H IH Hf]; cbn [filter]; [constructor|].
  destruct (f a); [|exact IH]. constructor; [exact IH|].
  rewrite Forall_forall in *. intros x Hx. apply filter_In in Hx. apply Hf. tauto.
Qed.

Lemma lex_cons c a b : lex_compare (c :: a) (c :: b) = lex_compare a b.
Proof. cbn [lex_compare]. now rewrite N.compare_refl. Qed.

Lemma SS_map_cons c l : SS l -> SS (map (cons c) l).
Proof.
  induction 1 as [|a l H IH Hf]; cbn [map]; constructor; [exact IH|].
  rewrite Forall_forall in *. intros x Hx. apply in_map_iff in Hx as (y & <- & Hy).
  unfold lex_lt. rewrite lex_cons. apply Hf. exact Hy.
Qed.

Lemma SS_ext_eq l1 : forall l2, SS l1 -> SS l2 -> (forall x, In x l1 <-> In x l2) -> l1 = l2.
Proof.
  induction l1 as [|a l1 IH]; intros l2 H1 H2 E.
  - destruct l2 as [|b l2]; [reflexivity|]. exfalso. apply (E b). left; reflexivity.
  - destruct l2 as [|b l2]; [exfalso; apply (E a); left; reflexivity|].
    apply StronglySorted_inv in H1 as [H1 F1]. apply StronglySorted_inv in H2 as [H2 F2].
    rewrite Forall_forall in F1, F2.
    assert (a = b) as ->.
    { destruct (proj1 (E a) (or_introl eq_refl)) as [->|Ha]; [reflexivity|].
      destruct (proj2 (E b) (or_introl eq_refl)) as [->|Hb]; [reflexivity|].
      exfalso. apply (lex_lt_asym a b); auto. }
    f_equal. apply IH; auto. intros x. split; intros Hx.
    + destruct (proj1 (E x) (or_intror Hx)) as [<-|]; [|assumption].
      exfalso. apply (lex_lt_irrefl b). auto.
    + destruct (proj2 (E x) (or_intror Hx)) as [<-|]; [|assumption].
      exfalso. apply (lex_lt_irrefl b). auto.
Qed.

Lemma SS_NoDup l : SS l -> NoDup l.
Proof.
  induction 1 as [|a l H IH Hf]; constructor; [|exact IH].
  intros Hin. rewrite Forall_forall in Hf. apply (lex_lt_irrefl a). auto.
Qed.

(* a downward closed predicate cuts a sorted block list in two *)
Definition dclosed (P : list N -> bool) : Prop := forall k k', lex_lt k' k -> P k = true -> P k' = true.

Lemma bsel_split P (B : list blk) : SS (map fst B) -> dclosed P ->
  B = bsel P B ++ bsel (fun k => negb (P k)) B.
Proof.
  intros H D. induction B as [|b B IH]; [reflexivity|].
  cbn [map] in H. apply StronglySorted_inv in H as [H F]. unfold bsel in *. cbn [filter].
  destruct (P (fst b)) eqn:E; cbn [negb app].
  - f_equal. apply IH. exact H.
  - rewrite (filter_none (fun b0 => P (fst b0)) B).
    + cbn [app]. f_equal. symmetry. apply filter_all. intros x Hx.
      destruct (P (fst x)) eqn:E2; [|reflexivity].
      rewrite Forall_forall in F. rewrite (D (fst x) (fst b)) in E; [discriminate| |exact E2].
      apply F. apply in_map. exact Hx.
    + intros x Hx. destruct (P (fst x)) eqn:E2; [|reflexivity].
      rewrite Forall_forall in F. rewrite (D (fst x) (fst b)) in E; [discriminate| |exact E2].
      apply F. apply in_map. exact Hx.
Qed.

Lemma lex_ltb_lt a b : lex_ltb a b = true <-> lex_lt a b.
Proof. unfold lex_ltb, lex_lt. destruct (lex_compare a b); split; congruence. Qed.

Lemma klt_dclosed w : dclosed (klt w).
Proof.
  intros k k' H1 H2. unfold klt in *. apply lex_ltb_lt in H2. apply lex_ltb_lt.
  eapply lex_lt_trans; eauto.
Qed.

(* k' < k, w prefix of k  ->  k' < w or w prefix of k' *)
Lemma lt_prefix_cases w : forall k k', lex_lt k' k -> is_prefix w k = true ->
  lex_lt k' w \/ is_prefix w k' = true.
Proof.
  induction w as [|x w IH]; intros k k' H1 H2; [right; reflexivity|].
  destruct k as [|y k]; [discriminate|]. cbn [is_prefix] in H2. apply andb_prop in H2 as [E H2].
  apply N.eqb_eq in E. subst y.
  destruct k' as [|z k']; [left; reflexivity|].
  unfold lex_lt in *. cbn [lex_compare] in *. cbn [is_prefix].
  destruct (N.compare_spec z x) as [->|Hlt|Hgt]; try discriminate.
  - rewrite N.eqb_refl. cbn [andb]. eapply IH; eauto.
  - left; reflexivity.
Qed.

Lemma kle_dclosed w : dclosed (kle w).
Proof.
  intros k k' H1 H2. unfold kle in *. apply orb_prop in H2 as [H2|H2].
  - apply lex_ltb_lt in H2. apply orb_true_intro. left. apply lex_ltb_lt. eapply lex_lt_trans; eauto.
  - destruct (lt_prefix_cases w k k' H1 H2) as [H|H]; apply orb_true_intro; [left; now apply lex_ltb_lt|right; exact H].
Qed.

(* ================================================================== *)
(* 1. the invariant established by the checker                         *)
(* ================================================================== *)
Record binv (S : list str) (B : list blk) : Prop := {
  bi_head : exists l1 B2, B = ([0], [0; 0]) :: ([0; 0], l1) :: B2;
  bi_sorted : SS (map fst B);
  bi_blk : forall b, In b (tl B) ->
      key_ok (fst b) = true /\ snd b <> [] /\ asc_b (snd b) = true /\ (forall c, In c (snd b) -> 2 <= c <= 255);
  bi_down : forall b c, In b (tl B) -> In c (snd b) -> c <> 255 -> exists b', In b' B /\ fst b' = c :: fst b;
  bi_up : forall b, In b (tl (tl B)) ->
      exists c k b', fst b = c :: k /\ In b' (tl B) /\ fst b' = k /\ In c (snd b');
  bi_mem : forall s, In s S -> exists b, In b B /\ fst b = mkkey s /\ In 255 (snd b);
  bi_leaf : forall b, In b (tl B) -> In 255 (snd b) -> In (unkey (fst b)) S
}.

Record ainv (S : list str) (B : list blk) (d : xbw) : Prop := {
  ai_nodes : x_nodes d = lenN (labels_of B);
  ai_small : x_nodes d + 1 < W32;
  ai_alpha : x_alpha d = map (mapf d) (labels_of B);
  ai_last : x_last d = lasts_of B;
  ai_maplen : lenN (x_mapping d) = 257;
  ai_sym : forall c, c < 256 -> chk_sym B d c = true;
  ai_max : x_maxLabel d = mapf d 255;
  ai_rowsA : forall n k c, nthN (rows_of B) n = Some (k, c) ->
      exists c0 k', k = c0 :: k' /\ n < lenN (x_A d) /\ bv_rank1 (x_A d) n = mapf d c0;
  ai_elems : x_elements d = lenN S;
  ai_maxlen : x_maxlength d = spec_maxlen S + 1
}.

Definition xinv (S : list str) (B : list blk) (d : xbw) : Prop := binv S B /\ ainv S B d.

Lemma has_In c b : has c b = true <-> In c (snd b).
Proof. apply existsb_In. Qed.

Lemma check_blocks_sound S B : check_blocks S B = true -> binv S B.
Proof.
  unfold check_blocks. intros H.
  repeat (apply andb_prop in H as [H ?]).
  rename H into Hh, H0 into Hleaf, H1 into Hmem, H2 into Hup, H3 into Hdown, H4 into Hblk, H5 into Hs.
  constructor.
  - unfold chk_head in Hh. destruct B as [|[k0 l0] [|[k1 l1] B2]]; try discriminate.
    repeat (apply andb_prop in Hh as [Hh ?]).
    apply keyeqb_eq in Hh, H, H0. subst. eauto.
  - apply sorted_lt_SS, sorted_lt_b_sound. exact Hs.
  - intros b Hb. rewrite forallb_forall in Hblk. specialize (Hblk b Hb). unfold chk_blk in Hblk.
    repeat (apply andb_prop in Hblk as [Hblk ?]).
    repeat split; auto.
    + intros E. rewrite E in H1. discriminate.
    + rewrite forallb_forall in H. specialize (H c H2). lia.
    + rewrite forallb_forall in H. specialize (H c H2). lia.
  - intros b c Hb Hc Hn. unfold chk_down in Hdown. rewrite forallb_forall in Hdown.
    specialize (Hdown b Hb). rewrite forallb_forall in Hdown. specialize (Hdown c Hc).
    apply orb_prop in Hdown as [E|E]; [apply N.eqb_eq in E; contradiction|].
    unfold haskey in E. apply existsb_exists in E as (b' & Hb' & E). apply keyeqb_eq in E. eauto.
  - intros b Hb. unfold chk_up in Hup. rewrite forallb_forall in Hup. specialize (Hup b Hb).
    destruct (fst b) as [|c k] eqn:E; [discriminate|].
    apply existsb_exists in Hup as (b' & Hb' & E2). apply andb_prop in E2 as [E2 E3].
    apply keyeqb_eq in E2. apply has_In in E3. exists c, k, b'. auto.
  - intros s Hs'. unfold chk_members in Hmem. rewrite forallb_forall in Hmem. specialize (Hmem s Hs').
    apply existsb_exists in Hmem as (b & Hb & E). apply andb_prop in E as [E1 E2].
    apply keyeqb_eq in E1. apply has_In in E2. eauto.
  - intros b Hb H255. unfold chk_leaves in Hleaf. rewrite forallb_forall in Hleaf. specialize (Hleaf b Hb).
    apply has_In in H255. rewrite H255 in Hleaf. cbn [negb orb] in Hleaf.
    apply existsb_exists in Hleaf as (s & Hs' & E). apply str_eqb_eq in E. subst. exact Hs'.
Qed.

Lemma chk_rowsA_sound d rows : forall n0, chk_rowsA d rows n0 = true ->
  forall i k c, nthN rows i = Some (k, c) ->
  exists c0 k', k = c0 :: k' /\ n0 + i < lenN (x_A d) /\ bv_rank1 (x_A d) (n0 + i) = mapf d c0.
Proof.
  induction rows as [|[k0 c0'] rows IH]; intros n0 H i k c Hn.
  - unfold nthN in Hn. destruct (N.to_nat i); discriminate.
  - cbn [chk_rowsA] in H. apply andb_prop in H as [H1 H2].
    destruct (N.eq_dec i 0) as [->|Hi].
    + unfold nthN in Hn. cbn in Hn. injection Hn as -> ->.
      destruct k as [|c0 k']; [discriminate|]. apply andb_prop in H1 as [H1 H3].
      exists c0, k'. rewrite N.add_0_r. repeat split; [lia|apply N.eqb_eq; exact H3].
    + specialize (IH _ H2 (i - 1) k c).
      replace (n0 + 1 + (i - 1)) with (n0 + i) in IH by lia. apply IH.
      unfold nthN in *. replace (N.to_nat i) with (Datatypes.S (N.to_nat (i - 1))) in Hn by lia. exact Hn.
Qed.

Lemma check_arrays_sound S B d : check_arrays S B d = true -> ainv S B d.
Proof.
  unfold check_arrays. intros H.
  repeat (apply andb_prop in H as [H ?]).
  constructor.
  - apply N.eqb_eq. exact H.
  - lia.
  - apply list_eqb_N. assumption.
  - apply list_eqb_bool. assumption.
  - apply N.eqb_eq. assumption.
  - intros c Hc. rewrite forallb_forall in H4. apply H4. apply in_map_iff. exists (N.to_nat c).
    split; [lia|]. apply in_seq. lia.
  - apply N.eqb_eq. assumption.
  - intros n k c Hn. destruct (chk_rowsA_sound d _ 0 H2 n k c Hn) as (c0 & k' & E1 & E2 & E3).
    rewrite N.add_0_l in *. eauto.
  - apply N.eqb_eq. assumption.
  - apply N.eqb_eq. assumption.
Qed.

Theorem xbw_check_with_sound S B d : xbw_check_with S B d = true -> xinv S B d.
Proof.
  unfold xbw_check_with. intros H. apply andb_prop in H as [H1 H2].
  split; [apply check_blocks_sound|apply check_arrays_sound]; assumption.
Qed.

Theorem xbw_check_sound S d : xbw_check S d = true -> xinv S (trie_blocks S) d.
Proof. apply xbw_check_with_sound. Qed.

(* ================================================================== *)
(* 2. the flattened arrays of a block list                              *)
(* ================================================================== *)
Definition neb (B : list blk) : Prop := forall b, In b B -> snd b <> [].

Lemma labels_app B1 B2 : labels_of (B1 ++ B2) = labels_of B1 ++ labels_of B2.
Proof. unfold labels_of. apply flat_map_app. Qed.
Lemma lasts_app B1 B2 : lasts_of (B1 ++ B2) = lasts_of B1 ++ lasts_of B2.
Proof. unfold lasts_of. apply flat_map_app. Qed.
Lemma rows_app B1 B2 : rows_of (B1 ++ B2) = rows_of B1 ++ rows_of B2.
Proof. unfold rows_of. apply flat_map_app. Qed.

Lemma flags_len b : lenN (flags_of b) = lenN (snd b).
Proof.
  unfold flags_of. destruct (snd b) as [|x t]; [reflexivity|].
  rewrite lenN_app, lenN_map, lenN_cons. unfold lenN. cbn. lia.
Qed.

Lemma lasts_len B : lenN (lasts_of B) = lenN (labels_of B).
Proof.
  induction B as [|b B IH]; [reflexivity|].
  change (lasts_of (b :: B)) with (flags_of b ++ lasts_of B).
  change (labels_of (b :: B)) with (snd b ++ labels_of B).
  rewrite !lenN_app, flags_len, IH. reflexivity.
Qed.

Lemma rows_len B : lenN (rows_of B) = lenN (labels_of B).
Proof.
  induction B as [|b B IH]; [reflexivity|].
  change (rows_of (b :: B)) with (blk_rows b ++ rows_of B).
  change (labels_of (b :: B)) with (snd b ++ labels_of B).
  rewrite !lenN_app, IH. unfold blk_rows. now rewrite lenN_map.
Qed.

Lemma count_falses {T} (t : list T) : countb true (map (fun _ => false) t) = 0.
Proof. induction t as [|x t IH]; cbn [map countb]; [reflexivity|]. rewrite IH. reflexivity. Qed.

Lemma flags_count b : snd b <> [] -> countb true (flags_of b) = 1.
Proof.
  unfold flags_of. destruct (snd b) as [|x t]; [congruence|]. intros _.
  rewrite countb_app, count_falses. reflexivity.
Qed.

Lemma lasts_count B : neb B -> countb true (lasts_of B) = lenN B.
Proof.
  induction B as [|b B IH]; intros H; [reflexivity|].
  change (lasts_of (b :: B)) with (flags_of b ++ lasts_of B).
  rewrite countb_app, flags_count, IH, lenN_cons; [reflexivity| |].
  - intros x Hx. apply H. right; exact Hx.
  - apply H. left; reflexivity.
Qed.

Lemma neb_app B1 B2 : neb (B1 ++ B2) -> neb B1 /\ neb B2.
Proof. intros H. split; intros b Hb; apply H; apply in_or_app; auto. Qed.

(* inside a block only the last flag is set *)
Lemma flags_prefix b t : t < lenN (snd b) -> prefix_count true (flags_of b) t = 0.
Proof.
  unfold flags_of. destruct (snd b) as [|x l]; [unfold lenN; cbn; lia|]. intros H.
  rewrite lenN_cons in H. rewrite prefix_count_app_l by (rewrite lenN_map; lia).
  pose proof (prefix_count_le_total true (map (fun _ : N => false) l) t) as H1.
  rewrite count_falses in H1. lia.
Qed.

(* ones among the first |rows B1| + t flags, t inside the next block *)
Lemma pc_blocks B1 b B2 t : neb B1 -> t < lenN (snd b) ->
  prefix_count true (lasts_of (B1 ++ b :: B2)) (lenN (labels_of B1) + t) = lenN B1.
Proof.
  intros H Ht. rewrite lasts_app, <- lasts_len, prefix_count_app_r, lasts_count by exact H.
  change (lasts_of (b :: B2)) with (flags_of b ++ lasts_of B2).
  rewrite prefix_count_app_l by (rewrite flags_len; lia). rewrite flags_prefix by exact Ht. lia.
Qed.

Lemma pc_blocks_end B1 B2 : neb B1 ->
  prefix_count true (lasts_of (B1 ++ B2)) (lenN (labels_of B1)) = lenN B1.
Proof.
  intros H. rewrite lasts_app, <- lasts_len.
  rewrite prefix_count_app_l by lia. rewrite prefix_count_all by lia. apply lasts_count. exact H.
Qed.

Lemma flags_sel b : snd b <> [] -> selb true (flags_of b) 1 = Some (lenN (snd b) - 1).
Proof.
  unfold flags_of. destruct (snd b) as [|x l]; [congruence|]. intros _.
  rewrite selb_app by lia. rewrite count_falses. cbn [N.ltb N.compare].
  replace (0 <? 1) with true by reflexivity. cbn [N.sub selb Bool.eqb N.eqb Pos.eqb option_map].
  rewrite lenN_map, lenN_cons. f_equal. lia.
Qed.

(* the j-th set flag closes the j-th block *)
Lemma sel_blocks B1 : forall B2, neb B1 -> B1 <> [] ->
  bv_select1 (lasts_of (B1 ++ B2)) (lenN B1) = Some (lenN (labels_of B1) - 1).
Proof.
  unfold bv_select1. induction B1 as [|b B1 IH]; intros B2 H Hne; [congruence|].
  assert (Hb : snd b <> []) by (apply H; left; reflexivity).
  assert (H' : neb B1) by (intros x Hx; apply H; right; exact Hx).
  change (lasts_of ((b :: B1) ++ B2)) with (flags_of b ++ lasts_of (B1 ++ B2)).
  change (labels_of (b :: B1)) with (snd b ++ labels_of B1).
  rewrite lenN_cons, lenN_app. rewrite selb_app by lia. rewrite flags_count by exact Hb.
  assert (Hpos : 1 <= lenN (snd b)).
  { destruct (snd b); [congruence|]. rewrite lenN_cons. lia. }
  destruct B1 as [|b1 B1'].
  - rewrite lenN_nil. replace (1 <? 1 + 0) with false by lia. rewrite N.add_0_r.
    rewrite flags_sel by exact Hb. f_equal. change (labels_of []) with (@nil N). rewrite lenN_nil. lia.
  - replace (1 <? 1 + lenN (b1 :: B1')) with true by (rewrite lenN_cons; lia).
    replace (1 + lenN (b1 :: B1') - 1) with (lenN (b1 :: B1')) by lia.
    rewrite IH by (auto; congruence). cbn [option_map]. f_equal. rewrite flags_len.
    assert (1 <= lenN (labels_of (b1 :: B1'))).
    { change (labels_of (b1 :: B1')) with (snd b1 ++ labels_of B1'). rewrite lenN_app.
      assert (snd b1 <> []) by (apply H'; left; reflexivity).
      destruct (snd b1); [congruence|]. rewrite lenN_cons. lia. }
    lia.
Qed.

(* ================================================================== *)
(* 3. counting: labels, groups, and the XBW correspondence              *)
(* ================================================================== *)
Lemma seq_bits_app c l1 l2 : seq_bits c (l1 ++ l2) = seq_bits c l1 ++ seq_bits c l2.
Proof. unfold seq_bits. apply map_app. Qed.

Lemma seq_count_app c l1 l2 : seq_count c (l1 ++ l2) = seq_count c l1 + seq_count c l2.
Proof. unfold seq_count, bv_ones. rewrite seq_bits_app. apply countb_app. Qed.

Lemma seq_count_cons c x l : seq_count c (x :: l) = (if c =? x then 1 else 0) + seq_count c l.
Proof. unfold seq_count, bv_ones, seq_bits. cbn [map countb]. destruct (c =? x); reflexivity. Qed.

Lemma seq_count_notin c l : ~ In c l -> seq_count c l = 0.
Proof.
  induction l as [|x l IH]; intros H; [reflexivity|]. rewrite seq_count_cons.
  destruct (N.eqb_spec c x) as [->|]; [exfalso; apply H; left; reflexivity|].
  rewrite IH; [reflexivity|]. intros Hin. apply H. right; exact Hin.
Qed.

Lemma asc_gt x t : asc_b (x :: t) = true -> forall y, In y t -> x < y.
Proof.
  revert x. induction t as [|z t IH]; intros x H y Hy; [destruct Hy|].
  cbn [asc_b] in H. apply andb_prop in H as [H1 H2]. destruct Hy as [<-|Hy]; [lia|].
  specialize (IH z H2 y Hy). lia.
Qed.

Lemma asc_tail x t : asc_b (x :: t) = true -> asc_b t = true.
Proof. cbn [asc_b]. destruct t; [reflexivity|]. intros H. apply andb_prop in H. tauto. Qed.

Definition okc (c : N) (b : blk) : Prop := seq_count c (snd b) = if has c b then 1 else 0.

Lemma asc_count c l : asc_b l = true -> seq_count c l = if existsb (N.eqb c) l then 1 else 0.
Proof.
  induction l as [|x l IH]; intros H; [reflexivity|].
  rewrite seq_count_cons. cbn [existsb]. destruct (N.eqb_spec c x) as [->|Hne]; cbn [orb].
  - rewrite seq_count_notin; [reflexivity|]. intros Hin. pose proof (asc_gt _ _ H x Hin). lia.
  - rewrite IH by (eapply asc_tail; eauto). reflexivity.
Qed.

Lemma cnt_labels c B : (forall b, In b B -> okc c b) -> seq_count c (labels_of B) = lenN (filter (has c) B).
Proof.
  induction B as [|b B IH]; intros H; [reflexivity|].
  change (labels_of (b :: B)) with (snd b ++ labels_of B). rewrite seq_count_app, IH by (intros; apply H; right; assumption).
  rewrite (H b (or_introl eq_refl)). cbn [filter]. destruct (has c b); rewrite ?lenN_cons; lia.
Qed.

Lemma SS_map_filter (f : blk -> bool) B : SS (map fst B) -> SS (map fst (filter f B)).
Proof.
  induction B as [|b B IH]; intros H; [constructor|]. cbn [map] in H.
  apply StronglySorted_inv in H as [H F]. cbn [filter]. destruct (f b); [|auto].
  cbn [map]. constructor; [auto|]. rewrite Forall_forall in *. intros x Hx.
  apply in_map_iff in Hx as (y & <- & Hy). apply filter_In in Hy as [Hy _]. apply F. apply in_map. exact Hy.
Qed.

Lemma filter_and {T} (f g : T -> bool) l : filter (fun x => f x && g x) l = filter g (filter f l).
Proof.
  induction l as [|a l IH]; [reflexivity|]. cbn [filter].
  destruct (f a); cbn [andb filter]; [destruct (g a)|]; rewrite IH; reflexivity.
Qed.

Lemma NR_le_total P B : NR P B <= lenN (labels_of B).
Proof.
  unfold NR, bsel. induction B as [|b B' IH]; [cbn; lia|]. cbn [filter].
  change (labels_of (b :: B')) with (snd b ++ labels_of B'). rewrite lenN_app.
  destruct (P (fst b)).
  - change (labels_of (b :: filter (fun b0 => P (fst b0)) B')) with (snd b ++ labels_of (filter (fun b0 => P (fst b0)) B')).
    rewrite lenN_app. lia.
  - lia.
Qed.

Section Blocks.
  Variables (S : list str) (B : list blk).
  Hypothesis HB : binv S B.

  Lemma B_shape : exists l1 B2, B = ([0], [0; 0]) :: ([0; 0], l1) :: B2.
  Proof. apply (bi_head _ _ HB). Qed.

  Lemma B_neb : neb B.
  Proof.
    destruct B_shape as (l1 & B2 & E). intros b Hb. rewrite E in Hb. destruct Hb as [<-|Hb]; [discriminate|].
    apply (bi_blk _ _ HB). rewrite E. exact Hb.
  Qed.

  Lemma B_in_cases b : In b B -> b = ([0], [0; 0]) \/ In b (tl B).
  Proof. destruct B_shape as (l1 & B2 & E). rewrite E. cbn [tl]. intros [<-|H]; auto. Qed.

  Lemma B_okc c b : 1 <= c -> In b B -> okc c b.
  Proof.
    intros Hc Hb. destruct (B_in_cases b Hb) as [->|Ht].
    - unfold okc, has. cbn [snd existsb]. rewrite !seq_count_cons.
      replace (c =? 0) with false by lia. reflexivity.
    - unfold okc, has. apply asc_count. apply (bi_blk _ _ HB). exact Ht.
  Qed.

  Lemma B_label_bound b c : In b B -> In c (snd b) -> c <= 255.
  Proof.
    intros Hb Hc. destruct (B_in_cases b Hb) as [->|Ht].
    - cbn in Hc. lia.
    - apply (bi_blk _ _ HB) in Ht. destruct Ht as (_ & _ & _ & H). specialize (H c Hc). lia.
  Qed.

  (* the XBW correspondence: the blocks of group c, in order, are the child blocks of the nodes labelled c, in order *)
  Lemma star c : 1 <= c <= 254 ->
    map (fun b => c :: fst b) (filter (has c) B) = map fst (filter (grp c) B).
  Proof.
    intros Hc. apply SS_ext_eq.
    - rewrite <- (map_map fst (cons c)). apply SS_map_cons, SS_map_filter, (bi_sorted _ _ HB).
    - apply SS_map_filter, (bi_sorted _ _ HB).
    - intros x. rewrite !in_map_iff. split.
      + intros (b & <- & Hb). apply filter_In in Hb as [Hb Hh]. apply has_In in Hh.
        destruct (B_in_cases b Hb) as [->|Ht]; [cbn in Hh; lia|].
        destruct (bi_down _ _ HB b c Ht Hh ltac:(lia)) as (b' & Hb' & E).
        exists b'. split; [exact E|]. apply filter_In. split; [exact Hb'|].
        unfold grp. rewrite E. apply N.eqb_refl.
      + intros (b' & <- & Hb'). apply filter_In in Hb' as [Hb' Hg].
        unfold grp in Hg. destruct (fst b') as [|x k] eqn:E; [discriminate|]. apply N.eqb_eq in Hg. subst x.
        destruct B_shape as (l1 & B2 & EB).
        assert (Ht : In b' (tl (tl B))).
        { rewrite EB in Hb' |- *. cbn [tl]. destruct Hb' as [<-|[<-|H]]; [cbn in E; injection E; lia|cbn in E; injection E; lia|exact H]. }
        destruct (bi_up _ _ HB b' Ht) as (c0 & k0 & b & E1 & Hb & E2 & Hin).
        rewrite E in E1. injection E1 as -> ->.
        exists b. split; [now rewrite E2|]. apply filter_In. split.
        * rewrite EB. right. rewrite EB in Hb. exact Hb.
        * apply has_In. exact Hin.
  Qed.

  (* lifting a cut of the keys below c *)
  Definition lift (c : N) (P : list N -> bool) (k : list N) : bool :=
    klt [c] k || (match k with x :: k' => (x =? c) && P k' | [] => false end).

  Lemma klt_lift c w k : klt (c :: w) k = lift c (klt w) k.
  Proof.
    unfold lift, klt, lex_ltb. destruct k as [|x k']; [reflexivity|]. cbn [lex_compare].
    destruct (N.compare_spec x c) as [->|H|H].
    - rewrite N.eqb_refl. destruct k'; cbn [lex_compare orb andb]; reflexivity.
    - reflexivity.
    - replace (x =? c) with false by lia. reflexivity.
  Qed.

  Lemma kle_lift c w k : kle (c :: w) k = lift c (kle w) k.
  Proof.
    unfold lift, kle, klt, lex_ltb. destruct k as [|x k']; [reflexivity|]. cbn [lex_compare is_prefix].
    destruct (N.compare_spec x c) as [->|H|H].
    - rewrite N.eqb_refl. destruct k'; cbn [lex_compare orb andb]; reflexivity.
    - reflexivity.
    - replace (x =? c) with false by lia. replace (c =? x) with false by lia. reflexivity.
  Qed.

  Lemma NB_lift c P : 1 <= c <= 254 ->
    NB (lift c P) B = NB (klt [c]) B + lenN (filter (has c) (bsel P B)).
  Proof.
    intros Hc. unfold NB, bsel.
    set (g := fun b : blk => grp c b && P (tl (fst b))).
    rewrite (filter_ext (fun b => lift c P (fst b)) (fun b => klt [c] (fst b) || g b)).
    2:{ intros b. unfold lift, g, grp. destruct (fst b) as [|x k']; [reflexivity|]. reflexivity. }
    rewrite filter_or_len.
    2:{ intros b _ H. unfold g, grp. destruct (fst b) as [|x k']; [reflexivity|].
        destruct (N.eqb_spec x c) as [->|]; [|reflexivity].
        unfold klt, lex_ltb in H. cbn [lex_compare] in H. rewrite N.compare_refl in H.
        destruct k'; discriminate. }
    apply N.add_cancel_l. unfold g. rewrite filter_and.
    transitivity (lenN (filter (fun k => P (tl k)) (map fst (filter (grp c) B)))).
    { rewrite filter_map_comm, lenN_map. reflexivity. }
    rewrite <- (star c Hc). rewrite filter_map_comm, lenN_map. cbn [tl].
    rewrite filter_comm. reflexivity.
  Qed.

  Lemma head_klt c : 1 <= c -> exists B', bsel (klt [c]) B = ([0], [0; 0]) :: B'.
  Proof.
    intros Hc. destruct B_shape as (l1 & B2 & E). rewrite E. unfold bsel. cbn [filter fst].
    replace (klt [c] [0]) with true; [eauto|]. unfold klt, lex_ltb. cbn [lex_compare].
    destruct (N.compare_spec 0 c); try lia; reflexivity.
  Qed.

  Lemma bsel_neb P : neb (bsel P B).
  Proof. intros b Hb. apply filter_In in Hb as [Hb _]. apply B_neb. exact Hb. Qed.

  (* rows before position NR P are exactly the rows of the blocks satisfying P *)
  Lemma split_P P : dclosed P -> B = bsel P B ++ bsel (fun k => negb (P k)) B.
  Proof. apply bsel_split, (bi_sorted _ _ HB). Qed.

  Lemma rank_last_P P : dclosed P -> 1 <= NR P B ->
    bv_rank1 (lasts_of B) (NR P B - 1) = NB P B.
  Proof.
    intros D H. unfold bv_rank1. replace (NR P B - 1 + 1) with (NR P B) by lia.
    rewrite (split_P P D) at 1. unfold NR, NB. apply pc_blocks_end. apply bsel_neb.
  Qed.

  Lemma sel_last_P P : dclosed P -> 1 <= NB P B ->
    bv_select1 (lasts_of B) (NB P B) = Some (NR P B - 1) /\ 1 <= NR P B.
  Proof.
    intros D H. rewrite (split_P P D) at 1. unfold NR, NB in *. split.
    - apply sel_blocks; [apply bsel_neb|]. intros E. rewrite E in H. unfold lenN in H. cbn in H. lia.
    - destruct (bsel P B) as [|b0 Bp] eqn:E; [unfold lenN in H; cbn in H; lia|].
      assert (snd b0 <> []) by (apply (bsel_neb P); rewrite E; left; reflexivity).
      change (labels_of (b0 :: Bp)) with (snd b0 ++ labels_of Bp). rewrite lenN_app.
      destruct (snd b0); [congruence|]. rewrite lenN_cons. lia.
  Qed.

  Lemma count_P c P : dclosed P -> 1 <= c -> 1 <= NR P B ->
    seq_rank c (labels_of B) (NR P B - 1) = lenN (filter (has c) (bsel P B)).
  Proof.
    intros D Hc H. unfold seq_rank, bv_rank1. replace (NR P B - 1 + 1) with (NR P B) by lia.
    rewrite (split_P P D) at 1. rewrite labels_app, seq_bits_app. unfold NR.
    replace (lenN (labels_of (bsel P B))) with (lenN (seq_bits c (labels_of (bsel P B)))) by (unfold seq_bits; apply lenN_map).
    rewrite prefix_count_app_l by lia. rewrite prefix_count_all by lia.
    apply (cnt_labels c). intros b Hb. apply B_okc; [exact Hc|]. apply filter_In in Hb. tauto.
  Qed.

End Blocks.

(* ================================================================== *)
(* 4. cuts are prefixes of the block list                               *)
(* ================================================================== *)
Lemma neb_len B : neb B -> lenN B <= lenN (labels_of B).
Proof.
  induction B as [|b B IH]; intros H; [cbn; lia|].
  change (labels_of (b :: B)) with (snd b ++ labels_of B). rewrite lenN_app, lenN_cons.
  assert (snd b <> []) by (apply H; left; reflexivity).
  assert (lenN B <= lenN (labels_of B)) by (apply IH; intros x Hx; apply H; right; exact Hx).
  destruct (snd b); [congruence|]. rewrite lenN_cons. lia.
Qed.

Lemma NB_le P B : NB P B <= lenN B.
Proof.
  unfold NB, bsel. induction B as [|b B IH]; [cbn; lia|]. cbn [filter].
  destruct (P (fst b)); rewrite ?lenN_cons; lia.
Qed.

Lemma prefix_eq_labels (B : list blk) : forall X Y R1 R2, neb B -> B = X ++ R1 -> B = Y ++ R2 ->
  lenN (labels_of X) = lenN (labels_of Y) -> X = Y.
Proof.
  induction B as [|b B IH]; intros X Y R1 R2 H E1 E2 L.
  - destruct X; [|discriminate]. destruct Y; [reflexivity|discriminate].
  - assert (Hb : snd b <> []) by (apply H; left; reflexivity).
    assert (H' : neb B) by (intros x Hx; apply H; right; exact Hx).
    assert (Hpos : 1 <= lenN (snd b)) by (destruct (snd b); [congruence|rewrite lenN_cons; lia]).
    destruct X as [|x X], Y as [|y Y]; [reflexivity| | |].
    + cbn [app] in E2. injection E2 as <- E2.
      change (labels_of (b :: Y)) with (snd b ++ labels_of Y) in L. rewrite lenN_app in L. cbn in L. lia.
    + cbn [app] in E1. injection E1 as <- E1.
      change (labels_of (b :: X)) with (snd b ++ labels_of X) in L. rewrite lenN_app in L. cbn in L. lia.
    + cbn [app] in E1, E2. injection E1 as <- E1. injection E2 as <- E2. f_equal.
      apply (IH X Y R1 R2 H' E1 E2).
      change (labels_of (b :: X)) with (snd b ++ labels_of X) in L.
      change (labels_of (b :: Y)) with (snd b ++ labels_of Y) in L. rewrite !lenN_app in L. lia.
Qed.

Lemma prefix_eq_len {T} (B : list T) : forall X Y R1 R2, B = X ++ R1 -> B = Y ++ R2 -> lenN X = lenN Y -> X = Y.
Proof.
  induction B as [|b B IH]; intros X Y R1 R2 E1 E2 L.
  - destruct X; [|discriminate]. destruct Y; [reflexivity|discriminate].
  - destruct X as [|x X], Y as [|y Y]; [reflexivity| | |]; rewrite ?lenN_cons, ?lenN_nil in L; try lia.
    cbn [app] in E1, E2. injection E1 as <- E1. injection E2 as <- E2. f_equal.
    apply (IH X Y R1 R2 E1 E2). lia.
Qed.

Lemma NR_mono P Q B : (forall k, P k = true -> Q k = true) -> NR P B <= NR Q B.
Proof.
  intros H. unfold NR, bsel. induction B as [|b B IH]; [cbn; lia|]. cbn [filter].
  destruct (P (fst b)) eqn:E.
  - rewrite (H _ E).
    change (labels_of (b :: ?X)) with (snd b ++ labels_of X). rewrite !lenN_app. lia.
  - destruct (Q (fst b)); [|exact IH].
    change (labels_of (b :: ?X)) with (snd b ++ labels_of X). rewrite !lenN_app. lia.
Qed.

Lemma prefix_not_lt w : forall k, is_prefix w k = true -> lex_ltb k w = false.
Proof.
  induction w as [|x w IH]; intros k H.
  - unfold lex_ltb. destruct k; reflexivity.
  - destruct k as [|y k]; [discriminate|]. cbn [is_prefix] in H. apply andb_prop in H as [E H].
    apply N.eqb_eq in E. subst y. unfold lex_ltb in *. rewrite lex_cons. apply IH. exact H.
Qed.

Section Cuts.
  Variables (S : list str) (B : list blk).
  Hypothesis HB : binv S B.

  Lemma cut_eq_NR P Q : dclosed P -> dclosed Q -> NR P B = NR Q B -> bsel P B = bsel Q B.
  Proof.
    intros DP DQ H. eapply (prefix_eq_labels B); [apply (B_neb S B HB)| | |exact H];
      eapply split_P; eauto.
  Qed.

  Lemma cut_eq_NB P Q : dclosed P -> dclosed Q -> NB P B = NB Q B -> bsel P B = bsel Q B.
  Proof.
    intros DP DQ H. eapply (prefix_eq_len B); [| |exact H]; eapply split_P; eauto.
  Qed.

  Lemma bsel_ext P Q : (forall k, P k = Q k) -> bsel P B = bsel Q B.
  Proof. intros H. unfold bsel. apply filter_ext. intros b. apply H. Qed.

  (* rows below the cut are the rows whose key satisfies P *)
  Lemma row_cut P i k c : dclosed P -> nthN (rows_of B) i = Some (k, c) -> (i < NR P B <-> P k = true).
  Proof.
    intros D Hn. rewrite (split_P S B HB P D), rows_app in Hn. unfold NR. rewrite <- rows_len.
    assert (Hin : forall Q, forall j, nthN (rows_of (bsel Q B)) j = Some (k, c) -> Q k = true).
    { intros Q j Hj. unfold nthN in Hj. apply nth_error_In in Hj. unfold rows_of in Hj.
      apply in_flat_map in Hj as (b & Hb & Hr). unfold blk_rows in Hr. apply in_map_iff in Hr as (c' & E & _).
      injection E as <- _. apply filter_In in Hb. tauto. }
    destruct (N.ltb_spec i (lenN (rows_of (bsel P B)))) as [Hlt|Hge].
    - rewrite nthN_app_l in Hn by exact Hlt. split; [intros _; eapply Hin; eauto|auto].
    - rewrite nthN_app_r in Hn by exact Hge. apply Hin in Hn. split; [lia|].
      intros E. rewrite E in Hn. discriminate.
  Qed.

  Lemma row_range w i k c : nthN (rows_of B) i = Some (k, c) ->
    (NR (klt w) B <= i < NR (kle w) B <-> is_prefix w k = true).
  Proof.
    intros Hn. pose proof (row_cut (klt w) i k c (klt_dclosed w) Hn) as H1.
    pose proof (row_cut (kle w) i k c (kle_dclosed w) Hn) as H2.
    unfold kle, klt in *. split.
    - intros [Ha Hb]. apply H2 in Hb. destruct (lex_ltb k w) eqn:E; [|exact Hb].
      assert (i < NR (fun k0 => lex_ltb k0 w) B) by (apply H1; reflexivity). lia.
    - intros Hp. pose proof (prefix_not_lt w k Hp) as E. split.
      + destruct (N.lt_ge_cases i (NR (fun k0 => lex_ltb k0 w) B)) as [Hlt|]; [|assumption].
        apply H1 in Hlt. congruence.
      + apply H2. rewrite Hp. apply orb_true_r.
  Qed.

  Definition Emp (w : list N) : Prop := bsel (klt w) B = bsel (kle w) B.

  Lemma Emp_step c w : 1 <= c <= 254 -> Emp w -> Emp (c :: w).
  Proof.
    intros Hc E. unfold Emp in *.
    rewrite (bsel_ext _ _ (klt_lift c w)), (bsel_ext _ _ (kle_lift c w)).
    apply cut_eq_NB.
    - intros k k' H1 H2. rewrite <- klt_lift in *. eapply klt_dclosed; eauto.
    - intros k k' H1 H2. rewrite <- kle_lift in *. eapply kle_dclosed; eauto.
    - rewrite !(NB_lift S B HB) by exact Hc. rewrite E. reflexivity.
  Qed.

  Lemma Emp_ext x : forall w, Forall (fun c => 1 <= c <= 254) x -> Emp w -> Emp (rev x ++ w).
  Proof.
    induction x as [|c x IH]; intros w Hx E; [exact E|].
    inversion Hx; subst. cbn [rev]. rewrite <- app_assoc. cbn [app]. apply IH; [assumption|].
    apply Emp_step; assumption.
  Qed.

  Lemma Emp_unused c w : 1 <= c <= 254 -> ~ In c (labels_of B) -> Emp (c :: w).
  Proof.
    intros Hc Hn. unfold Emp.
    rewrite (bsel_ext _ _ (klt_lift c w)), (bsel_ext _ _ (kle_lift c w)).
    apply cut_eq_NB.
    - intros k k' H1 H2. rewrite <- klt_lift in *. eapply klt_dclosed; eauto.
    - intros k k' H1 H2. rewrite <- kle_lift in *. eapply kle_dclosed; eauto.
    - rewrite !(NB_lift S B HB) by exact Hc.
      assert (Hf : forall P, filter (has c) (bsel P B) = []).
      { intros P. apply filter_none. intros b Hb. destruct (has c b) eqn:E; [|reflexivity].
        exfalso. apply Hn. unfold labels_of. apply in_flat_map. exists b. apply filter_In in Hb.
        split; [tauto|]. apply has_In. exact E. }
      rewrite !Hf. reflexivity.
  Qed.

  Lemma NR_lt_le w : NR (klt w) B <= NR (kle w) B.
  Proof. apply NR_mono. intros k H. unfold kle, klt in *. rewrite H. reflexivity. Qed.

  Lemma Emp_of_eq w : NR (klt w) B = NR (kle w) B -> Emp w.
  Proof. apply cut_eq_NR; [apply klt_dclosed|apply kle_dclosed]. Qed.
End Cuts.
